"""The `lexer` correspondence stream (C18): the real REGEX_GCODE_LINE / GcodeParser against the Coq scanner
(Model/Lexer.v) on every string up to a length over a 13-symbol class alphabet (digest comparison, then
case-by-case on a differing shard), plus random long lines."""
import itertools, re, sys
import common as C
sys.path.insert(0, C.REPO)
from octoprint_excluderegion.GcodeParser import GcodeParser, REGEX_GCODE_LINE

ALPHABET = [' ', 'N', 'G', 'T', 'X', '1', '0', '.', '*', ';', '\\', '\r', '\n', '@']
MASK = (1 << 48) - 1


def mix(h, x):
    return (h * 65599 + x + 7) & MASK


def enc_string(s, h):
    h = mix(h, len(s))
    for c in s:
        h = mix(h, ord(c))
    return h


def enc_ostring(o, h):
    return mix(h, 1000) if o is None else enc_string(o, mix(h, 1001))


def enc_on(o, h):
    return mix(h, 1000) if o is None else mix(mix(h, 1001), o)


def enc_case(s, h=0):
    m = REGEX_GCODE_LINE.match(s, 0)
    assert m and m.start() == 0
    h = mix(h, len(s) - m.end())
    g = m.groups()
    # groups: lead, text2, ln, gm, gmd, sub, tt, ttd, params, cks, trail, comment, eol
    h = enc_string(g[0], h)
    h = enc_string(g[1], h)
    for k in (2, 3, 4, 5, 6, 7, 8, 9):
        h = enc_ostring(g[k], h)
    h = enc_string(g[10], h)
    h = enc_ostring(g[11], h)
    h = enc_string(g[12], h)
    p = GcodeParser()
    p.parse(s)
    h = enc_ostring(p.gcode, h)
    h = enc_on(p.subCode, h)
    h = enc_on(p.lineNumber, h)
    h = enc_string(p.text, h)
    h = enc_string(p.commandString, h)
    h = enc_string(p.fullText, h)
    h = enc_string(p.stringify(), h)                      # str(parser): every part, checksum iff a line number is present
    h = enc_string(p.stringify(includeChecksum=True, includeComment=False, includeEol=False), h)
    try:
        p.validate()
        v = 0
    except ValueError as e:
        msg = str(e)
        v = 1 if msg.startswith('Line number provided') else 2 if msg.startswith('Checksum provided') else 3
    return mix(h, v)


def digest(strings):
    h = 0
    for s in strings:
        h = enc_case(s, h)
    return h


def all_strings(n):
    return (''.join(t) for t in itertools.product(ALPHABET, repeat=n))


def cstring(s):
    """Coq string literal for arbitrary ASCII (control characters through String/ascii_of_nat)"""
    if all(32 <= ord(c) < 127 for c in s):
        return '"' + s.replace('"', '""') + '"'
    out = '""'
    for c in reversed(s):
        out = '(String (Ascii.ascii_of_nat %d) %s)' % (ord(c), out)
    return out


HEADER = ('From Coq Require Import NArith String Ascii List.\nFrom ER Require Import Model.Lexer Model.LexCases.\n'
          'Import ListNotations.\nOpen Scope string_scope.\n')


def parse_N_list(out):
    m = re.search(r'=\s*\[([^\]]*)\]', out.replace('\n', ' '))
    if not m:
        return None
    body = m.group(1).strip()
    return [int(x.strip().split('%')[0]) for x in body.split(';')] if body else []


def exhaustive(maxlen):
    """compare digests for all strings of length <= maxlen.  -> (n_strings, disagreements)"""
    dis = []
    total = 0
    files = [('lex_short', HEADER + 'Eval vm_compute in [short_digest].\n')]
    for n in range(0, maxlen - 1):
        for k in range(len(ALPHABET)):
            files.append(('lex_len%d_%d' % (n + 2, k), HEADER + 'Eval vm_compute in (shard_digests_from %d %d).\n' % (n, k)))
    res = C.run_casefiles(files, timeout=1500)
    for (name, rc, out) in res:
        got = parse_N_list(out) if rc == 0 else None
        if got is None:
            dis.append(dict(kind='casefile-failed', what=out[-800:], shard=name))
            continue
        if name == 'lex_short':
            exp = [digest(list(all_strings(0)) + list(all_strings(1)))]
            total += 1 + len(ALPHABET)
            shards = [list(all_strings(0)) + list(all_strings(1))]
        else:
            n, first = name[len('lex_len'):].split('_')
            n, a = int(n) - 2, ALPHABET[int(first)]
            shards = [[a + b + t for t in all_strings(n)] for b in ALPHABET]
            exp = [digest(sh) for sh in shards]
            total += sum(len(sh) for sh in shards)
        for k, (e, g) in enumerate(zip(exp, got)):
            if e != g:
                bad = localise(shards[k])
                dis.append(dict(kind='model!=impl', stream='lexer', shard='%s/%d' % (name, k), case=bad))
        if len(exp) != len(got):
            dis.append(dict(kind='model!=impl', stream='lexer', what='shard count differs'))
    return total, dis


def localise(strings, limit=3000):
    """find the first string of a shard on which model and implementation differ"""
    strings = strings[:limit]
    v = HEADER + 'Eval vm_compute in (map case_digest [\n%s\n]).\n' % ';\n'.join(cstring(s) for s in strings)
    rc, out = C.run_casefile('lex_localise', v, timeout=900)
    got = parse_N_list(out) if rc == 0 else None
    if got is None:
        return dict(error=out[-500:])
    for s, g in zip(strings, got):
        if enc_case(s) != g:
            p = GcodeParser(); p.parse(s)
            return dict(input=repr(s), impl=dict(groups=[repr(x) for x in REGEX_GCODE_LINE.match(s).groups()], gcode=p.gcode,
                                                 commandString=p.commandString, text=p.text))
    return None


def explicit(strings, tag):
    """case-by-case comparison for arbitrary strings.  -> list of differing inputs"""
    bad = []
    per = 2000
    files = []
    for k in range(0, len(strings), per):
        chunk = strings[k:k + per]
        files.append(('%s_%d' % (tag, k // per), HEADER + 'Eval vm_compute in (map case_digest [\n%s\n]).\n' % ';\n'.join(cstring(s) for s in chunk)))
    for (name, rc, out), k in zip(C.run_casefiles(files), range(0, len(strings), per)):
        got = parse_N_list(out) if rc == 0 else None
        if got is None:
            bad.append(dict(kind='casefile-failed', what=out[-800:]))
            continue
        for s, g in zip(strings[k:k + per], got):
            if enc_case(s) != g:
                bad.append(dict(kind='model!=impl', stream='lexer', case=dict(input=repr(s))))
    return bad


WORDS = ['* 12', '*  7', 'G38.0', 'M80.0 S1', 'G1.0', 'T0.5', 'G28.00', 'N5 G1 X1 * 12', 'G1', 'G01', 'g1', 'M204', 'T0', 'T 1', 'G 28', 'G92.1', 'M117', 'N12', 'N0', 'n7', 'X1.5', 'Y-2', 'E.5', 'F3000', 'S', 'P1 T2',
         'Hello \\; world', 'a\\\\b', '\\', '*12', '*', '*1x', ';c', '; comment * 5', ' ', '  ', '\t', '@pause', '@', 'XYZ', '0', '.', '..', '1.2.3']


def numbered_line(rng):
    body = 'N%d %s' % (rng.choice([0, 1, 7, 12, 345]), rng.choice(['G1 X1 Y2', 'G28', 'M110 N0', 'G1 X28 Y20', 'M117 hi there', 'T0', 'G38.2 Z-5', 'G1  X1 ']))
    c = 0
    for b in body.encode():
        c ^= b
    k = rng.random()
    if k < 0.5:
        cs = c
    elif k < 0.8:
        cs = c ^ rng.choice([1, 2, 64])
    else:
        cs = rng.choice([0, 5, 255])
    return rng.choice(['', ' ', '   ']) + body + rng.choice(['', ' ']) + '*%d' % cs + rng.choice(['', ' ', ' ; c'])


def random_lines(rng, n):
    out = []
    for k in range(n):
        if k % 8 == 0:
            out.append(numbered_line(rng) + rng.choice(['', '\n', '\r\n']))
            continue
        parts = [rng.choice(WORDS) for _ in range(rng.randint(0, 7))]
        s = rng.choice(['', ' ', '']).join(parts) if rng.random() < 0.3 else ' '.join(parts)
        s += rng.choice(['', '\n', '\r\n', '\r', '\n\n', ' \n'])
        if rng.random() < 0.3:
            s += rng.choice(WORDS) + rng.choice(['', '\n'])
        out.append(s)
    return out
