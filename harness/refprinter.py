"""Reference printer: an independent, exact (Fraction) model of how a Marlin-style firmware
executes the dialect the properties talk about.  It is the stated assumption about the firmware,
written from the G-code semantics, not from the plugin's code.

State: native position x y z (mm), extruder coordinate e (mm, logical == native: G92 E sets it),
G92 offsets ox oy oz, positioning mode absm (XYZ) / eabs (E), unit multiplier um, cumulative
filament `fil`, its high-water mark `hw` (depth = hw - fil), firmware-retraction flag fwret."""
from fractions import Fraction as F
import reader

INCH = F(254, 10)


class Printer(object):
    def __init__(self, g90e=False):
        self.x = self.y = self.z = self.e = F(0)
        self.ox = self.oy = self.oz = F(0)
        self.absm = True
        self.eabs = True
        self.um = F(1)
        self.fil = F(0)
        self.hw = F(0)
        self.fwret = False
        self.fwdepth = 0
        self.g90e = g90e
        self.homed = False
        self.feed = None

    def copy(self):
        p = Printer(self.g90e)
        p.__dict__.update(self.__dict__)
        return p

    @property
    def depth(self):
        return self.hw - self.fil

    def logical(self, axis):
        return (getattr(self, axis) - getattr(self, 'o' + axis)) / self.um

    def target(self, axis, v):
        if self.absm:
            return v * self.um + getattr(self, 'o' + axis)
        return getattr(self, axis) + v * self.um

    def push(self, e_new):
        d = e_new - self.e
        self.e = e_new
        self.fil += d
        if self.fil > self.hw:
            self.hw = self.fil
        return d

    def execute(self, line):
        """Execute one command line.  Returns a dict describing the physical effect."""
        eff = dict(code=None, dx=F(0), dy=F(0), dz=F(0), dfil=F(0), moved_xy=False)
        c = reader.read(line)
        if c is None:
            return eff
        eff['code'] = c.code
        g = c.code
        if g in ('G0', 'G1', 'G2', 'G3'):
            x0, y0, z0 = self.x, self.y, self.z
            for ax in 'xyz':
                v = c.get(ax.upper())
                if v is not None:
                    setattr(self, ax, self.target(ax, v))
            ev = c.get('E')
            if ev is not None:
                eff['dfil'] = self.push(ev * self.um if self.eabs else self.e + ev * self.um)
            fv = c.get('F')
            if fv is not None:
                self.feed = fv * self.um
            eff['dx'], eff['dy'], eff['dz'] = self.x - x0, self.y - y0, self.z - z0
            eff['moved_xy'] = (self.x != x0 or self.y != y0)
        elif g == 'G92':
            for ax in 'xyz':
                v = c.get(ax.upper())
                if v is not None:
                    setattr(self, 'o' + ax, getattr(self, ax) - v * self.um)
            ev = c.get('E')
            if ev is not None:
                self.e = ev * self.um
        elif g == 'G28':
            axes = [ax for ax in 'xyz' if c.has(ax.upper())] or list('xyz')
            for ax in axes:
                eff['d' + ax] = -getattr(self, ax)
                setattr(self, ax, F(0))
                setattr(self, 'o' + ax, F(0))
            eff['moved_xy'] = eff['dx'] != 0 or eff['dy'] != 0
            self.homed = True
        elif g == 'G90':
            self.absm = True
            if self.g90e:
                self.eabs = True
        elif g == 'G91':
            self.absm = False
            if self.g90e:
                self.eabs = False
        elif g == 'G20':
            self.um = INCH
        elif g == 'G21':
            self.um = F(1)
        elif g == 'G10' and not (c.has('P') or c.has('L')):
            if not self.fwret:
                self.fwret = True
            self.fwdepth += 1
            eff['fw'] = 'retract'
        elif g == 'G11':
            self.fwret = False
            self.fwdepth -= 1
            eff['fw'] = 'recover'
        return eff


def run(lines, g90e=False):
    p = Printer(g90e)
    for l in lines:
        p.execute(l)
    return p
