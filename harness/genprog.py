"""Generator of slicer-shaped G-code programs (one PRNG state), with region sets placed on the
path and region additions / @-commands / deferred codes interleaved.  Every destination (and arc
sample) is kept >= MARGIN away from every region border, judged on the reference printer."""
import math
from fractions import Fraction as F
import refprinter, arcs, reader

MARGIN = F(1, 10000)

EXT_MODES = ['exclude', 'first', 'last', 'merge']
DEFAULT_EXT = {'G4': 'exclude', 'M204': 'merge', 'M205': 'merge', 'M117': 'last', 'M73': 'merge'}


def fmt(v, nd=3, keep=False):
    s = '%.*f' % (nd, float(v))
    if not keep and '.' in s:
        s = s.rstrip('0').rstrip('.')
    if s in ('-0', '-0.0'):
        s = '0'
    return s


def region_dist(r, x, y):
    """signed-ish distance of a native point to the border of region r (exact or float), >=0 outside"""
    if r[0] == 'rect':
        dx = max(r[2] - x, x - r[4], 0)
        dy = max(r[3] - y, y - r[5], 0)
        if dx == 0 and dy == 0:   # inside: distance to nearest edge
            return -min(x - r[2], r[4] - x, y - r[3], r[5] - y)
        return math.hypot(float(dx), float(dy))
    return math.hypot(float(x - r[2]), float(y - r[3])) - float(r[4])


def inside(r, x, y):
    if r[0] == 'rect':
        return r[2] <= x <= r[4] and r[3] <= y <= r[5]
    return r[4] >= 0 and (x - r[2]) ** 2 + (y - r[3]) ** 2 <= r[4] ** 2      # a disc of negative radius has no points


class Gen(object):
    def __init__(self, rng, style=None, rel=True, inch=True, arcs_=True, at=True, ext=True, addregions=True,
                 g92e=True, zmoves=True, g90e=None, scripts=True, junk=False, layers=None, g92xyz=False, rel_e=False, wipe=True, origin=True, spell=True, home=True):
        self.rng = rng
        self.style = style if style is not None else rng.choice(['eonly', 'eonly', 'firmware', 'none'])
        self.o = dict(rel=rel, inch=inch, arcs=arcs_, at=at, ext=ext, addregions=addregions, g92e=g92e,
                      zmoves=zmoves, scripts=scripts, junk=junk, g92xyz=g92xyz, rel_e=rel_e, wipe=wipe, origin=origin, spell=spell, home=home)
        self.g90e = rng.random() < 0.5 if g90e is None else g90e
        self.layers = layers or rng.randint(1, 3)

    # ------------------------------------------------------------------ rendering
    def emit(self, line):
        if self.o.get('spell', True) and line[:1] in 'MT' and line[1:2].isdigit() and self.rng.random() < 0.08:
            line = line[0] + '0' + line[1:]            # M0117 / T00: hosts pass the code as written
        self.events.append(('cmd', line))
        self.U.execute(line)

    def coord(self, axis, target):
        U = self.U
        nd = 5 if U.um != 1 else 3
        if U.absm:
            v = (target - getattr(U, 'o' + axis)) / U.um
        else:
            v = (target - getattr(U, axis)) / U.um
        return fmt(v, nd, keep=self.rng.random() < 0.3)

    def move(self, x=None, y=None, z=None, e=None, f=None, g=None):
        """Move to native targets (mm); e is the new logical extruder coordinate in mm."""
        rng = self.rng
        g = g or ('G1' if e is not None or rng.random() < 0.7 else 'G0')
        parts = [g]
        if x is not None:
            parts.append('X' + self.coord('x', x))
        if y is not None:
            parts.append('Y' + self.coord('y', y))
        if z is not None:
            parts.append('Z' + self.coord('z', z))
        if e is not None:
            nd = 6 if self.U.um != 1 else 5
            ev = e / self.U.um if self.U.eabs else (e - self.U.e) / self.U.um
            parts.append('E' + fmt(ev, nd))
        if f is not None:
            parts.append('F' + fmt(F(f) / self.U.um, 2 if self.U.um != 1 else 0))
        if rng.random() < 0.1 and len(parts) > 2:
            w = parts[1:]
            rng.shuffle(w)
            parts = [g] + w
        if self.o.get('spell', True) and rng.random() < 0.2:
            parts = [g if rng.random() < 0.7 else g[0] + '0' + g[1:]] + [self.respell(w) for w in parts[1:]]
            if rng.random() < 0.25:
                self.emit(''.join(parts))       # "G1X5Y5": no blanks at all
                return
        self.emit(' '.join(parts))

    def respell(self, w):
        """another legal RS274 spelling of one letter/number word: no leading zero, explicit plus, lower-case letter, blank
        after the letter, trailing point"""
        rng = self.rng
        l, t = w[0], w[1:]
        k = rng.random()
        if (t.startswith('0.') or t.startswith('-0.')) and len(t) > 2 + t.startswith('-') and rng.random() < 0.6:
            t = t.replace('0.', '.', 1)
        elif k < 0.45 and t and t[0].isdigit():
            t = '+' + t
        elif k < 0.6:
            l = l.lower()
        elif k < 0.7:
            t = ' ' + t
        elif k < 0.8 and '.' not in t and t and t[-1].isdigit():
            t = t + '.'
        return l + t

    # ------------------------------------------------------------------ building blocks
    def retract(self):
        if self.retracted or self.style == 'none':
            return
        if self.style == 'firmware':
            self.emit(self.rng.choice(['G10', 'G10', 'G10 S1']))
        else:
            self.move(e=self.U.e - self.alen, f=self.rng.choice([2400, 1800, None]))
        self.retracted = True

    def recover(self):
        if not self.retracted:
            return
        if self.style == 'firmware':
            self.emit(self.rng.choice(['G11', 'G11', 'G11 S1']))
        else:
            self.move(e=self.U.e + self.alen, f=self.rng.choice([2400, None]))
        self.retracted = False

    def sprinkle(self):
        """things a slicer or user interleaves with motion"""
        rng, o = self.rng, self.o
        r = rng.random()
        if r < 0.10 and o['ext']:
            self.emit(rng.choice(['M204 S%d' % rng.randint(500, 3000), 'M204 P%d T%d' % (rng.randint(500, 2000), rng.randint(500, 2000)),
                                  'M205 X%d Y%d' % (rng.randint(5, 20), rng.randint(5, 20)), 'M205 X%d' % rng.randint(1, 9),
                                  'M117 Layer %d' % rng.randint(1, 99), 'M73 P%d' % rng.randint(0, 100), 'M73 P%d R%d' % (rng.randint(0, 100), rng.randint(0, 300)),
                                  'G4 P%d' % rng.randint(1, 500), 'G4', 'M204', 'M73', 'M205', 'M204 S0', 'M205 X0 Y0', 'M73 P0 R0', 'M73 P0', 'M106 S0', 'M205 X0', 'G4 P0', 'M204 S', 'M73 P5 R', 'M117 Hello World 5'] + list(self.extra_ext_cmds)))
        elif r < 0.16:
            self.emit(rng.choice(['M106 S%d' % rng.randint(0, 255), 'M107', 'M140 S60', 'T0', 'M82', 'M400', 'G4 S0', 'M105', 'G29.1']))
        elif r < 0.19 and o['at']:
            self.events.append(('at', rng.choice(['@ExcludeRegion off', '@ExcludeRegion on', '@ExcludeRegion disable', '@ExcludeRegion enable',
                                                 '@ExcludeRegion onward', '@pause', '@ExcludeRegion', '@ExcludeRegion  on now', '@ExcludeRegion OFF', '@ExcludeRegion Disable',
                                                 '@ExcludeRegion On', '@excluderegion off', '@ExcludeRegion off ', '@ExcludeRegion ENABLE'])))
        elif r < 0.21 and o['g92e'] and not self.retracted:
            self.emit('G92 E0')
        elif r < 0.23 and o['inch'] and not self.retracted:
            self.emit('G20' if self.U.um == 1 else 'G21')
        elif r < 0.26 and o['rel'] and (o['rel_e'] or not self.g90e):
            self.emit('G91' if self.U.absm else 'G90')
        elif r < 0.28 and o['addregions']:
            self.events.append(('add', None))     # placeholder, placed later
        elif r < 0.30 and o['junk']:
            self.emit(rng.choice(['G1', 'G1 F1200', 'G0 X', 'G1 X Y', 'G92', 'G28 X', 'G1 E', 'M206 X1', 'M206 X0 Y0', 'M206 X2 Y-1', 'M206 Z0.5', 'G10 P1 S200', 'G10 L2 X0']))
        elif r < 0.315 and o.get('home', True) and not self.retracted:
            # homing in mid-print (after a unit / mode switch it must keep units and modes); the tool must not be inside a region
            self.home_points.append((self.U.x, self.U.y))
            self.emit(rng.choice(['G28', 'G28 X Y', 'G28 X', 'G28 Y', 'G28 X0 Y0', 'G28 Z']))
            self.home_points.append((self.U.x, self.U.y))
        elif r < 0.325 and o['g92xyz'] and not self.retracted:
            self.emit('G92 X%s Y%s' % (fmt(F(rng.randint(0, 50))), fmt(F(rng.randint(0, 50)))))

    def extrude_to(self, x, y, z=None):
        d = math.hypot(float(x - self.U.x), float(y - self.U.y))
        de = F(round(d * 0.04, 5)).limit_denominator(100000) if d > 0 else F(0)
        de = F('%.5f' % float(de))
        self.move(x=x, y=y, z=z, e=self.U.e + de, f=self.rng.choice([None, None, 1200, 1800]))

    def arc(self, cx, cy, rad):
        """an extruding arc around (cx,cy) starting from the current point (absolute mode only)"""
        rng, U = self.rng, self.U
        if not U.absm or not self.o['arcs']:
            return
        a0 = math.atan2(float(U.y - cy), float(U.x - cx))
        sweep = rng.choice([0.5, 1.0, 1.5, 2.5, 3.14159, 4.0]) * rng.choice([1, -1])
        r0 = math.hypot(float(U.x - cx), float(U.y - cy))
        if r0 < 0.5:
            return
        ex = F('%.3f' % (float(cx) + r0 * math.cos(a0 + sweep)))
        ey = F('%.3f' % (float(cy) + r0 * math.sin(a0 + sweep)))
        nd = 5 if U.um != 1 else 3
        code = 'G3' if sweep > 0 else 'G2'
        if self.o.get('spell', True) and rng.random() < 0.15:
            code = code[0] + rng.choice(['0', '00']) + code[1:]          # G02 / G003: hosts pass the code as written
        parts = [code, 'X' + self.coord('x', ex), 'Y' + self.coord('y', ey)]
        if rng.random() < 0.75:
            parts += ['I' + fmt((cx - U.x) / U.um, nd), 'J' + fmt((cy - U.y) / U.um, nd)]
        else:
            parts += ['R' + fmt((F('%.3f' % r0) + F(1, 100)) / U.um * rng.choice([1, 1, -1]), nd)]
        de = F('%.5f' % (abs(sweep) * r0 * 0.04))
        if not self.retracted:
            parts.append('E' + fmt((self.U.e + de) / U.um, 6 if U.um != 1 else 5))
        self.emit(' '.join(parts))

    def island(self, cx, cy, z):
        rng = self.rng
        n = rng.randint(3, 7)
        rad = F(rng.randint(2, 9))
        pts = []
        for k in range(n + 1):
            a = 2 * math.pi * k / n
            pts.append((F('%.3f' % (float(cx) + float(rad) * math.cos(a))), F('%.3f' % (float(cy) + float(rad) * math.sin(a)))))
        # travel there
        if self.o['wipe'] and self.style == 'eonly' and not self.retracted and rng.random() < 0.2:
            # slicer wipe: the retraction is carried by a move
            self.move(x=self.U.x + F(rng.randint(-2000, 2000), 1000), y=self.U.y + F(rng.randint(-2000, 2000), 1000), e=self.U.e - self.alen)
            self.retracted = True
        carry = self.o['wipe'] and self.style == 'eonly' and not self.retracted and rng.random() < 0.12
        if not carry:
            self.retract()
        if self.o['origin'] and rng.random() < 0.12:
            # park / wipe at the bed origin: coordinates that are exactly 0
            k = rng.random()
            if k < 0.4:
                self.move(x=F(0), y=F(0), g='G0')
            elif k < 0.7:
                self.move(x=F(0))
            else:
                self.move(y=F(0))
        hop = self.o['zmoves'] and rng.random() < 0.3
        if hop:
            self.move(z=z + F(4, 10), f=3000)
        if carry and not self.retracted:
            # "retract while travelling": the travel into the next island carries the retraction
            self.move(x=pts[0][0], y=pts[0][1], e=self.U.e - self.alen, f=rng.choice([6000, None]))
            self.retracted = True
        else:
            self.move(x=pts[0][0], y=pts[0][1], f=rng.choice([6000, 7200, None]), g=rng.choice(['G0', 'G1']))
        if hop:
            self.move(z=z)
        self.recover()
        for (x, y) in pts[1:]:
            self.sprinkle()
            if self.retracted:
                self.recover()
            if rng.random() < 0.12:
                self.arc(cx, cy, rad)
            elif rng.random() < 0.1:
                self.move(x=x, f=None) if rng.random() < 0.5 else self.move(y=y)
            else:
                self.extrude_to(x, y, z=(z if (self.o['zmoves'] and rng.random() < 0.05) else None))
        # infill
        for k in range(rng.randint(0, 3)):
            x = cx + F(rng.randint(-3000, 3000), 1000)
            y = cy + F(rng.randint(-3000, 3000), 1000)
            self.extrude_to(x, y)
            if rng.random() < 0.3:
                self.retract(); self.move(x=x + F(1, 2), y=y + F(1, 2)); self.recover()

    # ------------------------------------------------------------------ program
    def program(self):
        rng = self.rng
        self.events = []
        self.U = refprinter.Printer(self.g90e)
        self.retracted = False
        self.alen = F(rng.choice(['0.8', '1', '2.5', '4.5', '0.04']))
        self.extra_ext_cmds = []
        self.home_points = []
        ext = dict(DEFAULT_EXT)
        if self.o['ext'] and rng.random() < 0.6:
            for code in rng.sample(['M204', 'M205', 'M117', 'M73', 'G4', 'M106', 'M900', 'M220'], rng.randint(1, 5)):
                ext[code] = rng.choice(EXT_MODES)
            self.extra_ext_cmds = ['M900 K0.%d' % rng.randint(1, 9), 'M220 S%d' % rng.randint(50, 150), 'M900 K0.2 L5', 'M220 B']
        enter = exit_ = None
        if self.o['scripts'] and rng.random() < 0.5:
            enter = rng.choice([None, ['M117 Excluding'], ['M106 S0', 'M117 skip']])
            exit_ = rng.choice([None, ['M117 Printing'], ['M106 S255', 'G4 P1']])
        self.emit('G28')
        for l in rng.sample(['G21', 'G90', 'M82', 'M107'], rng.randint(0, 4)):
            self.emit(l)
        self.emit('G92 E0')
        self.move(z=F(3, 10), f=3000)
        centres = [(F(rng.randint(20, 180)), F(rng.randint(20, 180))) for _ in range(rng.randint(2, 5))]
        for layer in range(self.layers):
            z = F(3, 10) + F(2, 10) * layer
            if layer:
                self.move(z=z, f=rng.choice([3000, None]))
            for (cx, cy) in centres:
                self.island(cx, cy, z)
        self.recover()
        if rng.random() < 0.5:
            self.retract()
        self.emit('M107')
        events = self.events
        # ---- regions: over islands and at random, off the 0.001 grid, then margin-checked
        cands = []
        for (cx, cy) in centres:
            if rng.random() < 0.6:
                cands.append(self.rand_region(cx, cy))
        for _ in range(rng.randint(0, 2)):
            cands.append(self.rand_region(F(rng.randint(10, 190)), F(rng.randint(10, 190))))
        pts = self.tested_points(events)
        regions = [r for r in cands if all(abs(region_dist(r, x, y)) >= float(MARGIN) * 5 for (x, y) in pts)
                   and not any(inside(r, x, y) for (x, y) in self.home_points)]
        for k, r in enumerate(regions):
            regions[k] = (r[0], 'r%d' % k) + r[2:]
        # distribute: some initial, some added mid-print
        initial, later = [], []
        for r in regions:
            (later if (self.o['addregions'] and rng.random() < 0.3) else initial).append(r)
        out = []
        for ev in events:
            if ev[0] == 'add':
                if later:
                    out.append(('add', later.pop()))
                elif initial and rng.random() < 0.2:
                    out.append(('add', rng.choice(initial)))     # duplicate id: rejected
            else:
                out.append(ev)
        initial += later
        return dict(g90e=self.g90e, enter=enter, exit=exit_, ext=ext, regions=initial, events=out,
                    style=self.style, alen=str(self.alen))

    def rand_region(self, cx, cy):
        rng = self.rng
        off = F(1, 2000)
        if rng.random() < 0.6:
            w, h = F(rng.randint(3, 14)), F(rng.randint(3, 14))
            return ('rect', '', cx - w + off, cy - h + off, cx + w + off, cy + h + off)
        if rng.random() < 0.12:
            return ('circ', '', cx + off, cy - off, -F(rng.randint(3, 13)) - off)     # negative radius: the empty disc
        return ('circ', '', cx + off, cy - off, F(rng.randint(3, 13)) + off)

    def tested_points(self, events):
        """native points the filter will test (move destinations and arc samples), via the reference printer"""
        U = refprinter.Printer(self.g90e)
        pts = []
        for ev in events:
            if ev[0] != 'cmd':
                continue
            c = reader.read(ev[1])
            if c is not None and c.code in ('G2', 'G3') and U.absm:
                lx, ly = float(U.logical('x')), float(U.logical('y'))
                ex = float(c.get('X')) if c.get('X') is not None else lx
                ey = float(c.get('Y')) if c.get('Y') is not None else ly
                cw = c.code == 'G2'
                if c.get('R') is not None:
                    i, j = arcs.center_from_radius(lx, ly, ex, ey, float(c.get('R')), cw)
                else:
                    i, j = float(c.get('I') or 0), float(c.get('J') or 0)
                if i or j:
                    for (px, py) in arcs.plan(lx, ly, ex, ey, i, j, cw):
                        pts.append((px * float(U.um) + float(U.ox), py * float(U.um) + float(U.oy)))
            U.execute(ev[1])
            if c is not None and c.code in ('G0', 'G1', 'G2', 'G3'):
                pts.append((U.x, U.y))
        return pts
