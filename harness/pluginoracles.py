"""Model-independent oracles for the plugin-level properties C10-C13, C15: the real plugin is driven
through a history and compared with small reference readings written from the property statements."""
import copy, json
from fractions import Fraction as F
import implplugin as IP
import pluginstream as PS
from octoprint.util.comm import gcode_and_subcode_for_cmd


COUNTS = {}        # how often each designed check was actually reached (reported in the evidence)


def exact_in(d, x, y):
    if d['type'] == 'RectangularRegion':
        return F(repr(d['x1'])) <= x <= F(repr(d['x2'])) and F(repr(d['y1'])) <= y <= F(repr(d['y2']))
    r = F(repr(d['r']))
    return r >= 0 and (x - F(repr(d['cx']))) ** 2 + (y - F(repr(d['cy']))) ** 2 <= r * r


def sample_points(d):
    """exact points of a region: corners/centre/border points (rational parametrisation of the circle)"""
    pts = []
    if d['type'] == 'RectangularRegion':
        xs = [F(repr(d['x1'])), F(repr(d['x2'])), (F(repr(d['x1'])) + F(repr(d['x2']))) / 2]
        ys = [F(repr(d['y1'])), F(repr(d['y2'])), (F(repr(d['y1'])) + F(repr(d['y2']))) / 2]
        pts = [(x, y) for x in xs for y in ys]
    else:
        cx, cy, r = F(repr(d['cx'])), F(repr(d['cy'])), F(repr(d['r']))
        for t in [F(0), F(1), F(-1), F(1, 2), F(-1, 3), F(2), F(-5, 2), F(7, 3), F(3, 4), F(-4, 3)]:
            c, s = (1 - t * t) / (1 + t * t), 2 * t / (1 + t * t)
            pts.append((cx + r * c, cy + r * s))
        pts += [(cx - r, cy), (cx, cy)]
    return pts


def fail(what, k, hist, sig, **kw):
    d = dict(what=what, signature=sig, step=k,
             case=dict(settings=hist['settings'], events=[list(map(lambda v: v if isinstance(v, (str, bool, int, float, dict, type(None))) else str(v), e)) for e in hist['events'][:k + 1]]))
    d.update(kw)
    return d


def drive(p, ev, st):
    """apply one history event to plugin p; returns (kind, response, messages)"""
    k = ev[0]
    r = None
    if k == 'event':
        p.on_event(IP.EVENTS[ev[1]], {})
    elif k == 'settings':
        IP.set_settings(p, PS.Run.settings_dict(ev[1]))
        p.on_event(IP.EVENTS['SETTINGS_UPDATED'], {})
    elif k == 'cmd':
        gcode, sub = gcode_and_subcode_for_cmd(ev[1])
        r = p.handleGcodeQueuing(IP.Comm(), 'queuing', ev[1], None, gcode, subcode=sub)
    elif k == 'at':
        parts = ev[1].split(None, 1)
        comm = IP.Comm(ev[2] if len(ev) > 2 else False)
        p.handleAtCommandQueuing(comm, 'queuing', parts[0][1:], parts[1] if len(parts) > 1 else '')
        r = list(comm.sent)
    elif k == 'script':
        r = p.handleScriptHook(IP.Comm(), ev[1], ev[2])
    elif k == 'api':
        r = IP.api(p, ev[1], ev[2], anonymous=ev[3])
    elif k == 'get':
        r = IP.api_get(p)['excluded_regions']
    msgs = p._plugin_manager.messages
    p._plugin_manager.messages = []
    return r, msgs


def state_fingerprint(p):
    s = p.state
    return json.dumps(dict(pos=s.position.toDict(), feed=s.feedRate, frm=s.feedRateUnitMultiplier, en=s._exclusionEnabled,
                           exc=s.excluding, ret=(None if s.lastRetraction is None else s.lastRetraction.toDict()),
                           pend=[(k, (dict(v) if hasattr(v, 'items') else v)) for k, v in s.pendingCommands.items()],
                           n=s.numCommands), sort_keys=True, default=str)


def run_history(hist, checks):
    """-> failures.  checks subset of {'C06','C10','C11','C12','C13','C14','C15'}"""
    fails = []
    st = dict(hist['settings'])
    p = IP.new_plugin(**PS.Run.settings_dict(st))
    p._plugin_manager.messages = []
    active = False                 # reference lifecycle
    regs = []                      # reference registry: list of dicts as the API would report them
    refpos = bool(hist.get('refpos')) and ('C15' in checks or 'C03' in checks)
    ref_on = True                  # reference reading of the @-command action table of the settings in force: is exclusion switched on?
    if refpos:
        # reference printers: U is fed the file's own commands, P what the plugin lets through (and what the hooks contribute)
        import refprinter, reader, oracles as O
        U, P = refprinter.Printer(bool(st['g90e'])), refprinter.Printer(bool(st['g90e']))
        ref_enabled, ref_excluding = True, False      # reference reading of "an episode is open", from the file's own positions
    for k, ev in enumerate(hist['events']):
        before_regs = IP.api_get(p)['excluded_regions']
        before_fp = state_fingerprint(p)
        excl_before = p.state.excluding
        try:
            r, msgs = drive(p, ev, st)
        except Exception as e:
            fails.append(fail('plugin raised %s: %s' % (type(e).__name__, e), k, hist, 'plugin:exception'))
            break
        after_regs = IP.api_get(p)['excluded_regions']
        kind = ev[0]
        if kind == 'settings':
            st = dict(ev[1])
        if 'C14' in checks:
            if kind == 'event' and ev[1] == 'PRINT_STARTED':
                ref_on = True
            if kind == 'at' and active and not (ev[2] if len(ev) > 2 else False):
                parts_ = ev[1].split(None, 1)
                acts_ = PS.matched_actions(st, parts_[0][1:], parts_[1] if len(parts_) > 1 else '')
                for a_ in acts_:
                    ref_on = (a_ == 'AtEnable')
                if bool(p.state.isExclusionEnabled()) != ref_on:
                    fails.append(fail('after %r (actions that apply by the settings: %r) exclusion should be %s, the plugin has it %s'
                                      % (ev[1], acts_, 'on' if ref_on else 'off', 'on' if p.state.isExclusionEnabled() else 'off'), k, hist, 'C14:action-table'))
                    ref_on = bool(p.state.isExclusionEnabled())
                if not ref_on and p.state.excluding:
                    fails.append(fail('after %r exclusion is off but an episode is still open' % (ev[1],), k, hist, 'C14:episode-open'))
            if kind == 'cmd' and active and not ref_on and (p.state.excluding or r == (None,) or r == [None]):
                # (an owed recovery may still be made up in front of the first extruding move; nothing is dropped and no episode opens)
                fails.append(fail('exclusion is off, yet %r was answered with %r (episode open: %s)' % (ev[1], r, p.state.excluding), k, hist, 'C14:not-verbatim'))
        if refpos and kind == 'event' and ev[1] == 'PRINT_STARTED':
            ref_enabled, ref_excluding = True, False
        if refpos and kind == 'at' and active and not (ev[2] if len(ev) > 2 else False):
            parts_ = ev[1].split(None, 1)
            for a_ in PS.matched_actions(st, parts_[0][1:], parts_[1] if len(parts_) > 1 else ''):
                if a_ == 'AtEnable':
                    ref_enabled = True
                else:
                    ref_enabled, ref_excluding = False, False
        if refpos and kind in ('cmd', 'at'):
            if kind == 'cmd':
                U.execute(ev[1])
                c_ = reader.read(ev[1])
                if active and c_ is not None and c_.code in ('G0', 'G1') and any(c_.get(l) is not None for l in 'XYZ'):
                    # a move ends inside a region of the list in force: an episode is (or stays) open; outside every region: closed
                    ref_excluding = ref_enabled and any(exact_in(d, U.x, U.y) for d in before_regs)
                outs_ = [ev[1]] if r is None else [c for c in (r if isinstance(r, (list, tuple)) else [r]) if isinstance(c, str)]
            else:
                outs_ = [c for c in r if isinstance(c, str)]
            for c in outs_:
                P.execute(c)
            if 'C03' in checks and kind == 'cmd' and active and excl_before and not p.state.excluding:
                # a move out of the region closed the episode: the printer stands where the file assumes it to be
                COUNTS['C03:resync'] = COUNTS.get('C03:resync', 0) + 1
                if not (O.close(P.x, U.x) and O.close(P.y, U.y) and O.close(P.z, U.z) and O.close(P.e, U.e)):
                    fails.append(fail('after %r closed the episode the printer stands at (%s, %s, %s, E%s) but the file assumes (%s, %s, %s, E%s)'
                                      % (ev[1], float(P.x), float(P.y), float(P.z), float(P.e), float(U.x), float(U.y), float(U.z), float(U.e)), k, hist, 'C03:plugin-resync'))
            if 'C03' in checks and kind == 'cmd' and active and not excl_before and ref_enabled and r is not None \
                    and c_ is not None and c_.code in ('G0', 'G1') and (c_.get('X') is not None or c_.get('Y') is not None) and not any(exact_in(d, U.x, U.y) for d in before_regs):
                # no episode before or after, the file's move ends outside every region: it reaches the printer (tracking kept while exclusion was off)
                if not any(isinstance(c, str) and c == ev[1] for c in (r if isinstance(r, (list, tuple)) else [])):
                    fails.append(fail('%r ends outside every region at (%s, %s) and no episode is open, yet it was answered with %r' % (ev[1], float(U.x), float(U.y), r), k, hist, 'C03:plugin-tracking'))
        # ---------------- reference lifecycle (C11)
        was_active = active
        if kind == 'event':
            if ev[1] == 'PRINT_STARTED':
                active = True
            elif ev[1] in PS.END_EVENTS:
                active = False
        if 'C11' in checks:
            if bool(p.isActivePrintJob) != active:
                fails.append(fail('active flag is %s, lifecycle says %s' % (p.isActivePrintJob, active), k, hist, 'C11:active'))
            if not was_active and kind in ('cmd', 'at', 'script'):
                if kind == 'cmd' and r is not None:
                    fails.append(fail('gcode hook altered a command while no print is active: %r' % (r,), k, hist, 'C11:inert'))
                if kind == 'at' and r:
                    fails.append(fail('@-command hook sent commands while no print is active', k, hist, 'C11:inert'))
                if kind == 'script' and r is not None:
                    fails.append(fail('script hook contributed while no print is active', k, hist, 'C11:inert'))
                if state_fingerprint(p) != before_fp:
                    fails.append(fail('hook changed / tracked state while no print is active', k, hist, 'C11:inert'))
            if kind == 'event':
                if ev[1] == 'FILE_SELECTED' and after_regs:
                    fails.append(fail('file selection did not remove the regions', k, hist, 'C11:regions'))
                if ev[1] in PS.END_EVENTS:
                    want = [] if st['clear'] else before_regs
                    if after_regs != want:
                        fails.append(fail('end of print: regions %s, expected %s' % (len(after_regs), len(want)), k, hist, 'C11:regions'))
                if ev[1] not in PS.END_EVENTS and ev[1] != 'FILE_SELECTED' and after_regs != before_regs:
                    fails.append(fail('event %s changed the regions' % ev[1], k, hist, 'C11:regions'))
        # ---------------- reference registry (C13)
        if 'C13' in checks or 'C12' in checks:
            exp = list(regs)
            exp_code = None
            if kind == 'event' and ev[1] == 'FILE_SELECTED':
                exp = []
            elif kind == 'event' and ev[1] in PS.END_EVENTS and st['clear']:
                exp = []
            elif kind == 'api':
                name, data, anon = ev[1], ev[2], ev[3]
                restricted = was_active and not st['shrink']
                if anon:
                    exp_code = 403
                elif name == 'deleteExcludeRegion':
                    if restricted:
                        exp_code = 409
                    else:
                        exp = [d for d in regs if d['id'] != data['id']]
                        exp_code = 200
                elif data.get('type') not in ('RectangularRegion', 'CircularRegion'):
                    exp_code = 400
                else:
                    norm = norm_region(data)
                    if name == 'addExcludeRegion':
                        if any(d['id'] == norm['id'] for d in regs):
                            exp_code = 409
                        else:
                            exp, exp_code = regs + [norm], 200
                    else:
                        idx = [i for i, d in enumerate(regs) if d['id'] == norm['id']]
                        if not idx:
                            exp_code = 409
                        elif restricted and PS.http(r) != 200:
                            exp_code = 409        # whether the new region covers the old one is C12's business
                        else:
                            exp = list(regs)
                            exp[idx[0]] = norm
                            exp_code = 200
            if 'C13' in checks:
                if kind == 'api' and PS.http(r) != exp_code:
                    fails.append(fail('response %r, expected status %s' % (r, exp_code), k, hist, 'C13:status'))
                if after_regs != exp:
                    fails.append(fail('region list after the step differs from the list model', k, hist, 'C13:list',
                                      expected=exp, actual=after_regs))
                ids = [d['id'] for d in after_regs]
                if len(set(ids)) != len(ids):
                    fails.append(fail('duplicate region ids %r' % ids, k, hist, 'C13:ids'))
                changed = after_regs != before_regs
                if changed and not (len(msgs) == 1 and msgs[0].get('excluded_regions') == after_regs):
                    fails.append(fail('region list changed but %d notification(s) were sent (payload must equal the new list)' % len(msgs), k, hist, 'C13:notify'))
                if kind == 'api' and PS.http(r) != 200 and (after_regs != before_regs or msgs):
                    fails.append(fail('rejected request changed the list or notified', k, hist, 'C13:rejected'))
                for m in msgs:
                    if m.get('excluded_regions') != after_regs:
                        fails.append(fail('notification payload differs from the current list', k, hist, 'C13:notify'))
                if kind == 'get' and r != after_regs:
                    fails.append(fail('GET payload differs from the list', k, hist, 'C13:get'))
            regs = after_regs if True else exp
        # ---------------- C12: no excluded point stops being excluded while restricted
        if 'C12' in checks and was_active and not st['shrink'] and kind in ('api', 'cmd', 'at', 'script', 'get'):
            for d in before_regs:
                for (x, y) in sample_points(d):
                    if exact_in(d, x, y) and not any(exact_in(e, x, y) for e in after_regs):
                        fails.append(fail('point (%s,%s) of region %s was excluded before the request and is not afterwards' % (float(x), float(y), d['id']),
                                          k, hist, 'C12:shrunk'))
                        break
            if kind == 'api' and PS.http(r) != 200 and (after_regs != before_regs or state_fingerprint(p) != before_fp):
                fails.append(fail('refused request changed the state', k, hist, 'C12:refused'))
        # ---------------- C06 at the plugin layer: scripts (as configured in the settings) exactly once at episode boundaries;
        # only a move out, a disable @-command, the clean-up hook or a new print may end an episode
        if 'C06' in checks and active and was_active:
            ent, ext_ = st['enter'] or [], st['exit'] or []
            excl_after = p.state.excluding
            outs = []
            if kind in ('cmd', 'at') and isinstance(r, (list, tuple)):
                outs = [c for c in r if isinstance(c, str)]
            elif kind == 'script' and isinstance(r, tuple) and isinstance(r[0], list):
                outs = list(r[0])
            if kind == 'cmd' and not excl_before and excl_after:
                if [c for c in outs if c in ent] != ent:
                    fails.append(fail('episode opened by %r without exactly the enter script %r: %r' % (ev[1], ent, outs), k, hist, 'C06:enter-script'))
            if kind in ('cmd', 'at', 'script') and excl_before and not excl_after and ext_:
                if [c for c in outs if c in ext_] != ext_:
                    fails.append(fail('episode closed by %r without exactly the exit script %r: %r' % (ev[1], ext_, outs), k, hist, 'C06:exit-script'))
            if excl_before and not excl_after and kind == 'script' and not (ev[1] == 'gcode' and ev[2] == 'afterPrintDone'):
                fails.append(fail('episode ended by the script hook for %r / %r (a pause, a cancel script, a resume ... is not the end of the print): %r' % (ev[1], ev[2], r), k, hist, 'C06:hook-name'))
            if excl_before and not excl_after and (kind in ('settings', 'api', 'get') or (kind == 'event' and ev[1] in PS.OTHER_EVENTS)):
                fails.append(fail('episode ended by %r: nothing is flushed, the deferred commands and the exit script are lost' % (ev,), k, hist, 'C06:lost-episode'))
        # ---------------- C15: the script hook
        if 'C15' in checks and kind == 'script':
            fire = ev[1] == 'gcode' and ev[2] == 'afterPrintDone' and was_active and excl_before
            if refpos and ev[1] == 'gcode' and ev[2] == 'afterPrintDone' and was_active:
                COUNTS['C15:episode'] = COUNTS.get('C15:episode', 0) + 1
                if ref_excluding != bool(excl_before):
                    fails.append(fail('the job ends with the file at (%s, %s), %s a region, exclusion %s: an episode should be %s, the plugin says %s'
                                      % (float(U.x), float(U.y), 'inside' if any(exact_in(d, U.x, U.y) for d in before_regs) else 'outside',
                                         'on' if ref_enabled else 'off', 'open' if ref_excluding else 'closed', 'open' if excl_before else 'closed'),
                                      k, hist, 'C15:episode'))
                ref_excluding = False
            if fire:
                ok = isinstance(r, tuple) and len(r) == 2 and r[1] is None and isinstance(r[0], list) and any(c.startswith('G92 E') for c in r[0]) \
                    and any(c.startswith('G0 ') and ' X' in c for c in r[0])
                if not ok or p.state.excluding or p.state.pendingCommands:
                    fails.append(fail('afterPrintDone with an open episode returned %r (excluding afterwards: %s)' % (r, p.state.excluding), k, hist, 'C15:fire'))
                if ok and refpos:
                    COUNTS['C15:position'] = COUNTS.get('C15:position', 0) + 1
                    zmax_ = max(P.z, U.z)          # the travel back happens at the higher of where the printer was left and where the file is
                    # the contribution leads the printer to the position the file assumes, in plain-decimal commands a firmware reads the same way
                    for c in r[0]:
                        cc_ = reader.read(c) if isinstance(c, str) else None
                        merged_ = cc_ is not None and st['ext'].get(cc_.code) == 'merge' and c not in (st['exit'] or []) and cc_.code != 'M117'      # (these histories give every deferred word a value)
                        if isinstance(c, str) and (c.startswith(('G0 ', 'G1 ', 'G92 ')) or merged_):
                            wf, why = reader.well_formed(c)
                            if not wf:
                                fails.append(fail('clean-up command %r is not well-formed plain-decimal G-code: %s' % (c, why), k, hist, 'C15:shape'))
                        if isinstance(c, str):
                            zb_ = P.z
                            eff_ = P.execute(c)
                            if eff_.get('moved_xy') and zb_ < zmax_ and not O.close(zb_, zmax_):
                                fails.append(fail('clean-up travel %r happens at Z=%s, below max(Z where the printer was left, Z of the file)=%s' % (c, float(zb_), float(zmax_)),
                                                  k, hist, 'C15:travel-height'))
                    if not (O.close(P.x, U.x) and O.close(P.y, U.y) and O.close(P.z, U.z) and O.close(P.e, U.e)):
                        fails.append(fail('after the clean-up the printer stands at (%s, %s, %s, E%s) but the file assumes (%s, %s, %s, E%s)'
                                          % (float(P.x), float(P.y), float(P.z), float(P.e), float(U.x), float(U.y), float(U.z), float(U.e)), k, hist, 'C15:position'))
                scr = st['exit'] or []
                if ok and scr and not all(c in r[0] for c in scr):
                    fails.append(fail('exit script missing from the hook contribution', k, hist, 'C15:fire'))
            else:
                if r is not None or state_fingerprint(p) != before_fp:
                    fails.append(fail('script hook contributed %r / changed state although nothing is to be cleaned up' % (r,), k, hist, 'C15:quiet'))
    return fails


def norm_region(data):
    if data['type'] == 'RectangularRegion':
        x1, x2 = sorted((float(data.get('x1', 0)), float(data.get('x2', 0))))
        y1, y2 = sorted((float(data.get('y1', 0)), float(data.get('y2', 0))))
        return dict(type='RectangularRegion', id=data['id'], x1=x1, y1=y1, x2=x2, y2=y2)
    return dict(type='CircularRegion', id=data['id'], cx=float(data.get('cx', 0)), cy=float(data.get('cy', 0)), r=float(data.get('r', 0)))


def check_C10(hist, rng):
    """after a dirty history and PRINT_STARTED, outputs equal those of a freshly constructed plugin with the
    same regions and settings"""
    fails = []
    st = dict(hist['settings'])
    p = IP.new_plugin(**PS.Run.settings_dict(st))
    for ev in hist['events']:
        drive(p, ev, st)
        if ev[0] == 'settings':
            st = dict(ev[1])
    regs = IP.api_get(p)['excluded_regions']
    outs_used = []                 # (no settings event here: the settings are unchanged, only print-started separates the two lives)
    p.on_event(IP.EVENTS['PRINT_STARTED'], {})
    prog = hist['tail']
    for line in prog:
        outs_used.append(repr(drive(p, line, st)[0]))
    q = IP.new_plugin(**PS.Run.settings_dict(st))
    for d in regs:
        IP.api(q, 'addExcludeRegion', dict(d))
    q.on_event(IP.EVENTS['PRINT_STARTED'], {})
    outs_fresh = [repr(drive(q, line, st)[0]) for line in prog]
    for k, (a, b) in enumerate(zip(outs_used, outs_fresh)):
        if a != b:
            h2 = dict(hist)
            h2['events'] = hist['events'] + [('event', 'PRINT_STARTED')] + prog[:k + 1]
            fails.append(fail('after print-started the used plugin answers %s, a fresh plugin %s' % (a[:120], b[:120]), len(h2['events']) - 1, h2, 'C10:differs'))
            break
    return fails
