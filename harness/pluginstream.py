"""The `plugin` correspondence stream: histories of OctoPrint events, hook invocations, settings
updates and API requests against the real ExcludeRegionPlugin and the Coq model (Model/Plugin.v)."""
import re
from fractions import Fraction as F
import common as C
import genprog, filterstream as FS
import implplugin as IP
from octoprint.util.comm import gcode_and_subcode_for_cmd

END_EVENTS = ['PRINT_DONE', 'PRINT_FAILED', 'PRINT_CANCELLING', 'PRINT_CANCELLED', 'ERROR']
OTHER_EVENTS = ['PRINT_PAUSED', 'PRINT_RESUMED', 'CONNECTED', 'Z_CHANGE']


DEFAULT_ATC = [('ExcludeRegion', '^\\s*(enable|on)(\\s|$)', 'enable_exclusion'), ('ExcludeRegion', '^\\s*(disable|off)(\\s|$)', 'disable_exclusion')]


def matched_actions(st, cmd, params):
    """the configured @-command actions that apply, in the order of the settings list (reference reading of the settings)"""
    out = []
    for c, pat, a in st.get('atc', DEFAULT_ATC):
        if c == cmd and (pat is None or re.match(pat, params or '')):
            out.append('AtEnable' if a == 'enable_exclusion' else 'AtDisable')
    return out


def script_text(st, which):
    """the script setting as the user typed it: raw text if the history carries one, else the canonical lines joined"""
    t = st.get(which + '_text')
    if t is not None:
        return t
    return '\n'.join(st[which]) if st[which] else None


def coq_script(st, which):
    t = script_text(st, which)
    if t is None:
        return '[]'
    from lexstream import cstring
    return '(split_script %s)' % cstring(t)        # the model splits the text itself (Model/Lexer.v)


def coq_cfg(st):
    return '(mkCfg %s %s %s %s)' % (
        C.cbool(st['g90e']), coq_script(st, 'enter'), coq_script(st, 'exit'),
        C.clist(['(%s, %s)' % (C.cstr(g), FS.MODE_COQ[m]) for g, m in sorted(st['ext'].items())]))


def region_from_dict(d):
    if d['type'] == 'RectangularRegion':
        return ('rectn', d['id'], F(repr(d['x1'])), F(repr(d['y1'])), F(repr(d['x2'])), F(repr(d['y2'])))
    return ('circ', d['id'], F(repr(d['cx'])), F(repr(d['cy'])), F(repr(d['r'])))


def coq_region_dict(d):
    """a region as the implementation reports it (already normalised)"""
    if d['type'] == 'RectangularRegion':
        return '(Rect %s %s %s %s %s)' % (C.cstr(d['id']), FS.fq(d['x1']), FS.fq(d['y1']), FS.fq(d['x2']), FS.fq(d['y2']))
    return '(Circ %s %s %s %s)' % (C.cstr(d['id']), FS.fq(d['cx']), FS.fq(d['cy']), FS.fq(d['r']))


def coq_region_req(data):
    """a region as requested through the API (the constructor normalises the corners: mk_rect)"""
    if data.get('type') == 'RectangularRegion':
        return '(Some (mk_rect %s %s %s %s %s))' % (C.cstr(data['id']), FS.fq(data.get('x1', 0)), FS.fq(data.get('y1', 0)), FS.fq(data.get('x2', 0)), FS.fq(data.get('y2', 0)))
    if data.get('type') == 'CircularRegion':
        return '(Some (Circ %s %s %s %s))' % (C.cstr(data['id']), FS.fq(data.get('cx', 0)), FS.fq(data.get('cy', 0)), FS.fq(data.get('r', 0)))
    return 'None'


def http(code):
    if code is None:
        return 200
    return code[1]


class Run(object):
    def __init__(self, hist):
        self.hist = hist
        st = hist['settings']
        self.p = IP.new_plugin(**self.settings_dict(st))
        self.p._plugin_manager.messages = []
        self.parser = IP.ER.GcodeHandlers(self.p.state, IP.LOG).gcodeParser
        self.filter = None

    @staticmethod
    def settings_dict(st):
        return dict(clearRegionsAfterPrintFinishes=st['clear'], mayShrinkRegionsWhilePrinting=st['shrink'],
                    g90InfluencesExtruder=st['g90e'],
                    enteringExcludedRegionGcode=script_text(st, 'enter'),
                    exitingExcludedRegionGcode=script_text(st, 'exit'),
                    extendedExcludeGcodes=[dict(gcode=g, mode=m, description='') for g, m in sorted(st['ext'].items())],
                    atCommandActions=[dict(command=c, parameterPattern=pat, action=a, description='') for c, pat, a in st.get('atc', DEFAULT_ATC)])

    def xstate(self):
        p = self.p
        regs = IP.api_get(p)['excluded_regions']
        return '(mkX %s %s %s)' % (C.cbool(bool(p.isActivePrintJob)), C.cbool(bool(p.state.excluding)),
                                   C.clist([coq_region_dict(d) for d in regs]))

    def notes(self):
        msgs = self.p._plugin_manager.messages
        self.p._plugin_manager.messages = []
        return C.clist([C.clist([coq_region_dict(d) for d in m['excluded_regions']]) for m in msgs]), msgs

    def run(self):
        rows = []
        p = self.p
        cur_st = self.hist['settings']
        for ev in self.hist['events']:
            k = ev[0]
            py = None
            if k == 'event':
                p.on_event(IP.EVENTS[ev[1]], {})
                cev = {'FILE_SELECTED': 'EvFileSelected', 'PRINT_STARTED': 'EvPrintStarted'}.get(ev[1])
                if cev is None:
                    cev = 'EvPrintEnd' if ev[1] in END_EVENTS else 'EvOther'
                xr = 'XNone'
            elif k == 'settings':
                st = ev[1]
                cur_st = st
                IP.set_settings(p, self.settings_dict(st))
                p.on_event(IP.EVENTS['SETTINGS_UPDATED'], {})
                cev = '(EvSettings %s %s %s)' % (coq_cfg(st), C.cbool(st['clear']), C.cbool(st['shrink']))
                xr = 'XNone'
            elif k == 'cmd':
                line = ev[1]
                gcode, sub = gcode_and_subcode_for_cmd(line)
                ir = FS.ImplRun.__new__(FS.ImplRun)
                ir.h = p.gcodeHandlers
                ir.parser = self.parser
                # model input is built exactly as in the filter stream; the real call goes through the hook
                coq_ev, coq_res, py = self.cmd_via_hook(ir, line, gcode, sub)
                cev = '(HookGcode %s %s)' % (coq_ev, C.cbool(bool(gcode)))
                xr = '(XGcode %s)' % coq_res
            elif k == 'at':
                parts = ev[1].split(None, 1)
                cmd, params = parts[0][1:], (parts[1] if len(parts) > 1 else '')
                matched = matched_actions(cur_st, cmd, params)      # from the settings in force, not from the plugin's own table
                comm = IP.Comm(ev[2] if len(ev) > 2 else False)
                p.handleAtCommandQueuing(comm, 'queuing', cmd, params)
                cev = '(HookAt %s %s)' % (C.cbool(comm.streaming), C.clist(matched))
                xr = '(XSent %s)' % C.clist([FS.coq_ecmd(t) for t in comm.sent])
                py = list(comm.sent)
            elif k == 'script':
                r = p.handleScriptHook(IP.Comm(), ev[1], ev[2])
                cev = '(HookScript %s)' % C.cbool(ev[1] == 'gcode' and ev[2] == 'afterPrintDone')
                if r is None:
                    xr = 'XNone'
                else:
                    xr = '(XScript %s)' % C.clist([FS.coq_ecmd(t) for t in r[0]])
                    if r[1] is not None:
                        xr = '(XHttp 999)'
                py = r
            elif k == 'api':
                cmdname, data, anon = ev[1], ev[2], ev[3]
                r = IP.api(p, cmdname, data, anonymous=anon)
                py = r
                if cmdname == 'deleteExcludeRegion':
                    cev = '(ApiDelete %s %s)' % (C.cbool(anon), C.cstr(data.get('id', '')))
                elif cmdname == 'addExcludeRegion':
                    cev = '(ApiAdd %s %s)' % (C.cbool(anon), coq_region_req(data))
                else:
                    cev = '(ApiUpdate %s %s)' % (C.cbool(anon), coq_region_req(data))
                xr = '(XHttp %d)' % http(r)
            elif k == 'get':
                regs = IP.api_get(p)['excluded_regions']
                cev, xr = 'ApiGet', '(XList %s)' % C.clist([coq_region_dict(d) for d in regs])
            notes, msgs = self.notes()
            rows.append(('(%s, %s, %s, %s)' % (cev, xr, notes, self.xstate()), py, msgs))
        return rows

    def cmd_via_hook(self, ir, line, gcode, sub):
        p = self.p
        # build the model's view of the command (same code as FS.ImplRun.cmd, but calling the plugin hook)
        real = ir.h.handleGcode
        result = {}

        def via_hook(cmd, g, s=None):
            result['r'] = p.handleGcodeQueuing(IP.Comm(), 'queuing', cmd, None, g, subcode=s)
            return result['r']
        if not gcode:
            r = p.handleGcodeQueuing(IP.Comm(), 'queuing', line, None, gcode, subcode=sub)
            return ('(mkCmd %s "" [] None [])' % C.cstr(line), 'RUnchanged' if r is None else '(RReplace [])', r)
        ir.h = type('H', (), {})()
        ir.h.state = p.state
        ir.h.handleGcode = via_hook
        ev, res, py = ir.cmd(line)
        ev = ev[len('(ECmd '):-1]
        return ev, res, py


def coq_case(hist, rows):
    st = hist['settings']
    return '(mkPCase %s %s %s %s)' % (coq_cfg(st), C.cbool(st['clear']), C.cbool(st['shrink']), C.clist([r[0] for r in rows]))


HEADER = ('From Coq Require Import QArith String List.\n'
          'From ER Require Import Base.Num Model.Geometry Model.Axis Model.Filter Model.Plugin Model.Cases Model.Run Model.RunPlugin Model.Lexer.\n'
          'Import ListNotations.\nOpen Scope Q_scope.\nOpen Scope string_scope.\n')


def casefile(cases, what='failing'):
    q = 'Eval vm_compute in (failing pcase_ok cases).' if what == 'failing' else 'Eval vm_compute in (map pcase_first_bad cases).'
    return HEADER + 'Definition cases : list pcase := [\n%s\n].\n%s\n' % (';\n'.join(cases), q)


def run_histories(hists, tag, per=40):
    rows_all = [Run(h).run() for h in hists]
    shards = []
    for s in range(0, len(hists), per):
        shards.append(('%s_%d' % (tag, s // per), casefile([coq_case(h, r) for h, r in zip(hists[s:s + per], rows_all[s:s + per])]), list(range(s, min(len(hists), s + per)))))
    dis = []
    for (name, rc, out), (_, _, idx) in zip(C.run_casefiles([(n, t) for n, t, _ in shards]), shards):
        bad = C.parse_nat_list(out) if rc == 0 else None
        if bad is None:
            dis.append(dict(kind='casefile-failed', what=out[-1500:], shard=name))
            continue
        for b in bad:
            dis.append(dict(kind='model!=impl', hist=hists[idx[b]], rows=rows_all[idx[b]]))
    return sum(len(r) for r in rows_all), dis, rows_all, len(shards)


def first_bad(hist, rows):
    rc, out = C.run_casefile('pdiag', casefile([coq_case(hist, rows)], 'first'))
    m = re.search(r'Some\s+(\d+)', out)
    return int(m.group(1)) if m else None


def describe(hist, rows):
    k = first_bad(hist, rows)
    d = dict(first_bad_step=k, settings=hist['settings'], events=[list(map(str, e)) for e in hist['events'][:(k + 1 if k is not None else 30)]])
    if k is not None and k < len(rows):
        d['impl_result_at_step'] = repr(rows[k][1])[:300]
        d['notifications_at_step'] = len(rows[k][2])
    return d


# ------------------------------------------------------------------------------------------ generator
def rnd_settings(rng):
    ext = dict(genprog.DEFAULT_EXT)
    if rng.random() < 0.5:
        for code in rng.sample(['M204', 'M205', 'M117', 'M73', 'G4', 'M106'], rng.randint(1, 3)):
            ext[code] = rng.choice(genprog.EXT_MODES)
    if rng.random() < 0.35:
        for code in rng.sample(sorted(ext), rng.randint(1, min(3, len(ext)))):
            del ext[code]                     # codes taken out of the table (at run time: they must stop being withheld)
    st = dict(clear=rng.random() < 0.4, shrink=rng.random() < 0.3, g90e=rng.random() < 0.3,
              enter=rng.choice([[], [], ['M117 in'], ['M106 S0', 'M117 skip'], ['@OCTOLAPSE TAKE-SNAPSHOT', 'M117 in'], ['SET_PIN PIN=fan VALUE=0']]),
              exit=rng.choice([[], [], ['M117 out'], ['M106 S255', 'G4 P1'], ['M117 out', '@fan_restore'], ['RESTORE_GCODE_STATE NAME=skip', 'M400']]), ext=ext)
    k = rng.random()
    if k < 0.25:
        st['atc'] = DEFAULT_ATC + [('Purge', None, 'disable_exclusion'), ('Resume', '^\\s*go', 'enable_exclusion')]
    elif k < 0.35:
        st['atc'] = [DEFAULT_ATC[0], ('Purge', None, 'disable_exclusion')]
    elif k < 0.4:
        st['atc'] = []
    # the settings text as a user would type it: comments, blank lines, indentation, either line ending
    for which in ('enter', 'exit'):
        if st[which] and rng.random() < 0.6:
            eol = rng.choice(['\n', '\r\n'])
            lines = []
            for l in st[which]:
                if rng.random() < 0.3:
                    lines.append(rng.choice(['; a comment', '', '   ', ';']))
                lines.append(rng.choice(['', '', '  ']) + l + rng.choice(['', '', ' ', ' ; why', '   ;x']))
            if rng.random() < 0.3:
                lines.append('')
            st[which + '_text'] = eol.join(lines)
        elif not st[which] and rng.random() < 0.2:
            st[which + '_text'] = rng.choice(['; nothing to do here\n', '\n\n', '   \r\n;x', ';'])      # a script of comments and blank lines only: no script
    if st['enter'] and rng.random() < 0.15:
        # the same script on both sides, character for character
        st['exit'] = list(st['enter'])
        if 'enter_text' in st:
            st['exit_text'] = st['enter_text']
        else:
            st.pop('exit_text', None)
    return st


def rnd_region_data(rng, rid, around=None):
    cx, cy = around if around else (rng.randint(20, 180), rng.randint(20, 180))
    off = 1.0 / 2048        # dyadic: every float operation of the containment tests is exact
    if around is None and rng.random() < 0.12:
        # regions at the bed edge / origin, of zero size: values that are exactly 0 are legal values
        return rng.choice([dict(type='RectangularRegion', id=rid, x1=0.0, y1=0.0, x2=float(rng.randint(5, 30)), y2=float(rng.randint(5, 30))),
                           dict(type='CircularRegion', id=rid, cx=0.0, cy=0.0, r=float(rng.randint(3, 9))),
                           dict(type='CircularRegion', id=rid, cx=float(cx), cy=float(cy), r=0.0),
                           dict(type='RectangularRegion', id=rid, x1=float(cx), y1=float(cy) - 5, x2=float(cx), y2=float(cy) + 5),
                           dict(type='CircularRegion', id=rid, cx=float(cx), cy=0.0, r=4.0)])
    if rng.random() < 0.6:
        w, h = rng.choice([(3, 4), (6, 8), (5, 12), (9, 12), (8, 6), (rng.randint(3, 14), rng.randint(3, 14))])
        d = dict(type='RectangularRegion', id=rid, x1=cx - w + off, y1=cy - h + off, x2=cx + w + off, y2=cy + h + off)
        if rng.random() < 0.3:
            d['x1'], d['x2'] = d['x2'], d['x1']
        return d
    return dict(type='CircularRegion', id=rid, cx=cx + off, cy=cy - off, r=rng.randint(3, 13) + off)


def grow(rng, d, exact=True):
    """an update request for an existing region: larger, smaller, touching, or of the other type"""
    k = rng.random()
    if d['type'] == 'RectangularRegion':
        x1, x2 = sorted((d['x1'], d['x2']))
        y1, y2 = sorted((d['y1'], d['y2']))
        if k < 0.3:
            g = rng.choice([0, 0, 1, 2.5])
            return dict(type='RectangularRegion', id=d['id'], x1=x1 - g, y1=y1 - g, x2=x2 + g, y2=y2 + rng.choice([0, g]))   # same floats: exact
        if k < 0.5:
            # smaller: by a unit, or by a hair (2^-20: exact in binary64, far below any plausible tolerance)
            return dict(type='RectangularRegion', id=d['id'], x1=x1 + rng.choice([1, 1, 2.0 ** -20]), y1=y1, x2=x2, y2=y2 - rng.choice([0, 0, 2.0 ** -20]))
        if k < 0.8:
            # circle around the rectangle: circumscribed (touching the corners), larger, or slightly too small
            cx, cy = (x1 + x2) / 2, (y1 + y2) / 2
            import math
            hy = math.hypot(x2 - cx, y2 - cy)
            rad = hy * rng.choice([1.0, 1.0, 1.5]) if (exact and hy == int(hy)) else hy * rng.choice([1.01, 1.5, 0.99])
            if rng.random() < 0.2:
                rad = hy * rng.choice([1.01, 0.99])
            return dict(type='CircularRegion', id=d['id'], cx=cx, cy=cy, r=rad)
        return dict(type='RectangularRegion', id=d['id'], x1=x1, y1=y1, x2=x2, y2=y2)
    cx, cy, r = d['cx'], d['cy'], d['r']
    if k < 0.3:
        dx = rng.choice([0, 0, 1])
        return dict(type='CircularRegion', id=d['id'], cx=cx + dx, cy=cy, r=r + (rng.choice([0, 1, 1, 2]) if (exact or dx == 0) else rng.choice([0.5, 2])))
    if k < 0.5:
        return dict(type='CircularRegion', id=d['id'], cx=cx, cy=cy, r=r - rng.choice([0.5, 0.5, 2.0 ** -20]))
    if k < 0.85:
        g = rng.choice([0, 0, 0.5, -0.25]) if exact else rng.choice([0.5, -0.25])
        return dict(type='RectangularRegion', id=d['id'], x1=cx - r - g, y1=cy - r - g, x2=cx + r + g, y2=cy + r + g)
    return dict(d)


def gen_history(rng, dirty_before_start=False):
    st = rnd_settings(rng)
    st_init = dict(st)
    evs = []
    regs = {}        # our own idea of the region list, only to generate meaningful requests
    dyadic = set()   # ids of regions whose parameters are dyadic (float arithmetic on them is exact)
    nid = [0]
    gen_ = genprog.Gen(rng, addregions=False, layers=1, g90e=st['g90e'])
    prog = gen_.program()
    cmds = [e for e in prog['events'] if e[0] in ('cmd', 'at')]
    pos = 0
    try:
        pts_ = [(float(x), float(y)) for (x, y) in gen_.tested_points(prog['events'])] + [(0.0, 0.0)]
    except Exception:
        pts_ = []

    def clear_of_path(d):
        """binary64 decides like the exact model only away from the borders: a region placed blindly (at the origin, of zero size, ...) is used
        only if no point the filter will test lies within 5e-4 of its border (the relative moves of a program can come back to a round
        coordinate such as 0 with a residue of 1e-14)"""
        try:
            if d.get('type') == 'RectangularRegion':
                r = ('rect', '', min(d['x1'], d['x2']), min(d['y1'], d['y2']), max(d['x1'], d['x2']), max(d['y1'], d['y2']))
            elif d.get('type') == 'CircularRegion':
                r = ('circ', '', d['cx'], d['cy'], d['r'])
            else:
                return True
            return all(abs(genprog.region_dist(r, x, y)) >= 5e-4 for (x, y) in pts_)
        except (TypeError, KeyError):
            return True         # requests with wrong-typed values are refused by the API anyway

    def api_some():
        k = rng.random()
        anon = rng.random() < 0.1
        if k < 0.4 or not regs:
            nid[0] += 1
            # ids in no particular order (uuid-like in the UI): neither creation order nor string order may be relied on
            rid = '%s%d' % (rng.choice('rzaRk'), nid[0]) if rng.random() < 0.85 or not regs else rng.choice(list(regs))
            if rng.random() < 0.1:
                rid = rng.choice(['', '', '0'])       # legal ids that happen to be falsy / look like numbers
            data = rnd_region_data(rng, rid)
            for _try in range(6):
                if clear_of_path(data):
                    break
                data = rnd_region_data(rng, rid)
            if rng.random() < 0.07:
                data['type'] = rng.choice(['TriangularRegion', '', 'Region', 'Rectangular', 'rectangularregion', 'CircularRegionX', 'Circular'])
            evs.append(('api', 'addExcludeRegion', data, anon))
            if not anon and rid not in regs and data['type'] in ('RectangularRegion', 'CircularRegion'):
                regs[rid] = data
                dyadic.add(rid)
        elif k < 0.75:
            rid = rng.choice(list(regs) + ['nope'])
            data = grow(rng, regs[rid], exact=rid in dyadic) if rid in regs else rnd_region_data(rng, rid)
            evs.append(('api', 'updateExcludeRegion', data, anon))
        elif k < 0.9:
            rid = rng.choice(list(regs) + ['nope'])
            evs.append(('api', 'deleteExcludeRegion', dict(id=rid), anon))
        else:
            evs.append(('get',))

    # regions that the path really crosses (placed by the program generator), added through the API
    for r in prog['regions']:
        if rng.random() < 0.7:
            if r[0] == 'rect':
                data = dict(type='RectangularRegion', id=r[1], x1=float(r[2]), y1=float(r[3]), x2=float(r[4]), y2=float(r[5]))
            else:
                data = dict(type='CircularRegion', id=r[1], cx=float(r[2]), cy=float(r[3]), r=float(r[4]))
            evs.append(('api', 'addExcludeRegion', data, False))
            regs[r[1]] = data
    for _ in range(rng.randint(0, 3)):
        api_some()
    nprints = rng.randint(1, 3)
    for pr in range(nprints):
        if rng.random() < 0.3:
            evs.append(('event', 'FILE_SELECTED'))
            regs.clear()
        for _ in range(rng.randint(0, 2)):
            api_some()
        if rng.random() < 0.85:
            evs.append(('event', 'PRINT_STARTED'))
        chunk = cmds[pos:pos + rng.randint(5, 40)]
        pos += len(chunk)
        if not chunk:
            pos = 0
            chunk = cmds[:20]
        if not (chunk and chunk[0] == ('cmd', 'G28')):
            evs.append(('cmd', 'G28'))
        for e in chunk:
            evs.append(e)
            r = rng.random()
            if r < 0.12:
                api_some()
            elif r < 0.15:
                evs.append(('event', rng.choice(OTHER_EVENTS)))
            elif r < 0.19:
                evs.append(('script', rng.choice(['gcode', 'gcode', 'other']), rng.choice(['afterPrintDone', 'afterPrintDone', 'beforePrintStarted', 'afterPrintCancelled', 'afterPrintPaused', 'beforePrintResumed', 'afterPrinterConnected'])))
            elif r < 0.21:
                st = rnd_settings(rng)
                evs.append(('settings', st))
            elif r < 0.22:
                evs.append(('at', rng.choice(['@ExcludeRegion off', '@ExcludeRegion off', '@ExcludeRegion on', '@Purge', '@Purge now', '@Resume go', '@Resume stop', '@Other x']), rng.random() < 0.3))
        # ways a print ends
        r = rng.random()
        if r < 0.5:
            evs.append(('script', 'gcode', 'afterPrintDone'))
            if rng.random() < 0.5:
                evs.append(('script', 'gcode', 'afterPrintDone'))
            evs.append(('event', 'PRINT_DONE'))
        elif r < 0.9:
            evs.append(('event', rng.choice(END_EVENTS)))
            if rng.random() < 0.4:
                evs.append(('script', 'gcode', 'afterPrintDone'))
        for e in cmds[pos:pos + rng.randint(0, 4)]:
            evs.append(e)            # commands arriving while no print is active
        if rng.random() < 0.3:
            evs.append(('get',))
    return dict(settings=st_init, events=evs)


def st0(evs, st):
    """initial settings of the history (the plugin is constructed with them)"""
    return dict(st)


def merge_into(r, ctx, tag, nq, nt, extra=()):
    """run the plugin stream as a second correspondence stream of a filter-served property and merge it into result r"""
    hs = list(extra) + [gen_history(ctx.rng) for _ in range(ctx.n(nq, nt))]
    nev, dis, rows, shards = run_histories(hs, tag)
    for d in dis[:3]:
        r['disagreements'].append(dict(kind=d['kind'], stream='plugin', case=describe(d['hist'], d['rows'])) if d['kind'] == 'model!=impl' else d)
    r['evaluations'] += len(hs)
    r['shards'] += shards
    r['plugin_stream'] = dict(histories=len(hs), events=nev)
    r['rule'] += ('; plus the `plugin` stream: histories of events (incl. pause / resume), settings updates (script texts with comments, blank lines, '
                  'non-G-code lines, CRLF; custom @-command action tables), hooks and API requests against the real plugin object')
    return r


def atc_history(rng):
    """a print during which the @-command action table is edited: commands added, removed, patterns changed"""
    reg = dict(type='RectangularRegion', id='a1', x1=10.0 + 1.0 / 2048, y1=10.0 + 1.0 / 2048, x2=20.0 + 1.0 / 2048, y2=20.0 + 1.0 / 2048)
    tables = [DEFAULT_ATC, [('Region', 'on', 'enable_exclusion'), ('Region', 'off', 'disable_exclusion')] + DEFAULT_ATC, DEFAULT_ATC + [('Purge', None, 'disable_exclusion')], DEFAULT_ATC + [('ExcludeRegion', '^\\s*off', 'disable_exclusion')],
              [('Purge', None, 'disable_exclusion'), ('Purge', '^\\s*now', 'disable_exclusion'), DEFAULT_ATC[0]], [DEFAULT_ATC[1], DEFAULT_ATC[0]], [DEFAULT_ATC[0], ('Purge', '^\\s*now', 'disable_exclusion')],
              DEFAULT_ATC + [('Resume', '^\\s*go', 'enable_exclusion'), ('Purge', None, 'disable_exclusion')], [], [DEFAULT_ATC[1]]]
    st = rnd_settings(rng)
    st['atc'] = rng.choice(tables)
    st0 = dict(st)
    evs = [('api', 'addExcludeRegion', reg, False), ('event', 'PRINT_STARTED'), ('cmd', 'G28'), ('cmd', 'G1 X5 Y5 Z0.3 E1 F3000')]
    e = 1.0
    for _ in range(rng.randint(3, 8)):
        k = rng.random()
        if k < 0.3:
            st = dict(st); st['atc'] = rng.choice(tables)
            evs.append(('settings', st))
        e += 0.5
        if rng.random() < 0.6:
            # go inside, then talk to the plugin: a disable arriving mid-episode has to close it properly
            evs.append(('cmd', rng.choice(['G1 X15 Y15 E%.1f', 'G1 X12 Y18 E%.1f']) % e))
            if rng.random() < 0.5:
                evs.append(('cmd', rng.choice(['M117 inside', 'M204 S800', 'G1 X16 Y16'])))
            evs.append(('at', rng.choice(['@Purge', '@Purge now', '@ExcludeRegion off', '@ExcludeRegion off', '@Resume go', '@ExcludeRegion on', '@Region report position', '@Region z-offset 0.2', '@Region off', '@Region on']), False))
            e += 0.5
        elif k < 0.75:
            evs.append(('at', rng.choice(['@Purge', '@Purge now', '@Resume go', '@ExcludeRegion on', '@ExcludeRegion off', '@Resume']), False))
        evs.append(('cmd', rng.choice(['G1 X15 Y15 E%.1f', 'G1 X30 Y30 E%.1f', 'G1 X12 Y18 E%.1f', 'G1 X5 Y30 E%.1f']) % e))
    evs.append(('event', 'PRINT_DONE'))
    return dict(settings=st0, events=evs)


def ext_edit_history(rng):
    """a print during which the table of deferred codes and the scripts are edited between two episodes and inside an episode"""
    reg = dict(type='RectangularRegion', id='e1', x1=10.0 + 1.0 / 2048, y1=10.0 + 1.0 / 2048, x2=20.0 + 1.0 / 2048, y2=20.0 + 1.0 / 2048)
    st = rnd_settings(rng)
    st['ext'] = dict(genprog.DEFAULT_EXT)
    st['ext'].update(dict((c, rng.choice(genprog.EXT_MODES)) for c in rng.sample(['M106', 'M900', 'M220', 'G4'], 2)))
    st0 = dict(st)
    codes = ['G4 P100', 'M117 msg %d', 'M204 S%d', 'M73 P%d', 'M106 S%d', 'M900 K0.%d', 'M220 S%d', 'M0117 zero %d', 'M205 X%d']
    evs = [('api', 'addExcludeRegion', reg, False), ('event', 'PRINT_STARTED'), ('cmd', 'G28'), ('cmd', 'G1 X5 Y5 Z0.3 E1 F3000')]
    e = 1.0
    for episode in range(rng.randint(2, 3)):
        e += 0.5
        evs.append(('cmd', 'G1 X15 Y15 E%.1f' % e))
        inside = rng.sample(codes, rng.randint(2, 5))
        for c in inside:
            evs.append(('cmd', c % rng.randint(1, 9) if '%' in c else c))
        if rng.random() < 0.35:
            # the table is edited while the tool is still inside the region: the modes of codes that already have an entry pending change
            # (captured whole under first / last, merged from now on, and the other way round), then the same codes come again
            st = dict(st)
            ext = dict(st['ext'])
            for g in list(ext):
                if rng.random() < 0.7:
                    ext[g] = rng.choice(genprog.EXT_MODES)
            st['ext'] = ext
            evs.append(('settings', st))
            for c in inside:
                evs.append(('cmd', c % rng.randint(1, 9) if '%' in c else c))
        e += 0.5
        evs.append(('cmd', 'G1 X30 Y30 E%.1f' % e))
        if rng.random() < 0.8:
            st = dict(st)
            ext = dict(st['ext'])
            for c in rng.sample(sorted(ext), min(len(ext), rng.randint(1, 3))):
                del ext[c]
            if rng.random() < 0.4:
                ext[rng.choice(['M106', 'M900', 'M220'])] = rng.choice(genprog.EXT_MODES)
            st['ext'] = ext
            evs.append(('settings', st))
    evs.append(('event', 'PRINT_DONE'))
    return dict(settings=st0, events=evs)


def pause_history(rng):
    """a print that is paused and resumed (and asked for its other scripts) while the tool is inside a region with deferred codes pending: the
    episode goes on, nothing is flushed before the tool really leaves"""
    reg = dict(type='RectangularRegion', id='p1', x1=10.0 + 1.0 / 2048, y1=10.0 + 1.0 / 2048, x2=20.0 + 1.0 / 2048, y2=20.0 + 1.0 / 2048)
    st = rnd_settings(rng)
    evs = [('api', 'addExcludeRegion', reg, False), ('event', 'PRINT_STARTED'), ('cmd', 'G28'), ('cmd', 'G1 X5 Y5 Z0.3 E1 F3000'), ('cmd', 'G1 X15 Y15 E1.5'),
           ('cmd', 'M204 S500'), ('cmd', 'M117 inside')]
    for _ in range(rng.randint(1, 4)):
        k = rng.random()
        if k < 0.6:
            evs.append(('script', rng.choice(['gcode', 'gcode', 'other']), rng.choice(['afterPrintPaused', 'beforePrintResumed', 'afterPrintCancelled', 'beforePrintStarted',
                                                                                      'afterPrinterConnected', 'afterPrintPaused', 'beforeToolChange', 'afterPrintDone2', 'afterPrint'])))
        elif k < 0.8:
            evs.append(('event', rng.choice(['PRINT_PAUSED', 'PRINT_RESUMED'])))
        else:
            evs.append(('cmd', rng.choice(['M204 T3', 'G1 X16 Y16 E2', 'M73 P5'])))
    evs += [('cmd', 'G1 X30 Y30 E3'), ('cmd', 'G1 X15 Y15 E3.5'), ('script', 'gcode', 'afterPrintDone'), ('event', 'PRINT_DONE')]
    return dict(settings=st, events=evs)


def hook_history(rng):
    """a job that ends while an episode is open, in the ways the clean-up hook has to cope with: regions deleted or replaced under the
    tool, exclusion switched off and on, pause / resume, mode and unit switches inside the episode, the hook called twice"""
    reg = dict(type='RectangularRegion', id='h1', x1=10.0 + 1.0 / 2048, y1=10.0 + 1.0 / 2048, x2=20.0 + 1.0 / 2048, y2=20.0 + 1.0 / 2048)
    st = rnd_settings(rng)
    st['shrink'] = rng.random() < 0.7
    evs = [('api', 'addExcludeRegion', reg, False), ('event', 'PRINT_STARTED'), ('cmd', 'G28'), ('cmd', 'G1 X5 Y5 Z0.3 E1 F3000')]
    entry = rng.random()
    enter_ = rng.choice(['G1 X15 Y15 E1.5', 'G1 X15 Y15 E1.5', 'G1 X15 Y15 Z0.6 E1.5', 'G1 X15 Y15 Z0.2', 'G1 X15 Y15 Z0.5 E0.7'])     # entering moves that also change Z / E
    if entry < 0.25:
        # moves made while exclusion is switched off are tracked all the same: the entering move names one axis only
        evs += [('at', '@ExcludeRegion off', False), ('cmd', rng.choice(['G1 X15 Y5 E1.2', 'G1 X15 E1.2', 'G0 X15'])), ('at', '@ExcludeRegion on', False),
                ('cmd', rng.choice(['G1 Y15 E1.5', 'G1 Y15', 'G0 Y12 F6000']))]
    elif entry < 0.4:
        # relative positioning: there-and-back moves inside the region leave binary64 residue in the offsets the clean-up has to undo
        evs += [('cmd', enter_), ('cmd', 'G91')]
        ax = rng.choice('XYZ')
        for a in rng.choice([('0.1', '0.2', '-0.3'), ('0.7', '-0.1', '-0.6'), ('1.1', '2.2', '-3.3')]):
            evs.append(('cmd', 'G1 %s%s' % (ax, a)))
        if rng.random() < 0.5:
            evs.append(('cmd', 'G90'))
    elif entry < 0.65 and entry >= 0.55:
        # the tool leaves the region while exclusion is off; switched on again, a single-axis move stays outside (judged from where the tool really is)
        evs += [('cmd', enter_), ('at', '@ExcludeRegion off', False), ('cmd', rng.choice(['G1 X40 Y40 E2', 'G0 X40 Y40', 'G1 X40 Y5 E2'])),
                ('at', '@ExcludeRegion on', False), ('cmd', rng.choice(['G1 Y16 E2.5', 'G1 Y12', 'G1 Y18 E2.2'])), ('cmd', 'G1 X15 E3')]
    elif entry < 0.55:
        # units switched inside the episode and Z moved afterwards: whether Z goes first or last on the way back is decided in millimetres
        evs += [('cmd', enter_), ('cmd', 'G20'), ('cmd', rng.choice(['G1 Z0.02', 'G1 Z0.005', 'G1 Z0.3', 'G1 Z0.011811']))]
        if rng.random() < 0.4:
            evs.append(('cmd', 'G21'))
    else:
        evs.append(('cmd', enter_))
    for _ in range(rng.randint(0, 4) if entry >= 0.65 else rng.randint(0, 1)):
        k = rng.random()
        if k < 0.25:
            evs.append(('api', 'deleteExcludeRegion', dict(id='h1'), False))
        elif k < 0.4:
            evs.append(('api', 'updateExcludeRegion', dict(type='CircularRegion', id='h1', cx=15.0, cy=15.0, r=rng.choice([1.0, 30.0])), False))
        elif k < 0.55:
            evs.append(('cmd', rng.choice(['G91', 'G20', 'G90', 'G21', 'M204 S500', 'M117 x', 'G1 Z1', 'G1 E1', 'G10', 'M73 P100 R0', 'M205 X0 Y8', 'M204 P0 T0'])))
        elif k < 0.7:
            evs.append(('event', rng.choice(['PRINT_PAUSED', 'PRINT_RESUMED'])))
        elif k < 0.8:
            evs.append(('at', rng.choice(['@ExcludeRegion off', '@ExcludeRegion on']), False))
        else:
            evs.append(('cmd', rng.choice(['G1 X16 Y16 E2', 'G1 X12 Y12', 'G1 X40 Y40', 'G1 X45', 'G1 X15 Y15 E2.5'])))
    evs.append(('script', 'gcode', 'afterPrintDone'))
    if rng.random() < 0.5:
        evs.append(('script', 'gcode', 'afterPrintDone'))
    evs.append(('event', rng.choice(['PRINT_DONE', 'PRINT_CANCELLED'])))
    evs.append(('script', 'gcode', 'afterPrintDone'))
    return dict(settings=st, events=evs, refpos=True)
