"""Drive the real implementation in /repo (objects, not mocks).  Import with PYTHONPATH=/repo."""
import logging, os, re, sys
sys.path.insert(0, os.environ.get('VERIF_REPO', '/repo'))
from octoprint_excluderegion.ExcludeRegionState import ExcludeRegionState, IGNORE_GCODE_CMD
from octoprint_excluderegion.GcodeHandlers import GcodeHandlers
from octoprint_excluderegion.RectangularRegion import RectangularRegion
from octoprint_excluderegion.CircularRegion import CircularRegion
from octoprint_excluderegion.ExcludedGcode import ExcludedGcode
from octoprint_excluderegion.AtCommandAction import AtCommandAction
from octoprint_excluderegion.StreamProcessor import StreamProcessor, StreamProcessorComm
from octoprint_excluderegion.GcodeParser import GcodeParser

LOG = logging.getLogger('verif.impl'); LOG.addHandler(logging.NullHandler()); LOG.propagate = False
LOG.setLevel(logging.CRITICAL)


class _Format(logging.Handler):
    """formats every record and throws the text away; like the standard handlers it never lets a formatting error escape"""
    def emit(self, record):
        try:
            record.getMessage()
        except Exception:
            pass


LOG_DEBUG = logging.getLogger('verif.impl.debug'); LOG_DEBUG.addHandler(_Format()); LOG_DEBUG.propagate = False
LOG_DEBUG.setLevel(logging.DEBUG)
_instances = [0]


def pick_logger():
    """every fifth instance runs with debug logging on: the code inside `if isDebug` blocks is part of the filter too"""
    _instances[0] += 1
    return LOG_DEBUG if _instances[0] % 5 == 0 else LOG

def mk_region(r):
    """r = ('rect', id, x1, y1, x2, y2) | ('circ', id, cx, cy, r)"""
    if r[0] == 'rect':
        # the corners are handed over in any of the four orders (the constructor has to normalise them); which order is a
        # deterministic function of the numbers, so that a run can be replayed
        x1, y1, x2, y2 = r[2], r[3], r[4], r[5]
        if int(float(x1) * 7) % 3 == 0:
            x1, x2 = x2, x1
        if int(float(y1) * 11) % 3 == 1:
            y1, y2 = y2, y1
        return RectangularRegion(id=r[1], x1=x1, y1=y1, x2=x2, y2=y2)
    return CircularRegion(id=r[1], cx=r[2], cy=r[3], r=r[4])

DEFAULT_AT = [("ExcludeRegion", "^\\s*(enable|on)(\\s|$)", "enable_exclusion"),
              ("ExcludeRegion", "^\\s*(disable|off)(\\s|$)", "disable_exclusion")]

def new_handlers(regions=(), g90e=False, enter=None, exit_=None, ext=None, at=None):
    log = pick_logger()
    st = ExcludeRegionState(log)
    if g90e:
        st.g90InfluencesExtruder = True     # (False is the documented default: left as the class sets it)
    st.enteringExcludedRegionGcode = list(enter) if enter else None
    st.exitingExcludedRegionGcode = list(exit_) if exit_ else None
    st.extendedExcludeGcodes = {g: ExcludedGcode(g, m, '') for g, m in (ext or {}).items()}
    acts = {}
    for c, p, a in (DEFAULT_AT if at is None else at):
        acts.setdefault(c, []).append(AtCommandAction(c, p, a, ''))
    st.atCommandActions = acts
    for r in regions:
        st.addRegion(mk_region(r))
    return GcodeHandlers(st, log)

_CODE = re.compile(r'^\s*([GMT]\d+)(?:\.(\d+))?')  # as octoprint.util.comm.gcode_and_subcode_for_cmd
def code_of(cmd, normalise=False):      # the host passes the code as written (OctoPrint: "G01" stays "G01")
    m = _CODE.match(cmd)
    if not m: return None, None
    g = m.group(1)
    if normalise: g = g[0] + str(int(g[1:]))
    return g, m.group(2)

class Comm(object):
    def __init__(self, streaming=False): self.sent = []; self.streaming = streaming
    def isStreaming(self): return self.streaming
    def sendCommand(self, c, **kw): self.sent.append(c)

def step(h, line, comm=None, normalise=False):
    """One hook invocation.  Returns ('unchanged'|'suppress'|'replace'|'at', payload)."""
    if line.startswith('@'):
        comm = comm or Comm()
        parts = line[1:].split(None, 1)
        handled = h.handleAtCommand(comm, parts[0], parts[1] if len(parts) > 1 else '')
        return ('at', (bool(handled), list(comm.sent)))
    g, sub = code_of(line, normalise)
    if g is None: return ('unchanged', None)
    r = h.handleGcode(line, g, sub)
    if r is None: return ('unchanged', None)
    if r == IGNORE_GCODE_CMD: return ('suppress', None)
    return ('replace', list(r))

def outs(kind, payload, line):
    if kind == 'unchanged': return [line]
    if kind == 'suppress': return []
    if kind == 'at': return list(payload[1])
    return [c for c in payload]

def run(h, lines):
    res = []
    for l in lines:
        k, p = step(h, l)
        res.append((l, k, p))
    return res
