"""Instantiate the real ExcludeRegionPlugin outside OctoPrint and drive its hooks, events and API."""
import logging, os, sys, tempfile, types, shutil, atexit
sys.path.insert(0, os.environ.get('VERIF_REPO', '/repo'))
import flask
import octoprint.settings
import octoprint.plugin
from octoprint.events import Events

_BASE = tempfile.mkdtemp(prefix='erplug_')
atexit.register(lambda: shutil.rmtree(_BASE, ignore_errors=True))
_SETTINGS = octoprint.settings.settings(init=True, basedir=_BASE)
import octoprint_excluderegion as ER

LOG = logging.getLogger('verif.plugin'); LOG.addHandler(logging.NullHandler()); LOG.propagate = False
LOG.setLevel(logging.CRITICAL)


class _Format(logging.Handler):
    """formats every record and throws the text away; like the standard handlers it never lets a formatting error escape"""
    def emit(self, record):
        try:
            record.getMessage()
        except Exception:
            pass


LOG_DEBUG = logging.getLogger('verif.plugin.debug'); LOG_DEBUG.addHandler(_Format()); LOG_DEBUG.propagate = False
LOG_DEBUG.setLevel(logging.DEBUG)
_instances = [0]


def pick_logger():
    """every fifth instance runs with debug logging on: the code inside `if isDebug` blocks is part of the filter too"""
    _instances[0] += 1
    return LOG_DEBUG if _instances[0] % 5 == 0 else LOG
_APP = flask.Flask('verif')


class User(object):
    def __init__(self, anon): self.anon = anon
    def is_anonymous(self): return self.anon


class PM(object):
    def __init__(self): self.messages = []
    def send_plugin_message(self, ident, data): self.messages.append(data)


class Comm(object):
    def __init__(self, streaming=False): self.sent = []; self.streaming = streaming
    def isStreaming(self): return self.streaming
    def sendCommand(self, c, **kw): self.sent.append(c)


EVENTS = dict(FILE_SELECTED=Events.FILE_SELECTED, SETTINGS_UPDATED=Events.SETTINGS_UPDATED, PRINT_STARTED=Events.PRINT_STARTED,
              PRINT_DONE=Events.PRINT_DONE, PRINT_FAILED=Events.PRINT_FAILED, PRINT_CANCELLING=Events.PRINT_CANCELLING,
              PRINT_CANCELLED=Events.PRINT_CANCELLED, ERROR=Events.ERROR, PRINT_PAUSED=Events.PRINT_PAUSED,
              PRINT_RESUMED=Events.PRINT_RESUMED, CONNECTED=Events.CONNECTED, Z_CHANGE=Events.Z_CHANGE)


def new_plugin(**settings):
    p = ER.ExcludeRegionPlugin()
    p._identifier = 'excluderegion'
    p._plugin_name = 'Exclude Region'
    p._plugin_version = '0'
    p._logger = pick_logger()
    p._plugin_manager = PM()
    p._settings = octoprint.plugin.plugin_settings('excluderegion', defaults=p.get_settings_defaults(),
                                                   get_preprocessors=p.get_settings_preprocessors()[1],
                                                   set_preprocessors=p.get_settings_preprocessors()[0])
    set_settings(p, dict(clearRegionsAfterPrintFinishes=False, mayShrinkRegionsWhilePrinting=False, enteringExcludedRegionGcode=None,
                         exitingExcludedRegionGcode=None, g90InfluencesExtruder=False,
                         extendedExcludeGcodes=p.get_settings_defaults()['extendedExcludeGcodes'],
                         atCommandActions=p.get_settings_defaults()['atCommandActions']))
    set_settings(p, settings)
    p.initialize()
    return p


def set_settings(p, st):
    for k, v in st.items():
        if k == 'g90InfluencesExtruder':
            _SETTINGS.setBoolean(['feature', 'g90InfluencesExtruder'], bool(v))
        else:
            p._settings.set([k], v)


def api(p, command, data, anonymous=False):
    ER.current_user = User(anonymous)
    with _APP.app_context():
        return p.on_api_command(command, dict(data))


def api_get(p):
    with _APP.app_context():
        return p.on_api_get(None).get_json()
