"""Harness-side twin of the arc planning arithmetic (Marlin's plan_arc as the plugin adopts it),
written from the description in properties C16/C09: used to supply the executable (Q) model with
the sampled points of an arc as data, and by the oracles.  Same formulas, float arithmetic."""
import math

TWO_PI = 2 * math.pi


def center_from_radius(x0, y0, x1, y1, radius, clockwise):
    """i, j offsets of the centre from the start point for the R form (as the code computes it)."""
    if not radius or (x0 == x1 and y0 == y1):
        return (0, 0)
    e = -1 if (clockwise ^ (radius < 0)) else 1
    dx, dy = x1 - x0, y1 - y0
    dist = math.hypot(dx, dy)
    half = dist / 2
    if half > abs(radius):
        return (0, 0)
    h = math.sqrt(radius * radius - half * half)
    mx, my = (x0 + x1) / 2, (y0 + y1) / 2
    sx, sy = -dy / dist, -dx / dist          # NB: the code's (mirrored) perpendicular, finding D7
    cx, cy = mx + e * h * sx, my + e * h * sy
    return (cx - x0, cy - y0)


def plan(x0, y0, x1, y1, i, j, clockwise):
    """-> list of (x, y) tested points, the last one is the end point."""
    radius = math.hypot(i, j)
    cx, cy = x0 + i, y0 + j
    rtx, rty = x1 - cx, y1 - cy
    travel = math.atan2(-i * rty + j * rtx, -i * rtx - j * rty)
    if travel < 0:
        travel += TWO_PI
    if clockwise:
        travel -= TWO_PI
    if travel == 0 and x0 == x1 and y0 == y1:
        travel = TWO_PI
    n = max(1, int(math.ceil(abs(travel) * radius / 1)))
    angle = math.atan2(-j, -i)
    inc = travel / n
    pts = []
    for _ in range(1, n):
        angle += inc
        pts.append((cx + math.cos(angle) * radius, cy + math.sin(angle) * radius))
    pts.append((x1, y1))
    return pts
