#!/usr/bin/env python3
"""Tier G: regenerate Coq definitions (over R) of the pure numeric leaf functions from /repo's
working tree.  Fail-closed: any construct outside the supported subset raises Unsupported, which
fails the check (never a silent skip).

Supported subset: docstrings/logging skipped; Assign / AugAssign to names (-> nested let); `if`
chains ending in return (-> if/else); non-returning `if` assigning already-defined variables
(-> let '(..) := if ..); `for _ in range(a, b)` whose body only assigns (-> for_range over the
loop-carried tuple); isinstance dispatch and `is None` tests decided statically per target;
and/or/not, comparisons, arithmetic with true division, conditional expressions, `^` on booleans,
math.hypot/atan2/cos/sin/sqrt/ceil, abs, int, max, float, list literals, tuple return,
attribute reads, method calls listed in the target table.

Along with each definition `f` a `f_safe : Prop` is emitted carrying, under its path condition,
the side condition of every partial operation (`den <> 0` for `/`, `0 <= a` for sqrt).
"""
import ast, os, sys
from fractions import Fraction

REPO = os.environ.get('VERIF_REPO', '/repo')
PKG = os.path.join(REPO, 'octoprint_excluderegion')


class Unsupported(Exception):
    pass


def fail(node, msg):
    raise Unsupported('%s (line %s): %s' % (type(node).__name__, getattr(node, 'lineno', '?'), msg))


RECORD_FIELDS = {
    'RectR': {'x1': 'R', 'y1': 'R', 'x2': 'R', 'y2': 'R'},
    'CircR': {'cx': 'R', 'cy': 'R', 'r': 'R'},
    'AxisR': {'current': 'R', 'homeOffset': 'R', 'offset': 'R', 'absoluteMode': 'B', 'unitMultiplier': 'R'},
}
PROJ_NAMES = set(f for fs in RECORD_FIELDS.values() for f in fs)
COQ_TYPES = {'R': 'R', 'Z': 'Z', 'B': 'bool', 'L': 'list R', 'RR': '(R * R)', 'AxisR': 'AxisR'}


class Ctx(object):
    def __init__(self, spec, consts):
        self.spec = spec
        self.env = {}          # python var -> type
        self.consts = consts   # module-level numeric constants -> (coq, type)
        self.exprmap = spec.get('exprmap', {})
        self.methods = spec.get('methods', {})
        self.none_params = set(spec.get('none', []))
        self.notnone_params = set(spec.get('notnone', []))
        self.isinstance_of = spec.get('isinstance', {})  # var -> class name it is an instance of
        self.var_types = spec.get('var_types', {})

    def name(self, v):
        return v + '_' if v in PROJ_NAMES or v in ('at', 'as', 'in', 'end', 'fix', 'fun', 'if', 'let') else v


def lit(value, want=None):
    if isinstance(value, bool):
        return ('true' if value else 'false'), 'B'
    if isinstance(value, int):
        if want == 'R':
            return '(%d)' % value if value >= 0 else '(- %d)' % -value, 'R'
        return '(%d)%%Z' % value, 'Z'
    if isinstance(value, float):
        fr = Fraction(repr(value))
        if fr.denominator == 1:
            return '(%d)' % fr.numerator, 'R'
        return '(%d / %d)' % (fr.numerator, fr.denominator), 'R'
    raise Unsupported('literal %r' % (value,))


def toR(c, t):
    if t == 'R':
        return c
    if t == 'Z':
        return '(IZR %s)' % c
    raise Unsupported('cannot coerce %s to R' % t)


def truthy(c, t):
    if t == 'B':
        return c
    if t == 'R':
        return '(negb (Reqb %s 0))' % c
    if t == 'Z':
        return '(negb (Z.eqb %s 0%%Z))' % c
    raise Unsupported('truthiness of %s' % t)


class Tr(object):
    """Expression translator; collects guarded side conditions in self.conds."""

    def __init__(self, ctx):
        self.ctx = ctx

    def expr(self, e, conds, guard):
        """-> (coq, type).  conds: list of Prop strings; guard: list of bool-exprs (coq) that hold."""
        ctx = self.ctx
        src = ast.unparse(e)
        for al, full in getattr(ctx, 'alias', {}).items():
            if src.startswith(al + '.'):
                src = full + src[len(al):]         # a local name bound to `self.state.position` (and never re-bound) stands for it
        if src in ctx.exprmap:
            return ctx.exprmap[src]

        def add(prop):
            g = ''.join('(%s = true) -> ' % b for b in guard)
            conds.append('(%s%s)' % (g, prop))

        if isinstance(e, ast.Constant):
            return lit(e.value)
        if isinstance(e, ast.Name):
            if e.id in ctx.env:
                return ctx.name(e.id), ctx.env[e.id]
            if e.id in ctx.consts:
                return ctx.consts[e.id]
            fail(e, 'unknown name ' + e.id)
        if isinstance(e, ast.Attribute):
            if isinstance(e.value, ast.Name) and e.value.id == 'math' and e.attr == 'pi':
                return 'PI', 'R'
            if isinstance(e.value, ast.Name) and e.value.id in ctx.env:
                rt = ctx.env[e.value.id]
                if rt in RECORD_FIELDS and e.attr in RECORD_FIELDS[rt]:
                    return '(%s %s)' % (e.attr, ctx.name(e.value.id)), RECORD_FIELDS[rt][e.attr]
            fail(e, 'attribute ' + src)
        if isinstance(e, ast.UnaryOp):
            c, t = self.expr(e.operand, conds, guard)
            if isinstance(e.op, ast.USub):
                if t == 'R':
                    return '(- %s)' % c, 'R'
                if t == 'Z':
                    return '(- %s)%%Z' % c, 'Z'
            if isinstance(e.op, ast.Not):
                return '(negb %s)' % truthy(c, t), 'B'
            fail(e, 'unary op')
        if isinstance(e, ast.BinOp):
            a, ta = self.expr(e.left, conds, guard)
            b, tb = self.expr(e.right, conds, guard)
            if isinstance(e.op, ast.BitXor):
                if ta == 'B' and tb == 'B':
                    return '(xorb %s %s)' % (a, b), 'B'
                fail(e, '^ on non-booleans')
            if isinstance(e.op, ast.Add) and ta == 'L' and tb == 'L':
                return '(%s ++ %s)' % (a, b), 'L'
            ops = {ast.Add: '+', ast.Sub: '-', ast.Mult: '*', ast.Div: '/'}
            if type(e.op) not in ops:
                fail(e, 'binary op')
            o = ops[type(e.op)]
            if o == '/':
                ar, br = toR(a, ta), toR(b, tb)
                add('%s <> 0' % br)
                return '(%s / %s)' % (ar, br), 'R'
            if ta == 'Z' and tb == 'Z':
                return '(%s %s %s)%%Z' % (a, o, b), 'Z'
            return '(%s %s %s)' % (toR(a, ta), o, toR(b, tb)), 'R'
        if isinstance(e, ast.BoolOp):
            parts = []
            g = list(guard)
            for v in e.values:
                c, t = self.expr(v, conds, g)
                c = truthy(c, t)
                parts.append(c)
                g = g + [c if isinstance(e.op, ast.And) else '(negb %s)' % c]
            o = ' && ' if isinstance(e.op, ast.And) else ' || '
            return '(' + o.join(parts) + ')', 'B'
        if isinstance(e, ast.Compare):
            if len(e.ops) != 1:
                fail(e, 'chained comparison')
            if isinstance(e.ops[0], (ast.Is, ast.IsNot)):
                fail(e, 'dynamic None test')
            a, ta = self.expr(e.left, conds, guard)
            b, tb = self.expr(e.comparators[0], conds, guard)
            op = type(e.ops[0])
            if ta == 'Z' and tb == 'Z':
                m = {ast.Lt: 'Z.ltb %s %s', ast.LtE: 'Z.leb %s %s', ast.Gt: 'Z.ltb %s %s', ast.GtE: 'Z.leb %s %s',
                     ast.Eq: 'Z.eqb %s %s', ast.NotEq: 'negb (Z.eqb %s %s)'}
            else:
                a, b = toR(a, ta), toR(b, tb)
                m = {ast.Lt: 'Rltb %s %s', ast.LtE: 'Rleb %s %s', ast.Gt: 'Rgtb %s %s', ast.GtE: 'Rgeb %s %s',
                     ast.Eq: 'Reqb %s %s', ast.NotEq: 'negb (Reqb %s %s)'}
            if op not in m:
                fail(e, 'comparison op')
            if ta == 'Z' and tb == 'Z' and op in (ast.Gt, ast.GtE):
                a, b = b, a
            return '(' + m[op] % (a, b) + ')', 'B'
        if isinstance(e, ast.IfExp):
            c, tc = self.expr(e.test, conds, guard)
            c = truthy(c, tc)
            a, ta = self.expr(e.body, conds, guard + [c])
            b, tb = self.expr(e.orelse, conds, guard + ['(negb %s)' % c])
            if ta != tb:
                a, b, ta = toR(a, ta), toR(b, tb), 'R'
            return '(if %s then %s else %s)' % (c, a, b), ta
        if isinstance(e, ast.List):
            items = [toR(*self.expr(x, conds, guard)) for x in e.elts]
            return ('[' + '; '.join(items) + ']') if items else '(@nil R)', 'L'
        if isinstance(e, ast.Tuple):
            items = [toR(*self.expr(x, conds, guard)) for x in e.elts]
            if len(items) == 2:
                return '(' + ', '.join(items) + ')', 'RR'
            fail(e, 'tuple arity')
        if isinstance(e, ast.Call):
            f = ast.unparse(e.func)
            args = e.args
            if e.keywords:
                fail(e, 'keyword arguments')
            if f in ('math.hypot', 'math.atan2') and len(args) == 2:
                a = toR(*self.expr(args[0], conds, guard))
                b = toR(*self.expr(args[1], conds, guard))
                return '(%s %s %s)' % (f.split('.')[1], a, b), 'R'
            if f in ('math.cos', 'math.sin') and len(args) == 1:
                return '(%s %s)' % (f.split('.')[1], toR(*self.expr(args[0], conds, guard))), 'R'
            if f == 'math.sqrt' and len(args) == 1:
                a = toR(*self.expr(args[0], conds, guard))
                add('0 <= %s' % a)
                return '(sqrt %s)' % a, 'R'
            if f == 'int' and len(args) == 1 and isinstance(args[0], ast.Call) and ast.unparse(args[0].func) == 'math.ceil':
                a = toR(*self.expr(args[0].args[0], conds, guard))
                return '(Rceil %s)' % a, 'Z'
            if f == 'abs' and len(args) == 1:
                a, t = self.expr(args[0], conds, guard)
                return ('(Rabs %s)' % a, 'R') if t == 'R' else ('(Z.abs %s)' % a, 'Z')
            if f == 'max' and len(args) == 2:
                a, ta = self.expr(args[0], conds, guard)
                b, tb = self.expr(args[1], conds, guard)
                if ta == 'Z' and tb == 'Z':
                    return '(Z.max %s %s)' % (a, b), 'Z'
                return '(Rmax %s %s)' % (toR(a, ta), toR(b, tb)), 'R'
            if f == 'float' and len(args) == 1:
                return toR(*self.expr(args[0], conds, guard)), 'R'
            if f in ctx.methods:
                coqf, rt = ctx.methods[f]
                cargs = [self.expr(a, conds, guard)[0] for a in args]
                return '(%s %s)' % (coqf, ' '.join(cargs)), rt
            fail(e, 'call ' + f)
        fail(e, 'expression')


def definitely(stmts):
    """variables assigned on every path through stmts (plain names only)"""
    out = []
    for s in stmts:
        if isinstance(s, ast.Assign):
            for t in s.targets:
                if isinstance(t, ast.Name) and t.id not in out:
                    out.append(t.id)
        elif isinstance(s, ast.AugAssign) and isinstance(s.target, ast.Name):
            if s.target.id not in out:
                out.append(s.target.id)
        elif isinstance(s, ast.If):
            other = definitely(s.orelse)
            for v in definitely(s.body):
                if v in other and v not in out:
                    out.append(v)
    return out


def assigned(stmts):
    out = []
    for s in stmts:
        if isinstance(s, ast.Assign):
            for t in s.targets:
                if isinstance(t, ast.Name) and t.id not in out:
                    out.append(t.id)
        elif isinstance(s, ast.AugAssign) and isinstance(s.target, ast.Name):
            if s.target.id not in out:
                out.append(s.target.id)
        elif isinstance(s, ast.If):
            for v in assigned(s.body) + assigned(s.orelse):
                if v not in out:
                    out.append(v)
        elif isinstance(s, ast.For):
            for v in assigned(s.body):
                if v not in out:
                    out.append(v)
    return out


def returns(stmts):
    return bool(stmts) and (isinstance(stmts[-1], ast.Return) or
                            (isinstance(stmts[-1], ast.If) and returns(stmts[-1].body) and returns(stmts[-1].orelse)) or
                            isinstance(stmts[-1], ast.Raise))


def conj(props):
    props = [p for p in props if p != 'True']
    return ' /\\ '.join(props) if props else 'True'


def ifsafe(c, sa, sb):
    return 'True' if sa == 'True' and sb == 'True' else '(if %s then %s else %s)' % (c, sa, sb)


def letsafe(head, sr):
    return 'True' if sr == 'True' else '(%s\n  %s)' % (head, sr)


class Fn(object):
    def __init__(self, ctx):
        self.ctx = ctx
        self.tr = Tr(ctx)
        self.rettype = None

    def static_test(self, test):
        """Decide isinstance / is None tests statically; None if dynamic."""
        ctx = self.ctx
        if isinstance(test, ast.Call) and ast.unparse(test.func) == 'isinstance':
            v, c = ast.unparse(test.args[0]), ast.unparse(test.args[1])
            if v in ctx.isinstance_of:
                return ctx.isinstance_of[v] == c
            fail(test, 'isinstance on ' + v)
        if isinstance(test, ast.Compare) and len(test.ops) == 1 and isinstance(test.ops[0], (ast.Is, ast.IsNot)) \
                and isinstance(test.comparators[0], ast.Constant) and test.comparators[0].value is None:
            v = ast.unparse(test.left)
            if v in ctx.none_params:
                r = True
            elif v in ctx.notnone_params:
                r = False
            else:
                fail(test, 'None-test on ' + v)
            return r if isinstance(test.ops[0], ast.Is) else not r
        return None

    def tuple_of(self, vs):
        names = [self.ctx.name(v) for v in vs]
        return names[0] if len(names) == 1 else '(' + ', '.join(names) + ')'

    def pat_of(self, vs):
        names = [self.ctx.name(v) for v in vs]
        return names[0] if len(names) == 1 else "'(" + ', '.join(names) + ')'

    def block(self, stmts, final):
        """-> (term, safe).  final: None (block must return) or a (term, safe) continuation value
        used when the block falls off its end."""
        ctx = self.ctx
        if not stmts:
            if final is None:
                raise Unsupported('block falls off the end without return')
            return final
        s, rest = stmts[0], stmts[1:]
        if isinstance(s, ast.Expr):
            if isinstance(s.value, ast.Constant) and isinstance(s.value.value, str):
                return self.block(rest, final)
            if isinstance(s.value, ast.Call) and ast.unparse(s.value.func).startswith('self._logger.'):
                return self.block(rest, final)
            call = s.value
            if (isinstance(call, ast.Call) and isinstance(call.func, ast.Attribute) and call.func.attr in ('extend', 'append')
                    and isinstance(call.func.value, ast.Name) and len(call.args) == 1 and not call.keywords):
                # lst.extend(xs) / lst.append(x) are  lst += xs / lst += [x]
                arg = call.args[0] if call.func.attr == 'extend' else ast.List(elts=[call.args[0]], ctx=ast.Load())
                aug = ast.AugAssign(target=ast.Name(id=call.func.value.id, ctx=ast.Store()), op=ast.Add(), value=arg)
                ast.copy_location(aug, s)
                return self.block([aug] + rest, final)
            fail(s, 'expression statement')
        if isinstance(s, ast.ImportFrom):
            return self.block(rest, final)
        if isinstance(s, ast.Assign):
            if len(s.targets) != 1 or not isinstance(s.targets[0], ast.Name):
                fail(s, 'assignment target')
            v = s.targets[0].id
            if ast.unparse(s.value) in ctx.spec.get('skip_assign', []):
                if v in ctx.env:
                    fail(s, 'alias %s re-uses a variable name' % v)
                if not hasattr(ctx, 'alias'):
                    ctx.alias = {}
                ctx.alias[v] = ast.unparse(s.value)
                return self.block(rest, final)
            if v in getattr(ctx, 'alias', {}):
                fail(s, 'alias %s is bound again' % v)
            conds = []
            c, t = self.tr.expr(s.value, conds, [])
            return self.bind(s, v, c, t, conds, rest, final)
        if isinstance(s, ast.AugAssign):
            if not isinstance(s.target, ast.Name):
                fail(s, 'augmented assignment target')
            v = s.target.id
            conds = []
            c, t = self.tr.expr(ast.BinOp(left=ast.Name(id=v, ctx=ast.Load()), op=s.op, right=s.value), conds, [])
            return self.bind(s, v, c, t, conds, rest, final)
        if isinstance(s, ast.Return):
            if s.value is None:
                fail(s, 'bare return')
            conds = []
            c, t = self.tr.expr(s.value, conds, [])
            if self.rettype is None:
                self.rettype = t
            elif self.rettype != t:
                if {self.rettype, t} == {'R', 'Z'}:
                    c = toR(c, t)
                    self.rettype = 'R'
                else:
                    fail(s, 'return type mismatch %s vs %s' % (self.rettype, t))
            return c, conj(conds)
        if isinstance(s, ast.Raise):
            fail(s, 'reachable raise')
        if isinstance(s, ast.If):
            st = self.static_test(s.test)
            if st is not None:
                return self.block((s.body if st else s.orelse) + rest, final)
            conds = []
            c, tc = self.tr.expr(s.test, conds, [])
            c = truthy(c, tc)
            if returns(s.body):
                saved = dict(ctx.env)
                a, sa = self.block(s.body, None)
                ctx.env = dict(saved)
                b, sb = self.block(s.orelse + rest, final)
                return ('(if %s then %s else %s)' % (c, a, b),
                        conj(conds + [ifsafe(c, sa, sb)]))
            merged = [v for v in assigned(s.body) + assigned(s.orelse) if v in ctx.env]
            merged = list(dict.fromkeys(merged))
            # a variable first defined by the if-statement, on both of its paths (x = a in one branch, x = b in the other)
            fresh = [v for v in definitely(s.body) if v in definitely(s.orelse) and v not in ctx.env]
            merged += fresh
            if not merged:
                fail(s, 'if-statement assigns no previously defined variable')
            saved = dict(ctx.env)
            tup = self.tuple_of(merged)
            a, sa = self.block(s.body, (tup, 'True'))
            env_a = dict(ctx.env)
            ctx.env = dict(saved)
            b, sb = self.block(s.orelse, (tup, 'True'))
            env_b = dict(ctx.env)
            ctx.env = dict(saved)
            for v in fresh:
                if env_a.get(v) is None or env_a.get(v) != env_b.get(v):
                    fail(s, 'variable %s defined with different types on the two paths of an if-statement' % v)
                ctx.env[v] = env_a[v]
            r, sr = self.block(rest, final)
            head = 'let %s := (if %s then %s else %s) in' % (self.pat_of(merged), c, a, b)
            return ('(%s\n  %s)' % (head, r),
                    conj(conds + [ifsafe(c, sa, sb), letsafe(head, sr)]))
        if isinstance(s, ast.For):
            if not (isinstance(s.iter, ast.Call) and ast.unparse(s.iter.func) == 'range' and len(s.iter.args) == 2) or s.orelse:
                fail(s, 'loop shape')
            conds = []
            a, ta = self.tr.expr(s.iter.args[0], conds, [])
            b, tb = self.tr.expr(s.iter.args[1], conds, [])
            if ta != 'Z' or tb != 'Z':
                fail(s, 'range bounds must be integers')
            carried = [v for v in assigned(s.body) if v in ctx.env]
            if carried != assigned(s.body):
                fail(s, 'loop body defines new variables')
            tup, pat = self.tuple_of(carried), self.pat_of(carried)
            saved = dict(ctx.env)
            body, sbody = self.block(s.body, (tup, 'True'))
            ctx.env = dict(saved)
            if sbody != 'True':
                fail(s, 'partial operation inside a loop body')
            r, sr = self.block(rest, final)
            fpat = pat if pat.startswith("'") else pat
            head = 'let %s := for_range %s %s (fun %s => %s) %s in' % (pat, a, b, fpat, body, tup)
            return '(%s\n  %s)' % (head, r), conj(conds + [letsafe(head, sr)])
        fail(s, 'statement')

    def bind(self, s, v, c, t, conds, rest, final):
        ctx = self.ctx
        want = ctx.var_types.get(v, ctx.env.get(v, t))
        if want != t:
            if want == 'R' and t == 'Z':
                c, t = toR(c, t), 'R'
            else:
                fail(s, 'variable %s changes type %s -> %s' % (v, want, t))
        ctx.env[v] = t
        r, sr = self.block(rest, final)
        head = 'let %s := %s in' % (ctx.name(v), c)
        return '(%s\n  %s)' % (head, r), conj(conds + [letsafe(head, sr)])


def find_func(tree, cls, func):
    for n in tree.body:
        if isinstance(n, ast.ClassDef) and n.name == cls:
            for m in n.body:
                if isinstance(m, ast.FunctionDef) and m.name == func:
                    return m
    raise Unsupported('%s.%s not found' % (cls, func))


def module_consts(tree):
    """Module-level NAME = <numeric expr> constants."""
    consts = {}
    for n in tree.body:
        if isinstance(n, ast.Assign) and len(n.targets) == 1 and isinstance(n.targets[0], ast.Name):
            ctx = Ctx({}, consts)
            try:
                c, t = Tr(ctx).expr(n.value, [], [])
            except Unsupported:
                continue
            if t in ('R', 'Z'):
                consts[n.targets[0].id] = (c, t)
    return consts


class SelfFields(ast.NodeTransformer):
    """Methods that assign attributes of self (`mutates` in the spec): every `self.<field>` becomes a local variable `self__<field>`,
    initialised from the record the method is called on; the method's result is the record built from the final values.  A call of another
    method on self is only accepted while nothing has been assigned yet (it is translated as a call on the ORIGINAL record)."""

    def __init__(self, fields):
        self.fields = fields
        self.mutated = False

    def visit_Attribute(self, node):
        self.generic_visit(node)
        if isinstance(node.value, ast.Name) and node.value.id == 'self' and node.attr in self.fields:
            if isinstance(node.ctx, ast.Store):
                self.mutated = True
            return ast.copy_location(ast.Name(id='self__' + node.attr, ctx=node.ctx), node)
        return node

    def visit_Assign(self, node):
        node.value = self.visit(node.value)             # the right-hand side is evaluated before the attribute is assigned
        node.targets = [self.visit(t) for t in node.targets]
        return node

    def visit_AugAssign(self, node):
        node.value = self.visit(node.value)
        node.target = self.visit(node.target)
        return node

    def visit_Call(self, node):
        f = ast.unparse(node.func)
        if f.startswith('self.') and self.mutated:
            raise Unsupported('%s: method of self called after an attribute of self was assigned' % f)
        if f.startswith('self.'):
            node.args = [self.visit(a) for a in node.args]          # the callee name itself stays (`self.logicalToNative`)
            return node
        self.generic_visit(node)
        return node

    def visit_Return(self, node):
        # the value handed back is one of the fields; the translated method yields the whole record instead
        if node.value is not None:
            self.visit(node.value)
        return ast.copy_location(ast.Return(value=self.record()), node)

    def record(self):
        return ast.Call(func=ast.Name(id='__mkrecord', ctx=ast.Load()), args=[ast.Name(id='self__' + f, ctx=ast.Load()) for f in self.fields], keywords=[])


def translate(spec):
    src = open(os.path.join(PKG, spec['file']), 'rb').read().decode('utf-8').replace('\r\n', '\n')
    tree = ast.parse(src)
    fn = find_func(tree, spec['cls'], spec['func'])
    ctx = Ctx(spec, module_consts(tree))
    params = []
    for p, t in spec['params']:
        ctx.env[p] = t
        params.append('(%s : %s)' % (ctx.name(p), COQ_TYPES.get(t, t)))
    # every python parameter must be accounted for
    pyargs = [a.arg for a in fn.args.args]
    known = set(p for p, _ in spec['params']) | ctx.none_params | set(spec.get('ignore_params', []))
    for a in pyargs:
        if a not in known and a != 'self':
            raise Unsupported('%s.%s: unexpected parameter %s' % (spec['cls'], spec['func'], a))
    body, wrap = fn.body, '%s'
    if spec.get('mutates'):
        rec = spec['mutates']
        fields = list(RECORD_FIELDS[rec])
        sf = SelfFields(fields)
        body = [sf.visit(st) for st in body]
        if not (body and isinstance(body[-1], ast.Return)):
            body = body + [ast.Return(value=sf.record())]
        ast.fix_missing_locations(ast.Module(body=body, type_ignores=[]))
        for fld in fields:
            ctx.env['self__' + fld] = RECORD_FIELDS[rec][fld]
            ctx.var_types = dict(ctx.var_types, **{'self__' + fld: RECORD_FIELDS[rec][fld]})
            wrap = wrap % ('(let self__%s := (%s self) in\n  %%s)' % (fld, fld))
        ctx.methods = dict(ctx.methods, __mkrecord=('Build_' + rec, rec))
    f = Fn(ctx)
    term, safe = f.block(body, None)
    term, safe = wrap % term, wrap % safe
    rt = COQ_TYPES[f.rettype]
    out = 'Definition %s %s : %s :=\n  %s.\n\n' % (spec['name'], ' '.join(params), rt, term)
    out += 'Definition %s_safe %s : Prop :=\n  %s.\n\n' % (spec['name'], ' '.join(params), safe)
    return out


ARC_EXPRMAP = {
    'self.state.position.X_AXIS.nativeToLogical()': ('posX', 'R'),
    'self.state.position.Y_AXIS.nativeToLogical()': ('posY', 'R'),
}

FILES = {
    'GenRegions.v': [
        dict(file='RectangularRegion.py', cls='RectangularRegion', func='containsPoint', name='rect_containsPoint',
             params=[('self', 'RectR'), ('x', 'R'), ('y', 'R')]),
        dict(file='RectangularRegion.py', cls='RectangularRegion', func='containsRegion', name='rect_containsRegion_rect',
             params=[('self', 'RectR'), ('otherRegion', 'RectR')], isinstance={'otherRegion': 'RectangularRegion'}),
        dict(file='RectangularRegion.py', cls='RectangularRegion', func='containsRegion', name='rect_containsRegion_circ',
             params=[('self', 'RectR'), ('otherRegion', 'CircR')], isinstance={'otherRegion': 'CircularRegion'}),
        dict(file='CircularRegion.py', cls='CircularRegion', func='containsPoint', name='circ_containsPoint',
             params=[('self', 'CircR'), ('x', 'R'), ('y', 'R')]),
        dict(file='CircularRegion.py', cls='CircularRegion', func='containsRegion', name='circ_containsRegion_rect',
             params=[('self', 'CircR'), ('otherRegion', 'RectR')], isinstance={'otherRegion': 'RectangularRegion'},
             methods={'self.containsPoint': ('circ_containsPoint self', 'B')}),
        dict(file='CircularRegion.py', cls='CircularRegion', func='containsRegion', name='circ_containsRegion_circ',
             params=[('self', 'CircR'), ('otherRegion', 'CircR')], isinstance={'otherRegion': 'CircularRegion'},
             methods={'self.containsPoint': ('circ_containsPoint self', 'B')}),
    ],
    'GenAxis.v': [
        dict(file='AxisPosition.py', cls='AxisPosition', func='logicalToNative', name='axis_logicalToNative',
             params=[('self', 'AxisR'), ('value', 'R')], none=['absoluteMode'], notnone=['value']),
        dict(file='AxisPosition.py', cls='AxisPosition', func='nativeToLogical', name='axis_nativeToLogical',
             params=[('self', 'AxisR')], none=['value', 'absoluteMode'],
             var_types={'value': 'R', 'absoluteMode': 'B'}),
        # the methods that change an axis: each yields the record after the call
        dict(file='AxisPosition.py', cls='AxisPosition', func='setLogicalOffsetPosition', name='axis_setLogicalOffsetPosition', mutates='AxisR',
             params=[('self', 'AxisR'), ('offset', 'R')], methods={'self.logicalToNative': ('axis_logicalToNative self', 'R')}),
        dict(file='AxisPosition.py', cls='AxisPosition', func='setHomeOffset', name='axis_setHomeOffset', mutates='AxisR',
             params=[('self', 'AxisR'), ('homeOffset', 'R')]),
        dict(file='AxisPosition.py', cls='AxisPosition', func='setHome', name='axis_setHome', mutates='AxisR', params=[('self', 'AxisR')]),
        dict(file='AxisPosition.py', cls='AxisPosition', func='setUnitMultiplier', name='axis_setUnitMultiplier', mutates='AxisR',
             params=[('self', 'AxisR'), ('unitMultiplier', 'R')]),
        dict(file='AxisPosition.py', cls='AxisPosition', func='setAbsoluteMode', name='axis_setAbsoluteMode', mutates='AxisR',
             params=[('self', 'AxisR'), ('absoluteMode', 'B')]),
        dict(file='AxisPosition.py', cls='AxisPosition', func='setLogicalPosition', name='axis_setLogicalPosition', mutates='AxisR',
             params=[('self', 'AxisR'), ('position', 'R')], notnone=['position'], methods={'self.logicalToNative': ('axis_logicalToNative self', 'R')}),
    ],
    'GenArc.v': [
        dict(file='GcodeHandlers.py', cls='GcodeHandlers', func='planArc', name='planArc',
             params=[('posX', 'R'), ('posY', 'R'), ('endX', 'R'), ('endY', 'R'), ('i', 'R'), ('j', 'R'), ('clockwise', 'B')],
             exprmap=ARC_EXPRMAP, skip_assign=['self.state.position']),
        dict(file='GcodeHandlers.py', cls='GcodeHandlers', func='computeArcCenterOffsets', name='computeArcCenterOffsets',
             params=[('posX', 'R'), ('posY', 'R'), ('endX', 'R'), ('endY', 'R'), ('radius', 'R'), ('clockwise', 'B')],
             exprmap=ARC_EXPRMAP, skip_assign=['self.state.position'], var_types={'i': 'R', 'j': 'R'}),
    ],
}

HEADER = '''(** GENERATED by harness/py2coq.py from %s -- do not edit. *)
From Coq Require Import Reals ZArith List Bool.
From ER Require Import Base.GenPrelude.
Import ListNotations.
Open Scope R_scope.

'''


def generate(outdir):
    """Regenerate all files; return (changed_files, errors)."""
    changed, errors = [], []
    os.makedirs(outdir, exist_ok=True)
    for fname, specs in FILES.items():
        text = HEADER % ', '.join(sorted(set(s['file'] for s in specs)))
        ok = True
        for spec in specs:
            try:
                text += translate(spec)
            except Unsupported as e:
                errors.append('translate:%s:%s: %s' % (fname, spec['name'], e))
                ok = False
            except (OSError, SyntaxError) as e:
                errors.append('translate:%s:%s: %s: %s' % (fname, spec['name'], type(e).__name__, e))
                ok = False
        path = os.path.join(outdir, fname)
        if not ok:
            text = '(* translation failed *)\nDefinition translation_failed : False := I.\n'
        old = open(path).read() if os.path.exists(path) else None
        if old != text:
            open(path, 'w').write(text)
            changed.append(fname)
    return changed, errors


if __name__ == '__main__':
    ch, errs = generate(sys.argv[1] if len(sys.argv) > 1 else os.path.join(os.path.dirname(__file__), '..', 'coq', 'Gen'))
    for e in errs:
        print('ERROR', e)
    print('changed:', ch)
    sys.exit(1 if errs else 0)
