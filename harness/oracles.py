"""Model-independent oracles for the motion/extrusion properties (C01-C06, C08, C09, C14):
the real implementation's outputs are executed on the reference printer (F) next to the unfiltered
file (U) and the property statements are evaluated directly, in exact rational arithmetic."""
import math, re
from fractions import Fraction as F
import impl, reader, refprinter, arcs
import genprog
from genprog import inside
from octoprint.util.comm import gcode_and_subcode_for_cmd

TOL = F(1, 10 ** 7)
DEPTH_TOL = F(1, 10 ** 4)    # retraction lengths rendered in inches are equal only up to the rounding of the text
EXTRUDES = F(1, 10**6)      # a move "extrudes" if it pushes more than a nanometre-scale float residue (binary64 noise of a re-sent E value is ~1e-15 mm)
AT_ENABLE = re.compile(r'^\s*(enable|on)(\s|$)')
AT_DISABLE = re.compile(r'^\s*(disable|off)(\s|$)')


def close(a, b, tol=TOL):
    return abs(a - b) <= tol * max(1, abs(a))


class Step(object):
    pass


def tested_points(U_before, U_after, cmd):
    """native points a filter has to test for this command, per the file's own frame (reference printer)"""
    c = reader.read(cmd)
    if c is None or c.code not in ('G0', 'G1', 'G2', 'G3'):
        return None
    if not (c.has('X') or c.has('Y') or c.has('Z')) and c.code in ('G0', 'G1'):
        return None
    pts = []
    if c.code in ('G2', 'G3'):
        if not U_before.absm:
            return 'unsupported'          # arcs in relative mode: finding D15, outside the dialect
        lx, ly = float(U_before.logical('x')), float(U_before.logical('y'))
        ex = float(c.get('X')) if c.get('X') is not None else lx
        ey = float(c.get('Y')) if c.get('Y') is not None else ly
        cw = c.code == 'G2'
        if c.get('R') is not None:
            i, j = arcs.center_from_radius(lx, ly, ex, ey, float(c.get('R')), cw)
        else:
            i, j = float(c.get('I') or 0), float(c.get('J') or 0)
        if not (i or j):
            return None                    # not an arc the firmware would execute
        for (px, py) in arcs.plan(lx, ly, ex, ey, i, j, cw)[:-1]:
            pts.append((F(px) * U_before.um + U_before.ox, F(py) * U_before.um + U_before.oy))
    pts.append((U_after.x, U_after.y))
    return pts


def simulate(prog, stop_on_exception=True):
    """Run the program through the real objects and both printers.  -> (steps, exception or None)"""
    h = impl.new_handlers(prog['regions'], g90e=prog['g90e'], enter=prog['enter'], exit_=prog['exit'], ext=prog['ext'])
    U = refprinter.Printer(prog['g90e'])
    P = refprinter.Printer(prog['g90e'])          # F: executes what reaches the printer
    regions = list(prog['regions'])
    enabled = True
    steps = []
    for ev in prog['events']:
        st = Step()
        st.ev = ev
        st.U0, st.F0 = U.copy(), P.copy()
        st.regions = list(regions)
        st.enabled0 = enabled
        st.outs, st.kind, st.exc = [], None, None
        if ev[0] == 'add':
            try:
                h.state.addRegion(impl.mk_region(ev[1]))
                regions.append(ev[1])
            except ValueError:
                pass
            st.kind = 'add'
        elif ev[0] == 'at':
            parts = ev[1].split(None, 1)
            cmd, params = parts[0][1:], (parts[1] if len(parts) > 1 else '')
            comm = impl.Comm(ev[2] if len(ev) > 2 else False)
            try:
                h.handleAtCommand(comm, cmd, params)
            except Exception as e:
                st.exc = e
            st.outs = list(comm.sent)
            st.kind = 'at'
            if cmd == 'ExcludeRegion' and not comm.streaming:
                if AT_ENABLE.match(params):
                    enabled = True
                if AT_DISABLE.match(params):
                    enabled = False
        else:
            line = ev[1]
            gcode, sub = gcode_and_subcode_for_cmd(line)
            try:
                r = h.handleGcode(line, gcode, sub) if gcode else None
            except Exception as e:
                st.exc = e
                r = None
            st.raw = r
            if r is None:
                st.kind, st.outs = 'unchanged', [line]
            elif r == impl.IGNORE_GCODE_CMD:
                st.kind, st.outs = 'suppress', []
            else:
                st.kind, st.outs = 'replace', list(r) if isinstance(r, (list, tuple)) else [r]
            U.execute(line)
        st.effs = []
        for o in st.outs:
            if isinstance(o, str):
                st.effs.append((o, P.execute(o), P.copy()))
        st.U1, st.F1 = U.copy(), P.copy()
        st.enabled1 = enabled
        st.excluding1 = h.state.excluding
        pos = h.state.position
        st.T1 = (pos.X_AXIS.current, pos.Y_AXIS.current, pos.Z_AXIS.current, pos.E_AXIS.current)   # what the filter tracks (native)
        st.FR1 = h.state.feedRate                        # the feed rate the filter tracks (mm/min)
        try:
            st.EL1 = pos.E_AXIS.nativeToLogical()       # the logical E value the filter tracks (what a generated E word is meant to carry)
        except Exception:
            st.EL1 = None
        st.tested = tested_points(st.U0, st.U1, ev[1]) if ev[0] == 'cmd' else None
        steps.append(st)
        if st.exc is not None and stop_on_exception:
            return steps, st.exc
    return steps, None


def any_inside(regions, pts):
    return any(inside(r, x, y) for (x, y) in pts for r in regions)


def episodes(steps):
    """Annotate steps with the spec's episode structure (judged on the reference printer U):
    st.in_ep  : the step lies inside an episode (after processing the opening move, before the closing one)
    st.opens / st.closes"""
    ep = False
    for st in steps:
        st.opens = st.closes = False
        st.ep0 = ep
        if st.kind == 'at':
            if ep and st.enabled0 and not st.enabled1:
                ep = False
                st.closes = True
        elif st.ev[0] == 'cmd' and st.tested not in (None, 'unsupported'):
            hit = st.enabled0 and any_inside(st.regions, st.tested)
            if hit and not ep:
                ep, st.opens = True, True
            elif not hit and ep:
                ep, st.closes = False, True
        st.ep1 = ep
    _tags(steps)
    return steps


MOTION = ('G0', 'G1', 'G2', 'G3', 'G28')


def fail(what, st, k, sig, prog, **kw):
    d = dict(what=what, signature=sig, step=k, event=list(map(str, st.ev)), outs=[str(o) for o in st.outs],
             case=dict(g90e=prog['g90e'], enter=prog['enter'], exit=prog['exit'], ext=prog['ext'],
                       regions=[[str(x) for x in r] for r in prog['regions']],
                       events=[list(map(str, e)) for e in prog['events'][:k + 1]]))
    d.update(kw)
    return d


def sig_context(st, steps, k):
    """classification of the circumstances of a failing step, used to match known findings
    (cumulative over the history up to the step; computed once per program by episodes())"""
    return st.tags


def _tags(steps):
    cur = []
    for s in steps:
        if s.ev[0] == 'cmd':
            c = reader.read(s.ev[1])
            if c is not None:
                if c.code == 'G28' and s.ep0 and 'G28-inside-episode' not in cur:
                    cur = cur + ['G28-inside-episode']
                if c.code == 'G92' and any(c.has(a) for a in 'XYZ') and 'G92-XYZ' not in cur:
                    cur = cur + ['G92-XYZ']
                if c.code == 'M206' and 'M206' not in cur:
                    cur = cur + ['M206']
            if s.tested == 'unsupported' and 'arc-in-relative-mode' not in cur:
                cur = cur + ['arc-in-relative-mode']
            if c is not None and c.code in ('G2', 'G3') and s.tested is None and 'degenerate-arc' not in cur:
                cur = cur + ['degenerate-arc']
        s.tags = cur


# ------------------------------------------------------------------------------------------ C01
def check_C01(prog, steps):
    fails = []
    for k, st in enumerate(steps):
        tags = sig_context(st, steps, k)
        sig = 'C01:' + (tags[0] if tags else 'plain')
        # (a) no forwarded command moves the tool in X/Y to a point inside a currently defined region
        regs = st.regions + ([st.ev[1]] if st.ev[0] == 'add' else [])
        if st.enabled0 or st.enabled1:
            for (o, eff, Pn) in st.effs:
                if eff['moved_xy'] and st.enabled1 and any(inside(r, Pn.x, Pn.y) for r in regs):
                    fails.append(fail('forwarded command %r moves the tool to (%s,%s) inside an excluded region' % (o, float(Pn.x), float(Pn.y)), st, k, sig, prog))
        # (b) inside an episode nothing moves X/Y/Z or advances filament
        if st.ep0 and st.ep1 or st.opens:
            if (st.F1.x, st.F1.y, st.F1.z) != (st.F0.x, st.F0.y, st.F0.z):
                fails.append(fail('tool moved while inside an excluded region: %s -> %s' % ((float(st.F0.x), float(st.F0.y), float(st.F0.z)), (float(st.F1.x), float(st.F1.y), float(st.F1.z))), st, k, sig, prog))
            for (o, eff, Pn) in st.effs:
                if eff['dfil'] > EXTRUDES:
                    fails.append(fail('filament advanced inside an excluded region by %r' % o, st, k, sig, prog))
                c = reader.read(o)
                if c is not None and c.code in ('G0', 'G1', 'G2', 'G3') and (c.has('X') or c.has('Y') or c.has('Z')):
                    fails.append(fail('motion command %r forwarded inside an excluded region' % o, st, k, sig, prog))
    return fails


# ------------------------------------------------------------------------------------------ C03
def check_C03(prog, steps):
    fails = []
    for k, st in enumerate(steps):
        if st.ev[0] != 'cmd' or st.tested in (None, 'unsupported'):
            continue
        tags = sig_context(st, steps, k)
        sig = 'C03:' + (tags[0] if tags else 'plain')
        if st.ep1:
            continue
        if 'G28-inside-episode' in tags:
            break       # the property quantifies over programs that do not home while an episode is open: the rest of this history is outside it
        # the move's tested points are all outside: positions must be re-synchronised
        if not (close(st.F1.x, st.U1.x) and close(st.F1.y, st.U1.y) and close(st.F1.z, st.U1.z)):
            fails.append(fail('after a move outside every region the printer is at %s but the file is at %s' %
                              ((float(st.F1.x), float(st.F1.y), float(st.F1.z)), (float(st.U1.x), float(st.U1.y), float(st.U1.z))), st, k, sig, prog))
        if st.F1.absm != st.U1.absm or st.F1.um != st.U1.um:
            fails.append(fail('positioning mode / units of the printer differ from the file', st, k, sig, prog))
        if st.closes:
            zmax = max(st.F0.z, st.U1.z)
            prev = st.F0
            for (o, eff, Pn) in st.effs:
                if eff['moved_xy'] and not close(prev.z, zmax) and prev.z < zmax:
                    fails.append(fail('re-positioning travel %r happens at Z=%s below max(previous Z, target Z)=%s' % (o, float(prev.z), float(zmax)), st, k, sig, prog))
                prev = Pn
    return fails


# ------------------------------------------------------------------------------------------ C04
def check_C04(prog, steps):
    fails = []
    for k, st in enumerate(steps):
        tags = sig_context(st, steps, k)
        sig = 'C04:' + (tags[0] if tags else 'plain')
        if st.ev[0] != 'cmd':
            continue
        if not st.ep1 and not st.excluding1:
            if not close(st.F1.e, st.U1.e):
                fails.append(fail('outside every region the printer extruder coordinate is %s but the file assumes %s' % (float(st.F1.e), float(st.U1.e)), st, k, sig, prog))
        if st.kind == 'suppress' and st.F1.fil != st.F0.fil:
            fails.append(fail('suppressed command changed the filament position', st, k, sig, prog))
        if not st.ep0 and not st.ep1 and st.kind in ('replace', 'unchanged'):
            ufil = st.U1.fil - st.U0.fil
            for (o, eff, Pn) in st.effs:
                if o == st.ev[1] and ufil > 0 and eff['moved_xy'] and not close(eff['dfil'], ufil):
                    fails.append(fail('forwarded extruding move pushes %s instead of the %s the file specifies' % (float(eff['dfil']), float(ufil)), st, k, sig, prog))
    return fails


# ------------------------------------------------------------------------------------------ C05
def check_C05(prog, steps):
    fails = []
    maxdep = F(0)
    for k, st in enumerate(steps):
        tags = sig_context(st, steps, k)
        sig = 'C05:' + (tags[0] if tags else 'plain')
        if prog.get('style') == 'firmware':
            # parity / parameters of firmware retraction
            for (o, eff, Pn) in st.effs:
                c = reader.read(o)
                if c is not None and c.code in ('G10', 'G11') and not re.match(r'^G1[01]( S[01])?$', o):
                    fails.append(fail('firmware retraction command %r does not carry the original parameters' % o, st, k, sig, prog))
            dU, dF = (1 if st.U1.fwret else 0), (1 if st.F1.fwret else 0)
            if dF < dU:
                fails.append(fail('printer is not firmware-retracted while the file assumes a retraction', st, k, sig, prog))
            if st.F1.fwdepth > 1 or st.F1.fwdepth < 0:
                fails.append(fail('firmware retract/recover parity broken (depth %d)' % st.F1.fwdepth, st, k, sig, prog))
            for (o, eff, Pn) in st.effs:
                if eff['dfil'] > EXTRUDES and eff['moved_xy'] and Pn.fwret and not st.U1.fwret:
                    fails.append(fail('printing move %r executed while still firmware-retracted' % o, st, k, sig, prog))
            continue
        maxdep = max(maxdep, st.U1.depth)
        dU, dF = st.U1.depth, st.F1.depth
        if dF < dU - DEPTH_TOL:
            fails.append(fail('filament retracted shallower (%s) than the file assumes (%s)' % (float(dF), float(dU)), st, k, sig, prog))
        if dF > maxdep + DEPTH_TOL:
            fails.append(fail('filament retracted deeper (%s) than the deepest retraction the file requested so far (%s)' % (float(dF), float(maxdep)), st, k, sig, prog))
        prev = st.F0
        for (o, eff, Pn) in st.effs:
            if eff['dfil'] > EXTRUDES and eff['moved_xy']:
                # a printing move: depth before it must equal the file's depth before its own move
                if abs(prev.depth - st.U0.depth) > DEPTH_TOL:
                    fails.append(fail('printing move %r starts at retraction depth %s, the file is at %s' % (o, float(prev.depth), float(st.U0.depth)), st, k, sig, prog))
            prev = Pn
    return fails


# ------------------------------------------------------------------------------------------ C02
def check_C02(prog, steps):
    """only called for programs whose tested points never lie inside an enabled region"""
    fails = []
    for k, st in enumerate(steps):
        tags = sig_context(st, steps, k)
        sig = 'C02:' + (tags[0] if tags else 'plain')
        if st.ev[0] == 'cmd' and st.outs != [st.ev[1]]:
            fails.append(fail('command not forwarded verbatim although the path never touches a region: %r -> %r' % (st.ev[1], st.outs), st, k, sig, prog))
        if st.ev[0] == 'at' and st.outs:
            fails.append(fail('@-command produced commands although no episode can be open', st, k, sig, prog))
    return fails


def touches_region(steps):
    return any(st.ev[0] == 'cmd' and st.tested not in (None, 'unsupported') and st.enabled0 and any_inside(st.regions, st.tested)
               for st in steps)


def stale_tracking_witness(prog, steps, size=F(3, 10)):
    """Search step for C02 / C08: where the position the filter tracks differs from the file's own, build a program whose
    only region sits on the stale tracked point, clear of the real path.  Returns that program or None; whether it really
    violates the property is decided by running it."""
    real = []
    for st in steps:
        if st.ev[0] == 'cmd' and st.tested not in (None, 'unsupported'):
            real += list(st.tested)
    for st in steps:
        if st.ev[0] != 'cmd' or st.T1[0] is None or st.T1[1] is None:
            continue
        tx, ty = st.T1[0], st.T1[1]
        if abs(tx - float(st.U1.x)) > 1e-4 or abs(ty - float(st.U1.y)) > 1e-4:
            cx, cy = F('%.4f' % tx), F('%.4f' % ty)
            r = ('rect', 'stale', cx - size, cy - size, cx + size, cy + size)
            if all(abs(genprog.region_dist(r, x, y)) > 0.05 and not inside(r, x, y) for (x, y) in real):
                q = dict(prog)
                q['regions'] = [r]
                q['events'] = [e for e in prog['events'] if e[0] != 'add']
                return q
            return None
    return None


# ------------------------------------------------------------------------------------------ C14
def check_C14(prog, steps):
    fails = []
    for k, st in enumerate(steps):
        tags = sig_context(st, steps, k)
        sig = 'C14:' + (tags[0] if tags else 'plain')
        if st.ev[0] == 'cmd' and not st.enabled0:
            c = reader.read(st.ev[1])
            if c is not None and c.code in ('G0', 'G1', 'G2', 'G3') and st.kind == 'suppress' and st.tested is not None:
                fails.append(fail('move suppressed while exclusion is disabled', st, k, sig, prog))
            if st.excluding1:
                fails.append(fail('episode open while exclusion is disabled', st, k, sig, prog))
        if st.ev[0] == 'at':
            parts = st.ev[1].split(None, 1)
            cmd, params = parts[0][1:], (parts[1] if len(parts) > 1 else '')
            streaming = st.ev[2] if len(st.ev) > 2 else False
            known = cmd == 'ExcludeRegion' and (AT_ENABLE.match(params) or AT_DISABLE.match(params))
            if (not known or streaming) and st.outs:
                fails.append(fail('@-command matching no action (or while streaming) sent commands', st, k, sig, prog))
            if st.closes:
                # same obligations as leaving a region: printer re-synchronised with the file's position
                if not (close(st.F1.x, st.U1.x) and close(st.F1.y, st.U1.y) and close(st.F1.z, st.U1.z) and close(st.F1.e, st.U1.e)):
                    fails.append(fail('disable @-command closed the episode without re-synchronising the printer', st, k, sig, prog))
            elif st.outs and known:
                fails.append(fail('@-command sent commands although no episode was open', st, k, sig, prog))
        # tracking while disabled: after re-enabling, a move into a region must be suppressed
        if st.ev[0] == 'cmd' and st.enabled0 and st.tested not in (None, 'unsupported'):
            hit = any_inside(st.regions, st.tested)
            if hit and st.kind not in ('suppress',) and not any(reader.read(o) is None or reader.read(o).code not in MOTION for o in st.outs if False):
                moved = any(eff['moved_xy'] or eff['dz'] != 0 for (_, eff, _) in st.effs)
                if moved:
                    fails.append(fail('move into an excluded region forwarded (position tracking lost?)', st, k, sig, prog))
    return fails


# ------------------------------------------------------------------------------------------ C09
def check_C09(prog, steps, exc):
    fails = []
    if exc is not None:
        st = steps[-1]
        sig = 'C09:' + type(exc).__name__
        fails.append(fail('processing raised %s: %s' % (type(exc).__name__, exc), st, len(steps) - 1, sig, prog))
    for k, st in enumerate(steps):
        if st.ev[0] != 'cmd':
            continue
        r = getattr(st, 'raw', None)
        ok = r is None or r == impl.IGNORE_GCODE_CMD or (isinstance(r, list) and len(r) > 0 and all(isinstance(x, str) and x for x in r))
        if not ok:
            fails.append(fail('illegal result shape %r' % (r,), st, k, 'C09:shape', prog))
    return fails


# ------------------------------------------------------------------------------------------ C06
def deferred_spec(cmds, ext):
    """Declarative reading of exclude/first/last/merge over the configured commands seen in one episode.
    cmds: list of (text, code, items) in order.  -> list of expected deferred commands (text or (code, args))"""
    order, kept = [], {}
    for text, code, items in cmds:
        mode = ext.get(code)
        if mode is None or mode == 'exclude':
            continue
        if mode == 'first':
            if code not in kept:
                kept[code] = ('raw', text)
                order.append(code)
        elif mode == 'last':
            if code in kept:
                order.remove(code)
            kept[code] = ('raw', text)
            order.append(code)
        elif mode == 'merge':
            args = kept[code][1] if code in kept else []
            if code in kept:
                order.remove(code)
            args = list(args)
            for k, v in items:
                for n, (k2, _) in enumerate(args):
                    if k2 == k:
                        args[n] = (k, v)
                        break
                else:
                    args.append((k, v))
            kept[code] = ('merged', args)
            order.append(code)
    return [(c, kept[c]) for c in order]


def check_C06(prog, steps):
    fails = []
    parser = impl.GcodeParser()
    seen = []          # configured commands seen in the current episode
    enter = prog['enter'] or []
    exit_ = prog['exit'] or []
    ext = prog['ext']
    for k, st in enumerate(steps):
        sig = 'C06:plain'
        outs = [o for o in st.outs]
        if st.opens:
            if outs[:len(enter)] != enter:
                fails.append(fail('enter script not emitted when the episode began: %r' % outs, st, k, sig, prog))
            seen = []
        elif enter and st.ev[0] == 'cmd' and st.kind == 'replace' and not st.closes:
            if any(outs[i:i + len(enter)] == enter for i in range(len(outs))) and enter[0] != st.ev[1]:
                fails.append(fail('enter script emitted outside an episode start', st, k, sig, prog))
        if st.ev[0] == 'cmd' and st.ep0 and not st.closes and not st.opens:
            gcode, _ = gcode_and_subcode_for_cmd(st.ev[1])
            if gcode:
                code = gcode[0] + str(int(gcode[1:])) if gcode[1:].isdigit() else gcode
                if code in ext and code not in ('G0', 'G1', 'G2', 'G3', 'G10', 'G11', 'G20', 'G21', 'G28', 'G90', 'G91', 'G92', 'M206'):
                    seen.append((st.ev[1], code, list(parser.parse(st.ev[1]).parameterItems())))
                    if st.kind != 'suppress':
                        fails.append(fail('configured code not withheld during the episode', st, k, sig, prog))
        if st.closes:
            exp = deferred_spec(seen, ext)
            n = len(exp)
            got = outs[:n]
            okd = len(got) == n
            for (code, (kind, val)), g in zip(exp, got):
                if kind == 'raw':
                    okd = okd and g == val
                else:
                    c = reader.read(g)
                    okd = okd and c is not None and c.code == code
                    if okd:
                        want = [(kk, vv) for kk, vv in val if not (kk == '' and vv is None)]
                        have = c.words
                        okd = len(want) == len(have) and all(
                            kk == hk and ((vv is None and hv is None) or (vv is not None and hv is not None and close(F(repr(vv)), hv)))
                            for (kk, vv), (hk, hv) in zip(want, have)) if all(kk for kk, _ in want) else okd
            if not okd:
                fails.append(fail('deferred commands at episode end are %r, expected %r' % (outs[:n + 1], exp), st, k, sig, prog))
            if outs[n:n + len(exit_)] != exit_:
                fails.append(fail('exit script missing or misplaced at episode end: %r' % outs, st, k, sig, prog))
            rest = outs[n + len(exit_):]
            if not rest or not rest[0].startswith('G92 E'):
                fails.append(fail('re-synchronisation does not follow the deferred commands and the exit script: %r' % outs, st, k, sig, prog))
            seen = []
        elif not st.ep0 and not st.opens and st.ev[0] == 'cmd' and exit_ and st.kind == 'replace':
            if any(outs[i:i + len(exit_)] == exit_ for i in range(len(outs))) and exit_[0] != st.ev[1]:
                fails.append(fail('exit script emitted outside an episode end', st, k, sig, prog))
    return fails
