"""Shared machinery of the checks: Tier G regeneration, Coq build, Print Assumptions capture,
case-file evaluation by vm_compute, evidence / replay writing, known findings."""
import fcntl, glob, hashlib, json, os, re, subprocess, sys, time

VERIF = os.path.dirname(os.path.dirname(os.path.abspath(__file__)))
COQ = os.path.join(VERIF, 'coq')
BUILD = os.path.join(VERIF, 'build')
EVID = os.path.join(VERIF, 'evidence')
REPLAYS = os.path.join(VERIF, 'replays')
CORPUS = os.path.join(VERIF, 'corpus')
REPO = os.environ.get('VERIF_REPO', '/repo')
NCPU = max(1, min(16, os.cpu_count() or 1))

FORBIDDEN = re.compile(r'\b(Admitted|admit|Axiom|Axioms|Parameter|Parameters|Conjecture|Conjectures|Hypothesis|Hypotheses|Variable|Variables)\b'
                       r'|Unset\s+Guard|bypass_check|type-in-type|impredicative-set|Admit\s+Obligations|Unset\s+Universe\s+Checking|Unset\s+Positivity')


def sh(cmd, timeout=None, cwd=None, env=None):
    p = subprocess.run(cmd, shell=isinstance(cmd, str), cwd=cwd, env=env, timeout=timeout,
                       stdout=subprocess.PIPE, stderr=subprocess.STDOUT, universal_newlines=True, errors='replace')
    return p.returncode, p.stdout


class Lock(object):
    def __enter__(self):
        os.makedirs(BUILD, exist_ok=True)
        self.f = open(os.path.join(BUILD, '.lock'), 'w')
        fcntl.flock(self.f, fcntl.LOCK_EX)
        return self

    def __exit__(self, *a):
        fcntl.flock(self.f, fcntl.LOCK_UN)
        self.f.close()


def strip_comments(text):
    out, depth, i = [], 0, 0
    while i < len(text):
        if text.startswith('(*', i):
            depth += 1; i += 2
        elif text.startswith('*)', i) and depth:
            depth -= 1; i += 2
        else:
            if not depth:
                out.append(text[i])
            i += 1
    return ''.join(out)


def scan_forbidden():
    """The development must contain no Admitted/admit/Axiom/Parameter/... (Section-local Variable/Context
    is allowed: `Variable` is only accepted inside a Section, checked textually)."""
    bad = []
    for path in sorted(glob.glob(os.path.join(COQ, '**', '*.v'), recursive=True)):
        text = strip_comments(open(path).read())
        # drop string literals
        text = re.sub(r'"(?:[^"]|"")*"', '""', text)
        depth = 0
        for ln, line in enumerate(text.split('\n'), 1):
            if re.match(r'\s*Section\b', line):
                depth += 1
            if re.match(r'\s*End\b', line) and depth:
                depth -= 1
            m = FORBIDDEN.search(line)
            if m:
                w = m.group(0)
                if depth and w in ('Variable', 'Variables', 'Hypothesis', 'Hypotheses'):
                    continue
                bad.append('%s:%d: %s' % (os.path.relpath(path, VERIF), ln, w))
    return bad


def regenerate():
    """Tier G: regenerate coq/Gen/*.v from /repo.  Returns list of error strings."""
    sys.path.insert(0, os.path.join(VERIF, 'harness'))
    import py2coq
    py2coq.REPO = REPO
    py2coq.PKG = os.path.join(REPO, 'octoprint_excluderegion')
    changed, errors = py2coq.generate(os.path.join(COQ, 'Gen'))
    return changed, errors


def coq_files():
    files = []
    for line in open(os.path.join(COQ, '_CoqProject')):
        line = line.strip()
        if line.endswith('.v'):
            files.append(line)
    return files


def build_coq(timeout=1500):
    """Full .vo build (never -vos).  Returns dict: ok(bool), failed(list of .v), log(str)."""
    if not os.path.exists(os.path.join(COQ, 'Makefile')) or \
            os.path.getmtime(os.path.join(COQ, 'Makefile')) < os.path.getmtime(os.path.join(COQ, '_CoqProject')):
        sh('coq_makefile -f _CoqProject -o Makefile', cwd=COQ, timeout=120)
    rc, out = sh('timeout %d make -k -j%d TIMED=' % (timeout, NCPU), cwd=COQ, timeout=timeout + 60)
    failed = []
    for m in re.finditer(r'File "\./([^"]+\.v)", line (\d+)[^\n]*\n(Error[^\n]*(?:\n(?!make|COQC|File)[^\n]*){0,6})', out):
        failed.append((m.group(1), int(m.group(2)), m.group(3).strip()))
    missing = [f for f in coq_files() if not os.path.exists(os.path.join(COQ, f[:-2] + '.vo'))]
    return dict(ok=(rc == 0 and not missing), failed=failed, missing=missing, log=out)


def deps_cone(vfile):
    """Transitive ER.* dependencies of a .v file inside coq/ (by Require lines)."""
    seen, todo = set(), [vfile]
    known = set(coq_files())
    while todo:
        f = todo.pop()
        if f in seen:
            continue
        seen.add(f)
        try:
            text = strip_comments(open(os.path.join(COQ, f)).read())
        except OSError:
            continue
        for m in re.finditer(r'From\s+ER\s+Require\s+(?:Import|Export)\s', text):
            end = re.search(r'\.(?:\s|$)', text[m.end():])
            stmt = text[m.end():m.end() + (end.start() if end else 0)]
            for mod in stmt.split():
                cand = mod.replace('.', '/') + '.v'
                if cand in known:
                    todo.append(cand)
    return seen


def props_check(pid, timeout=600):
    """Compile Props/<pid>.v on its own, capture Print Assumptions.  Returns dict."""
    vf = 'Props/%s.v' % pid
    rc, out = sh('timeout %d coqc -Q . ER -w -notation-overridden,-ambiguous-paths %s' % (timeout, vf), cwd=COQ, timeout=timeout + 30)
    text = strip_comments(open(os.path.join(COQ, vf)).read())
    theorems = re.findall(r'^\s*(?:Theorem|Lemma|Corollary)\s+([A-Za-z_][\w\']*)', text, re.M)
    printed = re.findall(r'Print Assumptions\s+([A-Za-z_][\w\']*)', text)
    axioms = set()
    blocks = re.split(r'(?m)^(?=Axioms:|Closed under the global context)', out)
    nblocks = 0
    for b in blocks:
        if b.startswith('Axioms:'):
            nblocks += 1
            for m in re.finditer(r'(?m)^([A-Za-z_][\w.\']*)\s*(?:$|:)', b[len('Axioms:'):]):
                axioms.add(m.group(1))
        elif b.startswith('Closed under'):
            nblocks += 1
    err = None
    if rc != 0:
        m = re.search(r'File "[^"]*", line (\d+)[^\n]*\n(Error[^\n]*(?:\n[^\n]*){0,5})', out)
        err = ('line %s: %s' % (m.group(1), m.group(2).strip())) if m else out[-500:]
    return dict(ok=(rc == 0), theorems=theorems, printed=printed, axioms=sorted(axioms), nblocks=nblocks, error=err, log=out)


STD_AXIOMS = {
    'ClassicalDedekindReals.sig_forall_dec', 'ClassicalDedekindReals.sig_not_dec',
    'FunctionalExtensionality.functional_extensionality_dep', 'Classical_Prop.classic',
}


def run_casefile(name, vtext, timeout=900):
    """Compile a generated case file with coqc (vm_compute inside).  Returns (rc, stdout)."""
    d = os.path.join(BUILD, 'cases')
    os.makedirs(d, exist_ok=True)
    path = os.path.join(d, name + '.v')
    open(path, 'w').write(vtext)
    rc, out = sh('ulimit -s unlimited 2>/dev/null; timeout %d coqc -Q %s ER -w -notation-overridden,-ambiguous-paths -q %s' % (timeout, COQ, path),
                 cwd=d, timeout=timeout + 30)
    for ext in ('.vo', '.vok', '.vos', '.glob'):
        try:
            os.remove(os.path.join(d, name + ext))
        except OSError:
            pass
    try:
        os.remove(os.path.join(d, '.' + name + '.aux'))
    except OSError:
        pass
    return rc, out


def run_casefiles(named_texts, timeout=900):
    """Compile several case files in parallel.  -> list of (name, rc, out)."""
    from concurrent.futures import ThreadPoolExecutor
    with ThreadPoolExecutor(max_workers=NCPU) as ex:
        futs = [(n, ex.submit(run_casefile, n, t, timeout)) for n, t in named_texts]
        return [(n, ) + f.result() for n, f in futs]


def parse_nat_list(out):
    """Parse `= [1; 2; 3]%nat : list nat` / `= [] : list nat` printed by Eval vm_compute."""
    m = re.search(r'=\s*(\[[^\]]*\])', out)
    if not m:
        return None
    body = m.group(1)[1:-1].strip()
    if not body:
        return []
    return [int(x.strip().split('%')[0]) for x in body.replace('\n', ' ').split(';') if x.strip()]


# ---------------------------------------------------------------- Coq term printers (Q instance)
from fractions import Fraction


def q(v):
    """Exact rational -> Coq Q literal (reduced)."""
    f = Fraction(v)
    if f.numerator < 0:
        return '((-%d)#%d)' % (-f.numerator, f.denominator)
    return '(%d#%d)' % (f.numerator, f.denominator)


def qf(x):
    """float -> exact rational Coq literal"""
    return q(Fraction(x))


def qdec(s):
    """decimal text -> exact rational"""
    return q(Fraction(s))


def cstr(s):
    assert all(32 <= ord(c) < 127 for c in s), repr(s)
    return '"' + s.replace('"', '""') + '"'


def cbool(b):
    return 'true' if b else 'false'


def clist(items):
    return '[' + '; '.join(items) + ']'


def copt(x):
    return 'None' if x is None else '(Some %s)' % x


# ---------------------------------------------------------------- findings / replays / evidence
def known_findings():
    p = os.path.join(VERIF, 'known_findings.json')
    return json.load(open(p)) if os.path.exists(p) else {'findings': [], 'fixed': []}


def write_replay(pid, payload):
    os.makedirs(REPLAYS, exist_ok=True)
    blob = json.dumps(payload, sort_keys=True, default=str)
    h = hashlib.sha1(blob.encode()).hexdigest()[:10]
    path = os.path.join(REPLAYS, '%s-%s.json' % (pid, h))
    json.dump(payload, open(path, 'w'), indent=1, sort_keys=True, default=str)
    return path


def write_evidence(pid, tier, seed, coverage, assumptions, wall, violations):
    os.makedirs(EVID, exist_ok=True)
    ev = dict(property_id=pid, tier=tier, seed=seed, level='proof', coverage=coverage,
              assumptions=assumptions, wall_s=round(wall, 2), violations=violations)
    json.dump(ev, open(os.path.join(EVID, pid + '.json'), 'w'), indent=1, sort_keys=True, default=str)


class Rng(object):
    """All random choices derive from one PRNG state (VERIF_SEED)."""
    def __init__(self, seed):
        import random
        self.r = random.Random(seed)

    def __getattr__(self, k):
        return getattr(self.r, k)
