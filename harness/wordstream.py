"""The `words` correspondence stream (C19): GcodeParser.parameterItems against Model/Words.v, exhaustively
over an 8-symbol alphabet up to a length, plus rendered legal word lists in random spellings."""
import itertools, re, sys
from fractions import Fraction as F
import common as C
import lexstream as LS
from lexstream import mix, enc_ostring, cstring, parse_N_list
sys.path.insert(0, C.REPO)
from octoprint_excluderegion.GcodeParser import GcodeParser

WALPHABET = [' ', 'X', 'e', '1', '.', '+', '-', '@']
HEADER = ('From Coq Require Import NArith String Ascii List.\nFrom ER Require Import Model.Lexer Model.LexCases Model.Words Model.WordCases.\n'
          'Import ListNotations.\nOpen Scope string_scope.\n')


def impl_items(s):
    return list(GcodeParser().parameterItems(s))


def enc_items(s, h=0):
    its = impl_items(s)
    sa = None
    if its and its[-1][0] == '':
        sa = its[-1][1]
        its = its[:-1]
    h = mix(h, 5)
    for name, val in its:
        h = mix(h, ord(name))
        if val is None:
            h = mix(h, 1000)
        else:
            h = mix(h, 1001)
            q = F(repr(val))
            h = mix(h, 0 if q.numerator == 0 else (2 * abs(q.numerator) + (1 if q.numerator < 0 else 0)))
            h = mix(h, q.denominator)
    return enc_ostring(sa, h)


def wdigest(strings):
    h = 0
    for s in strings:
        h = enc_items(s, h)
    return h


def wall(n):
    return (''.join(t) for t in itertools.product(WALPHABET, repeat=n))


def exhaustive(maxlen):
    files = [('w_len%d' % (n + 1), HEADER + 'Eval vm_compute in (wshard_digests %d).\n' % n) for n in range(0, maxlen)]
    files.append(('w_len0', HEADER + 'Eval vm_compute in [wdigest [""]].\n'))
    dis, total = [], 0
    for (name, rc, out) in C.run_casefiles(files, timeout=1500):
        got = parse_N_list(out) if rc == 0 else None
        if got is None:
            dis.append(dict(kind='casefile-failed', what=out[-800:], shard=name)); continue
        n = int(name[len('w_len'):])
        shards = [['']] if n == 0 else [[a + t for t in wall(n - 1)] for a in WALPHABET]
        total += sum(len(x) for x in shards)
        for k, (sh, g) in enumerate(zip(shards, got)):
            if wdigest(sh) != g:
                bad = explicit(sh[:4000], 'w_loc')
                dis.append(dict(kind='model!=impl', stream='words', shard='%s/%d' % (name, k), case=bad[:1]))
    return total, dis


def explicit(strings, tag):
    bad = []
    per = 2000
    files = [('%s_%d' % (tag, k // per), HEADER + 'Eval vm_compute in (map wcase_digest [\n%s\n]).\n' % ';\n'.join(cstring(s) for s in strings[k:k + per]))
             for k in range(0, len(strings), per)]
    for (name, rc, out), k in zip(C.run_casefiles(files), range(0, len(strings), per)):
        got = parse_N_list(out) if rc == 0 else None
        if got is None:
            bad.append(dict(kind='casefile-failed', what=out[-800:])); continue
        for s, g in zip(strings[k:k + per], got):
            if enc_items(s) != g:
                bad.append(dict(kind='model!=impl', stream='words', case=dict(input=repr(s), impl=repr(impl_items(s)))))
    return bad


# ---- legal word lists in random spellings (the reference reading is the generator's own word list)
LETTERS = 'XYZEFIJRSPT'


def rnd_words(rng):
    ws = []
    for _ in range(rng.randint(0, 6)):
        l = rng.choice(LETTERS)
        if rng.random() < 0.15:
            ws.append((l, None))
        else:
            sign = rng.choice(['', '', '-', '+'])
            ip = rng.choice(['', '0', '5', '12', '007', '123456'])
            fp = rng.choice(['', '5', '25', '000', '125', '000004', '1234567', '123456789', '00000049'])
            if not ip and not fp:
                ip = '3'
            ws.append((l, (sign, ip, fp)))
    return ws


def spell(rng, ws):
    """-> (text, has_extra) ; has_extra: spelling features that add a string-argument item (trailing dot / blank, flags)"""
    out = ''
    for k, (l, v) in enumerate(ws):
        out += rng.choice(['', ' ', '  ']) if k else rng.choice(['', ' '])
        out += l if rng.random() < 0.7 else l.lower()
        if v is None:
            continue
        sign, ip, fp = v
        out += rng.choice(['', '', ' '])
        if fp:
            out += sign + ip + '.' + fp
        else:
            out += sign + ip + (rng.choice(['', '', '.']) if ip else '')
    out += rng.choice(['', '', ' '])
    return out


def value_of(v):
    sign, ip, fp = v
    q = F(int(ip or '0')) + (F(int(fp), 10 ** len(fp)) if fp else 0)
    return -q if sign == '-' else q
