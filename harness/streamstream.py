"""The `stream` correspondence stream (C20): whole files through the real StreamProcessor.process_line and through
Model/Stream.v; plus the live twin (the queuing hooks driven the way OctoPrint drives them) for the oracle."""
import copy, io, re
from fractions import Fraction as F
import common as C
import impl, reader, arcs, genprog
import filterstream as FS
from octoprint.util.comm import gcode_and_subcode_for_cmd, process_gcode_line

HEADER = ('From Coq Require Import QArith String Ascii List.\n'
          'From ER Require Import Base.Num Model.Lexer Model.Words Model.Geometry Model.Axis Model.Filter Model.Stream Model.Cases Model.Run Model.RunStream.\n'
          'Import ListNotations.\nOpen Scope Q_scope.\nOpen Scope string_scope.\n')


def cstring(s):
    from lexstream import cstring as cs
    return cs(s)


def checksum(s):
    c = 0
    for b in s.encode('utf-8'):
        c ^= b
    return c


def decorate(rng, cmd, n, eol):
    """one file line for a command: leading blanks, line number + checksum, trailing blanks, comment, eol"""
    lead = rng.choice(['', '', '', ' ', '  '])
    body = cmd
    if rng.random() < 0.08:
        body = body.replace('G1 ', rng.choice(['G01 ', 'G1  ', 'G001 ']), 1)
    if rng.random() < 0.15:
        body = 'N%d %s' % (n, body)
        if rng.random() < 0.8:
            body += ' ' if rng.random() < 0.5 else ''
            body += '*%d' % checksum(body)
    trail = rng.choice(['', '', ' ', '   '])
    comment = rng.choice(['', '', '', '; perimeter', ';', ' ; x * 3 \\; y'])
    return lead + body + trail + comment + eol


def gen_file(rng):
    p = genprog.Gen(rng, addregions=False, layers=1).program()
    eol = rng.choice(['\n', '\n', '\r\n'])
    lines = []
    cmds = [e for e in p['events']]
    pre = []
    # part of the program has already been handled live when the processor is created
    k = rng.randint(1, max(1, len(cmds) // 3))
    pre = [e[1] for e in cmds[:k] if e[0] == 'cmd']
    for n, e in enumerate(cmds[k:]):
        if e[0] == 'cmd':
            lines.append(decorate(rng, e[1], n, eol if rng.random() < 0.97 else rng.choice(['\n', '\r\n', '\r'])))
        else:
            lines.append(rng.choice(['', ' ']) + e[1] + rng.choice(['', ' ; c']) + eol)
        r = rng.random()
        if r < 0.05:
            lines.append(eol)
        elif r < 0.08:
            lines.append('   ' + eol)
        elif r < 0.12:
            lines.append('; layer %d' % n + eol)
        elif r < 0.13:
            lines.append('hello world' + eol)
        elif r < 0.14:
            lines.append('@pause' + eol)
    if lines and rng.random() < 0.4:
        lines[-1] = lines[-1].rstrip('\r\n')
    return dict(prog=p, pre=pre, lines=lines)


class Run(object):
    def __init__(self, f):
        self.f = f
        p = f['prog']
        self.h = impl.new_handlers(p['regions'], g90e=p['g90e'], enter=p['enter'], exit_=p['exit'], ext=p['ext'])
        self.pre_rows = []
        ir = FS.ImplRun.__new__(FS.ImplRun)
        ir.h, ir.parser, ir.prog = self.h, impl.GcodeParser(), p
        for line in f['pre']:
            self.pre_rows.append(ir.cmd(line))
        self.live_before = fingerprint(self.h.state)
        self.sp = impl.StreamProcessor(io.BytesIO(b''), self.h)

    def run(self):
        """-> rows: (coq sline, result text or None, handler result)"""
        sp = self.sp
        rows = []
        parser = impl.GcodeParser()
        for line in self.f['lines']:
            st = sp.gcodeHandlers.state
            # arc data for the model, from the processor's own tracked position (as in the filter stream)
            ij, mid = 'None', '[]'
            parser.parse(line)
            matched = '[]'
            if parser.gcode in ('G2', 'G3') and st.position.X_AXIS.current is not None:
                items = list(parser.parameterItems())
                lx, ly = st.position.X_AXIS.nativeToLogical(), st.position.Y_AXIS.nativeToLogical()
                w = dict((k, v) for k, v in items if isinstance(v, float))
                ex, ey = w.get('X', lx), w.get('Y', ly)
                cw = parser.gcode == 'G2'
                if 'R' in w:
                    i, j = arcs.center_from_radius(lx, ly, ex, ey, w['R'], cw)
                    ij = '(Some (%s, %s))' % (FS.fq(i), FS.fq(j))
                else:
                    i, j = w.get('I', 0), w.get('J', 0)
                if i or j:
                    pts = arcs.plan(lx, ly, ex, ey, i, j, cw)
                    mid = C.clist(['(%s, %s)' % (FS.fq(a), FS.fq(b)) for a, b in pts[:-1]])
            if parser.type is None and parser.text.startswith('@'):
                parts = parser.text.split(None, 1)
                cmd, params = parts[0][1:], (parts[1] if len(parts) > 1 else '')
                entries = st.atCommandActions.get(cmd) or []
                matched = C.clist(['AtEnable' if e.action == 'enable_exclusion' else 'AtDisable' for e in entries if e.matches(cmd, params)])
            seen = {}
            real = sp.gcodeHandlers.handleGcode

            def spy(cmd, g, s=None, _real=real, _seen=seen):
                _seen['r'] = _real(cmd, g, s)
                _seen['called'] = True
                return _seen['r']
            sp.gcodeHandlers.handleGcode = spy
            try:
                out = sp.process_line(line)
            finally:
                del sp.gcodeHandlers.handleGcode
            eol = sp._eol if sp._eol is not None else '\n'
            if out is None:
                x = 'XDrop'
            elif out == line and not (seen.get('called') and seen.get('r') is not None):
                x = 'XKeep'
            else:
                parts = split_eol(out, eol)
                if parts is None:
                    x = '(XLines [mkE "<<output not terminated by the expected eol>>" "" []] %s)' % cstring(eol)
                else:
                    x = '(XLines %s %s)' % (C.clist([FS.coq_ecmd(t) for t in parts]), cstring(eol))
            rows.append(('(mkSLine %s %s %s %s %s)' % (cstring(line), ij, mid, matched, x), out, seen.get('r')))
        self.live_after = fingerprint(self.h.state)
        return rows


def split_eol(out, eol):
    if not out.endswith(eol):
        return None
    body = out[:-len(eol)]
    return body.split(eol)


def fingerprint(s):
    import json
    return json.dumps(dict(pos=s.position.toDict(), feed=s.feedRate, frm=s.feedRateUnitMultiplier, en=s._exclusionEnabled, exc=s.excluding,
                           ret=(None if s.lastRetraction is None else s.lastRetraction.toDict()),
                           last=(None if s.lastPosition is None else s.lastPosition.toDict()),
                           pend=[(k, (dict(v) if hasattr(v, 'items') else v)) for k, v in s.pendingCommands.items()],
                           regs=[r.toDict() for r in s.excludedRegions], n=s.numCommands, nx=s.numExcludedCommands), sort_keys=True, default=str)


def coq_case(f, run, rows):
    p = f['prog']
    cfg = '(mkCfg %s %s %s %s)' % (C.cbool(p['g90e']), C.clist([C.cstr(s) for s in (p['enter'] or [])]), C.clist([C.cstr(s) for s in (p['exit'] or [])]),
                                  C.clist(['(%s, %s)' % (C.cstr(g), FS.MODE_COQ[m]) for g, m in sorted(p['ext'].items())]))
    regs = C.clist([FS.coq_region(r) for r in p['regions']])
    pre = C.clist([r[0][len('(ECmd '):-1] for r in run.pre_rows])
    return '(mkSCase %s %s %s %s)' % (cfg, regs, pre, C.clist([r[0] for r in rows]))


def casefile(cases, what='failing'):
    q = 'Eval vm_compute in (failing scase_ok cases).' if what == 'failing' else 'Eval vm_compute in (map scase_first_bad cases).'
    return HEADER + 'Definition cases : list scase := [\n%s\n].\n%s\n' % (';\n'.join(cases), q)


def run_files(files, tag, per=25):
    runs, rows_all = [], []
    for f in files:
        r = Run(f)
        runs.append(r)
        rows_all.append(r.run())
    shards = []
    for s in range(0, len(files), per):
        shards.append(('%s_%d' % (tag, s // per), casefile([coq_case(f, r, rows) for f, r, rows in zip(files[s:s + per], runs[s:s + per], rows_all[s:s + per])]),
                       list(range(s, min(len(files), s + per)))))
    dis = []
    for (name, rc, out), (_, _, idx) in zip(C.run_casefiles([(n, t) for n, t, _ in shards]), shards):
        bad = C.parse_nat_list(out) if rc == 0 else None
        if bad is None:
            dis.append(dict(kind='casefile-failed', what=out[-1500:], shard=name)); continue
        for b in bad:
            k = idx[b]
            rc2, out2 = C.run_casefile('sdiag', casefile([coq_case(files[k], runs[k], rows_all[k])], 'first'))
            m = re.search(r'Some\s+(\d+)', out2)
            step = int(m.group(1)) if m else None
            dis.append(dict(kind='model!=impl', stream='stream',
                            case=dict(first_bad_line=step, line=(repr(files[k]['lines'][step]) if step is not None else None),
                                      impl_output=(repr(rows_all[k][step][1]) if step is not None else None),
                                      pre=files[k]['pre'][-5:], lines=[repr(l) for l in files[k]['lines'][:(step + 1 if step is not None else 10)]][-12:],
                                      regions=[[str(x) for x in r] for r in files[k]['prog']['regions']])))
    return sum(len(r) for r in rows_all), dis, runs, rows_all, len(shards)


# ------------------------------------------------------------------------------------------ live twin (oracle)
_NCS = re.compile(r'^\s*[Nn]\d+\s*(.*?)\s*(\*\d+)?\s*$')


def live_twin_outputs(h, line):
    """what the live queuing hooks would send for this file line (OctoPrint: comment stripped, blanks stripped; line number and
    checksum are the sender's business and are stripped too).  -> ('keep',) | ('drop',) | ('lines', [cmds])"""
    cmd = process_gcode_line(line.rstrip('\r\n'))
    if cmd is None:
        return ('keep',)
    m = _NCS.match(cmd)
    if m:
        cmd = m.group(1)
    if cmd.startswith('@'):
        parts = cmd.split(None, 1)
        comm = impl.Comm()
        handled = h.handleAtCommand(comm, parts[0][1:], parts[1] if len(parts) > 1 else '')
        if not handled:
            return ('keep',)
        return ('lines', list(comm.sent)) if comm.sent else ('drop',)
    gcode, sub = gcode_and_subcode_for_cmd(cmd)
    if not gcode:
        return ('keep',)
    r = h.handleGcode(cmd, gcode, sub)
    if r is None:
        return ('keep',)
    if r == impl.IGNORE_GCODE_CMD:
        return ('drop',)
    return ('lines', list(r))


def live_twin_outputs_plugin(p, line):
    """as live_twin_outputs, but through the plugin's own queuing hooks (what OctoPrint really calls while printing)"""
    import implplugin as IP
    cmd = process_gcode_line(line.rstrip('\r\n'))
    if cmd is None:
        return ('keep',)
    m = _NCS.match(cmd)
    if m:
        cmd = m.group(1)
    if cmd.startswith('@'):
        parts = cmd.split(None, 1)
        comm = IP.Comm()
        before = len(comm.sent)
        p.handleAtCommandQueuing(comm, 'queuing', parts[0][1:], parts[1] if len(parts) > 1 else '')
        entries = p.state.atCommandActions.get(parts[0][1:]) or []
        handled = any(e.matches(parts[0][1:], parts[1] if len(parts) > 1 else '') for e in entries)
        if not handled:
            return ('keep',)
        return ('lines', list(comm.sent)) if comm.sent else ('drop',)
    gcode, sub = gcode_and_subcode_for_cmd(cmd)
    if not gcode:
        return ('keep',)
    r = p.handleGcodeQueuing(IP.Comm(), 'queuing', cmd, None, gcode, subcode=sub)
    if r is None:
        return ('keep',)
    if r == impl.IGNORE_GCODE_CMD:
        return ('drop',)
    return ('lines', list(r))
