"""The `filter` correspondence stream: run the real GcodeHandlers/ExcludeRegionState and the
Coq model (Q instance, vm_compute) on the same histories and compare every hook result."""
import json, re
from fractions import Fraction as F
import common as C
import impl, reader, arcs
from octoprint.util.comm import gcode_and_subcode_for_cmd

MODE_COQ = {'exclude': 'XExclude', 'first': 'XFirst', 'last': 'XLast', 'merge': 'XMerge'}


def fq(x):
    """float -> small exact rational literal (shortest repr)"""
    if isinstance(x, F):
        return C.q(x)
    if isinstance(x, int):
        return C.q(F(x))
    return C.q(F(repr(float(x))))


def coq_region(r):
    if r[0] == 'rect':
        return '(mk_rect %s %s %s %s %s)' % (C.cstr(r[1]), fq(r[2]), fq(r[3]), fq(r[4]), fq(r[5]))
    return '(Circ %s %s %s %s)' % (C.cstr(r[1]), fq(r[2]), fq(r[3]), fq(r[4]))


def coq_witems(items):
    out = []
    for k, v in items:
        if v is None:
            mv = 'MNone'
        elif isinstance(v, str):
            mv = '(MStr %s)' % C.cstr(v)
        else:
            mv = '(MNum %s)' % fq(v)
        out.append('(%s, %s)' % (C.cstr(k), mv))
    return C.clist(out)


def coq_ecmd(text):
    c = reader.read(text)
    if c is None or c.rest:
        return '(mkE %s "" [])' % C.cstr(text)
    return '(mkE %s %s %s)' % (C.cstr(text), C.cstr(c.code), coq_witems(c.words))


def normalise_code(g):
    g = g.upper()
    if g[1:].isdigit():
        g = g[0] + str(int(g[1:]))
    return g


class ImplRun(object):
    """Runs one program through the real objects, recording for every event the model input
    (as Coq text) and the implementation's answer (as Coq text + python)."""

    def __init__(self, prog):
        self.prog = prog
        self.h = impl.new_handlers(prog['regions'], g90e=prog['g90e'], enter=prog['enter'], exit_=prog['exit'], ext=prog['ext'])
        self.parser = impl.GcodeParser()

    def run(self, with_pos=True):
        rows = []      # (coq_event, coq_eres, py_result)
        h = self.h
        for ev in self.prog['events']:
            if ev[0] == 'cmd':
                rows.append(self.cmd(ev[1]))
            elif ev[0] == 'add':
                r = ev[1]
                try:
                    h.state.addRegion(impl.mk_region(r))
                    ok = True
                except ValueError:
                    ok = False
                rows.append(('(EAdd %s)' % coq_region(r), '(RAdded %s)' % C.cbool(ok), ('added', ok)))
            elif ev[0] == 'at':
                rows.append(self.at(ev[1], ev[2] if len(ev) > 2 else False))
        if with_pos:
            p = h.state.position
            vals = [p.X_AXIS.current, p.Y_AXIS.current, p.Z_AXIS.current, p.E_AXIS.current]
            rows.append(('EPos', '(RPos %s)' % ' '.join(fq(v) for v in vals), ('pos', vals)))
        return rows

    def at(self, line, streaming=False):
        h = self.h
        parts = line.split(None, 1)
        cmd, params = parts[0][1:], (parts[1] if len(parts) > 1 else '')
        entries = h.state.atCommandActions.get(cmd) or []
        matched = ['AtEnable' if e.action == 'enable_exclusion' else 'AtDisable' for e in entries if e.matches(cmd, params)]
        comm = impl.Comm(streaming)
        handled = bool(h.handleAtCommand(comm, cmd, params))
        return ('(EAt %s %s)' % (C.cbool(streaming), C.clist(matched)),
                '(RAt %s %s)' % (C.cbool(handled), C.clist([coq_ecmd(t) for t in comm.sent])),
                ('at', handled, list(comm.sent)))

    def cmd(self, line):
        h = self.h
        gcode, sub = gcode_and_subcode_for_cmd(line)
        if not gcode:
            # the queuing hook does nothing without a gcode; the model is not invoked either
            return ('(ECmd (mkCmd %s "" [] None []))' % C.cstr(line), 'RUnchanged', ('unchanged', None))
        code = normalise_code(gcode)
        items = list(self.parser.parse(line).parameterItems())
        ij, mid = 'None', '[]'
        if code in ('G2', 'G3'):
            st = h.state.position
            if st.X_AXIS.current is None or st.Y_AXIS.current is None:
                lx = ly = 0.0      # not homed: only reachable while no print is active (the hook ignores the command)
            else:
                lx, ly = st.X_AXIS.nativeToLogical(), st.Y_AXIS.nativeToLogical()
            w = dict((k, v) for k, v in items if isinstance(v, float))
            ex, ey = w.get('X', lx), w.get('Y', ly)
            cw = (code == 'G2')
            if 'R' in w:
                i, j = arcs.center_from_radius(lx, ly, ex, ey, w['R'], cw)
                ij = '(Some (%s, %s))' % (fq(i), fq(j))
            else:
                i, j = w.get('I', 0), w.get('J', 0)
            if i or j:
                pts = arcs.plan(lx, ly, ex, ey, i, j, cw)
                mid = C.clist(['(%s, %s)' % (fq(a), fq(b)) for a, b in pts[:-1]])
        ev = '(ECmd (mkCmd %s %s %s %s %s))' % (C.cstr(line), C.cstr(code), coq_witems(items), ij, mid)
        r = h.handleGcode(line, gcode, sub)
        if r is None:
            return (ev, 'RUnchanged', ('unchanged', None))
        if r == impl.IGNORE_GCODE_CMD:
            return (ev, 'RSuppress', ('suppress', None))
        if isinstance(r, list) and r and all(isinstance(x, str) for x in r):
            return (ev, '(RReplace %s)' % C.clist([coq_ecmd(t) for t in r]), ('replace', list(r)))
        return (ev, '(RReplace [mkE "<<illegal result shape>>" "" []])', ('illegal', repr(r)))


def coq_case(prog, rows):
    cfg = '(mkCfg %s %s %s %s)' % (
        C.cbool(prog['g90e']),
        C.clist([C.cstr(s) for s in (prog['enter'] or [])]),
        C.clist([C.cstr(s) for s in (prog['exit'] or [])]),
        C.clist(['(%s, %s)' % (C.cstr(g), MODE_COQ[m]) for g, m in sorted(prog['ext'].items())]))
    regs = C.clist([coq_region(r) for r in prog['regions']])
    hist = C.clist(['(%s, %s)' % (a, b) for a, b, _ in rows])
    return '(mkCase %s %s %s)' % (cfg, regs, hist)


HEADER = ('From Coq Require Import QArith String List.\n'
          'From ER Require Import Base.Num Model.Geometry Model.Axis Model.Filter Model.Cases Model.Run.\n'
          'Import ListNotations.\nOpen Scope Q_scope.\nOpen Scope string_scope.\n')


def casefile(cases, what='failing'):
    body = ';\n'.join(cases)
    if what == 'failing':
        q = 'Eval vm_compute in (failing fcase_ok cases).'
    else:
        q = 'Eval vm_compute in (map fcase_first_bad cases).'
    return HEADER + 'Definition cases : list fcase := [\n%s\n].\n%s\n' % (body, q)


def run_programs(progs, tag, per=40):
    """-> (n_events, disagreements[list of dict], impl_rows per program)"""
    all_rows, texts, errors = [], [], []
    for p in progs:
        try:
            rows = ImplRun(p).run()
        except Exception as e:      # the implementation raised: not a correspondence matter, reported by C09's oracle
            rows = None
            errors.append((p, '%s: %s' % (type(e).__name__, e)))
        all_rows.append(rows)
    idx = [k for k, r in enumerate(all_rows) if r is not None]
    shards = []
    for s in range(0, len(idx), per):
        chunk = idx[s:s + per]
        shards.append(('%s_%d' % (tag, s // per), casefile([coq_case(progs[k], all_rows[k]) for k in chunk]), chunk))
    dis = []
    for (name, rc, out), (_, _, chunk) in zip(C.run_casefiles([(n, t) for n, t, _ in shards]), shards):
        bad = C.parse_nat_list(out) if rc == 0 else None
        if bad is None:
            dis.append(dict(kind='casefile-failed', what=out[-1200:], shard=name))
            continue
        for b in bad:
            dis.append(dict(kind='model!=impl', prog=progs[chunk[b]], rows=all_rows[chunk[b]]))
    return sum(len(r) for r in all_rows if r), dis, all_rows, errors, len(shards)


def first_bad_step(prog, rows):
    rc, out = C.run_casefile('diag', casefile([coq_case(prog, rows)], 'first'))
    m = re.search(r'Some\s+(\d+)', out)
    return int(m.group(1)) if m else None


def shrink(prog, max_rounds=3):
    """Greedy event deletion keeping model!=impl; the program is first cut after the first disagreeing step;
    each round is one coqc call over (at most 24) deletions of blocks of events."""
    cur = prog
    try:
        rows = ImplRun(cur).run(with_pos=False)
        k = first_bad_step(cur, rows)
        if k is not None and k + 1 < len(cur['events']):
            cut = dict(cur)
            cut['events'] = cur['events'][:k + 1]
            cur = cut
    except Exception:
        pass
    for _ in range(max_rounds):
        evs = cur['events']
        if len(evs) <= 3:
            break
        variants = []
        step = max(1, len(evs) // 24)
        for k in range(1, len(evs) - 1, step):
            v = dict(cur)
            v['events'] = evs[:k] + evs[k + step:]
            variants.append(v)
        n, dis, _, errors, _ = run_programs(variants, 'shrink', per=8)
        cand = [d['prog'] for d in dis if d.get('kind') == 'model!=impl']
        if not cand:
            break
        cur = min(cand, key=lambda p: len(p['events']))
    return cur


def describe(prog, rows):
    k = first_bad_step(prog, rows)
    d = dict(first_bad_step=k, cfg=dict(g90e=prog['g90e'], enter=prog['enter'], exit=prog['exit'], ext=prog['ext']),
             regions=[[str(x) for x in r] for r in prog['regions']],
             events=[list(map(str, e)) for e in prog['events']])
    if k is not None and k < len(rows):
        d['impl_result_at_step'] = repr(rows[k][2])
        d['event_at_step'] = rows[k][0][:300]
    return d
