"""Independent, strict firmware-style (RS274 / Marlin) reader of one command line.
Not GcodeParser: written from the dialect description, used by the correspondence (to read back
what the implementation emitted) and by the oracles.

A number is [+-]digits[.digits] | [+-].digits  -- no exponent: like Marlin, a letter 'E'/'e'
following a number starts the next word."""
import re
from fractions import Fraction

_CODE = re.compile(r'\s*([GMTgmt])\s*(\d+)(?:\.(\d+))?')
_WORD = re.compile(r'\s*([A-Za-z])\s*([-+]?(?:\d+\.?\d*|\.\d+))?')


class Cmd(object):
    __slots__ = ('text', 'code', 'sub', 'words', 'rest')

    def __init__(self, text, code, sub, words, rest):
        self.text, self.code, self.sub, self.words, self.rest = text, code, sub, words, rest

    def get(self, letter):
        """last value wins"""
        v = None
        for k, x in self.words:
            if k == letter and x is not None:
                v = x
        return v

    def has(self, letter):
        return any(k == letter for k, _ in self.words)

    def __repr__(self):
        return 'Cmd(%r,%r,%r,rest=%r)' % (self.code, self.sub, self.words, self.rest)


def read(line):
    """-> Cmd or None (not a G/M/T command).  `rest` is whatever could not be read as words."""
    s = line.split(';', 1)[0].rstrip()
    m = _CODE.match(s)
    if not m:
        return None
    code = m.group(1).upper() + str(int(m.group(2)))
    pos = m.end()
    words = []
    while True:
        w = _WORD.match(s, pos)
        if not w or w.end() == pos:
            break
        val = Fraction(w.group(2)) if w.group(2) is not None and re.search(r'\d', w.group(2)) else None
        words.append((w.group(1).upper(), val))
        pos = w.end()
    return Cmd(line, code, m.group(3), words, s[pos:].strip())


def well_formed(line, flags=()):
    """C07: one code, distinct letters, every word has a plain-decimal finite number, nothing left over.
    `flags`: letters whose intended reading is "given without a value" (a flag of the original command carried over)."""
    c = read(line)
    if c is None or c.rest:
        return False, 'unreadable remainder %r' % (c.rest if c else line)
    letters = [k for k, _ in c.words]
    if len(set(letters)) != len(letters):
        return False, 'repeated parameter letter in %r' % line
    if any(v is None and k not in flags for k, v in c.words):
        return False, 'parameter without number in %r' % line
    if re.search(r'[0-9.][eE][-+0-9]', line.split(None, 1)[1] if ' ' in line else ''):
        return False, 'exponent notation in %r' % line
    return True, ''
