"""Shared correspondence / oracle plumbing for the properties served by the `filter` stream."""
import json, os
from fractions import Fraction as F
import common as C
import genprog, filterstream as FS, oracles as O


def load_corpus(pid):
    """minimized past failing inputs / regression seeds; run first"""
    progs = []
    path = os.path.join(C.CORPUS, 'filter.json')
    if os.path.exists(path):
        for e in json.load(open(path)):
            if pid in e['props'] or '*' in e['props']:
                progs.append((e['name'], corpus_prog(e)))
    return progs


def corpus_prog(e):
    regs = []
    for r in e.get('regions', []):
        regs.append(tuple([r[0], r[1]] + [F(str(x)) for x in r[2:]]))
    evs = []
    for l in e['lines']:
        if isinstance(l, list):
            if l[0] == 'add':
                evs.append(('add', tuple([l[1][0], l[1][1]] + [F(str(x)) for x in l[1][2:]])))
            else:
                evs.append(tuple(l))
        elif l.startswith('@'):
            evs.append(('at', l))
        else:
            evs.append(('cmd', l))
    return dict(g90e=e.get('g90e', False), enter=e.get('enter'), exit=e.get('exit'), ext=e.get('ext', dict(genprog.DEFAULT_EXT)),
                regions=regs, events=evs, style=e.get('style', 'eonly'), alen=e.get('alen', '1'))


def gen_programs(ctx, n, gen_kwargs, accept=None):
    progs = []
    tries = 0
    while len(progs) < n and tries < n * 20:
        tries += 1
        kw = dict(gen_kwargs)
        p = genprog.Gen(ctx.rng, **kw).program()
        if accept is None or accept(p):
            progs.append(p)
    return progs


def stats(rows_list):
    d = dict(events=0, unchanged=0, suppress=0, replace=0, at=0, added=0)
    for rows in rows_list:
        if not rows:
            continue
        for _, _, py in rows:
            d['events'] += 1
            if py[0] in d:
                d[py[0]] += 1
    return d


def correspondence(ctx, pid, gen_kwargs, nq, nt, accept=None, extra_progs=()):
    n = ctx.n(nq, nt)
    corpus = [p for _, p in load_corpus(pid)]
    progs = corpus + list(extra_progs) + gen_programs(ctx, n, gen_kwargs, accept)
    nev, dis, rows, errors, shards = FS.run_programs(progs, pid.lower())
    out = []
    for n_, d in enumerate(dis[:3]):
        if d.get('kind') == 'model!=impl':
            small = FS.shrink(d['prog']) if n_ == 0 else d['prog']
            rr = FS.ImplRun(small).run()
            out.append(dict(kind='model!=impl', stream='filter', case=FS.describe(small, rr)))
        else:
            out.append(d)
    out += [dict(kind='model!=impl', stream='filter', case='(further disagreement)') for _ in dis[3:]]
    nontriv = set()
    for p, r in zip(progs, rows):
        if r and any(py[0] == 'suppress' for _, _, py in r):
            nontriv.add(json.dumps([list(map(str, e)) for e in p['events']])[:4000])
    st = stats(rows)
    return dict(evaluations=len(progs), distinct_nontrivial=len(nontriv), shards=shards, events=nev, distribution=st,
                impl_exceptions=[e[1] for e in errors][:5],
                rule='slicer-shaped programs (layers, islands, travels with retract/recover, Z hops, arcs, G92 E, G20/G21, G90/G91, '
                     'deferred codes, @-commands, region additions) x region sets placed on the path; every hook result of the real '
                     'GcodeHandlers is compared with the Coq model evaluated by vm_compute; non-trivial = distinct program in which at '
                     'least one command was suppressed',
                samples=[dict(regions=[[str(x) for x in r] for r in progs[-1]['regions']],
                              events=[list(map(str, e)) for e in progs[-1]['events'][:12]])],
                disagreements=out)


def oracle(ctx, pid, checks, gen_kwargs, n, accept=None, replay=None, want_touch=None, extra_progs=()):
    """checks: list of functions (prog, steps[, exc]) -> failures"""
    fails, dist = [], dict(programs=0, episodes=0, steps=0, corpus=0)
    progs = []
    if replay:
        rp = json.load(open(replay))
        case = rp.get('case') or {}
        if isinstance(case, dict) and 'events' in case:
            progs.append(('replay', replay_prog(case)))
    for name, p in load_corpus(pid):
        progs.append((name, p))
        dist['corpus'] += 1
    for p in extra_progs:
        progs.append(('extra', p))
    for p in gen_programs(ctx, n, gen_kwargs, accept):
        progs.append(('gen', p))
    samples = []
    for name, p in progs:
        steps, exc = O.simulate(p)
        O.episodes(steps)
        if want_touch is not None and O.touches_region(steps) != want_touch and name in ('gen', 'extra'):
            continue
        dist['programs'] += 1
        dist['steps'] += len(steps)
        dist['episodes'] += sum(1 for s in steps if s.opens)
        fs = []
        for chk in checks:
            fs += chk(p, steps, exc) if chk is O.check_C09 else chk(p, steps)
        if fs:
            f = min(fs, key=lambda x: x['step'])
            f['source'] = name
            fails.append(f)
        if len(samples) < 2 and name == 'gen':
            samples.append([list(map(str, e)) for e in p['events'][:10]])
    return dict(evaluations=dist['programs'], failures=fails, samples=samples, distribution=dist)


def replay_prog(case):
    regs = [tuple([r[0], r[1]] + [F(x) for x in r[2:]]) for r in case.get('regions', [])]
    evs = []
    for e in case['events']:
        if e[0] == 'add':
            r = eval(e[1], {'Fraction': F})
            evs.append(('add', r))
        else:
            evs.append(tuple(e))
    return dict(g90e=case.get('g90e', False), enter=case.get('enter'), exit=case.get('exit'), ext=case.get('ext', {}),
                regions=regs, events=evs, style='eonly', alen='1')
