"""C18 -- parser is lossless and its normalisation is stable."""
import itertools
import common as C
import lexstream as LS
from octoprint_excluderegion.GcodeParser import GcodeParser

PID = 'C18'
TRUSTED = ['Tier H scanner coq/Model/Lexer.v tied to the real REGEX_GCODE_LINE / GcodeParser by exhaustive comparison of all 13 groups and the '
           'derived attributes on every string up to the stated length over a 14-symbol class alphabet, plus random long lines (vm_compute digests)',
           'modelled, not verified: Python\'s `re` engine (the scanner re-implements the regex\'s priority order and backtracking)']
ASSUMPTIONS = ['lossless / progress, stability of the command string and the checksum round trip are proved on the scanner model for all strings; the '
               'model is compared with the real regex and parser on all strings of the stated scope plus random lines, and the oracle checks the same '
               'statements on the implementation']


def correspondence(ctx):
    maxlen = ctx.n(4, 5)
    total, dis = LS.exhaustive(maxlen)
    lines = LS.random_lines(ctx.rng, ctx.n(1500, 20000))
    dis += LS.explicit(lines, 'c18rnd')
    return dict(evaluations=total + len(lines), distinct_nontrivial=total + len(set(lines)), shards=1 + 14 * (maxlen - 1), exhaustive=True,
                rule='ALL strings of length <= %d over the class alphabet {space,N,G,T,X,1,0,.,*,;,backslash,CR,LF,@} (%d strings; exhaustive) '
                     'plus %d random long lines built from G-code fragments; every string is distinct; all are non-trivial inputs of the scanner' % (maxlen, total, len(lines)),
                samples=[repr(l) for l in lines[:4]], disagreements=dis[:5])


def props_on(s):
    """the property statements, directly on the implementation.  -> list of (what, signature)"""
    bad = []
    p = GcodeParser()
    texts = []
    p.parse(s)
    off, guard = 0, 0
    while True:
        guard += 1
        if p.length == 0 and p.offset < len(s):
            bad.append(('parse consumed nothing before the end of the text', 'C18:progress')); break
        texts.append(p.fullText)
        if p.offset + p.length >= len(s) or guard > len(s) + 2:
            break
        p.parse()
    if ''.join(texts) != s:
        bad.append(('concatenated full texts differ from the input', 'C18:lossless'))
    # the same through the public line iterator (parseLines): consumes the text completely, reproduces it byte for byte
    try:
        joined = ''.join(g.fullText for g in GcodeParser().parseLines(s))
    except Exception as e:
        joined = None
        bad.append(('parseLines raised %s: %s' % (type(e).__name__, e), 'C18:exception'))
    if joined is not None and joined != s:
        bad.append(('parseLines: concatenated full texts %r differ from the input' % (joined[-40:],), 'C18:lossless-lines'))
    # a parser that has already worked through another text behaves like a fresh one (the plugin re-uses one parser for everything)
    used = GcodeParser()
    for _g in used.parseLines('G1 X1 ; warm up\r\nN3 M117 hi*7\n   ;c\nG28'):
        pass
    fresh = GcodeParser()
    used.parse(s); fresh.parse(s)
    a = (used.gcode, used.subCode, used.lineNumber, used.parameters, used.fullText, used.commandString, used.offset, used.length)
    b = (fresh.gcode, fresh.subCode, fresh.lineNumber, fresh.parameters, fresh.fullText, fresh.commandString, fresh.offset, fresh.length)
    if a != b:
        bad.append(('a re-used parser reads the text as %r, a fresh one as %r' % (a, b), 'C18:reuse'))
    # ... also when the text it worked through before is nearly the same line (another sub code, other blanks, another line number) and
    # its normalised forms were read -- whatever a parser remembers between lines must not show
    import re as _re
    m = _re.match(r'^(\s*(?:[Nn]\s*\d+\s*)?)([GgMmTt]\s*\d+)(\.\d+)?(.*)$', s, _re.S)
    if m and len(s) < 200:
        near = [m.group(1) + m.group(2) + ('.3' if m.group(3) != '.3' else '.2') + m.group(4), m.group(1) + m.group(2) + m.group(4), '  ' + s, s.lstrip(),
                'N7 ' + s.lstrip()]
        for v in near:
            if v == s:
                continue
            used = GcodeParser()
            used.parse(v)
            _ = (used.commandString, used.parameterDict, used.stringify())
            used.parse(s)
            a = (used.gcode, used.subCode, used.lineNumber, used.parameters, used.fullText, used.commandString, used.stringify(), used.offset, used.length)
            fresh = GcodeParser(); fresh.parse(s)
            b = (fresh.gcode, fresh.subCode, fresh.lineNumber, fresh.parameters, fresh.fullText, fresh.commandString, fresh.stringify(), fresh.offset, fresh.length)
            if a != b:
                bad.append(('after reading %r, a re-used parser reads the text as %r, a fresh one as %r' % (v, a, b), 'C18:reuse'))
                break
    # stability of the normalised command string
    q = GcodeParser(); q.parse(s)
    if q.gcode is not None:
        cs = q.commandString
        r = GcodeParser(); r.parse(cs)
        if (r.gcode, r.subCode, r.parameters, r.commandString) != (q.gcode, q.subCode, q.parameters, cs):
            bad.append(('re-parsing the normalised command %r gives (%r,%r,%r,%r) instead of (%r,%r,%r,%r)' %
                        (cs, r.gcode, r.subCode, r.parameters, r.commandString, q.gcode, q.subCode, q.parameters, cs), 'C18:stable'))
        # a line rendered with line number and checksum validates against its own checksum
        if q.lineNumber is not None:
            line = q.stringify(includeChecksum=True, includeComment=False, includeEol=False)
            v = GcodeParser(); v.parse(line)
            try:
                v.validate()
            except ValueError as e:
                bad.append(('rendered line %r does not validate: %s' % (line, e), 'C18:checksum'))
    return bad


def oracle(ctx, budget=1, replay=None, hints=None):
    fails, n = [], 0
    maxlen = 4 if budget <= 1 else 5
    strings = itertools.chain(*[LS.all_strings(k) for k in range(0, maxlen + 1)])
    rl = LS.random_lines(ctx.rng, 3000 * budget)
    multi = [''.join(ctx.rng.choice(rl) for _ in range(ctx.rng.randint(2, 5))) + ctx.rng.choice(['', '; tail comment', ';', ' ', 'M84', '; c\r', 'G1 X1 ; c'])
             for _ in range(600 * budget)]
    # characters outside ASCII are text like any other (a byte order mark at the start of a file or where two files were joined, accents in comments)
    uni = ['\ufeffG1 X1\n', '\ufeffG28\nG1 X1 ; c\n\ufeffM117 hi\n', 'G1 X1\n\ufeff', '\ufeff', ' \ufeff G1', 'M117 caf\xe9\n', '; \u00b5m\r\nG1 X1', 'G1 X1 \u00a0Y2\n', '\u2028G1 X1', 'G1\x0bX1\n', 'G1 X1\x0c\nG28']
    extra = rl + multi + uni + [' N5 G1 X1', 'N1 G28*12 ; home\n', '   N0123   G028  X  *107   ; Comment   \r\n']
    for s in itertools.chain(strings, extra):
        n += 1
        for what, sig in props_on(s):
            if len(fails) < 20:
                fails.append(dict(what=what, signature=sig, case=dict(input=repr(s))))
    return dict(evaluations=n, failures=fails, samples=[repr(x) for x in extra[:3]], distribution=dict(exhaustive_len=maxlen, random=len(extra)))
