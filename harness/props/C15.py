"""C15 -- served by the `plugin` correspondence stream (real ExcludeRegionPlugin vs Model/Plugin.v) and a reference oracle."""
import common as C
import pluginstream as PS
import pluginoracles as PO

PID = 'C15'
TRUSTED = ['Tier H model coq/Model/Plugin.v (+ Filter.v) tied to /repo by the `plugin` vm_compute correspondence on every run '
           '(responses, notifications, active flag, excluding flag and region list compared after every step)',
           'the real plugin is instantiated outside OctoPrint (harness/implplugin.py): settings store in a temp dir, recording plugin manager, stub current_user',
           'modelled, not verified: the order in which OctoPrint fires events and hooks (all orders are quantified over instead), AtCommandAction regexes, uuid4 ids (ids are given), settings (de)serialisation']
ASSUMPTIONS = ['the hook is invoked for arbitrary script types/names at arbitrary points, repeatedly, also after print end events']


def correspondence(ctx):
    n = ctx.n(50, 1200)
    hs = [PS.hook_history(ctx.rng) for _ in range(ctx.n(25, 400))] + [PS.gen_history(ctx.rng) for _ in range(n)]
    nev, dis, rows, shards = PS.run_histories(hs, PID.lower())
    out = []
    for d in dis[:3]:
        out.append(dict(kind=d['kind'], stream='plugin', case=PS.describe(d['hist'], d['rows'])) if d['kind'] == 'model!=impl' else d)
    kinds = {}
    for h in hs:
        for e in h['events']:
            kinds[e[0]] = kinds.get(e[0], 0) + 1
    nontriv = len(set(repr(h['events'])[:3000] for h, r in zip(hs, rows) if any(isinstance(x[1], tuple) and x[1] and x[1][0] == 'suppress' for x in r)))
    return dict(evaluations=len(hs), distinct_nontrivial=nontriv, shards=shards, events=nev, distribution=kinds,
                rule='histories of OctoPrint events (file selected, settings updated, print started/paused/resumed/done/failed/cancelling/'
                     'cancelled, error, others), gcode / @-command / script hook invocations and API requests (valid, duplicate id, unknown id, '
                     'wrong type, anonymous; grow / shrink / touching / other-type updates on dyadic geometry); non-trivial = distinct '
                     'history in which at least one command was suppressed by the filter',
                samples=[[list(map(str, e)) for e in hs[-1]['events'][:14]]], disagreements=out)


def oracle(ctx, budget=1, replay=None, hints=None):
    fails, n = [], 120 * budget
    dist = dict(histories=0, events=0)
    for k in range(n):
        h = PS.gen_history(ctx.rng) if k % 3 else PS.hook_history(ctx.rng)
        dist['histories'] += 1
        dist['events'] += len(h['events'])
        f = PO.run_history(h, ('C15',))
        if f:
            fails.append(f[0])
    dist['position_checks'] = PO.COUNTS.get('C15:position', 0)
    return dict(evaluations=n, failures=fails, samples=[[list(map(str, e)) for e in h['events'][:10]]], distribution=dist)
