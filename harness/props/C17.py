"""C17 -- region geometry is sound."""
import math
from fractions import Fraction as F
import common as C
import impl

PID = 'C17'
TRUSTED = ['modelled, not verified: binary64 rounding inside containsPoint/containsRegion (theorems are over R; '
           'correspondence uses dyadic inputs on which every float operation is exact or the margin is >= 1e-3)',
           'Tie: Proofs/Tie.v proves Model.Geometry@R = Gen.GenRegions (generated from /repo on this run); '
           'Model.Geometry@Q is evaluated by vm_compute against the real classes']
ASSUMPTIONS = ['theorems are stated over the reals; float rounding at a border is outside them',
               'regions are constructed through the public constructors (finite float parameters)']

GRID = [F(k, 4) for k in range(-32, 33)]
TRIPLES = [(3, 4, 5), (5, 12, 13), (8, 15, 17), (6, 8, 10), (0, 5, 5), (7, 24, 25)]


def rnd_rect(rng, raw=False):
    a, b, c, d = (rng.choice(GRID) for _ in range(4))
    if not raw:
        a, c = min(a, c), max(a, c)
        b, d = min(b, d), max(b, d)
    return ('rect', 'r', a, b, c, d)


def rnd_circ(rng):
    return ('circ', 'c', rng.choice(GRID), rng.choice(GRID), rng.choice(GRID[28:]) if rng.random() < 0.9 else rng.choice(GRID))


def coq_region(r):
    if r[0] == 'rect':
        return '(Rect "%s" %s %s %s %s)' % (r[1], C.q(r[2]), C.q(r[3]), C.q(r[4]), C.q(r[5]))
    return '(Circ "%s" %s %s %s)' % (r[1], C.q(r[2]), C.q(r[3]), C.q(r[4]))


def exact_in(r, x, y):
    if r[0] == 'rect':
        return r[2] <= x <= r[4] and r[3] <= y <= r[5]
    return r[4] >= 0 and (x - r[2]) ** 2 + (y - r[3]) ** 2 <= r[4] ** 2


def boundary_points(r, rng):
    """exact rational points on the border (and corners) of a region"""
    pts = []
    if r[0] == 'rect':
        xs, ys = [r[2], r[4], (r[2] + r[4]) / 2], [r[3], r[5], (r[3] + r[5]) / 2]
        pts = [(x, y) for x in xs for y in ys]
    else:
        for t in [F(0), F(1), F(-1), F(1, 2), F(-1, 3), F(2), F(-5, 2), F(7, 3)]:
            c, s = (1 - t * t) / (1 + t * t), 2 * t / (1 + t * t)
            pts.append((r[2] + r[4] * c, r[3] + r[4] * s))
        pts.append((r[2] - r[4], r[3]))
        pts.append((r[2], r[3]))
    return pts


def gen_cases(ctx, n):
    rng = ctx.rng
    cases = []
    for k in range(n):
        kind = rng.choice(['pr', 'pc', 'pc3', 'rr', 'rc', 'cr', 'cc', 'mk', 'pd', 'pdiag'])
        if kind == 'pr':
            r = rnd_rect(rng)
            x, y = (rng.choice([r[2], r[4], rng.choice(GRID)]), rng.choice([r[3], r[5], rng.choice(GRID)]))
            cases.append(('point', r, x, y))
        elif kind == 'pd':
            # one-decimal millimetre coordinates (not binary fractions), the point exactly on an edge / corner or well inside / outside
            x1, y1 = F(rng.randint(0, 2000), 10), F(rng.randint(0, 2000), 10)
            x2, y2 = x1 + F(rng.randint(1, 900), 10), y1 + F(rng.randint(1, 900), 10)
            x = rng.choice([x1, x2, x1, x2, (x1 + x2) / 2, x1 - F(1, 10), x2 + F(1, 10)])
            y = rng.choice([y1, y2, y1, y2, (y1 + y2) / 2, y1 - F(1, 10), y2 + F(1, 10)])
            cases.append(('point', ('rect', 'r', x1, y1, x2, y2), x, y))
        elif kind == 'pdiag':
            # just inside / outside a disc in every direction, the diagonals included (0.2 % of the radius: far above binary64 resolution)
            import math
            cx, cy, rad = rng.choice(GRID), rng.choice(GRID), F(rng.randint(1, 80), 4)
            ang = rng.choice([45, 135, 225, 315, 45, 135, 30, 60, 0, 90, 44.9, 45.1, 200, 300])
            f = rng.choice([0.998, 1.002, 1.002, 1.004, 0.9999, 1.0001])
            x = F('%.6f' % (float(cx) + float(rad) * f * math.cos(math.radians(ang))))
            y = F('%.6f' % (float(cy) + float(rad) * f * math.sin(math.radians(ang))))
            cases.append(('point', ('circ', 'c', cx, cy, rad), x, y))
        elif kind == 'pc':
            c = rnd_circ(rng)
            cases.append(('point', c, rng.choice(GRID), rng.choice(GRID)))
        elif kind == 'pc3':   # exactly on the circle (Pythagorean triples) or one grid step off
            a, b, h = rng.choice(TRIPLES)
            s = rng.choice([F(1), F(1, 2), F(1, 4)])
            cx, cy = rng.choice(GRID), rng.choice(GRID)
            sx, sy = rng.choice([1, -1]), rng.choice([1, -1])
            if rng.random() < 0.5:
                a, b = b, a
            off = rng.choice([F(0), F(0), F(1, 4), F(-1, 4)])
            cases.append(('point', ('circ', 'c', cx, cy, h * s + off), cx + sx * a * s, cy + sy * b * s))
        elif kind == 'rr':
            o = rnd_rect(rng)
            i = rnd_rect(rng) if rng.random() < 0.4 else ('rect', 'i', *[rng.choice([v, v, v + F(1, 4), v - F(1, 4)]) for v in o[2:]])
            i = ('rect', 'i', min(i[2], i[4]), min(i[3], i[5]), max(i[2], i[4]), max(i[3], i[5]))
            cases.append(('contains', o, i))
        elif kind == 'rc':
            o = rnd_rect(rng)
            rr = rng.choice(GRID[32:44])
            cx = rng.choice([o[2] + rr, o[4] - rr, rng.choice(GRID)])
            cy = rng.choice([o[3] + rr, o[5] - rr, rng.choice(GRID)])
            cases.append(('contains', o, ('circ', 'i', cx, cy, rr)))
        elif kind == 'cr':
            a, b, h = rng.choice(TRIPLES)
            s = rng.choice([F(1), F(1, 2)])
            cx, cy = rng.choice(GRID[24:40]), rng.choice(GRID[24:40])
            off = rng.choice([F(0), F(0), F(1, 4), F(-1, 4), F(2)])
            o = ('circ', 'o', cx, cy, h * s + off)
            i = ('rect', 'i', cx - a * s, cy - b * s, cx + a * s, cy + b * s)
            if rng.random() < 0.3:
                i = rnd_rect(rng)
            cases.append(('contains', o, i))
        elif kind == 'cc':
            a, b, h = rng.choice(TRIPLES)
            s = rng.choice([F(1), F(1, 2), F(1, 4)])
            cx, cy = rng.choice(GRID[24:40]), rng.choice(GRID[24:40])
            r2 = rng.choice(GRID[32:40])
            off = rng.choice([F(0), F(0), F(1, 4), F(-1, 4), F(3)])
            o = ('circ', 'o', cx, cy, h * s + r2 + off)
            i = ('circ', 'i', cx + a * s, cy - b * s, r2)
            cases.append(('contains', o, i))
        else:
            r = rnd_rect(rng, raw=True)
            cases.append(('mk', r))
    return cases


def run_impl(case):
    if case[0] == 'point':
        return bool(impl.mk_region(tuple(float(v) if isinstance(v, F) else v for v in case[1])).containsPoint(float(case[2]), float(case[3])))
    if case[0] == 'contains':
        o = impl.mk_region(tuple(float(v) if isinstance(v, F) else v for v in case[1]))
        i = impl.mk_region(tuple(float(v) if isinstance(v, F) else v for v in case[2]))
        return bool(o.containsRegion(i))
    r = case[1]
    g = impl.RectangularRegion(id='m', x1=float(r[2]), y1=float(r[3]), x2=float(r[4]), y2=float(r[5]))
    return (F(g.x1), F(g.y1), F(g.x2), F(g.y2))


def coq_case(case, res):
    if case[0] == 'point':
        return '(GPoint %s %s %s %s)' % (coq_region(case[1]), C.q(case[2]), C.q(case[3]), C.cbool(res))
    if case[0] == 'contains':
        return '(GContains %s %s %s)' % (coq_region(case[1]), coq_region(case[2]), C.cbool(res))
    r = case[1]
    return '(GMkRect %s %s %s %s %s %s %s %s)' % tuple(C.q(v) for v in (r[2], r[3], r[4], r[5]) + res)


def nontrivial(case, res):
    if case[0] == 'point':
        r, x, y = case[1], case[2], case[3]
        if r[0] == 'rect':
            return x in (r[2], r[4]) or y in (r[3], r[5])
        return (x - r[2]) ** 2 + (y - r[3]) ** 2 == r[4] ** 2
    if case[0] == 'contains':
        return res is True
    return case[1][2] > case[1][4] or case[1][3] > case[1][5]


def correspondence(ctx):
    n = ctx.n(3000, 40000)
    cases = gen_cases(ctx, n)
    results = [run_impl(c) for c in cases]
    shards, per = [], 1500
    for s in range(0, n, per):
        body = ';\n'.join(coq_case(c, r) for c, r in zip(cases[s:s + per], results[s:s + per]))
        v = ('From Coq Require Import QArith String List.\nFrom ER Require Import Base.Num Model.Geometry Model.Cases.\n'
             'Import ListNotations.\nOpen Scope Q_scope.\nOpen Scope string_scope.\n'
             'Definition cases : list gcase := [\n%s\n].\nEval vm_compute in (failing gcase_ok cases).\n' % body)
        shards.append(('c17_%d' % (s // per), v))
    dis = []
    for (name, rc, out), s in zip(C.run_casefiles(shards), range(0, n, per)):
        idx = C.parse_nat_list(out) if rc == 0 else None
        if idx is None:
            dis.append(dict(kind='casefile-failed', what=out[-800:]))
            continue
        for i in idx:
            dis.append(dict(kind='model!=impl', case=repr(cases[s + i]), impl=repr(results[s + i])))
    distinct = len(set(repr(c) for c, r in zip(cases, results) if nontrivial(c, r)))
    return dict(evaluations=n, distinct_nontrivial=distinct, shards=len(shards),
                rule='random rect/circle parameters and points on a quarter-unit dyadic grid (float arithmetic exact), Pythagorean '
                     'triples for points exactly on circles and touching circles; non-trivial = point exactly on a border, '
                     'containment reported true, or corners given out of order; distinct by repr of the case',
                samples=[repr(c) + ' -> ' + repr(r) for c, r in list(zip(cases, results))[:3]],
                disagreements=dis)


def oracle(ctx, budget=1, replay=None, hints=None):
    """Model-independent: real classes vs exact Fraction arithmetic; soundness of containment by boundary sampling."""
    n = 1500 * budget
    cases = gen_cases(ctx, n)
    fails, dist = [], {}
    for c in cases:
        res = run_impl(c)
        dist[c[0]] = dist.get(c[0], 0) + 1
        if c[0] == 'point':
            exp = exact_in(c[1], c[2], c[3])
            if res != exp:
                fails.append(dict(what='containsPoint disagrees with closed-set membership', case=repr(c), expected=exp, actual=res, signature='point'))
        elif c[0] == 'contains' and res:
            o = impl.mk_region(tuple(float(v) if isinstance(v, F) else v for v in c[1]))
            for (x, y) in boundary_points(c[2], ctx.rng):
                if not exact_in(c[2], x, y):
                    continue
                if not exact_in(c[1], x, y):
                    fails.append(dict(what='containsRegion reported true but a point of the inner region is outside the outer one',
                                      case=repr(c), expected='point %s,%s inside outer' % (x, y), actual='outside', signature='containment'))
                    break
        elif c[0] == 'mk':
            r = c[1]
            exp = (min(r[2], r[4]), min(r[3], r[5]), max(r[2], r[4]), max(r[3], r[5]))
            if res != exp:
                fails.append(dict(what='corner normalisation', case=repr(c), expected=repr(exp), actual=repr(res), signature='corners'))
            # all four corner orders behave identically on a few points
            gs = [impl.RectangularRegion(id='m', x1=float(a), y1=float(b), x2=float(cc), y2=float(d))
                  for (a, b, cc, d) in ((r[2], r[3], r[4], r[5]), (r[4], r[5], r[2], r[3]), (r[4], r[3], r[2], r[5]), (r[2], r[5], r[4], r[3]))]
            for _ in range(4):
                x, y = float(ctx.rng.choice(GRID)), float(ctx.rng.choice(GRID))
                if len(set(bool(g.containsPoint(x, y)) for g in gs)) != 1:
                    fails.append(dict(what='corner order changes membership', case=repr(c), expected='same', actual='differs', signature='corners'))
                    break
    # hair's-breadth cases: an inner region that sticks out of the outer one by 1e-9 .. 1e-6 is NOT contained (closed sets, no tolerance)
    rng = ctx.rng
    for _ in range(200 * budget):
        n += 1
        eps = rng.choice([1e-9, 1e-7, 5e-7, 1e-6])
        cx, cy = float(rng.randint(20, 180)), float(rng.randint(20, 180))
        k = rng.randint(0, 3)
        if k == 0:      # rectangle in rectangle, one edge pushed out
            w, h = float(rng.randint(2, 20)), float(rng.randint(2, 20))
            outer = impl.RectangularRegion(id='o', x1=cx - w, y1=cy - h, x2=cx + w, y2=cy + h)
            d = [0.0, 0.0, 0.0, 0.0]; d[rng.randint(0, 3)] = eps
            inner = impl.RectangularRegion(id='i', x1=cx - w - d[0], y1=cy - h - d[1], x2=cx + w + d[2], y2=cy + h + d[3])
        elif k == 1:    # circle in circle, concentric, radius a hair larger
            r = float(rng.randint(2, 20))
            outer = impl.CircularRegion(id='o', cx=cx, cy=cy, r=r)
            inner = impl.CircularRegion(id='i', cx=cx, cy=cy, r=r + eps)
        elif k == 2:    # circle in rectangle, touching one edge and a hair beyond
            r = float(rng.randint(2, 10))
            outer = impl.RectangularRegion(id='o', x1=cx - 30, y1=cy - 30, x2=cx + 30, y2=cy + 30)
            side = rng.randint(0, 3)
            ccx = cx + (30 - r + eps if side == 0 else -(30 - r + eps) if side == 1 else 0.0)
            ccy = cy + (30 - r + eps if side == 2 else -(30 - r + eps) if side == 3 else 0.0)
            inner = impl.CircularRegion(id='i', cx=ccx, cy=ccy, r=r)
        else:           # rectangle in circle: one corner a hair outside (3-4-5 triangle)
            outer = impl.CircularRegion(id='o', cx=cx, cy=cy, r=5.0)
            inner = impl.RectangularRegion(id='i', x1=cx - 3.0, y1=cy - 4.0, x2=cx + 3.0 + eps, y2=cy + 4.0)
        dist['hairsbreadth'] = dist.get('hairsbreadth', 0) + 1
        if outer.containsRegion(inner):
            fails.append(dict(what='containsRegion reported true although the inner region sticks out by %g' % eps, case=repr((outer.toDict(), inner.toDict())),
                              expected='False', actual='True', signature='containment'))
    # degenerate regions are closed sets too: a zero-width / zero-height rectangle contains the points of its segment, a zero-radius circle its centre
    for _ in range(60 * budget):
        n += 1
        x, y, l = float(rng.randint(10, 190)), float(rng.randint(10, 190)), float(rng.randint(1, 50))
        k = rng.randint(0, 2)
        if k == 0:
            g, pts, out = impl.RectangularRegion(id='d', x1=x, y1=y, x2=x, y2=y + l), [(x, y), (x, y + l), (x, y + l / 2)], [(x + 0.5, y + l / 2), (x, y + l + 0.5)]
        elif k == 1:
            g, pts, out = impl.RectangularRegion(id='d', x1=x, y1=y, x2=x + l, y2=y), [(x, y), (x + l, y), (x + l / 2, y)], [(x + l / 2, y - 0.5)]
        else:
            g, pts, out = impl.CircularRegion(id='d', cx=x, cy=y, r=0.0), [(x, y)], [(x + 0.5, y)]
        dist['degenerate'] = dist.get('degenerate', 0) + 1
        if not all(g.containsPoint(a, b) for a, b in pts) or any(g.containsPoint(a, b) for a, b in out):
            fails.append(dict(what='degenerate region %r: membership is not that of the closed set' % (g.toDict(),), case=repr(g.toDict()), expected='closed set', actual='differs', signature='point'))
    return dict(evaluations=n, failures=fails[:10], samples=[repr(c) for c in cases[:2]], distribution=dist)
