"""C01 -- served by the `filter` correspondence stream and the reference-printer oracle."""
import common as C
import oracles as O
from props import _filter as FL
import pluginstream as PS

PID = 'C01'
TRUSTED = ['Tier H model coq/Model/{Axis,Filter}.v tied to /repo by vm_compute correspondence on every run (harness/filterstream.py)',
           'modelled, not verified: binary64 rounding (model is exact; numbers compared within 1e-9, decisions away from borders by >= 5e-4)',
           'firmware behaviour = the reference printer (harness/refprinter.py, Spec/Printer.v)',
           'plugin layer (hooks, @-command action table and scripts from the settings): `plugin` vm_compute correspondence against the real ExcludeRegionPlugin (harness/pluginstream.py, Model/Plugin.v)']
ASSUMPTIONS = ['programs issued after homing (G28 first); arcs in absolute positioning; no G28 inside an open episode (finding D14)']
KW = dict()


def _kw():
    kw = dict(KW)
    styles = kw.pop('style_in', None)
    return kw, styles


def correspondence(ctx):
    kw, styles = _kw()
    acc = (lambda p: p['style'] in styles) if styles else None
    r = FL.correspondence(ctx, PID, kw, 60, 1500, accept=acc)
    # the same filter as OctoPrint drives it: through the plugin object's hooks, with the @-command actions and scripts taken from the settings
    return PS.merge_into(r, ctx, PID.lower() + 'p', 10, 300, extra=[PS.atc_history(ctx.rng) for _ in range(ctx.n(15, 300))])


WITNESSES = [   # inside the signatures of the listed known findings: only confirm that they still reproduce
    dict(name='D14', props=[], regions=[['rect', 'a', 10, 10, 20, 20]], lines=['G28', 'G1 X5 Y5 Z1 F3000', 'G1 X15 Y15', 'G28 X', 'G1 X16 Y16', 'G1 X30 Y30']),
    dict(name='D21', props=[], regions=[['rect', 'a', 10, 10, 20, 20]], lines=['G28', 'G1 X5 Y5 Z1 F3000', 'G1 X12 Y12', 'G2 X18 Y18 R1', 'G1 X30 Y30']),
    dict(name='D15', props=[], regions=[['rect', 'a', 10, 10, 20, 20]], lines=['G28', 'G1 X30 Y30 Z1 F3000', 'G91', 'G2 X5 Y0 I2.5 J0', 'G1 X-20 Y-15', 'G90', 'G1 X40 Y40']),
]


def oracle(ctx, budget=1, replay=None, hints=None):
    kw, styles = _kw()
    acc = (lambda p: p['style'] in styles) if styles else None
    r = FL.oracle(ctx, PID, [O.check_C01], kw, 150 * budget, accept=acc, replay=replay,
                  extra_progs=[FL.corpus_prog(w) for w in WITNESSES])
    # through the plugin object, as OctoPrint drives it: exclusion switched off and on again by the file (whichever of the configured
    # spellings it uses, moves made in between); from then on nothing may move into the region
    import pluginoracles as PO, implplugin as IP
    reg = dict(type='RectangularRegion', id='a1', x1=10.0, y1=10.0, x2=20.0, y2=20.0)
    for _ in range(12 * budget):
        st = PS.rnd_settings(ctx.rng)
        st['atc'] = ctx.rng.choice([PS.DEFAULT_ATC, PS.DEFAULT_ATC + [('Purge', None, 'disable_exclusion')], [PS.DEFAULT_ATC[1], PS.DEFAULT_ATC[0]],
                                   [('Other', None, 'disable_exclusion')] + PS.DEFAULT_ATC])
        off, on = ctx.rng.choice(['@ExcludeRegion off', '@ExcludeRegion disable']), ctx.rng.choice(['@ExcludeRegion on', '@ExcludeRegion enable'])
        mid = ctx.rng.choice([[], [('cmd', 'G1 X40 Y5 E1.2')], [('cmd', 'G91'), ('cmd', 'G1 X10 Y0'), ('cmd', 'G90')], [('cmd', 'G1 X15 Y15 E1.5'), ('cmd', 'G1 X5 Y40 E2')]])
        evs = [('api', 'addExcludeRegion', reg, False), ('event', 'PRINT_STARTED'), ('cmd', 'G28'), ('cmd', 'G1 X5 Y5 Z0.3 E1 F3000'), ('at', off, False)] + mid + [('at', on, False)]
        inside = [('cmd', ctx.rng.choice(['G1 X15 Y15 E3', 'G0 X12 Y18', 'G1 X15 Y15'])), ('cmd', 'G1 X16 Y14 E3.5'), ('cmd', 'G1 Z0.6')]
        pl = IP.new_plugin(**PS.Run.settings_dict(st))
        r['evaluations'] += 1
        for k, ev in enumerate(evs + inside):
            res, _msgs = PO.drive(pl, ev, st)
            if k >= len(evs) and not (isinstance(res, (list, tuple)) and not any(isinstance(c, str) and c.startswith(('G0', 'G1')) and ('X' in c or 'Y' in c or 'Z' in c) for c in res)):
                r['failures'].append(dict(what='after %r ... %r the move %r into / inside the region was answered with %r: it reaches the printer' % (off, on, ev[1], res),
                                          signature='C01:plugin-reenabled', step=k, case=dict(settings=dict((kk, str(v)) for kk, v in st.items()), events=[list(map(str, e)) for e in (evs + inside)[:k + 1]])))
                break
    return r
