"""C01 -- served by the `filter` correspondence stream and the reference-printer oracle."""
import common as C
import oracles as O
from props import _filter as FL
import pluginstream as PS

PID = 'C01'
TRUSTED = ['Tier H model coq/Model/{Axis,Filter}.v tied to /repo by vm_compute correspondence on every run (harness/filterstream.py)',
           'modelled, not verified: binary64 rounding (model is exact; numbers compared within 1e-9, decisions away from borders by >= 5e-4)',
           'firmware behaviour = the reference printer (harness/refprinter.py, Spec/Printer.v)',
           'plugin layer (hooks, @-command action table and scripts from the settings): `plugin` vm_compute correspondence against the real ExcludeRegionPlugin (harness/pluginstream.py, Model/Plugin.v)']
ASSUMPTIONS = ['programs issued after homing (G28 first); arcs in absolute positioning; no G28 inside an open episode (finding D14)']
KW = dict()


def _kw():
    kw = dict(KW)
    styles = kw.pop('style_in', None)
    return kw, styles


def correspondence(ctx):
    kw, styles = _kw()
    acc = (lambda p: p['style'] in styles) if styles else None
    r = FL.correspondence(ctx, PID, kw, 60, 1500, accept=acc)
    # the same filter as OctoPrint drives it: through the plugin object's hooks, with the @-command actions and scripts taken from the settings
    return PS.merge_into(r, ctx, PID.lower() + 'p', 10, 300, extra=[PS.atc_history(ctx.rng) for _ in range(ctx.n(15, 300))])


WITNESSES = [   # inside the signatures of the listed known findings: only confirm that they still reproduce
    dict(name='D14', props=[], regions=[['rect', 'a', 10, 10, 20, 20]], lines=['G28', 'G1 X5 Y5 Z1 F3000', 'G1 X15 Y15', 'G28 X', 'G1 X16 Y16', 'G1 X30 Y30']),
    dict(name='D21', props=[], regions=[['rect', 'a', 10, 10, 20, 20]], lines=['G28', 'G1 X5 Y5 Z1 F3000', 'G1 X12 Y12', 'G2 X18 Y18 R1', 'G1 X30 Y30']),
    dict(name='D15', props=[], regions=[['rect', 'a', 10, 10, 20, 20]], lines=['G28', 'G1 X30 Y30 Z1 F3000', 'G91', 'G2 X5 Y0 I2.5 J0', 'G1 X-20 Y-15', 'G90', 'G1 X40 Y40']),
]


def oracle(ctx, budget=1, replay=None, hints=None):
    kw, styles = _kw()
    acc = (lambda p: p['style'] in styles) if styles else None
    return FL.oracle(ctx, PID, [O.check_C01], kw, 150 * budget, accept=acc, replay=replay,
                     extra_progs=[FL.corpus_prog(w) for w in WITNESSES])
