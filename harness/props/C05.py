"""C05 -- served by the `filter` correspondence stream and the reference-printer oracle."""
import common as C
import oracles as O
from props import _filter as FL

PID = 'C05'
TRUSTED = ['Tier H model coq/Model/{Axis,Filter}.v tied to /repo by vm_compute correspondence on every run (harness/filterstream.py)',
           'modelled, not verified: binary64 rounding (model is exact; numbers compared within 1e-9, decisions away from borders by >= 5e-4)',
           'firmware behaviour = the reference printer']
ASSUMPTIONS = ['absolute extrusion mode; matched equal-length retract/recover cycles, E-only or G10/G11, not mixed',
               'theorem C05_depth_invariant: E-only dialect (predicate dwf: no G10/G11, moving commands never pull filament back and extrude only when the file is not retracted, '
               'E-only commands retract / recover by exactly L), dialect of the motion properties (wf_cmd, no homing inside an episode)']
KW = dict(style_in=('eonly', 'firmware'), wipe=False)


def _kw():
    kw = dict(KW)
    styles = kw.pop('style_in', None)
    return kw, styles


def correspondence(ctx):
    kw, styles = _kw()
    acc = (lambda p: p['style'] in styles) if styles else None
    return FL.correspondence(ctx, PID, kw, 60, 1500, accept=acc)


def oracle(ctx, budget=1, replay=None, hints=None):
    kw, styles = _kw()
    acc = (lambda p: p['style'] in styles) if styles else None
    return FL.oracle(ctx, PID, [O.check_C05], kw, 150 * budget, accept=acc, replay=replay, extra_progs=designed())


def designed():
    """matched 0.8 mm cycles in which the recovery is skipped inside a region and the file resets E there (G92 E0 at a layer change), so the owed
    recovery is made up at a logical E equal to the nominal retraction length: the made-up G92 value is a binary64 residue (~1e-16)"""
    from fractions import Fraction as F
    import genprog
    R = [('rect', 'a', F(45), F(45), F(60), F(60))]
    out = []
    for (hi, lo) in (('1.2', '0.4'), ('1.1', '0.4'), ('2.3', '1.5')):
        d = float(hi) - float(lo)
        nominal = '%.1f' % d
        lines = ['G28', 'G1 X10 Y10 F3000', 'G1 X20 Y10 E%s F1200' % hi, 'G1 E%s F2400' % lo, 'G1 X50 Y50 F3000', 'G1 E%s F2400' % hi, 'G92 E0',
                 'G1 X55 Y55 E%s F1200' % nominal, 'G1 X10 Y20 F3000', 'G1 X20 Y20 E%s F1200' % hi, 'G1 E%s F2400' % lo, 'G1 X30 Y20 F3000', 'G1 E%s F2400' % hi,
                 'G1 X30 Y30 E%.1f F1200' % (float(hi) + 0.4)]
        out.append(dict(g90e=False, enter=None, exit=None, ext=dict(genprog.DEFAULT_EXT), regions=R, events=[('cmd', l) for l in lines], style='eonly', alen='1'))
    return out
