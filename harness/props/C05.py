"""C05 -- served by the `filter` correspondence stream and the reference-printer oracle."""
import common as C
import oracles as O
from props import _filter as FL

PID = 'C05'
TRUSTED = ['Tier H model coq/Model/{Axis,Filter}.v tied to /repo by vm_compute correspondence on every run (harness/filterstream.py)',
           'modelled, not verified: binary64 rounding (model is exact; numbers compared within 1e-9, decisions away from borders by >= 5e-4)',
           'firmware behaviour = the reference printer']
ASSUMPTIONS = ['absolute extrusion mode; matched equal-length retract/recover cycles, E-only or G10/G11, not mixed',
               'theorem C05_depth_invariant: E-only dialect (predicate dwf: no G10/G11, moving commands never pull filament back and extrude only when the file is not retracted, '
               'E-only commands retract / recover by exactly L), dialect of the motion properties (wf_cmd, no homing inside an episode)']
KW = dict(style_in=('eonly', 'firmware'), wipe=False)


def _kw():
    kw = dict(KW)
    styles = kw.pop('style_in', None)
    return kw, styles


def correspondence(ctx):
    kw, styles = _kw()
    acc = (lambda p: p['style'] in styles) if styles else None
    return FL.correspondence(ctx, PID, kw, 60, 1500, accept=acc)


def oracle(ctx, budget=1, replay=None, hints=None):
    kw, styles = _kw()
    acc = (lambda p: p['style'] in styles) if styles else None
    return FL.oracle(ctx, PID, [O.check_C05], kw, 150 * budget, accept=acc, replay=replay)
