"""C20 -- offline stream filtering equals live filtering and is isolated."""
import copy
import common as C
import streamstream as SS
import reader, impl

PID = 'C20'
TRUSTED = ['Tier H coq/Model/Stream.v (= Lexer + Words + the same `handle` as the live hook) tied to StreamProcessor.process_line on whole files, line by line',
           'modelled, not verified: copy.deepcopy isolation (checked by snapshotting the live state before/after: a test, not a proof), '
           'octoprint.filemanager.util.LineProcessorStream (lines are handed to process_line with their terminators)',
           'the live twin is driven as OctoPrint drives the hook: comment, blanks, line number and checksum stripped; (gcode, subcode) from '
           'octoprint.util.comm.gcode_and_subcode_for_cmd; @-lines split as comm.py splits them']
ASSUMPTIONS = ['ASCII files', 'files are filtered from a live state reached after homing']


def correspondence(ctx):
    files = [SS.gen_file(ctx.rng) for _ in range(ctx.n(30, 600))]
    nl, dis, runs, rows, shards = SS.run_files(files, 'c20')
    kinds = dict(keep=0, drop=0, lines=0)
    for rr in rows:
        for _, out, hr in rr:
            kinds['drop' if out is None else 'lines' if hr is not None else 'keep'] += 1
    nontriv = len(set(repr(f['lines'])[:2000] for f, rr in zip(files, rows) if any(o is None for _, o, _ in rr)))
    return dict(evaluations=len(files), distinct_nontrivial=nontriv, shards=shards, lines=nl, distribution=kinds,
                rule='whole files (commands with comments, line numbers and checksums, blank / whitespace-only / comment-only / text lines, '
                     '@-commands, LF or CRLF or mixed endings, last line with or without terminator, lower-case and leading-zero codes) filtered from '
                     'live states reached by a program prefix; non-trivial = distinct file with at least one removed line',
                samples=[[repr(l) for l in files[-1]['lines'][:10]]], disagreements=dis[:4])


def semantic(cmd):
    c = reader.read(cmd)
    if c is None or c.rest:
        return ('raw', cmd.strip())
    return (c.code, c.sub, tuple(c.words))


def oracle(ctx, budget=1, replay=None, hints=None):
    """process_line vs the live hooks on a twin state, line for line; untouched lines byte for byte; eol; isolation"""
    fails, n = [], 0
    for _ in range(40 * budget):
        f = SS.gen_file(ctx.rng)
        run = SS.Run(f)
        twin = impl.GcodeHandlers(copy.deepcopy(run.h.state), impl.LOG)
        sp = run.sp
        eol_seen = None
        for k, line in enumerate(f['lines']):
            n += 1
            m = __import__('re').search(r'(\r\n|\r|\n)$', line)
            if m:
                eol_seen = m.group(1)
            want = SS.live_twin_outputs(twin, line)
            try:
                got = sp.process_line(line)
            except Exception as e:
                fails.append(dict(what='process_line(%r) raised %s: %s' % (line, type(e).__name__, e), signature='C20:exception', case=dict(lines=[repr(x) for x in f['lines'][:k + 1]][-10:])))
                break
            eol = eol_seen or '\n'
            ok = True
            if want[0] == 'keep':
                ok = (got == line)
                why = 'untouched line not reproduced byte for byte'
            elif want[0] == 'drop':
                ok = got is None
                why = 'live hooks suppress the line, the stream processor returned %r' % (got,)
            else:
                parts = SS.split_eol(got, eol) if isinstance(got, str) else None
                ok = parts is not None and [semantic(x) for x in parts] == [semantic(x) for x in want[1]]
                why = 'live hooks send %r, the stream processor returned %r (expected every line terminated by %r)' % (want[1], got, eol)
            if not ok:
                fails.append(dict(what='line %r: %s' % (line, why), signature='C20:differs',
                                  case=dict(pre=f['pre'][-6:], lines=[repr(x) for x in f['lines'][:k + 1]][-10:], regions=[[str(v) for v in r] for r in f['prog']['regions']])))
                break
        if SS.fingerprint(run.h.state) != run.live_before:
            fails.append(dict(what='filtering a file modified the live plugin state', signature='C20:isolation', case=dict(lines=[repr(x) for x in f['lines'][:8]])))
    # known finding D23: OctoPrint's own command parser only recognises upper-case codes, so a lower-case command is not
    # filtered live, while the offline parser normalises and filters it
    from fractions import Fraction as F
    h = impl.new_handlers([('rect', 'a', F(10), F(10), F(20), F(20))])
    impl.run(h, ['G28'])
    twin = impl.GcodeHandlers(copy.deepcopy(h.state), impl.LOG)
    import io
    sp = impl.StreamProcessor(io.BytesIO(b''), h)
    line = 'g1 x15 y15\n'
    if SS.live_twin_outputs(twin, line) == ('keep',) and sp.process_line(line) != line:
        fails.append(dict(what='lower-case command %r is filtered offline but passes the live hooks untouched' % line, signature='C20:lowercase-code', case=dict(lines=[repr(line)])))
    n += 1
    return dict(evaluations=n, failures=fails[:10], samples=[], distribution=dict(lines=n))
