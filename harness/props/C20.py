"""C20 -- offline stream filtering equals live filtering and is isolated."""
import copy
import common as C
import streamstream as SS
import reader, impl

PID = 'C20'
TRUSTED = ['Tier H coq/Model/Stream.v (= Lexer + Words + the same `handle` as the live hook) tied to StreamProcessor.process_line on whole files, line by line',
           'modelled, not verified: copy.deepcopy isolation (checked by snapshotting the live state before/after: a test, not a proof), '
           'octoprint.filemanager.util.LineProcessorStream (lines are handed to process_line with their terminators)',
           'the live twin is driven as OctoPrint drives the hook: comment, blanks, line number and checksum stripped; (gcode, subcode) from '
           'octoprint.util.comm.gcode_and_subcode_for_cmd; @-lines split as comm.py splits them']
ASSUMPTIONS = ['ASCII files', 'files are filtered from a live state reached after homing']


def correspondence(ctx):
    files = [SS.gen_file(ctx.rng) for _ in range(ctx.n(30, 600))]
    nl, dis, runs, rows, shards = SS.run_files(files, 'c20')
    kinds = dict(keep=0, drop=0, lines=0)
    for rr in rows:
        for _, out, hr in rr:
            kinds['drop' if out is None else 'lines' if hr is not None else 'keep'] += 1
    nontriv = len(set(repr(f['lines'])[:2000] for f, rr in zip(files, rows) if any(o is None for _, o, _ in rr)))
    return dict(evaluations=len(files), distinct_nontrivial=nontriv, shards=shards, lines=nl, distribution=kinds,
                rule='whole files (commands with comments, line numbers and checksums, blank / whitespace-only / comment-only / text lines, '
                     '@-commands, LF or CRLF or mixed endings, last line with or without terminator, lower-case and leading-zero codes) filtered from '
                     'live states reached by a program prefix; non-trivial = distinct file with at least one removed line',
                samples=[[repr(l) for l in files[-1]['lines'][:10]]], disagreements=dis[:4])


def semantic(cmd):
    c = reader.read(cmd)
    if c is None or c.rest:
        return ('raw', cmd.strip())
    return (c.code, c.sub, tuple(c.words))


def oracle(ctx, budget=1, replay=None, hints=None):
    """process_line vs the live hooks on a twin state, line for line; untouched lines byte for byte; eol; isolation"""
    fails, n = [], 0
    from fractions import Fraction as _F2
    def designed_file(rng):
        """codes written with leading zeros (hosts pass them to the live hooks as written), arcs whose two directions differ in what they cross,
        deferred codes in both spellings, numbered lines"""
        regs = [('rect', 'a', _F2(10), _F2(10), _F2(20), _F2(20)), ('rect', 'b', _F2(33), _F2(36), _F2(37), _F2(44))]
        prog = dict(g90e=False, enter=['M117 in'], exit=['M117 out'], ext={'M117': 'last', 'M204': 'merge', 'G4': 'exclude', 'M73': 'first'}, regions=regs,
                    events=[], style='eonly', alen='1')
        z = lambda c: c[0] + rng.choice(['', '0', '00']) + c[1:]
        lines = ['G28', z('G1') + ' X5 Y5 E1 F3000', z('G1') + ' X15 Y15 E2', z('M117') + ' first text', z('M204') + ' S500', z('G4') + ' P10', z('M117') + ' second text',
                 z('M73') + ' P5', z('G1') + ' X30 Y30 E3', z('G2') + ' X30 Y50 I0 J10 E4', z('G3') + ' X30 Y30 I0 J-10 E5', z('G1') + ' X15 Y15', z('M204') + ' P7',
                 z('G1') + ' X50 Y50 E6']
        if rng.random() < 0.5:
            # exclusion switched off and on again by the file itself, modes / units / position changed in between: tracked all the same
            lines = lines[:2] + ['@ExcludeRegion off', z('G1') + ' X15 Y5 E1.2', rng.choice(['G91', 'G20', 'G91']), rng.choice(['G1 X0 Y0.2', 'G1 Y0.1 E0.01']), '@ExcludeRegion on',
                                 rng.choice(['G1 Y0.25', 'G1 X0.1']), 'G90', 'G21', 'G1 X5 Y5'] + lines[2:]
        lines = [('N%d %s' % (k, l) if rng.random() < 0.2 and not l.startswith('@') else l) + rng.choice(['\n', '\n', '\r\n']) for k, l in enumerate(lines)]
        return dict(prog=prog, pre=[], lines=lines)
    files = [SS.gen_file(ctx.rng) for _ in range(40 * budget)] + [designed_file(ctx.rng) for _ in range(12 * budget)]
    for f in files:
        run = SS.Run(f)
        twin = impl.GcodeHandlers(copy.deepcopy(run.h.state), impl.LOG)
        sp = run.sp
        eol_seen = None
        for k, line in enumerate(f['lines']):
            n += 1
            m = __import__('re').search(r'(\r\n|\r|\n)$', line)
            if m:
                eol_seen = m.group(1)
            want = SS.live_twin_outputs(twin, line)
            try:
                got = sp.process_line(line)
            except Exception as e:
                fails.append(dict(what='process_line(%r) raised %s: %s' % (line, type(e).__name__, e), signature='C20:exception', case=dict(lines=[repr(x) for x in f['lines'][:k + 1]][-10:])))
                break
            eol = eol_seen or '\n'
            ok = True
            if want[0] == 'keep':
                ok = (got == line)
                why = 'untouched line not reproduced byte for byte'
            elif want[0] == 'drop':
                ok = got is None
                why = 'live hooks suppress the line, the stream processor returned %r' % (got,)
            else:
                parts = SS.split_eol(got, eol) if isinstance(got, str) else None
                ok = parts is not None and [semantic(x) for x in parts] == [semantic(x) for x in want[1]]
                why = 'live hooks send %r, the stream processor returned %r (expected every line terminated by %r)' % (want[1], got, eol)
            if not ok:
                fails.append(dict(what='line %r: %s' % (line, why), signature='C20:differs',
                                  case=dict(pre=f['pre'][-6:], lines=[repr(x) for x in f['lines'][:k + 1]][-10:], regions=[[str(v) for v in r] for r in f['prog']['regions']])))
                break
        if SS.fingerprint(run.h.state) != run.live_before:
            fails.append(dict(what='filtering a file modified the live plugin state', signature='C20:isolation', case=dict(lines=[repr(x) for x in f['lines'][:8]])))
    # the same comparison with the live side driven through the plugin object's queuing hooks (active print): whatever the hooks add in
    # front of the handlers must not make live and offline filtering differ
    import implplugin as IP
    for _i in range(16 * budget):
        f = SS.gen_file(ctx.rng) if _i % 4 else designed_file(ctx.rng)
        prog = f['prog']
        pl = IP.new_plugin(g90InfluencesExtruder=prog['g90e'], enteringExcludedRegionGcode=('\n'.join(prog['enter']) if prog['enter'] else None),
                           exitingExcludedRegionGcode=('\n'.join(prog['exit']) if prog['exit'] else None),
                           extendedExcludeGcodes=[dict(gcode=g, mode=m, description='') for g, m in sorted(prog['ext'].items())])
        for r in prog['regions']:
            d = (dict(type='RectangularRegion', id=r[1], x1=float(r[2]), y1=float(r[3]), x2=float(r[4]), y2=float(r[5])) if r[0] == 'rect'
                 else dict(type='CircularRegion', id=r[1], cx=float(r[2]), cy=float(r[3]), r=float(r[4])))
            IP.api(pl, 'addExcludeRegion', d)
        pl.on_event(IP.EVENTS['PRINT_STARTED'], {})
        for l in f['pre']:
            SS.live_twin_outputs_plugin(pl, l + '\n')
        sp = impl.StreamProcessor(__import__('io').BytesIO(b''), pl.gcodeHandlers)
        eol_seen = None
        for k, line in enumerate(f['lines']):
            n += 1
            m = __import__('re').search(r'(\r\n|\r|\n)$', line)
            if m:
                eol_seen = m.group(1)
            try:
                want = SS.live_twin_outputs_plugin(pl, line)
                got = sp.process_line(line)
            except Exception as e:
                fails.append(dict(what='line %r raised %s: %s' % (line, type(e).__name__, e), signature='C20:exception', case=dict(lines=[repr(x) for x in f['lines'][:k + 1]][-10:])))
                break
            eol = eol_seen or '\n'
            if want[0] == 'keep':
                ok = (got == line)
            elif want[0] == 'drop':
                ok = got is None
            else:
                parts = SS.split_eol(got, eol) if isinstance(got, str) else None
                ok = parts is not None and [semantic(x) for x in parts] == [semantic(x) for x in want[1]]
            if not ok:
                fails.append(dict(what='line %r: the plugin hooks give %r during a print, the stream processor returned %r' % (line, want, got), signature='C20:differs-plugin',
                                  case=dict(pre=f['pre'][-6:], lines=[repr(x) for x in f['lines'][:k + 1]][-10:], regions=[[str(v) for v in r] for r in prog['regions']])))
                break
    # isolation on designed live states: an episode is open live with deferred (first / last / merged) commands, an owed recovery, changed
    # units / modes; the file then defers the same codes again, leaves the region, switches units -- nothing of it may reach the live state
    import io as _io
    from fractions import Fraction as _F
    for _ in range(25 * budget):
        n += 1
        rng = ctx.rng
        h = impl.new_handlers([('rect', 'a', _F(10), _F(10), _F(20), _F(20))], ext={'M204': 'merge', 'M205': 'merge', 'M117': 'last', 'M73': 'first', 'G4': 'exclude'},
                              enter=['M117 in'], exit_=['M117 out'])
        live = ['G28', 'G1 X5 Y5 E1 F3000'] + rng.sample(['G1 E0.5', 'G20', 'G91', 'G10', 'M204 P1000 T2000'], rng.randint(0, 2)) + ['G90', 'G21', 'G1 X15 Y15']
        live += rng.sample(['M204 P1000 T2000', 'M205 X8 Y8', 'M117 live', 'M73 P5', 'G1 E1.5', 'G1 X16 Y16 E2', 'G11'], rng.randint(1, 5))
        impl.run(h, live)
        before = SS.fingerprint(h.state)
        sp = impl.StreamProcessor(_io.BytesIO(b''), h)
        filel = rng.sample(['M204 S750 P500', 'M205 X1', 'M117 file', 'M73 P50 R3', 'G1 E3', 'G20', 'G91', 'G10 S1', '@ExcludeRegion off', 'G92 E0', 'G1 X17 Y17'], rng.randint(2, 7))
        filel += ['G90', 'G21', 'G1 X30 Y30 E4', 'G1 X15 Y15', 'M204 T1']
        try:
            for l in filel:
                sp.process_line(l + '\n')
        except Exception as e:
            fails.append(dict(what='process_line raised %s: %s' % (type(e).__name__, e), signature='C20:exception', case=dict(live=live, file=filel)))
            continue
        if SS.fingerprint(h.state) != before:
            fails.append(dict(what='filtering a file modified the live plugin state (live: %r; file: %r)' % (live, filel), signature='C20:isolation', case=dict(live=live, file=filel)))
    # the offline run starts from the live state AS IT WAS WHEN THE PROCESSOR WAS CREATED: the print moves on (modes, position, episode)
    # between creation and the first line read; the file is filtered as a twin copied at creation time filters it
    for _ in range(20 * budget):
        n += 1
        rng = ctx.rng
        h = impl.new_handlers([('rect', 'a', _F(10), _F(10), _F(20), _F(20))], ext={'M204': 'merge', 'M117': 'last', 'G4': 'exclude'}, enter=['M117 in'], exit_=['M117 out'])
        impl.run(h, ['G28', 'G1 X5 Y5 Z0.3 E1 F3000'] + rng.choice([[], ['G1 X15 Y15'], ['G1 X15 Y15', 'M204 S900']]))
        sp = impl.StreamProcessor(_io.BytesIO(b''), h)
        twin = impl.GcodeHandlers(copy.deepcopy(h.state), impl.LOG)
        impl.run(h, rng.sample(['G91', 'G20', 'G1 X40 Y40', 'G1 X15 Y15', 'M204 S100', 'G1 E0.2', '@ExcludeRegion off'][:6], rng.randint(1, 3)))     # the live print goes on
        filel = rng.sample(['G1 X12 Y12 E2', 'G1 X30 Y30', 'G1 X16 Y16', 'M204 P500', 'M117 file', 'G1 Z1', 'G1 X45 Y5 E3'], rng.randint(3, 6)) + ['G1 X50 Y50']
        for k, l in enumerate(filel):
            line = l + '\n'
            try:
                want = SS.live_twin_outputs(twin, line)
                got = sp.process_line(line)
            except Exception as e:
                fails.append(dict(what='line %r raised %s: %s' % (line, type(e).__name__, e), signature='C20:exception', case=dict(file=filel[:k + 1])))
                break
            if want[0] == 'keep':
                ok = (got == line)
            elif want[0] == 'drop':
                ok = got is None
            else:
                parts = SS.split_eol(got, '\n') if isinstance(got, str) else None
                ok = parts is not None and [semantic(x) for x in parts] == [semantic(x) for x in want[1]]
            if not ok:
                fails.append(dict(what='line %r: a twin of the state at creation time gives %r, the stream processor (read after the live print moved on) returned %r' % (line, want, got),
                                  signature='C20:snapshot', case=dict(file=filel[:k + 1])))
                break
    # known finding D23: OctoPrint's own command parser only recognises upper-case codes, so a lower-case command is not
    # filtered live, while the offline parser normalises and filters it
    from fractions import Fraction as F
    h = impl.new_handlers([('rect', 'a', F(10), F(10), F(20), F(20))])
    impl.run(h, ['G28'])
    twin = impl.GcodeHandlers(copy.deepcopy(h.state), impl.LOG)
    import io
    sp = impl.StreamProcessor(io.BytesIO(b''), h)
    line = 'g1 x15 y15\n'
    if SS.live_twin_outputs(twin, line) == ('keep',) and sp.process_line(line) != line:
        fails.append(dict(what='lower-case command %r is filtered offline but passes the live hooks untouched' % line, signature='C20:lowercase-code', case=dict(lines=[repr(line)])))
    n += 1
    return dict(evaluations=n, failures=fails[:10], samples=[], distribution=dict(lines=n))
