"""C10 -- served by the `plugin` correspondence stream (real ExcludeRegionPlugin vs Model/Plugin.v) and a reference oracle."""
import common as C
import pluginstream as PS
import pluginoracles as PO

PID = 'C10'
TRUSTED = ['Tier H model coq/Model/Plugin.v (+ Filter.v) tied to /repo by the `plugin` vm_compute correspondence on every run '
           '(responses, notifications, active flag, excluding flag and region list compared after every step)',
           'the real plugin is instantiated outside OctoPrint (harness/implplugin.py): settings store in a temp dir, recording plugin manager, stub current_user',
           'modelled, not verified: the order in which OctoPrint fires events and hooks (all orders are quantified over instead), AtCommandAction regexes, uuid4 ids (ids are given), settings (de)serialisation']
ASSUMPTIONS = ['the histories before print-started leave every per-print field dirty (aborted episodes, disabled exclusion, pending deferred commands, owed recoveries, unit/mode changes)']


def correspondence(ctx):
    n = ctx.n(50, 1200)
    hs = [PS.gen_history(ctx.rng) for _ in range(n)]
    nev, dis, rows, shards = PS.run_histories(hs, PID.lower())
    out = []
    for d in dis[:3]:
        out.append(dict(kind=d['kind'], stream='plugin', case=PS.describe(d['hist'], d['rows'])) if d['kind'] == 'model!=impl' else d)
    kinds = {}
    for h in hs:
        for e in h['events']:
            kinds[e[0]] = kinds.get(e[0], 0) + 1
    nontriv = len(set(repr(h['events'])[:3000] for h, r in zip(hs, rows) if any(isinstance(x[1], tuple) and x[1] and x[1][0] == 'suppress' for x in r)))
    return dict(evaluations=len(hs), distinct_nontrivial=nontriv, shards=shards, events=nev, distribution=kinds,
                rule='histories of OctoPrint events (file selected, settings updated, print started/paused/resumed/done/failed/cancelling/'
                     'cancelled, error, others), gcode / @-command / script hook invocations and API requests (valid, duplicate id, unknown id, '
                     'wrong type, anonymous; grow / shrink / touching / other-type updates on dyadic geometry); non-trivial = distinct '
                     'history in which at least one command was suppressed by the filter',
                samples=[[list(map(str, e)) for e in hs[-1]['events'][:14]]], disagreements=out)


import math as _m
_A = _m.pi - 10.5 * (_m.pi / 63)          # half way between the 10th and the 11th sample of G2 X70 Y50 I20 J0 from (30,50)
SLIVER = dict(type='RectangularRegion', id='d2', x1=50 + 20 * _m.cos(_A) - 0.15, y1=50 + 20 * _m.sin(_A) - 0.15, x2=50 + 20 * _m.cos(_A) + 0.15, y2=50 + 20 * _m.sin(_A) + 0.15)
REGION = dict(type='RectangularRegion', id='d1', x1=10.0 + 1.0 / 2048, y1=10.0 + 1.0 / 2048, x2=20.0 + 1.0 / 2048, y2=20.0 + 1.0 / 2048)


def designed_history(rng):
    """a print that leaves every per-print field dirty in a chosen way, on a fixed region; the program run afterwards crosses the same
    region twice"""
    st = PS.rnd_settings(rng)
    if rng.random() < 0.7 and not st['enter']:
        st['enter'] = ['M117 in']; st.pop('enter_text', None)
    if rng.random() < 0.7 and not st['exit']:
        st['exit'] = ['M117 out']; st.pop('exit_text', None)
    st0 = dict(st)
    evs = [('api', 'addExcludeRegion', dict(REGION), False), ('api', 'addExcludeRegion', dict(SLIVER), False), ('event', 'PRINT_STARTED'), ('cmd', 'G28'), ('cmd', 'G1 X5 Y5 Z0.3 E1 F3000')]
    dirty = rng.sample(['wipe-entry', 'owed', 'inch', 'relative', 'disabled', 'deferred', 'plain-entry', 'fw', 'two-episodes', 'g92', 'settings', 'm206'], rng.randint(1, 4))
    if rng.random() < 0.25:
        dirty.append('entry-last')        # the print is aborted on the very command that entered a region (or only @-commands follow it)
    for d in dirty:
        if d == 'wipe-entry':
            evs += [('cmd', 'G1 X15 Y15 E0.2'), ('cmd', 'G1 X16 Y16 E0.5'), ('cmd', 'G1 X30 Y30 E1'), ('cmd', 'G1 X5 Y5 E1.5')]
        elif d == 'owed':
            evs += [('cmd', 'G1 E0.5'), ('cmd', 'G1 X15 Y15'), ('cmd', 'G1 E1.5')]
        elif d == 'inch':
            evs += [('cmd', 'G20')]
        elif d == 'relative':
            evs += [('cmd', 'G91')]
        elif d == 'disabled':
            evs += [('at', '@ExcludeRegion off', False)]
        elif d == 'deferred':
            evs += [('cmd', 'G90'), ('cmd', 'G21'), ('cmd', 'G1 X15 Y15 E2'), ('cmd', 'M204 S900'), ('cmd', 'M117 deferred'), ('cmd', 'M73 P7')]
        elif d == 'plain-entry':
            evs += [('cmd', 'G1 X15 Y15 E2'), ('cmd', 'G1 X40 Y40 E3')]
        elif d == 'fw':
            evs += [('cmd', 'G10'), ('cmd', 'G1 X15 Y15'), ('cmd', 'G11')]
        elif d == 'two-episodes':
            evs += [('cmd', 'G1 X15 Y15 E2'), ('cmd', 'G1 X40 Y40 E3'), ('cmd', 'G1 X15 Y15 E2.5'), ('cmd', 'G1 X40 Y40 E4')]
        elif d == 'settings':
            # the tables and scripts are edited while the print runs: codes taken out, scripts changed
            st2 = dict(st)
            st2['ext'] = dict((g, m) for g, m in st['ext'].items() if rng.random() < 0.5)
            st2['enter'] = rng.choice([[], ['M117 in2'], st['enter']]); st2.pop('enter_text', None)
            st2['exit'] = rng.choice([[], ['M117 out2'], st['exit']]); st2.pop('exit_text', None)
            evs += [('settings', st2)]
            st = st2
        elif d == 'g92':
            evs += [('cmd', 'G92 E0'), ('cmd', 'G1 F1234')]
        elif d == 'm206':
            evs += [('cmd', rng.choice(['M206 X-8 Y-8', 'M206 X-8 Y-8 Z1', 'M206 Y9']))]
        elif d == 'entry-last':
            evs += [('cmd', 'G90'), ('cmd', 'G21'), ('cmd', 'G1 X40 Y40 F3000'), ('cmd', 'G1 X15 Y15 E2')] + rng.choice([[], [('at', '@ExcludeRegion off', False)], [('at', '@pause', False)]])
    evs += rng.choice([[], [('event', 'PRINT_CANCELLED')], [('event', 'PRINT_FAILED')], [('script', 'gcode', 'afterPrintDone'), ('event', 'PRINT_DONE')], [('event', 'ERROR')]])
    tail = [('cmd', 'G28'), ('cmd', rng.choice(['G1 X5 Y5 Z0.3 E1 F3000', 'G1 X5 Y5 Z0.3 E1'])), ('cmd', 'M204 S500'), ('cmd', 'G1 X15 Y15 E0.5'), ('cmd', 'M204 S700'), ('cmd', 'G4 P100'), ('cmd', 'M117 tail'), ('cmd', 'M73 P9'), ('cmd', 'G1 X16 Y16 E2'),
            ('cmd', 'G1 X30 Y30 E3'), ('cmd', 'G1 E2'), ('cmd', 'G1 X15 Y15'), ('cmd', 'G1 E3'), ('cmd', 'G1 X40 Y40'), ('cmd', 'G1 X41 Y41 E4'),
            ('cmd', 'G10'), ('cmd', 'G1 X12 Y12'), ('cmd', 'G11'), ('cmd', 'G1 X50 Y50 E5'), ('script', 'gcode', 'afterPrintDone')]
    k = rng.random()
    if k < 0.2:
        # the next job sends nothing before its clean-up script runs (SD print, empty file): nothing may be left to clean up
        tail = [('script', 'gcode', 'afterPrintDone'), ('script', 'gcode', 'afterPrintDone')] + tail
    elif k < 0.5:
        # arcs sampled at the stated resolution: a sliver of a region lying between two sample points is not noticed -- by either plugin
        tail = tail[:2] + [('cmd', 'G1 X30 Y50'), ('cmd', 'G2 X70 Y50 I20 J0 E1.5'), ('cmd', 'G3 X30 Y50 I-20 J0 E2'), ('cmd', 'G1 X5 Y5')] + tail[2:]
    return dict(settings=st0, events=evs, tail=tail)


def oracle(ctx, budget=1, replay=None, hints=None):
    fails, n = [], 120 * budget
    dist = dict(histories=0, events=0)
    for _ in range(n):
        h = PS.gen_history(ctx.rng)
        dist['histories'] += 1
        dist['events'] += len(h['events'])
        # the program run after print-started: mostly the history's own path again (it crosses the regions that are still defined),
        # sometimes an unrelated one
        src = h if ctx.rng.random() < 0.7 else PS.gen_history(ctx.rng)
        h['tail'] = [('cmd', 'G28')] + [e for e in src['events'] if e[0] in ('cmd', 'at', 'script')][:80]
        f = PO.check_C10(h, ctx.rng)
        if f:
            fails.append(f[0])
    for _ in range(40 * budget):
        h = designed_history(ctx.rng)
        dist['histories'] += 1
        n += 1
        f = PO.check_C10(h, ctx.rng)
        if f:
            fails.append(f[0])
    return dict(evaluations=n, failures=fails, samples=[[list(map(str, e)) for e in h['events'][:10]]], distribution=dist)
