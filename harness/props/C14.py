"""C14 -- served by the `filter` correspondence stream and the reference-printer oracle."""
import common as C
import oracles as O
from props import _filter as FL
import pluginstream as PS

PID = 'C14'
TRUSTED = ['Tier H model coq/Model/{Axis,Filter}.v tied to /repo by vm_compute correspondence on every run (harness/filterstream.py)',
           'modelled, not verified: binary64 rounding (model is exact; numbers compared within 1e-9, decisions away from borders by >= 5e-4)',
           'AtCommandAction.matches (user regex) is an external parameter of the model: in the plugin stream the matched actions are computed from the '
           'settings in force by the harness (re.match), not read from the plugin']
ASSUMPTIONS = ['default action patterns in the generated stream; custom patterns enter the model as the list of matched actions']
KW = dict()


def _kw():
    kw = dict(KW)
    styles = kw.pop('style_in', None)
    return kw, styles


def correspondence(ctx):
    kw, styles = _kw()
    acc = (lambda p: p['style'] in styles) if styles else None
    r = FL.correspondence(ctx, PID, kw, 60, 1500, accept=acc)
    # the plugin layer: the action table comes from the settings (custom commands and patterns, changed at run time)
    return PS.merge_into(r, ctx, PID.lower() + 'p', 20, 500, extra=[PS.atc_history(ctx.rng) for _ in range(ctx.n(30, 400))])


def oracle(ctx, budget=1, replay=None, hints=None):
    kw, styles = _kw()
    acc = (lambda p: p['style'] in styles) if styles else None
    return FL.oracle(ctx, PID, [O.check_C14], kw, 150 * budget, accept=acc, replay=replay)
