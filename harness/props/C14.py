"""C14 -- served by the `filter` correspondence stream and the reference-printer oracle."""
import common as C
import oracles as O
from props import _filter as FL
import pluginstream as PS

PID = 'C14'
TRUSTED = ['Tier H model coq/Model/{Axis,Filter}.v tied to /repo by vm_compute correspondence on every run (harness/filterstream.py)',
           'modelled, not verified: binary64 rounding (model is exact; numbers compared within 1e-9, decisions away from borders by >= 5e-4)',
           'AtCommandAction.matches (user regex) is an external parameter of the model: in the plugin stream the matched actions are computed from the '
           'settings in force by the harness (re.match), not read from the plugin']
ASSUMPTIONS = ['default action patterns in the generated stream; custom patterns enter the model as the list of matched actions']
KW = dict()


def _kw():
    kw = dict(KW)
    styles = kw.pop('style_in', None)
    return kw, styles


def correspondence(ctx):
    kw, styles = _kw()
    acc = (lambda p: p['style'] in styles) if styles else None
    r = FL.correspondence(ctx, PID, kw, 60, 1500, accept=acc)
    # the plugin layer: the action table comes from the settings (custom commands and patterns, changed at run time)
    return PS.merge_into(r, ctx, PID.lower() + 'p', 20, 500, extra=[PS.atc_history(ctx.rng) for _ in range(ctx.n(30, 400))])


def oracle(ctx, budget=1, replay=None, hints=None):
    kw, styles = _kw()
    acc = (lambda p: p['style'] in styles) if styles else None
    r = FL.oracle(ctx, PID, [O.check_C14], kw, 150 * budget, accept=acc, replay=replay)
    # a disable command that closes an episode leaves the same obligations as a move out of the region, including an owed recovery:
    # designed programs where the command arrives while the recovery is owed, judged by the E / retraction oracles as well
    # the plugin layer: which actions apply is decided by the table in the settings in force (several entries per command, patterns, edits
    # at run time); the real plugin against a reference reading of that table
    import pluginoracles as PO
    nh = 40 * budget
    for _ in range(nh):
        h = PS.atc_history(ctx.rng) if ctx.rng.random() < 0.7 else PS.gen_history(ctx.rng)
        f = PO.run_history(h, ('C14',))
        if f and len(r['failures']) < 10:
            r['failures'].append(f[0])
    r['evaluations'] += nh
    r['distribution']['plugin_histories'] = nh
    for p in designed(ctx.rng, 12 * budget):
        steps, exc = O.simulate(p)
        O.episodes(steps)
        fs = O.check_C14(p, steps) + O.check_C04(p, steps) + O.check_C05(p, steps)
        r['evaluations'] += 1
        r['distribution']['designed'] = r['distribution'].get('designed', 0) + 1
        if fs:
            f = min(fs, key=lambda x: x['step'])
            f['source'] = 'designed'
            r['failures'].append(f)
    return r


def designed(rng, n):
    from fractions import Fraction as F
    import genprog
    R = [('rect', 'a', F(10), F(10), F(20), F(20))]
    out = []
    for i in range(n):
        L = rng.choice(['1', '0.8', '2.5'])
        e0 = rng.choice(['1', '3.2', '10'])
        lo = '%g' % (float(e0) - float(L))
        lines = ['G28', 'G1 X5 Y5 F3000', 'G1 X6 Y5 E%s F1200' % e0, 'G1 E%s F2400' % lo, 'G1 X15 Y15 F3000', 'G1 E%s F2400' % e0]
        evs = [('cmd', l) for l in lines]
        e = float(e0)
        for k in range(rng.randint(0, 2)):
            e += 0.5
            evs.append(('cmd', 'G1 X%d Y16 E%g F1200' % (16 + k, e)))
        evs.append(('at', '@ExcludeRegion off'))
        tail = rng.choice(['retract-first', 'print-first', 'travel-first'])
        if tail == 'print-first':
            e += 0.5
            evs.append(('cmd', 'G1 X18 Y18 E%g F1200' % e))
        elif tail == 'travel-first':
            evs.append(('cmd', 'G1 X18 Y12 F3000'))
        evs += [('cmd', 'G1 E%g F2400' % (e - float(L))), ('cmd', 'G1 X30 Y30 F3000'), ('cmd', 'G1 E%g F2400' % e), ('cmd', 'G1 X31 Y30 E%g F1200' % (e + 0.5))]
        if rng.random() < 0.5:
            evs += [('at', '@ExcludeRegion on'), ('cmd', 'G1 E%g F2400' % (e + 0.5 - float(L))), ('cmd', 'G1 X15 Y15 F3000'), ('cmd', 'G1 E%g F2400' % (e + 0.5)),
                    ('cmd', 'G1 X40 Y40 F3000'), ('cmd', 'G1 X41 Y40 E%g F1200' % (e + 1))]
        out.append(dict(g90e=False, enter=None, exit=None, ext=dict(genprog.DEFAULT_EXT), regions=R, events=evs, style='eonly', alen='1'))
    # exclusion switched back on while the tool stands inside a region: the next move is judged by where it ends, also when it does not change X/Y
    for i in range(n):
        evs = [('cmd', l) for l in ['G28', 'G1 X5 Y5 Z0.3 F3000', 'G1 X6 Y5 E1 F1200']]
        evs += [('at', '@ExcludeRegion off'), ('cmd', 'G1 X15 Y15 F3000'), ('at', '@ExcludeRegion on')]
        evs.append(('cmd', rng.choice(['G1 Z0.6', 'G1 X15 E2', 'G1 Y15 E2', 'G1 X15 Y15 E2', 'G1 Z0.5 E1.5'])))
        if rng.random() < 0.5:
            evs += [('cmd', 'G91'), ('cmd', 'G1 X0 Y0'), ('cmd', 'G90')]
        evs += [('cmd', 'G1 X16 Y16 E3'), ('cmd', 'G1 X30 Y30 F3000'), ('cmd', 'G1 X31 Y30 E3.5 F1200')]
        out.append(dict(g90e=False, enter=None, exit=None, ext=dict(genprog.DEFAULT_EXT), regions=R, events=evs, style='none', alen='1'))
    return out
