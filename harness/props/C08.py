"""C08 -- exclusion decisions are invariant under re-encoding of the same tool path (metamorphic)."""
import math
from fractions import Fraction as F
import common as C
import impl, reader, refprinter, genprog
import oracles as O
from props import _filter as FL

PID = 'C08'
TRUSTED = ['Tier H model tied to /repo by the `filter` correspondence (relative / inch programs included)',
           'firmware behaviour = the reference printer; the re-encodings are produced by harness code from an abstract native path',
           'modelled, not verified: binary64 rounding (destinations keep >= 0.05 mm from region borders; positions compared to 1e-3 mm because inch '
           'coordinates are written with 5 decimals)']
ASSUMPTIONS = ['destinations kept a margin away from region borders, as the property states', 'G92 X/Y/Z re-basing is finding D18 (only confirmed, not part of the passing set)']


# ---- abstract native tool paths
def abstract_path(rng):
    ops = []
    n = rng.randint(8, 40)
    z = F(3, 10)
    e = F(0)
    retracted = False
    x, y = F(0), F(0)
    cs = [(F(rng.randint(30, 170)), F(rng.randint(30, 170))) for _ in range(rng.randint(2, 4))]
    ops.append(('move', dict(z=z, f=3000)))
    for _ in range(n):
        k = rng.random()
        if k < 0.55:
            cx, cy = rng.choice(cs)
            x = cx + F(rng.randint(-900, 900), 100)
            y = cy + F(rng.randint(-900, 900), 100)
            d = dict(x=x, y=y)
            if rng.random() < 0.15:
                d = dict(x=x) if rng.random() < 0.5 else dict(y=y)
            if not retracted and rng.random() < 0.7:
                e += F(rng.randint(1, 200), 100)
                d['e'] = e
            if rng.random() < 0.2:
                d['f'] = rng.choice([1200, 1800, 6000])
            ops.append(('move', d))
        elif k < 0.65:
            z = z + F(rng.choice([2, 2, 4, -2]), 10)
            if z < 0:
                z = F(1, 10)
            ops.append(('move', dict(z=z)))
        elif k < 0.8:
            if not retracted:
                e -= 1
                ops.append(('move', dict(e=e)))
                retracted = True
            else:
                e += 1
                ops.append(('move', dict(e=e)))
                retracted = False
        elif k < 0.85:
            ops.append(('raw', 'M204 S%d' % rng.randint(500, 2000)))
        elif k < 0.9:
            ops.append(('raw', 'M117 hello'))
        elif k < 0.96:
            # equal travel steps: in the relative encoding these are the same line several times
            sx, sy = F(rng.randint(-3, 3)), F(rng.randint(-3, 3))
            for _s in range(rng.randint(2, 4)):
                x, y = x + sx, y + sy
                ops.append(('move', dict(x=x, y=y)))
    regs = []
    for (cx, cy) in cs:
        if rng.random() < 0.7:
            off = F(1, 20)
            if rng.random() < 0.6:
                w, h = F(rng.randint(2, 8)), F(rng.randint(2, 8))
                regs.append(('rect', 'r%d' % len(regs), cx - w + off / 3, cy - h + off / 3, cx + w + off / 3, cy + h + off / 3))
            else:
                regs.append(('circ', 'r%d' % len(regs), cx + off / 3, cy - off / 3, F(rng.randint(2, 8)) + off / 3))
    # margin: every destination at least 0.05 mm from every border
    px, py = F(0), F(0)
    pts = []
    for op in ops:
        if op[0] == 'move':
            px, py = op[1].get('x', px), op[1].get('y', py)
            pts.append((px, py))
    regs = [r for r in regs if all(abs(genprog.region_dist(r, a, b)) >= 0.05 for a, b in pts)]
    return ops, regs


def render(ops, variant, at, vec=(F(0), F(0))):
    """-> (lines, index of the line produced for each op)"""
    U = refprinter.Printer(False)
    lines, idx = ['G28'], []
    U.execute('G28')
    for k, op in enumerate(ops):
        if k == at and variant == 'inch':
            lines.append('G20'); U.execute('G20')
        if k == at and variant == 'relative':
            lines.append('G91'); U.execute('G91')
        if k == at and variant == 'rebase':
            l = 'G92 X%s Y%s' % (genprog.fmt(U.logical('x') - 7), genprog.fmt(U.logical('y') + 3))
            lines.append(l); U.execute(l)
        if op[0] == 'raw':
            lines.append(op[1]); idx.append(len(lines) - 1)
            continue
        d = op[1]
        nd = 5 if U.um != 1 else 3
        parts = ['G1']
        for ax in 'xyz':
            if ax in d:
                tgt = d[ax] + (vec[0] if ax == 'x' else vec[1] if ax == 'y' else 0)
                v = (tgt - getattr(U, 'o' + ax)) / U.um if U.absm else (tgt - getattr(U, ax)) / U.um
                parts.append(ax.upper() + genprog.fmt(v, nd))
        if 'e' in d:
            parts.append('E' + genprog.fmt(d['e'] / U.um, 6 if U.um != 1 else 5))
        if 'f' in d:
            parts.append('F' + genprog.fmt(F(d['f']) / U.um, 3 if U.um != 1 else 0))
        l = ' '.join(parts)
        lines.append(l); U.execute(l); idx.append(len(lines) - 1)
    return lines, idx


def run(lines, regs):
    prog = dict(g90e=False, enter=None, exit=None, ext=dict(genprog.DEFAULT_EXT), regions=regs, events=[('cmd', l) for l in lines], style='eonly', alen='1')
    steps, exc = O.simulate(prog)
    O.episodes(steps)
    return prog, steps, exc


def compare(ops, regs, variant, at, rng):
    vec = (F(rng.randint(-20, 40)), F(rng.randint(-20, 40))) if variant == 'translate' else (F(0), F(0))
    base_lines, bi = render(ops, 'base', None)
    var_lines, vi = render(ops, variant, at, vec)
    regs2 = [genprog_translate(r, vec) for r in regs]
    p1, s1, e1 = run(base_lines, regs)
    p2, s2, e2 = run(var_lines, regs2)
    if e1 or e2:
        return dict(what='exception %r / %r' % (e1, e2), signature='C08:exception')
    seen = set()
    for k, (a, b) in enumerate(zip(bi, vi)):
        A, B = s1[a], s2[b]
        if ops[k][0] == 'move':
            seen |= set(ops[k][1].keys())
        ka = 'suppress' if A.kind == 'suppress' else 'forward'
        kb = 'suppress' if B.kind == 'suppress' else 'forward'
        if ka != kb or A.excluding1 != B.excluding1:
            return dict(what='%s re-encoding from op %d: op %d (%r / %r) is %s/%s in the base run and %s/%s in the re-encoded run' %
                        (variant, at, k, A.ev[1], B.ev[1], ka, 'excluding' if A.excluding1 else 'not excluding', kb, 'excluding' if B.excluding1 else 'not excluding'),
                        signature='C08:' + variant, base=base_lines[:a + 1][-8:], variant=var_lines[:b + 1][-8:])
        dx, dy = vec
        if not ('x' in seen and 'y' in seen):
            continue       # the home position itself is not translated
        if A.excluding1:
            continue       # inside an episode the printer stands at the (encoding independent) entry position, checked at exit
        if not (abs(A.F1.x + dx - B.F1.x) < 1e-3 and abs(A.F1.y + dy - B.F1.y) < 1e-3 and abs(A.F1.z - B.F1.z) < 1e-3):
            return dict(what='%s re-encoding from op %d: after op %d the printer is at %s in the base run and at %s in the re-encoded run' %
                        (variant, at, k, (float(A.F1.x), float(A.F1.y), float(A.F1.z)), (float(B.F1.x), float(B.F1.y), float(B.F1.z))),
                        signature='C08:' + variant, base=base_lines[:a + 1][-8:], variant=var_lines[:b + 1][-8:])
    return None


def genprog_translate(r, v):
    if r[0] == 'rect':
        return (r[0], r[1], r[2] + v[0], r[3] + v[1], r[4] + v[0], r[5] + v[1])
    return (r[0], r[1], r[2] + v[0], r[3] + v[1], r[4])


def correspondence(ctx):
    # the filter stream restricted to programs with mode / unit switches
    return FL.correspondence(ctx, PID, dict(ext=False, addregions=False), 50, 1200)


def oracle(ctx, budget=1, replay=None, hints=None):
    fails, n, dist = [], 0, dict(inch=0, relative=0, translate=0, episodes=0)
    for _ in range(120 * budget):
        ops, regs = abstract_path(ctx.rng)
        for variant in ('inch', 'relative', 'translate'):
            at = ctx.rng.randint(0, len(ops) - 1)
            n += 1
            dist[variant] += 1
            f = compare(ops, regs, variant, at, ctx.rng)
            if f:
                f['case'] = dict(ops=[str(o) for o in ops][:60], regions=[[str(x) for x in r] for r in regs], variant=variant, at=at)
                if len(fails) < 10:
                    fails.append(f)
    # known finding D18: G92 X/Y/Z re-basing changes decisions / end positions
    for _ in range(10):
        ops, regs = abstract_path(ctx.rng)
        if not regs:
            continue
        f = compare(ops, regs, 'rebase', max(1, len(ops) // 3), ctx.rng)
        n += 1
        if f:
            f['case'] = dict(variant='rebase')
            fails.append(f)
            break
    return dict(evaluations=n, failures=fails, samples=[], distribution=dist)
