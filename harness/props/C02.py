"""C02 -- transparency: a print that never touches a region is forwarded verbatim."""
import common as C
import oracles as O
import genprog
from props import _filter as FL

PID = 'C02'
TRUSTED = ['Tier H model coq/Model/{Axis,Filter}.v tied to /repo by vm_compute correspondence on every run (harness/filterstream.py)',
           'the theorem\'s hypothesis is judged on the position the filter tracks; that this equals the file\'s own position is the tracking '
           'part of the simulation invariant (C03/C14) and, on the implementation, the reference-printer oracle of this check',
           'modelled, not verified: binary64 rounding']
ASSUMPTIONS = ['programs issued after homing', 'no G92 X/Y/Z in the proved dialect of the oracle stream (finding D18 breaks tracking; reported as KNOWN-FINDING)']


def _variants(ctx, n):
    """programs with no regions, with exclusion disabled throughout, or with regions the path stays clear of"""
    progs = []
    while len(progs) < n:
        p = genprog.Gen(ctx.rng, addregions=False, at=False).program()
        k = ctx.rng.random()
        if k < 0.3:
            p['regions'] = []
        elif k < 0.5:
            p['events'] = [p['events'][0], ('at', '@ExcludeRegion off')] + p['events'][1:]
        progs.append(p)
    return progs


def correspondence(ctx):
    # junk=True: flags, bare codes and M206 home offsets (set, changed, reset) as the code has them -- model and code must agree on them too
    return FL.correspondence(ctx, PID, dict(addregions=False, junk=True), 50, 1200)


def oracle(ctx, budget=1, replay=None, hints=None):
    progs = _variants(ctx, 120 * budget)
    r = FL.oracle(ctx, PID, [O.check_C02], dict(), 0, replay=replay, want_touch=False, extra_progs=progs)
    # search guided by the tracking discrepancy: a stale tracked point, given a region of its own, makes a clear path be filtered
    for p in progs[:60 * budget]:
        steps, exc = O.simulate(p)
        if exc:
            continue
        q = O.stale_tracking_witness(p, steps)
        r['evaluations'] += 1
        if q is None:
            continue
        steps2, exc2 = O.simulate(q)
        O.episodes(steps2)
        if exc2 is None and not O.touches_region(steps2):
            fs = O.check_C02(q, steps2)
            if fs and len(r['failures']) < 10:
                f = fs[0]
                f['signature'] = 'C02:stale-tracking'
                r['failures'].append(f)
    # known finding D18: G92 X/Y/Z breaks tracking, so a clear path is no longer forwarded verbatim
    w = FL.corpus_prog(dict(name='D18', props=['C02'], regions=[['rect', 'a', 10, 10, 20, 20]],
                            lines=['G28', 'G1 X30 Y30 F3000', 'G92 X0 Y0', 'G1 X45 Y45', 'G1 X50 Y50']))
    steps, exc = O.simulate(w)
    O.episodes(steps)
    if not O.touches_region(steps):
        for f in O.check_C02(w, steps)[:1]:
            r['failures'].append(f)
    r['evaluations'] += 1
    return r
