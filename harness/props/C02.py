"""C02 -- transparency: a print that never touches a region is forwarded verbatim."""
import common as C
import oracles as O
import genprog
from props import _filter as FL
import pluginstream as PS

PID = 'C02'
TRUSTED = ['Tier H model coq/Model/{Axis,Filter}.v tied to /repo by vm_compute correspondence on every run (harness/filterstream.py)',
           'the theorem\'s hypothesis is judged on the position the filter tracks; that this equals the file\'s own position is the tracking '
           'part of the simulation invariant (C03/C14) and, on the implementation, the reference-printer oracle of this check',
           'modelled, not verified: binary64 rounding',
           'plugin layer (hooks, @-command action table and scripts from the settings): `plugin` vm_compute correspondence against the real ExcludeRegionPlugin (harness/pluginstream.py, Model/Plugin.v)']
ASSUMPTIONS = ['programs issued after homing', 'no G92 X/Y/Z in the proved dialect of the oracle stream (finding D18 breaks tracking; reported as KNOWN-FINDING)']


def _variants(ctx, n):
    """programs with no regions, with exclusion disabled throughout, or with regions the path stays clear of"""
    progs = []
    while len(progs) < n:
        p = genprog.Gen(ctx.rng, addregions=False, at=False).program()
        k = ctx.rng.random()
        if k < 0.3:
            p['regions'] = []
        elif k < 0.5:
            p['events'] = [p['events'][0], ('at', '@ExcludeRegion off')] + p['events'][1:]
        progs.append(p)
    return progs


def correspondence(ctx):
    # junk=True: flags, bare codes and M206 home offsets (set, changed, reset) as the code has them -- model and code must agree on them too
    r = FL.correspondence(ctx, PID, dict(addregions=False, junk=True), 50, 1200)
    # the same filter as OctoPrint drives it: through the plugin object's hooks, with the @-command actions (exclusion switched off by the
    # file itself) and scripts taken from the settings
    return PS.merge_into(r, ctx, PID.lower() + 'p', 10, 300, extra=[PS.atc_history(ctx.rng) for _ in range(ctx.n(15, 300))])


def oracle(ctx, budget=1, replay=None, hints=None):
    progs = designed() + _variants(ctx, 120 * budget)
    r = FL.oracle(ctx, PID, [O.check_C02], dict(), 0, replay=replay, want_touch=False, extra_progs=progs)
    # search guided by the tracking discrepancy: a stale tracked point, given a region of its own, makes a clear path be filtered
    for p in progs[:60 * budget]:
        steps, exc = O.simulate(p)
        if exc:
            continue
        q = O.stale_tracking_witness(p, steps)
        r['evaluations'] += 1
        if q is None:
            continue
        steps2, exc2 = O.simulate(q)
        O.episodes(steps2)
        if exc2 is None and not O.touches_region(steps2):
            fs = O.check_C02(q, steps2)
            if fs and len(r['failures']) < 10:
                f = fs[0]
                f['signature'] = 'C02:stale-tracking'
                r['failures'].append(f)
    # known finding D18: G92 X/Y/Z breaks tracking, so a clear path is no longer forwarded verbatim
    w = FL.corpus_prog(dict(name='D18', props=['C02'], regions=[['rect', 'a', 10, 10, 20, 20]],
                            lines=['G28', 'G1 X30 Y30 F3000', 'G92 X0 Y0', 'G1 X45 Y45', 'G1 X50 Y50']))
    steps, exc = O.simulate(w)
    O.episodes(steps)
    if not O.touches_region(steps):
        for f in O.check_C02(w, steps)[:1]:
            r['failures'].append(f)
    r['evaluations'] += 1
    # through the plugin object, as OctoPrint drives it: a file that switches exclusion off at its start (default action table and tables
    # with several entries per command) and then crosses the region is forwarded verbatim
    import pluginstream as PS, pluginoracles as PO, implplugin as IP
    reg = dict(type='RectangularRegion', id='a1', x1=10.0, y1=10.0, x2=20.0, y2=20.0)
    for _ in range(12 * budget):
        st = PS.rnd_settings(ctx.rng)
        st['atc'] = ctx.rng.choice([PS.DEFAULT_ATC, PS.DEFAULT_ATC + [('Purge', None, 'disable_exclusion')], [PS.DEFAULT_ATC[1], PS.DEFAULT_ATC[0]],
                                   [('ExcludeRegion', '^\\s*(disable|off)', 'disable_exclusion'), ('ExcludeRegion', '^\\s*(enable|on)', 'enable_exclusion'), ('Other', None, 'enable_exclusion')]])
        off = ctx.rng.choice(['@ExcludeRegion off', '@ExcludeRegion disable'])
        evs = [('api', 'addExcludeRegion', reg, False), ('event', 'PRINT_STARTED'), ('cmd', 'G28'), ('at', off, False), ('cmd', 'G1 X5 Y5 Z0.3 E1 F3000'),
               ('cmd', 'G1 X15 Y15 E2'), ('cmd', 'G1 E1'), ('cmd', 'G1 X16 Y12'), ('cmd', 'G1 E2'), ('cmd', 'G2 X12 Y16 I-2 J2 E3'), ('cmd', 'M204 S500'), ('cmd', 'G1 X30 Y30 E4')]
        pl = IP.new_plugin(**PS.Run.settings_dict(st))
        r['evaluations'] += 1
        for k, ev in enumerate(evs):
            res, _msgs = PO.drive(pl, ev, st)
            if ev[0] == 'cmd' and res is not None and list(res) != [ev[1]]:
                r['failures'].append(dict(what='after %r (exclusion switched off by the file) the plugin answered %r with %r instead of leaving it alone' % (off, ev[1], res),
                                          signature='C02:plugin-disabled', step=k, case=dict(settings=dict((kk, str(v)) for kk, v in st.items()), events=[list(map(str, e)) for e in evs[:k + 1]])))
                break
    return r


def designed():
    """paths that pass a hair's breadth OUTSIDE a region (4e-7 beyond an edge, 3e-7 beyond a radius; integer geometry, millimetres, no offsets,
    so every comparison the code makes is exact): membership is the closed rectangle / disc, nothing more"""
    from fractions import Fraction as F
    R = [('rect', 'a', F(10), F(10), F(20), F(20)), ('circ', 'b', F(50), F(50), F(10))]
    out = []
    for pts in ([('20.0000004', '15'), ('15', '9.9999996'), ('9.9999996', '9.9999996'), ('20.0000004', '20.0000004')],
                [('60.0000003', '50'), ('50', '39.9999997'), ('57.0710679', '57.0710679'), ('44', '41.9999997')]):
        lines = ['G28', 'G1 X5 Y5 Z0.3 F3000', 'G1 X6 Y5 E0.5']
        e = 0.5
        for (x, y) in pts:
            e += 0.25
            lines += ['G1 X%s Y%s E%g' % (x, y, e), 'G1 X30 Y30']
        out.append(dict(g90e=False, enter=None, exit=None, ext=dict(genprog.DEFAULT_EXT), regions=R, events=[('cmd', l) for l in lines], style='none', alen='1'))
    return out
