"""C09 -- filtering is total and protocol-conformant."""
import subprocess, sys
import common as C
import oracles as O
import genprog, impl
from props import _filter as FL

PID = 'C09'
TRUSTED = ['Tier H model coq/Model/{Axis,Filter}.v tied to /repo by the `filter` vm_compute correspondence (malformed stream included)',
           'Tier G: planArc / computeArcCenterOffsets are regenerated from /repo on every run; their `_safe` side conditions are proved for all inputs',
           'modelled, not verified: binary64 overflow to inf / nan (int(ceil(inf)) raises), time and memory (finding D17), pre-homing state (cur = None)']
ASSUMPTIONS = ['commands are issued after homing (G28 first), as the property states']

CODES = ['G0', 'G1', 'G2', 'G3', 'G10', 'G11', 'G20', 'G21', 'G28', 'G90', 'G91', 'G92', 'M206', 'M204', 'M117', 'G4', 'M73', 'T0', 'M999', 'G5', 'G29', 'g1', 'G01', 'G1.5', 'M80.1']
NUMS = ['0', '-0', '1', '-1', '+5', '.5', '-.25', '5.', '007', '15', '15.5', '100000', '1234567.891', '0.00001', '-0.000001', '99999999', '1e5', '12.5.3', '',
        '1' + '0' * 25, '123456789' * 4]
LETTERS = list('XYZEFIJRSPT') + list('xyzeijr') + ['A', 'Q']


BIG = ('100000', '1234567.891', '99999999', '1e5', '1' + '0' * 25, '123456789' * 4)


def rnd_cmd(rng, big=True):
    code = rng.choice(CODES)
    ws = []
    for _ in range(rng.randint(0, 6)):
        l = rng.choice(LETTERS)
        n = rng.choice(NUMS)
        if not big and n in BIG:
            n = rng.choice(['1000', '1234.891', '9999', '1e5'])      # see malformed_program
        if code.upper().lstrip('G0') in ('2', '3') or code.upper() in ('G2', 'G3', 'G02', 'G03'):
            n = rng.choice(['0', '-0', '1', '-1', '+5', '.5', '-.25', '5.', '007', '15', '15.5', '100', '0.00001', '12.5.3', ''])
        ws.append(rng.choice(['%s%s', '%s %s', '%s%s ']) % (l, n))
    if rng.random() < 0.1:
        ws.append(rng.choice(['Hello world', '; x', '*5', '\\;', 'S']))
    # keep arcs from asking for astronomically many segments (finding D17 is about those)
    s = (code + ' ' + ' '.join(ws)).strip()
    return s


def malformed_program(rng, big=True):
    """big=False: magnitudes stay below 1e4 so that binary64 cancellation (1e8 * 25.4 + 1e-6 - 1e8 * 25.4) cannot separate the implementation's
    numbers from the exact model's by more than the comparison tolerance; the extreme magnitudes are exercised by the oracle (exceptions, shapes)"""
    evs = [('cmd', 'G28')]
    for _ in range(rng.randint(5, 40)):
        r = rng.random()
        if r < 0.8:
            evs.append(('cmd', rnd_cmd(rng, big)))
        elif r < 0.9:
            evs.append(('at', rng.choice(['@ExcludeRegion off', '@ExcludeRegion on', '@x', '@ExcludeRegion'])))
        else:
            evs.append(('cmd', rng.choice(['G28', 'G28 X', 'G28 Z0', 'G90', 'G21'])))
    regs = [('rect', 'a', 10, 10, 20, 20), ('circ', 'b', 0, 0, 3)][:rng.randint(0, 2)]
    from fractions import Fraction as F
    regs = [tuple([r[0], r[1]] + [F(x) for x in r[2:]]) for r in regs]
    return dict(g90e=rng.random() < 0.5, enter=rng.choice([None, ['M117 in']]), exit=rng.choice([None, ['M117 out']]),
                ext=dict(genprog.DEFAULT_EXT), regions=regs, events=evs, style='none', alen='1')


def correspondence(ctx):
    extra = [malformed_program(ctx.rng, big=False) for _ in range(ctx.n(60, 1500))]
    return FL.correspondence(ctx, PID, dict(junk=True), 25, 600, extra_progs=extra)


D17 = "import sys; sys.path.insert(0,'/verif/harness'); import impl; h=impl.new_handlers([]); impl.run(h,['G28','G2 J123456789012']); print('returned')"


def oracle(ctx, budget=1, replay=None, hints=None):
    extra = designed(ctx.rng) + [malformed_program(ctx.rng) for _ in range(300 * budget)]
    r = FL.oracle(ctx, PID, [O.check_C09], dict(junk=True), 60 * budget, replay=replay, extra_progs=extra)
    # stream-processor entry point: same grammar, line by line
    import io
    n = 0
    for p in extra[:100 * budget]:
        h = impl.new_handlers(p['regions'], g90e=p['g90e'], enter=p['enter'], exit_=p['exit'], ext=p['ext'])
        sp = impl.StreamProcessor(io.BytesIO(b''), h)
        for ev in p['events']:
            line = ev[1] + '\n'
            n += 1
            try:
                out = sp.process_line(line)
            except Exception as e:
                r['failures'].append(dict(what='StreamProcessor.process_line(%r) raised %s: %s' % (line, type(e).__name__, e), signature='C09:' + type(e).__name__,
                                          case=dict(events=[list(map(str, x)) for x in p['events']])))
                break
            if not (out is None or (isinstance(out, str) and out)):
                r['failures'].append(dict(what='process_line(%r) returned %r' % (line, out), signature='C09:shape', case=dict(line=line)))
    r['evaluations'] += n
    # the table of deferred codes is edited in the settings while the tool is inside a region (D25, repaired): a code captured whole under
    # first / last and merged afterwards, and every other change of mode with an entry pending
    from octoprint_excluderegion.ExcludedGcode import ExcludedGcode
    from fractions import Fraction as _F
    for m1 in ('first', 'last', 'merge', 'exclude'):
        for m2 in ('first', 'last', 'merge', 'exclude'):
            h = impl.new_handlers([('rect', 'a', _F(10), _F(10), _F(20), _F(20))], ext={'M117': m1, 'M204': m1})
            cmds = ['G28', 'G1 X5 Y5 F3000', 'G1 X15 Y15', 'M117 S1', 'M204 S500 P1', ('mode', m2), 'M117 S2', 'M204 T2', 'M204', 'G1 X30 Y30']
            r['evaluations'] += 1
            try:
                for c in cmds:
                    if isinstance(c, tuple):
                        h.state.extendedExcludeGcodes = {g: ExcludedGcode(g, c[1], '') for g in ('M117', 'M204')}
                        continue
                    k, pl = impl.step(h, c)
                    if k == 'replace' and not all(isinstance(x, str) and x for x in pl):
                        r['failures'].append(dict(what='illegal result %r for %r after the mode of the code was changed from %s to %s' % (pl, c, m1, m2), signature='C09:shape',
                                                  case=dict(commands=[str(x) for x in cmds])))
            except Exception as e:
                r['failures'].append(dict(what='%r raised %s: %s after the mode of a pending deferred code was changed from %s to %s in mid-episode' % (c, type(e).__name__, e, m1, m2),
                                          signature='C09:' + type(e).__name__, case=dict(commands=[str(x) for x in cmds])))
    # known finding D17: the number of arc segments is unbounded (resource exhaustion); reproduced under a time limit
    try:
        subprocess.run(['/venv/bin/python', '-c', D17], timeout=3, stdout=subprocess.PIPE, stderr=subprocess.PIPE,
                       env=dict(PYTHONPATH=C.REPO, PATH='/usr/bin:/bin'))
    except subprocess.TimeoutExpired:
        r['failures'].append(dict(what='G2 J123456789012 does not return within 3 s (unbounded segment count)', signature='C09:unbounded-arc',
                                  case=dict(events=[['cmd', 'G28'], ['cmd', 'G2 J123456789012']])))
    return r


def designed(rng):
    """legal but unusual histories: unit / offset changes inside an episode that leave a logical coordinate unchanged while the tool moved
    (or the other way round), and exclusion switched off in the middle of an episode with moves inside the same region afterwards"""
    from fractions import Fraction as F
    from props import C14
    R = [('rect', 'a', F(10), F(10), F(20), F(20))]
    out = []
    for mid in (['G20', 'G1 Z1', 'G1 X2 Y2'], ['G20', 'G1 Z0.03937', 'G21', 'G1 X30 Y30'], ['G1 Z2', 'G92 Z3', 'G1 X30 Y30'], ['G91', 'G1 Z0', 'G90', 'G1 X30 Y30'],
                ['G20', 'G1 Z1 F10', 'G1 X0.6 Y0.6', 'G21', 'G1 X40 Y40'], ['M206 Z1', 'G1 Z1', 'G1 X30 Y30']):
        lines = ['G28', 'G1 Z1 F600', 'G1 X5 Y5', 'G1 X15 Y15 E1'] + mid + ['G1 X31 Y31 E2']
        out.append(dict(g90e=False, enter=None, exit=None, ext=dict(genprog.DEFAULT_EXT), regions=R, events=[('cmd', l) for l in lines], style='none', alen='1'))
    # retractions the filter drops (filament already retracted): firmware retraction twice in a row, and again while a recovery is owed
    for lines in (['G28', 'G1 X5 Y5 F3000', 'G10', 'G10', 'G11', 'G11', 'G1 X6 Y5 E1'],
                  ['G28', 'G1 X5 Y5 E1 F3000', 'G10', 'G1 X15 Y15', 'G11', 'G1 X30 Y30', 'G10', 'G10 S1', 'G1 X40 Y40', 'G11', 'G1 X41 Y40 E2'],
                  ['G28', 'G1 X5 Y5 E1 F3000', 'G1 E0', 'G1 E-1', 'G1 X15 Y15', 'G1 E1', 'G1 X30 Y30', 'G1 E0', 'G1 E0', 'G1 E1', 'G1 X31 Y30 E2']):
        out.append(dict(g90e=False, enter=None, exit=None, ext=dict(genprog.DEFAULT_EXT), regions=R, events=[('cmd', l) for l in lines], style='none', alen='1'))
    return out + C14.designed(rng, 6)
