"""C07 -- commands synthesised by the filter are well-formed plain-decimal G-code."""
import math, re
from decimal import Decimal
from fractions import Fraction as F
import common as C
import impl, reader, genprog, oracles as O
from props import _filter as FL
from octoprint_excluderegion.GcodeParser import formatNumber, GcodeParser

PID = 'C07'
TRUSTED = ['Tier H filter model (coq/Model/Filter.v: deferral / merging) tied to /repo by the `filter` vm_compute correspondence',
           'Tier H coq/Model/Format.v (layout of the digits of a float) tied to GcodeParser.formatNumber and to the commands actually emitted, '
           'character for character, on every run',
           'modelled, not verified: CPython\'s shortest-digit repr (the digits and decimal exponent of each float are inputs of the model); '
           'inf / nan (need inputs with more than 308 digits) are outside the model']
ASSUMPTIONS = ['finite tracked values']


def digits_of(x):
    """(neg, ds, k): x = (-1)^neg * 0.ds * 10^k with ds the shortest round-tripping digits"""
    t = Decimal(repr(x)).as_tuple()
    ds = ''.join(map(str, t.digits)).lstrip('0')
    k = len(''.join(map(str, t.digits)).lstrip('0')) + t.exponent
    ds2 = ds.rstrip('0')
    if ds2 == '':
        return (t.sign == 1, '', 0)
    return (t.sign == 1, ds2, k)


def floats(ctx, n):
    rng = ctx.rng
    xs = [0.0, -0.0, 1.0, 100.0, 1e16, 1e17, 9999999999999998.0, 1.5e16, 123456789012345680.0, 1e-4, 1e-5, 0.0001234, 5e-324, 1.7976931348623157e308,
          2.220446049250313e-16, 0.1 + 0.2, 1 / 3.0, 25.4, 1e22, 1e23, 3000.0, 0.30000000000000004]
    for e in range(-324, 309):
        xs.append(float('1e%d' % e))
        xs.append(float('%se%d' % (rng.choice(['1.5', '9.99', '2.220446049250313', '123456789']), max(-323, min(300, e)))))
    while len(xs) < n:
        k = rng.random()
        if k < 0.3:
            xs.append(float('%d.%03d' % (rng.randint(0, 300), rng.randint(0, 999))) * rng.choice([1, -1]))
        elif k < 0.5:
            acc = 0.0
            for _ in range(rng.randint(1, 30)):
                acc += rng.choice([0.1, -0.1, 0.05, 0.2, -0.3, 0.001])
            xs.append(acc)
        elif k < 0.7:
            xs.append(float('%d.%03d' % (rng.randint(0, 300), rng.randint(0, 999))) / 25.4)
        elif k < 0.85:
            xs.append(rng.random() * 10 ** rng.randint(-12, 20) * rng.choice([1, -1]))
        else:
            xs.append(float(rng.randint(0, 10 ** rng.randint(1, 18))))
    return xs


def coq_fnum(x):
    neg, ds, k = digits_of(x)
    return '(%s, %s, (%d)%%Z)' % (C.cbool(neg), C.cstr(ds), k)


def correspondence(ctx):
    xs = floats(ctx, ctx.n(3000, 40000))
    cases = []
    for x in xs:
        neg, ds, k = digits_of(x)
        cases.append('(mkFmt %s %s (%d)%%Z %s)' % (C.cbool(neg), C.cstr(ds), k, C.cstr(formatNumber(x))))
    # whole commands as the code builds them
    cmds = []
    gp = GcodeParser()
    for _ in range(ctx.n(300, 3000)):
        code = ctx.rng.choice(['M204', 'M205', 'M73', 'G92', 'G0', 'G1'])
        letters = ctx.rng.sample('XYZEFPSTR', ctx.rng.randint(1, 4))
        vals = [ctx.rng.choice(xs) for _ in letters]
        text = gp.buildCommand(code, **dict(zip(letters, vals)))
        cmds.append('(mkCmdCase %s %s %s)' % (C.cstr(code), C.clist(['("%s"%%char, %s)' % (l, coq_fnum(v)) for l, v in zip(letters, vals)]), C.cstr(text)))
    hdr = ('From Coq Require Import ZArith String Ascii List.\nFrom ER Require Import Model.Lexer Model.Format Model.FormatCases Model.Cases.\n'
           'Import ListNotations.\nOpen Scope string_scope.\n')
    files = []
    per = 2500
    for s in range(0, len(cases), per):
        files.append(('c07_%d' % (s // per), hdr + 'Definition cases : list fmtcase := [\n%s\n].\nEval vm_compute in (failing fmtcase_ok cases).\n' % ';\n'.join(cases[s:s + per]), ('fmt', s)))
    files.append(('c07_cmds', hdr + 'Definition cases : list cmdcase := [\n%s\n].\nEval vm_compute in (failing cmdcase_ok cases).\n' % ';\n'.join(cmds), ('cmd', 0)))
    dis = []
    for (name, rc, out), (_, _, (kind, s)) in zip(C.run_casefiles([(n, t) for n, t, _ in files]), files):
        bad = C.parse_nat_list(out) if rc == 0 else None
        if bad is None:
            dis.append(dict(kind='casefile-failed', what=out[-800:], shard=name)); continue
        for b in bad:
            if kind == 'fmt':
                x = xs[s + b]
                dis.append(dict(kind='model!=impl', stream='format', case=dict(value=repr(x), impl=formatNumber(x), digits=digits_of(x))))
            else:
                dis.append(dict(kind='model!=impl', stream='format', case=dict(command=cmds[b][:300])))
    # the merged-command theorem speaks about the filter model: tie it to the code by the filter stream (deferred codes, flags)
    fc = FL.correspondence(ctx, PID, dict(junk=True, at=False, addregions=False), 12, 300)
    dis += fc['disagreements']
    # ... and by programs in inches, where practically every tracked value has more decimals than the file's text (values made up by the
    # filter are compared with the exact model's to 1e-9)
    fi = FL.correspondence(ctx, PID + 'i', dict(junk=False, at=False, addregions=False), 14, 300,
                           accept=lambda p: any(e[0] == 'cmd' and e[1].strip().upper().replace(' ', '').startswith('G20') for e in p['events']))
    dis += fi['disagreements']
    for key in ('evaluations', 'distinct_nontrivial', 'shards', 'events'):
        fc[key] += fi[key]
    return dict(evaluations=len(xs) + len(cmds) + fc['evaluations'], distinct_nontrivial=len(set(xs)) + fc['distinct_nontrivial'], shards=len(files) + fc['shards'],
                rule='floats reachable as tracked values: decimal literals, relative-move round-off sums, inch conversions, random magnitudes, '
                     'integers up to 1e18 and every decimal exponent from -324 to 308; the model\'s text is compared character for character with '
                     'formatNumber and with buildCommand; distinct by value.  Plus the `filter` stream (programs with deferred codes and flags): every '
                     'generated command of the real handlers against the model',
                samples=[repr(x) + ' -> ' + formatNumber(x) for x in xs[:6]], disagreements=dis[:5], filter_stream=dict(programs=fc['evaluations'], events=fc['events']))


def generated(outs, line):
    return [o for o in outs if o != line]


def oracle(ctx, budget=1, replay=None, hints=None):
    """every generated command is one code + distinct letters + plain-decimal numbers, and reading it back gives exactly the
    values the filter tracks"""
    fails, n, nval = [], 0, 0
    progs = []
    # histories whose tracked values become tiny / huge
    R = [('rect', 'a', F(10), F(10), F(20), F(20))]
    def P(lines, **kw):
        d = dict(g90e=False, enter=None, exit=None, ext=dict(genprog.DEFAULT_EXT), regions=R, events=[('cmd', l) for l in lines], style='eonly', alen='1')
        d.update(kw)
        return d
    progs.append(P(['G28', 'G1 X5 Y5 E0.00001 F3000', 'G1 X15 Y15', 'G1 X30 Y30']))
    progs.append(P(['G28', 'G1 X5 Y5 Z0.3 F3000', 'G91'] + ['G1 Z0.1', 'G1 Z-0.1'] * 3 + ['G1 X10 Y10', 'G1 Z0.1', 'G1 Z-0.1', 'G1 X15 Y15']))
    progs.append(P(['G28', 'G20', 'G1 X0.2 Y0.2 F0.0001', 'G1 X0.6 Y0.6 E0.0000001', 'M204 S0.00001 P1e5', 'M204 T123456789012345678', 'G1 X2 Y2']))
    progs.append(P(['G28', 'G1 X5 Y5 E100000000000000000000 F1e-7', 'G1 E99999999999999999999', 'G1 X15 Y15', 'G1 X30 Y30 Z1e-7']))
    progs.append(P(['G28', 'G1 X15 Y15 F3000', 'M204 S500', 'M204 S', 'M73 P5 R', 'M204 P1 S', 'G1 X50 Y50'], ext={'M204': 'merge', 'M73': 'merge'}))   # D24
    # tiny tracked E values at a retraction / an owed recovery made up by the filter (exponent notation must not leak), and binary64 residue
    progs.append(P(['G28', 'G1 X5 Y5 E0.00001 F3000', 'G1 X15 Y15', 'G1 E-1 F1800', 'G1 X30 Y30', 'G1 E0.00001', 'G1 X31 Y31 E0.5']))
    progs.append(P(['G28', 'G1 X10 Y5 F3000', 'G1 X5 Y5 E1.2 F1200', 'G1 E0.4 F2400', 'G1 X15 Y15 F3000', 'G1 E1.2 F2400', 'G92 E0', 'G1 X16 Y16 E0.8 F1200',
                    'G1 X30 Y20 F3000', 'G1 X40 Y20 E1.2 F1200', 'G1 E0.4 F2400', 'G1 X30 Y30 F3000', 'G1 E1.2 F2400', 'G1 X40 Y30 E1.6 F1200']))
    progs.append(P(['G28', 'G20', 'G1 X0.2 Y0.2 E0.0123456789 F30', 'G1 E-0.0270333 F40', 'G1 X0.6 Y0.6', 'G1 E0.0123456789', 'G1 X2 Y2', 'G1 X2.1 Y2 E0.02']))
    # a retraction dropped because the filament is still retracted (recovery owed), with a G92 E offset / in inches: the lone G92 E sent instead
    progs.append(P(['G28', 'G1 X5 Y5 E3 F3000', 'G92 E0', 'G1 X6 Y5 E1', 'G1 E0 F1800', 'G1 X15 Y15', 'G1 E1', 'G1 X30 Y30', 'G1 E0', 'G1 X40 Y40', 'G1 E1', 'G1 X41 Y40 E1.5']))
    progs.append(P(['G28', 'G20', 'G1 X0.2 Y0.2 E0.1 F100', 'G1 E0.06 F70', 'G1 X0.6 Y0.6', 'G1 E0.1', 'G1 X1.2 Y1.2', 'G1 E0.06', 'G1 X1.6 Y1.6', 'G1 E0.1', 'G1 X1.7 Y1.6 E0.12']))
    # feed rate given in one unit, region left in the other without a new F word; and an F word on the leaving move itself
    progs.append(P(['G28', 'G1 X5 Y5 Z0.3 F3000', 'G20', 'G1 X0.6 Y0.6', 'G1 Z0.02', 'G1 X2 Y2', 'G1 X2.1 Y2 E0.02']))
    progs.append(P(['G28', 'G20', 'G1 X0.2 Y0.2 Z0.01 F100', 'G21', 'G1 X15 Y15', 'G1 Z0.6', 'G1 X30 Y30', 'G1 X31 Y30 E1']))
    progs.append(P(['G28', 'G1 X5 Y5 Z0.3 F3000', 'G1 X15 Y15', 'G1 Z0.5', 'G0 F1200 X30 Y30 F7200', 'G1 X15 Y15 F900', 'G1 X40 Y40', 'G1 X41 Y40 E1 F600']))
    for _ in range(60 * budget):
        progs.append(genprog.Gen(ctx.rng).program())
    for p in progs:
        steps, exc = O.simulate(p)
        # a merged deferred command carries a flag (letter without value) over when the program itself gave it as a flag
        flags = {}
        for e in p['events']:
            c = reader.read(e[1]) if e[0] == 'cmd' else None
            if c is not None and p['ext'].get(c.code) == 'merge':
                flags.setdefault(c.code, set()).update(k for k, v in c.words if v is None)
        for k, st in enumerate(steps):
            if st.ev[0] != 'cmd' and st.ev[0] != 'at':
                continue
            scripts = (p['enter'] or []) + (p['exit'] or [])
            for o in st.outs:
                if st.ev[0] == 'cmd' and o == st.ev[1]:
                    continue
                if o in scripts or not isinstance(o, str):
                    continue
                if any(o == e[1] for e in p['events'] if e[0] == 'cmd'):
                    continue            # a deferred command kept verbatim (first / last)
                n += 1
                co = reader.read(o)
                ok, why = reader.well_formed(o, flags.get(co.code, ()) if co is not None else ())
                if o.startswith(('G10', 'G11')):
                    ok = reader.read(o) is not None and not re.search(r'G1[01].*G1[01]', o)
                    why = 'malformed firmware retraction command'
                if not ok and len(fails) < 10:
                    fails.append(O.fail('generated command %r is not well-formed plain-decimal G-code: %s' % (o, why), st, k, 'C07:shape', p))
            # feed rate: a travel move the filter makes up (G0 without E) runs at the feed rate in force -- the last F given, in the units in force
            for o in st.outs:
                co = reader.read(o) if isinstance(o, str) and o != st.ev[1] and o not in scripts else None
                if co is not None and co.code == 'G0' and co.get('E') is None and co.get('F') is not None and st.exc is None and st.FR1:
                    nval += 1
                    got = float(co.get('F')) * float(st.U1.um)
                    if abs(got - st.FR1) > 1e-9 * max(1.0, abs(st.FR1)) and len(fails) < 10:
                        fails.append(O.fail('generated move %r runs at %r mm/min, the feed rate in force is %r mm/min' % (o, got, st.FR1), st, k, 'C07:feed', p))
            # value: when the file's command carries no E word (so the tracked E is not moved by the command itself), the last E word the
            # filter made up in the step denotes the logical E position it tracks afterwards (to 1e-9: the tracked value is itself re-derived
            # from native units).  Made-up commands in front of a forwarded E move are judged by the correspondence (exact model) instead.
            ci = reader.read(st.ev[1]) if st.ev[0] == 'cmd' else None
            if ci is not None and ci.code not in ('G92', 'G20', 'G21', 'G28', 'M206') and st.exc is None and st.EL1 is not None and st.U0.eabs and st.U1.eabs:
                ew = [(o, reader.read(o)) for o in st.outs if isinstance(o, str) and o not in scripts]
                ew = [(o, c.get('E')) for (o, c) in ew if c is not None and c.code in ('G0', 'G1', 'G92') and c.get('E') is not None]
                expect, how = (st.EL1, 'after the step') if ci.get('E') is None else (None, '')
                if ci.get('E') is not None and st.ev[1] not in st.outs and len(ew) == 1 and reader.read(ew[0][0]).code == 'G92':
                    # the file's E command is dropped and a lone G92 E is sent in its place (a retraction while the filament is still retracted):
                    # it tells the printer the E position the file is at now
                    expect, how = st.EL1, 'after the dropped command'
                if ew and ew[-1][0] != st.ev[1] and expect is not None:
                    o, ev = ew[-1]
                    nval += 1
                    try:
                        val = float(ev)
                    except (TypeError, ValueError):
                        val = None
                    if val is not None and abs(val - expect) > 1e-9 * max(1.0, abs(expect)) and len(fails) < 10:
                        fails.append(O.fail('generated command %r carries E=%r but the filter tracks logical E=%r %s' % (o, val, expect, how), st, k, 'C07:value', p))
    # handleGcode called directly with the command as written and its normalised code (what a host with a case-insensitive
    # code detection passes): lower-case firmware retraction inside a region and the owed recovery after it
    for cmds in ([('g10 S1', 'G10'), ('G1 X30 Y30', 'G1'), ('g11', 'G11')], [(' g10  s1', 'G10'), ('g1 x30 y30', 'G1'), ('G11 S1', 'G11'), ('g1 x31 y31 e2', 'G1')],
                 [('g10', 'G10'), ('g11', 'G11'), ('G1 X30 Y30 E2', 'G1')]):
        h = impl.new_handlers(R, ext=dict(genprog.DEFAULT_EXT))
        impl.run(h, ['G28', 'G1 X5 Y5 E1 F3000', 'G1 X15 Y15'])
        for cmd, code in cmds:
            r = h.handleGcode(cmd, code, None)
            if isinstance(r, (list, tuple)):
                for o in r:
                    if not isinstance(o, str) or o == cmd:
                        continue
                    n += 1
                    ok = reader.read(o) is not None and (not o.upper().startswith(('G10', 'G11')) or not re.search(r'[Gg]1[01].*[Gg]1[01]', o))
                    ok = ok and (o.upper().startswith(('G10', 'G11')) or reader.well_formed(o)[0])
                    if not ok and len(fails) < 10:
                        fails.append(dict(what='handleGcode(%r, %r) generated %r: not one well-formed command' % (cmd, code, o), signature='C07:shape-direct',
                                          case=dict(commands=['G28', 'G1 X5 Y5 E1 F3000', 'G1 X15 Y15'] + [c for c, _ in cmds])))
    # the offline path (StreamProcessor) accepts spellings the live hook never sees: lower-case codes, leading zeros, blanks
    import io
    nsp = 0
    for _ in range(25 * budget):
        p = genprog.Gen(ctx.rng, addregions=False, at=False, layers=1, style=ctx.rng.choice(['firmware', 'firmware', 'eonly', None])).program()
        h = impl.new_handlers(p['regions'], g90e=p['g90e'], enter=p['enter'], exit_=p['exit'], ext=p['ext'])
        sp = impl.StreamProcessor(io.BytesIO(b''), h)
        scripts = (p['enter'] or []) + (p['exit'] or [])
        inputs = set()
        for ev in p['events']:
            if ev[0] != 'cmd':
                continue
            line = ev[1]
            k = ctx.rng.random()
            if line.startswith(('G10', 'G11')) and k < 0.6:
                line = line.lower() if k < 0.3 else 'g' + line[1:]
            elif k < 0.25:
                line = line[0].lower() + line[1:]
            elif k < 0.35:
                line = line.lower()
            elif k < 0.45 and len(line) > 1 and line[1].isdigit():
                line = line[0] + '0' + line[1:]
            inputs.add(line.strip())
            try:
                out = sp.process_line(line + '\n')
            except Exception as e:
                fails.append(dict(what='process_line(%r) raised %s: %s' % (line, type(e).__name__, e), signature='C07:exception', case=dict(line=line)))
                break
            if out is None or out == line + '\n':
                continue
            for o in out.split('\n'):
                o = o.strip()
                if not o or o in scripts or o in inputs or any(o == e[1] for e in p['events'] if e[0] == 'cmd'):
                    continue
                co = reader.read(o)
                if co is not None and co.code in p['ext'] and p['ext'][co.code] in ('first', 'last'):
                    continue            # a deferred command re-issued (normalised) -- not synthesised
                canon = lambda t: re.sub(r'^([GMT])0+(?=\d)', r'\1', t.strip().upper().replace(' ', ''))
                if canon(o) == canon(line):
                    continue            # the input line itself, normalised
                nsp += 1
                ok, why = reader.well_formed(o, set('ABCDEFGHIJKLMNOPQRSTUVWXYZ') if (co is not None and p['ext'].get(co.code) == 'merge') else ())
                if o.startswith(('G10', 'G11')):
                    ok = reader.read(o) is not None and not re.search(r'[Gg]1[01].*[Gg]1[01]', o)
                    why = 'malformed firmware retraction command'
                if not ok and len(fails) < 10:
                    fails.append(dict(what='offline filter generated %r from %r: %s' % (o, line, why), signature='C07:shape-offline', case=dict(line=line, output=out)))
    n += nsp
    return dict(evaluations=n, failures=fails, samples=[], distribution=dict(programs=len(progs), generated_commands=n, offline_generated=nsp, exact_value_checks=nval))
