"""C03 -- served by the `filter` correspondence stream and the reference-printer oracle."""
import common as C
import oracles as O
from props import _filter as FL
import pluginstream as PS

PID = 'C03'
TRUSTED = ['Tier H model coq/Model/{Axis,Filter}.v tied to /repo by vm_compute correspondence on every run (harness/filterstream.py)',
           'modelled, not verified: binary64 rounding (model is exact; numbers compared within 1e-9, decisions away from borders by >= 5e-4)',
           'firmware behaviour = the reference printer',
           'plugin layer (hooks, @-command action table and scripts from the settings): `plugin` vm_compute correspondence against the real ExcludeRegionPlugin (harness/pluginstream.py, Model/Plugin.v)']
ASSUMPTIONS = ['no homing, G92 X/Y/Z or M206 while an episode is open (as the property states; an episode also stays open after an arc whose samples crossed a region, wherever the arc ends -- histories that home in that state are left to C01, finding D14)']
KW = dict()


def _kw():
    kw = dict(KW)
    styles = kw.pop('style_in', None)
    return kw, styles


def correspondence(ctx):
    kw, styles = _kw()
    acc = (lambda p: p['style'] in styles) if styles else None
    r = FL.correspondence(ctx, PID, kw, 60, 1500, accept=acc, extra_progs=designed())
    # the same filter as OctoPrint drives it: through the plugin object's hooks, with the @-command actions and scripts taken from the settings
    return PS.merge_into(r, ctx, PID.lower() + 'p', 10, 300, extra=[PS.atc_history(ctx.rng) for _ in range(ctx.n(15, 300))])


def oracle(ctx, budget=1, replay=None, hints=None):
    kw, styles = _kw()
    acc = (lambda p: p['style'] in styles) if styles else None
    r = FL.oracle(ctx, PID, [O.check_C03], kw, 150 * budget, accept=acc, replay=replay, extra_progs=designed())
    # through the plugin object, as OctoPrint drives it (exclusion switched off and on by the file, regions edited under the tool, unit and mode
    # switches inside the episode): two reference printers, one fed the file, one fed what the hooks let through
    import pluginoracles as PO
    nh = 60 * budget
    for _ in range(nh):
        f = PO.run_history(PS.hook_history(ctx.rng), ('C03',))
        if f and len(r['failures']) < 10:
            r['failures'].append(f[0])
    r['evaluations'] += nh
    r['distribution']['plugin_histories'] = nh
    r['distribution']['plugin_resync_checks'] = PO.COUNTS.get('C03:resync', 0)
    return r


def designed():
    """relative positioning inside a region with there-and-back steps whose sum is a binary64 residue of either sign (0.3-0.1-0.2 < 0 < 0.1+0.2-0.3):
    the re-positioning moves are the offsets back, so they carry numbers like -2.8e-17, which the printer must read as (practically) zero"""
    from fractions import Fraction as F
    import genprog
    R = [('rect', 'a', F(10), F(10), F(20), F(20))]
    out = []
    for steps in (('0.3', '-0.1', '-0.2'), ('0.1', '0.2', '-0.3'), ('0.7', '-0.1', '-0.6'), ('-0.7', '0.1', '0.6')):
        for ax in 'ZXY':
            lines = ['G28', 'G1 X5 Y5 Z1 F3000', 'G1 X6 Y5 E1', 'G1 X15 Y15', 'G91'] + ['G1 %s%s' % (ax, d) for d in steps]
            lines += ['G1 X20 Y20' if ax == 'Z' else ('G1 X20 Y0' if ax == 'Y' else 'G1 X0 Y20'), 'G90', 'G1 X40 Y40 E2']
            out.append(dict(g90e=False, enter=None, exit=None, ext=dict(genprog.DEFAULT_EXT), regions=R, events=[('cmd', l) for l in lines], style='none', alen='1'))
    return out
