"""C04 -- served by the `filter` correspondence stream and the reference-printer oracle."""
import common as C
import oracles as O
from props import _filter as FL

PID = 'C04'
TRUSTED = ['Tier H model coq/Model/{Axis,Filter}.v tied to /repo by vm_compute correspondence on every run (harness/filterstream.py)',
           'modelled, not verified: binary64 rounding (model is exact; numbers compared within 1e-9, decisions away from borders by >= 5e-4)',
           'firmware behaviour = the reference printer']
ASSUMPTIONS = ['absolute extrusion mode; matched equal-length retract/recover cycles of one style']
KW = dict(style_in=('eonly', 'firmware'), wipe=False)


def _kw():
    kw = dict(KW)
    styles = kw.pop('style_in', None)
    return kw, styles


def correspondence(ctx):
    kw, styles = _kw()
    acc = (lambda p: p['style'] in styles) if styles else None
    return FL.correspondence(ctx, PID, kw, 60, 1500, accept=acc, extra_progs=designed(ctx.rng, ctx.n(6, 60)))


def oracle(ctx, budget=1, replay=None, hints=None):
    kw, styles = _kw()
    acc = (lambda p: p['style'] in styles) if styles else None
    return FL.oracle(ctx, PID, [O.check_C04], kw, 150 * budget, accept=acc, replay=replay, extra_progs=designed(ctx.rng, 10 * budget))


def designed(rng, n):
    """the machine is homed again in the middle of a job (sequential printing: `G28`, `G28 W`, `G28 X Y`, `G28 Z`), the extruder coordinate is not
    touched by homing; afterwards a region is crossed by travel moves only, so the E value the filter sends is the one it tracked across the homing"""
    from fractions import Fraction as F
    import genprog
    R = [('rect', 'a', F(10), F(10), F(20), F(20))]
    out = []
    for _ in range(n):
        e = rng.choice(['2', '0.75', '12.5'])
        L = rng.choice(['1', '0.8'])
        lines = ['G28', 'G1 X5 Y5 Z0.3 F3000', 'G1 X6 Y5 E%s F1200' % e]
        owed = rng.random() < 0.5
        if owed:
            lines.append('G1 E%g F2400' % (float(e) - float(L)))
        lines.append(rng.choice(['G28', 'G28', 'G28 W', 'G28 X Y', 'G28 Z', 'G28 X']))
        lines += ['G1 X15 Y15 F3000']
        if owed:
            lines.append('G1 E%s F2400' % e)               # the recovery, inside the region: skipped, owed
        lines += ['G1 X30 Y30 F3000', 'G1 X31 Y30 E%g F1200' % (float(e) + 1)]
        out.append(dict(g90e=False, enter=None, exit=None, ext=dict(genprog.DEFAULT_EXT), regions=R, events=[('cmd', l) for l in lines], style='eonly', alen=L))
    # an owed recovery made up where the tracked E is a binary64 residue of either sign (+-1e-16): the made-up G92 E must still be read by the
    # printer as that number
    from props import C05
    return out + C05.designed()
