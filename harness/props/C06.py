"""C06 -- served by the `filter` correspondence stream and the reference-printer oracle."""
import common as C
import oracles as O
from props import _filter as FL
import pluginstream as PS
import pluginoracles as PO

PID = 'C06'
TRUSTED = ['Tier H model coq/Model/{Axis,Filter}.v tied to /repo by vm_compute correspondence on every run (harness/filterstream.py)',
           'plugin layer (script settings split by Model/Lexer.v split_script, print start / end / other events, script hook): `plugin` vm_compute '
           'correspondence against the real ExcludeRegionPlugin (harness/pluginstream.py)',
           'modelled, not verified: binary64 rounding (model is exact; numbers compared within 1e-9, decisions away from borders by >= 5e-4)',
           'declarative reading of exclude/first/last/merge in harness/oracles.py (deferred_spec)']
ASSUMPTIONS = ['episodes end by a move out, a disable @-command, the script hook or a new print']
KW = dict()


def _kw():
    kw = dict(KW)
    styles = kw.pop('style_in', None)
    return kw, styles


def correspondence(ctx):
    kw, styles = _kw()
    acc = (lambda p: p['style'] in styles) if styles else None
    r = FL.correspondence(ctx, PID, kw, 60, 1500, accept=acc)
    # the plugin layer: scripts come from the settings text, episodes also end with the print, pause / resume must not touch them
    PS.merge_into(r, ctx, PID.lower() + 'p', 25, 500, extra=[PS.ext_edit_history(ctx.rng) for _ in range(ctx.n(15, 300))])
    return r


def oracle(ctx, budget=1, replay=None, hints=None):
    kw, styles = _kw()
    acc = (lambda p: p['style'] in styles) if styles else None
    r = FL.oracle(ctx, PID, [O.check_C06], kw, 150 * budget, accept=acc, replay=replay)
    n = 40 * budget
    for _ in range(n):
        h = PS.gen_history(ctx.rng)
        f = PO.run_history(h, ('C06',))
        if f and len(r['failures']) < 10:
            r['failures'].append(f[0])
    r['evaluations'] += n
    r.setdefault('distribution', {})['plugin_histories'] = n
    return r
