"""C06 -- served by the `filter` correspondence stream and the reference-printer oracle."""
import common as C
import oracles as O
from props import _filter as FL
import pluginstream as PS
import pluginoracles as PO

PID = 'C06'
TRUSTED = ['Tier H model coq/Model/{Axis,Filter}.v tied to /repo by vm_compute correspondence on every run (harness/filterstream.py)',
           'plugin layer (script settings split by Model/Lexer.v split_script, print start / end / other events, script hook): `plugin` vm_compute '
           'correspondence against the real ExcludeRegionPlugin (harness/pluginstream.py)',
           'modelled, not verified: binary64 rounding (model is exact; numbers compared within 1e-9, decisions away from borders by >= 5e-4)',
           'declarative reading of exclude/first/last/merge in harness/oracles.py (deferred_spec)']
ASSUMPTIONS = ['episodes end by a move out, a disable @-command, the script hook or a new print']
KW = dict()


def _kw():
    kw = dict(KW)
    styles = kw.pop('style_in', None)
    return kw, styles


def correspondence(ctx):
    kw, styles = _kw()
    acc = (lambda p: p['style'] in styles) if styles else None
    r = FL.correspondence(ctx, PID, kw, 60, 1500, accept=acc, extra_progs=designed(ctx.rng, ctx.n(6, 100)))
    # the plugin layer: scripts come from the settings text, episodes also end with the print, pause / resume must not touch them
    PS.merge_into(r, ctx, PID.lower() + 'p', 25, 500, extra=[PS.ext_edit_history(ctx.rng) for _ in range(ctx.n(15, 300))] + [PS.pause_history(ctx.rng) for _ in range(ctx.n(8, 150))])
    return r


def oracle(ctx, budget=1, replay=None, hints=None):
    kw, styles = _kw()
    acc = (lambda p: p['style'] in styles) if styles else None
    r = FL.oracle(ctx, PID, [O.check_C06], kw, 150 * budget, accept=acc, replay=replay, extra_progs=designed(ctx.rng, 10 * budget))
    n = 40 * budget
    for _ in range(n):
        h = PS.gen_history(ctx.rng) if _ % 4 else PS.pause_history(ctx.rng)
        f = PO.run_history(h, ('C06',))
        if f and len(r['failures']) < 10:
            r['failures'].append(f[0])
    r['evaluations'] += n
    r.setdefault('distribution', {})['plugin_histories'] = n
    return r


def designed(rng, n):
    """episodes in which the same command text is met more than once with other deferred codes in between (a slicer repeats `M117 Layer 3 of 20`,
    `M73 P44`, `M204 S800` verbatim): the retained occurrence decides the place in the flushed sequence"""
    from fractions import Fraction as F
    import genprog
    R = [('rect', 'a', F(10), F(10), F(20), F(20))]
    pool = ['M117 Layer 3 of 20', 'M204 S800', 'M73 P44 R12', 'M205 X8', 'M117 Layer 4 of 20', 'M204 P500 T900', 'G4 P10', 'M106 S128']
    out = []
    for _ in range(n):
        ext = dict(genprog.DEFAULT_EXT)
        for code in ('M117', 'M204', 'M73', 'M205', 'G4', 'M106'):
            if rng.random() < 0.8:
                ext[code] = rng.choice(genprog.EXT_MODES)
        lines = ['G28', 'G1 X5 Y5 Z0.3 F3000', 'G1 X6 Y5 E0.5', 'G1 X15 Y15 E1']
        rep = rng.choice(pool)
        between = rng.sample([c for c in pool if c.split()[0] != rep.split()[0]], rng.randint(1, 3))
        if rng.random() < 0.6:
            # the repeated code keeps its last occurrence, a code met in between is kept too: the order of the two in the flushed sequence is at stake
            ext[rep.split()[0]] = 'last'
            ext[between[0].split()[0]] = rng.choice(['first', 'merge', 'last'])
        seq = [rep] + between + [rep] + rng.sample(pool, rng.randint(0, 2))
        if rng.random() < 0.3:
            seq.append(rep)
        e = 1.0
        for c in seq:
            lines.append(c)
            if rng.random() < 0.4:
                e += 0.25
                lines.append('G1 X%d Y16 E%g' % (rng.randint(11, 19), e))
        lines += ['G1 X30 Y30', 'G1 X31 Y30 E%g' % (e + 0.5)]
        out.append(dict(g90e=False, enter=rng.choice([None, ['M117 in']]), exit=rng.choice([None, ['M117 out']]), ext=ext, regions=R,
                        events=[('cmd', l) for l in lines], style='none', alen='1'))
    return out
