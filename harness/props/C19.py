"""C19 -- parameter extraction matches the RS274 / Marlin reading."""
from fractions import Fraction as F
import common as C
import wordstream as WS
import impl

PID = 'C19'
TRUSTED = ['Tier H tokenizer coq/Model/Words.v tied to GcodeParser.parameterItems by exhaustive comparison on every string up to the stated '
           'length over {space,X,e,1,.,+,-,@} plus rendered word lists in random legal spellings (vm_compute digests)',
           'modelled, not verified: Python\'s `re` engine and float() (values are compared as exact decimals)']
ASSUMPTIONS = ['number spellings without exponent, as the property states']


def correspondence(ctx):
    maxlen = ctx.n(5, 7)
    total, dis = WS.exhaustive(maxlen)
    texts = [WS.spell(ctx.rng, WS.rnd_words(ctx.rng)) for _ in range(ctx.n(2000, 30000))]
    dis += WS.explicit(texts, 'c19rnd')
    return dict(evaluations=total + len(texts), distinct_nontrivial=total + len(set(texts)), shards=maxlen + 1, exhaustive=True,
                rule='ALL strings of length <= %d over {space,X,e,1,.,+,-,@} (%d strings, exhaustive) plus %d word lists rendered in random legal '
                     'spellings (case, blanks, signs, leading/trailing point, repeated letters, valueless flags)' % (maxlen, total, len(texts)),
                samples=[repr(t) for t in texts[:4]], disagreements=dis[:5])


def oracle(ctx, budget=1, replay=None, hints=None):
    """reference reading = the generator's own word list; handlers must act on the last value of each letter"""
    fails, n = [], 0
    for _ in range(4000 * budget):
        ws = WS.rnd_words(ctx.rng)
        text = WS.spell(ctx.rng, ws)
        n += 1
        got = [(k, v) for k, v in WS.impl_items(text) if k != '']
        want = [(l, None if v is None else WS.value_of(v)) for l, v in ws]
        ok = len(got) == len(want) and all(g[0] == w[0] and ((g[1] is None) == (w[1] is None)) and (g[1] is None or F(repr(g[1])) == w[1])
                                           for g, w in zip(got, want))
        if not ok and len(fails) < 10:
            fails.append(dict(what='parameterItems(%r) = %r, reference reading %r' % (text, got, want), signature='C19:items', case=dict(input=text)))
    # handlers act on the last value given for each letter: tracked position / feed rate after G0/G1 with repeated words,
    # valueless flags (which give no value, wherever they stand) and either letter case
    for _ in range(600 * budget):
        n += 1
        h = impl.new_handlers([])
        impl.run(h, ['G28', 'G1 X10 Y10 Z1 E1 F900'])
        if ctx.rng.random() < 0.25:
            h.state.disableExclusion('C19 oracle')          # words are acted on whether or not exclusion is switched on
        vals = {}
        parts = []
        for _k in range(ctx.rng.randint(1, 7)):
            l = ctx.rng.choice('XYZEF')
            lt = l if ctx.rng.random() < 0.7 else l.lower()
            if ctx.rng.random() < 0.25:
                parts.append(lt)          # a flag: no value
                continue
            v = ctx.rng.randint(1, 200) / 4.0 if l == 'F' else ctx.rng.randint(-50, 200) / 4.0
            parts.append(ctx.rng.choice(['%s%s', '%s %s', '%s%s ']) % (lt, v))
            vals[l] = v
        cmd = ctx.rng.choice(['G1 ', 'G0 ', 'G1', 'G01 ']) + ' '.join(parts)
        impl.run(h, [cmd])
        p = h.state.position
        cur = dict(X=p.X_AXIS.current, Y=p.Y_AXIS.current, Z=p.Z_AXIS.current, E=p.E_AXIS.current, F=h.state.feedRate)
        want = dict(X=10.0, Y=10.0, Z=1.0, E=1.0, F=900.0)
        want.update(vals)
        for l, v in want.items():
            if cur[l] != v and len(fails) < 10:
                fails.append(dict(what='after %r the tracked %s is %r, the last value given is %r' % (cmd, l, cur[l], v), signature='C19:last-wins', case=dict(input=cmd)))
    # the same command text several times in a row (equal steps in relative mode, a slicer's repeated lines): every one is read and acted on afresh
    for _ in range(100 * budget):
        n += 1
        h = impl.new_handlers([])
        impl.run(h, ['G28', 'G1 X10 Y10 Z1 E1 F900', 'G91'])
        dx, dy, dz = ctx.rng.randint(-8, 8) / 4.0, ctx.rng.randint(-8, 8) / 4.0, ctx.rng.choice([0.0, 0.25, 0.5])
        cmd = ctx.rng.choice(['G1 X%s Y%s Z%s', 'G0 X%s Y%s Z%s', 'G1 X%s Y%s Z%s F1200', 'G1 x%s y%s z%s']) % (dx, dy, dz)
        reps = ctx.rng.randint(2, 4)
        impl.run(h, [cmd] * reps)
        p = h.state.position
        got = (p.X_AXIS.current, p.Y_AXIS.current, p.Z_AXIS.current)
        want = (10.0 + reps * dx, 10.0 + reps * dy, 1.0 + reps * dz)
        if got != want and len(fails) < 10:
            fails.append(dict(what='after G91 and %d times %r the tracked position is %r, the words given add up to %r' % (reps, cmd, got, want),
                              signature='C19:repeated-command', case=dict(input=cmd, times=reps)))
    # the words of the command that leaves a region count for what the filter sends in its place: the re-positioning moves run at the last F
    # given (on this very command, if it has one) and end at the last X / Y given
    from fractions import Fraction as _F
    import reader as _reader
    for _ in range(60 * budget):
        n += 1
        h = impl.new_handlers([('rect', 'a', _F(10), _F(10), _F(20), _F(20))])
        impl.run(h, ['G28', 'G1 X5 Y5 Z0.3 F3000', 'G1 X15 Y15'])
        f1, f2 = ctx.rng.choice([600, 1200, 4800]), ctx.rng.choice([7200, 900, 2400])
        x, y = ctx.rng.randint(30, 60), ctx.rng.randint(30, 60)
        cmd = ctx.rng.choice(['G0 F%d X%d Y%d F%d' % (f1, x, y, f2), 'G1 X%d Y%d F%d' % (x, y, f2), 'G0 X%d F%d Y%d' % (x, f2, y), 'G1 X1 Y1 F%d X%d Y%d' % (f2, x, y),
                              'G1 f%d x%d y%d' % (f2, x, y)])
        res = impl.run(h, [cmd])
        outs = [o for o in (res[0][2] if len(res[0]) > 2 and isinstance(res[0][2], (list, tuple)) else []) if isinstance(o, str)]
        moves = [_reader.read(o) for o in outs]
        moves = [c for c in moves if c is not None and c.code == 'G0' and c.get('X') is not None]
        if not moves or float(moves[-1].get('F') or 0) != float(f2) or (float(moves[-1].get('X')), float(moves[-1].get('Y'))) != (float(x), float(y)):
            if len(fails) < 10:
                fails.append(dict(what='leaving a region with %r the filter sent %r: the move back must run at F%d to X%d Y%d' % (cmd, outs, f2, x, y),
                                  signature='C19:exit-words', case=dict(input=cmd)))
    # the arc handlers read their words the same way: flags anywhere, repeated letters, either case
    for _ in range(150 * budget):
        n += 1
        h = impl.new_handlers([])
        inch = ctx.rng.random() < 0.4                       # a letter that is not given keeps the present coordinate, in either unit
        um = 25.4 if inch else 1.0
        impl.run(h, ['G28'] + (['G20'] if inch else []) + ['G1 X10 Y10 Z1 E1 F900'])
        ex, ey = ctx.rng.choice([(30.0, 10.0), (20.0, 20.0), (20.0, 0.0)])
        words = [('X', ex), ('Y', ey), ('I', 10.0), ('J', 0.0)]
        ez = 1.0
        if ctx.rng.random() < 0.3:
            ez = ctx.rng.choice([2.0, 0.5, 1.25])
            words.append(('Z', ez))
        ctx.rng.shuffle(words)
        parts = []
        for l, v in words:
            if ctx.rng.random() < 0.3:
                parts.append(ctx.rng.choice(['S', 'E', 'P', l, l.lower()]))           # a flag in front
            if ctx.rng.random() < 0.15:
                parts.append('%s%s' % (l, v + 3))                                      # an earlier value that is overridden
            parts.append(ctx.rng.choice(['%s%s', '%s %s', '%s%s ']) % (l if ctx.rng.random() < 0.7 else l.lower(), v))
        cmd = ctx.rng.choice(['G2 ', 'G3 ', 'G02 ']) + ' '.join(parts)
        impl.run(h, [cmd])
        p = h.state.position
        if (p.X_AXIS.current, p.Y_AXIS.current, p.Z_AXIS.current) != (ex * um, ey * um, ez * um) and len(fails) < 10:
            fails.append(dict(what='after %r (%s) the tracked position is (%r, %r, %r) mm, the last values given are (%r, %r, %r)'
                              % (cmd, 'inches' if inch else 'mm', p.X_AXIS.current, p.Y_AXIS.current, p.Z_AXIS.current, ex, ey, ez),
                              signature='C19:last-wins-arc', case=dict(input=cmd, inches=inch)))
    return dict(evaluations=n, failures=fails, samples=[WS.spell(ctx.rng, WS.rnd_words(ctx.rng)) for _ in range(3)], distribution=dict(spelled=4000 * budget, handler=600 * budget))
