"""C19 -- parameter extraction matches the RS274 / Marlin reading."""
from fractions import Fraction as F
import common as C
import wordstream as WS
import impl

PID = 'C19'
TRUSTED = ['Tier H tokenizer coq/Model/Words.v tied to GcodeParser.parameterItems by exhaustive comparison on every string up to the stated '
           'length over {space,X,e,1,.,+,-,@} plus rendered word lists in random legal spellings (vm_compute digests)',
           'modelled, not verified: Python\'s `re` engine and float() (values are compared as exact decimals)']
ASSUMPTIONS = ['number spellings without exponent, as the property states']


def correspondence(ctx):
    maxlen = ctx.n(5, 7)
    total, dis = WS.exhaustive(maxlen)
    texts = [WS.spell(ctx.rng, WS.rnd_words(ctx.rng)) for _ in range(ctx.n(2000, 30000))]
    dis += WS.explicit(texts, 'c19rnd')
    return dict(evaluations=total + len(texts), distinct_nontrivial=total + len(set(texts)), shards=maxlen + 1, exhaustive=True,
                rule='ALL strings of length <= %d over {space,X,e,1,.,+,-,@} (%d strings, exhaustive) plus %d word lists rendered in random legal '
                     'spellings (case, blanks, signs, leading/trailing point, repeated letters, valueless flags)' % (maxlen, total, len(texts)),
                samples=[repr(t) for t in texts[:4]], disagreements=dis[:5])


def oracle(ctx, budget=1, replay=None, hints=None):
    """reference reading = the generator's own word list; handlers must act on the last value of each letter"""
    fails, n = [], 0
    for _ in range(4000 * budget):
        ws = WS.rnd_words(ctx.rng)
        text = WS.spell(ctx.rng, ws)
        n += 1
        got = [(k, v) for k, v in WS.impl_items(text) if k != '']
        want = [(l, None if v is None else WS.value_of(v)) for l, v in ws]
        ok = len(got) == len(want) and all(g[0] == w[0] and ((g[1] is None) == (w[1] is None)) and (g[1] is None or F(repr(g[1])) == w[1])
                                           for g, w in zip(got, want))
        if not ok and len(fails) < 10:
            fails.append(dict(what='parameterItems(%r) = %r, reference reading %r' % (text, got, want), signature='C19:items', case=dict(input=text)))
    # handlers act on the last value given for each letter: tracked position / feed rate after G0/G1 with repeated words,
    # valueless flags (which give no value, wherever they stand) and either letter case
    for _ in range(600 * budget):
        n += 1
        h = impl.new_handlers([])
        impl.run(h, ['G28', 'G1 X10 Y10 Z1 E1 F900'])
        vals = {}
        parts = []
        for _k in range(ctx.rng.randint(1, 7)):
            l = ctx.rng.choice('XYZEF')
            lt = l if ctx.rng.random() < 0.7 else l.lower()
            if ctx.rng.random() < 0.25:
                parts.append(lt)          # a flag: no value
                continue
            v = ctx.rng.randint(1, 200) / 4.0 if l == 'F' else ctx.rng.randint(-50, 200) / 4.0
            parts.append(ctx.rng.choice(['%s%s', '%s %s', '%s%s ']) % (lt, v))
            vals[l] = v
        cmd = ctx.rng.choice(['G1 ', 'G0 ', 'G1', 'G01 ']) + ' '.join(parts)
        impl.run(h, [cmd])
        p = h.state.position
        cur = dict(X=p.X_AXIS.current, Y=p.Y_AXIS.current, Z=p.Z_AXIS.current, E=p.E_AXIS.current, F=h.state.feedRate)
        want = dict(X=10.0, Y=10.0, Z=1.0, E=1.0, F=900.0)
        want.update(vals)
        for l, v in want.items():
            if cur[l] != v and len(fails) < 10:
                fails.append(dict(what='after %r the tracked %s is %r, the last value given is %r' % (cmd, l, cur[l], v), signature='C19:last-wins', case=dict(input=cmd)))
    # the arc handlers read their words the same way: flags anywhere, repeated letters, either case
    for _ in range(150 * budget):
        n += 1
        h = impl.new_handlers([])
        impl.run(h, ['G28', 'G1 X10 Y10 Z1 E1 F900'])
        ex, ey = ctx.rng.choice([(30.0, 10.0), (20.0, 20.0), (20.0, 0.0)])
        words = [('X', ex), ('Y', ey), ('I', 10.0), ('J', 0.0)]
        ctx.rng.shuffle(words)
        parts = []
        for l, v in words:
            if ctx.rng.random() < 0.3:
                parts.append(ctx.rng.choice(['S', 'E', 'P', l, l.lower()]))           # a flag in front
            if ctx.rng.random() < 0.15:
                parts.append('%s%s' % (l, v + 3))                                      # an earlier value that is overridden
            parts.append(ctx.rng.choice(['%s%s', '%s %s', '%s%s ']) % (l if ctx.rng.random() < 0.7 else l.lower(), v))
        cmd = ctx.rng.choice(['G2 ', 'G3 ', 'G02 ']) + ' '.join(parts)
        impl.run(h, [cmd])
        p = h.state.position
        if (p.X_AXIS.current, p.Y_AXIS.current) != (ex, ey) and len(fails) < 10:
            fails.append(dict(what='after %r the tracked position is (%r, %r), the last values given are (%r, %r)' % (cmd, p.X_AXIS.current, p.Y_AXIS.current, ex, ey),
                              signature='C19:last-wins-arc', case=dict(input=cmd)))
    return dict(evaluations=n, failures=fails, samples=[WS.spell(ctx.rng, WS.rnd_words(ctx.rng)) for _ in range(3)], distribution=dict(spelled=4000 * budget, handler=600 * budget))
