"""C16 -- arc moves are sampled faithfully."""
import math
from fractions import Fraction as F
import common as C
import impl, arcs

PID = 'C16'
TRUSTED = ['Tier G: planArc / computeArcCenterOffsets are REGENERATED from /repo on every run (harness/py2coq.py) and the theorems are re-checked '
           'against that text; the translator is validated by comparing the proved closed form, evaluated in floating point, with the values the real '
           'planArc returns (this check) -- a mistranslation would have to satisfy the closed form while the code does not',
           'modelled, not verified: libm atan2 / cos / sin / hypot (the theorems use the real functions; Trig.atan2 is defined from atan), binary64 rounding']
ASSUMPTIONS = ['absolute positioning (arcs in relative mode are finding D15)', 'real-number arithmetic']


def rnd_arc(rng):
    x0, y0 = rng.uniform(-100, 300), rng.uniform(-100, 300)
    rad = rng.choice([0.2, 0.5, 1, 2.5, 7, 30, 120, 500]) * rng.uniform(0.9, 1.1)
    a0 = rng.uniform(-math.pi, math.pi)
    sweep = rng.choice([0.05, 0.5, 1, 1.5707963, 3, 3.14159265, 4.5, 6, 6.28318]) * rng.choice([1, -1])
    cx, cy = x0 - rad * math.cos(a0), y0 - rad * math.sin(a0)
    x1, y1 = cx + rad * math.cos(a0 + sweep), cy + rad * math.sin(a0 + sweep)
    if rng.random() < 0.08:
        x1, y1 = x0, y0            # full circle
    return x0, y0, x1, y1, cx - x0, cy - y0, sweep < 0


def closed_form(x0, y0, x1, y1, i, j, cw):
    """the closed form proved in Proofs/ArcGen.v, evaluated in floating point"""
    rho = math.hypot(i, j)
    rtx, rty = x1 - (x0 + i), y1 - (y0 + j)
    a = math.atan2(-i * rty + j * rtx, -i * rtx - j * rty)
    if a < 0:
        a += 2 * math.pi
    if cw:
        a -= 2 * math.pi
    if a == 0 and x0 == x1 and y0 == y1:
        a = 2 * math.pi
    n = max(1, int(math.ceil(abs(a) * rho / 1)))
    t0 = math.atan2(-j, -i)
    pts = []
    for k in range(1, n):
        pts += [x0 + i + math.cos(t0 + k * (a / n)) * rho, y0 + j + math.sin(t0 + k * (a / n)) * rho]
    return pts + [x1, y1], a, n


def set_pos(h, x, y):
    impl.run(h, ['G28'])
    h.state.position.X_AXIS.current = x
    h.state.position.Y_AXIS.current = y


def correspondence(ctx):
    n = ctx.n(3000, 40000)
    h = impl.new_handlers([])
    dis, nontriv = [], 0
    samples = []
    for _ in range(n):
        x0, y0, x1, y1, i, j, cw = rnd_arc(ctx.rng)
        set_pos(h, x0, y0)
        got = h.planArc(x1, y1, i, j, cw)
        want, a, nseg = closed_form(x0, y0, x1, y1, i, j, cw)
        nontriv += 1 if nseg > 1 else 0
        ok = len(got) == len(want) and all(abs(g - w) <= 1e-7 * max(1, abs(w)) for g, w in zip(got, want))
        if not ok and len(dis) < 5:
            dis.append(dict(kind='model!=impl', stream='arc', case=dict(start=[x0, y0], end=[x1, y1], ij=[i, j], clockwise=cw,
                                                                      impl_points=len(got) // 2, closed_form_points=len(want) // 2)))
        if len(samples) < 3:
            samples.append(dict(start=[x0, y0], end=[x1, y1], ij=[i, j], clockwise=cw, segments=nseg))
    return dict(evaluations=n, distinct_nontrivial=nontriv, shards=1,
                rule='random arcs: start points, radii 0.2..500, sweeps in (0, 2pi] both directions, full circles; the closed form proved in Coq for the '
                     'generated planArc is evaluated in floating point and compared with the values the real planArc returns (1e-7 relative); '
                     'non-trivial = arcs with at least two segments',
                samples=samples, disagreements=dis)


def oracle(ctx, budget=1, replay=None, hints=None):
    """the property statements directly on the implementation"""
    fails, n = [], 0
    h = impl.new_handlers([])
    for _ in range(2500 * budget):
        x0, y0, x1, y1, i, j, cw = rnd_arc(ctx.rng)
        set_pos(h, x0, y0)
        pts = h.planArc(x1, y1, i, j, cw)
        n += 1
        rho = math.hypot(i, j)
        cx, cy = x0 + i, y0 + j
        P = [(x0, y0)] + [(pts[k], pts[k + 1]) for k in range(0, len(pts), 2)]
        bad = None
        if (P[-1][0], P[-1][1]) != (x1, y1):
            bad = 'tested points do not end exactly at the commanded end point'
        for (px, py) in P[1:-1]:
            if abs(math.hypot(px - cx, py - cy) - rho) > 1e-6 * max(1, rho):
                bad = 'tested point (%r,%r) is not on the circle' % (px, py)
        angs = [math.atan2(py - cy, px - cx) for (px, py) in P]
        steps = []
        for a, b in zip(angs, angs[1:]):
            d = b - a
            while d <= -math.pi: d += 2 * math.pi
            while d > math.pi: d -= 2 * math.pi
            steps.append(d)
        full = (x0, y0) == (x1, y1)
        if len(steps) > 1:
            if any((s > 1e-9) == cw and 1e-9 < abs(s) < 3.0 for s in steps[:-1]):
                bad = 'tested points do not advance in the commanded direction'
            if max(steps[:-1]) - min(steps[:-1]) > 1e-6:
                bad = 'angular steps are not equal'
        total = sum(steps)
        for (ax, ay), (bx, by) in zip(P, P[1:]):
            if math.hypot(ax - bx, ay - by) > 1 + 1e-6:
                bad = 'consecutive tested points are %.6f > 1 apart' % math.hypot(ax - bx, ay - by)
        if bad and len(fails) < 10:
            fails.append(dict(what=bad, signature='C16:sampling', case=dict(start=[x0, y0], end=[x1, y1], ij=[i, j], clockwise=cw)))
    # radius form: centre at distance |R| from both end points
    for _ in range(1500 * budget):
        x0, y0 = ctx.rng.uniform(0, 200), ctx.rng.uniform(0, 200)
        axis = ctx.rng.random() < 0.5
        dx, dy = (ctx.rng.uniform(1, 40) * ctx.rng.choice([1, -1]), 0.0) if axis else (ctx.rng.uniform(1, 40), ctx.rng.uniform(1, 40) * ctx.rng.choice([1, -1]))
        if axis and ctx.rng.random() < 0.5:
            dx, dy = dy, dx
        R = math.hypot(dx, dy) * ctx.rng.uniform(0.55, 3) * ctx.rng.choice([1, -1])
        cw = ctx.rng.random() < 0.5
        set_pos(h, x0, y0)
        i, j = h.computeArcCenterOffsets(x0 + dx, y0 + dy, R, cw)
        n += 1
        d1 = math.hypot(i, j)
        d2 = math.hypot(x0 + i - (x0 + dx), y0 + j - (y0 + dy))
        if (abs(d1 - abs(R)) > 1e-6 * abs(R) or abs(d2 - abs(R)) > 1e-6 * abs(R)):
            sig = 'C16:radius-centre-axis-aligned' if dx * dy == 0 else 'C16:radius-centre'
            if not any(f['signature'] == sig for f in fails):
                fails.append(dict(what='R form: centre is at distance %.4f / %.4f from the end points instead of |R| = %.4f (chord %.3f,%.3f)' % (d1, d2, abs(R), dx, dy),
                                  signature=sig, case=dict(start=[x0, y0], delta=[dx, dy], R=R, clockwise=cw)))
    # an arc reaching deeper into a region than the sampling resolution is excluded as a whole
    for _ in range(300 * budget):
        n += 1
        cx, cy, rad = ctx.rng.uniform(50, 150), ctx.rng.uniform(50, 150), ctx.rng.uniform(5, 30)
        a0 = ctx.rng.uniform(-math.pi, math.pi)
        sweep = ctx.rng.uniform(1.0, 5.0) * ctx.rng.choice([1, -1])
        am = a0 + sweep / 2
        mx, my = cx + rad * math.cos(am), cy + rad * math.sin(am)
        hreg = impl.new_handlers([('rect', 'r', mx - 1.5, my - 1.5, mx + 1.5, my + 1.5)])
        x0, y0 = cx + rad * math.cos(a0), cy + rad * math.sin(a0)
        x1, y1 = cx + rad * math.cos(a0 + sweep), cy + rad * math.sin(a0 + sweep)
        impl.run(hreg, ['G28', 'G1 X%.4f Y%.4f F3000' % (x0, y0)])
        x0r, y0r = hreg.state.position.X_AXIS.current, hreg.state.position.Y_AXIS.current
        if abs(x0r - mx) < 2.5 and abs(y0r - my) < 2.5:
            continue
        code = ctx.rng.choice(['G3', 'G3', 'G03', 'G003'] if sweep > 0 else ['G2', 'G2', 'G02', 'G002'])     # the host passes the code as written
        res = impl.run(hreg, ['%s X%.4f Y%.4f I%.4f J%.4f' % (code, x1, y1, cx - x0r, cy - y0r)])
        if res[0][1] != 'suppress':
            fails.append(dict(what='an arc passing 1.5 units deep through a region is not excluded (%s)' % res[0][1], signature='C16:arc-not-excluded',
                              case=dict(start=[x0r, y0r], end=[x1, y1], centre=[cx, cy], region=[mx - 1.5, my - 1.5, mx + 1.5, my + 1.5])))
    # nearly closed arcs that go the long way round: start and end less than a unit apart, arc length many units
    for _ in range(100 * budget):
        n += 1
        cx, cy, rad = ctx.rng.uniform(50, 150), ctx.rng.uniform(50, 150), ctx.rng.uniform(2, 30)
        a0 = ctx.rng.uniform(-math.pi, math.pi)
        gap = ctx.rng.uniform(0.05, 0.9) / rad                     # chord below one unit
        ccw = ctx.rng.random() < 0.5
        a1 = a0 - gap if ccw else a0 + gap                           # the long way round
        x0, y0 = cx + rad * math.cos(a0), cy + rad * math.sin(a0)
        x1, y1 = cx + rad * math.cos(a1), cy + rad * math.sin(a1)
        set_pos(h, x0, y0)
        pts = h.planArc(x1, y1, cx - x0, cy - y0, not ccw)
        want = max(1, int(math.ceil((2 * math.pi - gap) * rad)))
        if len(pts) // 2 < want - 1:
            fails.append(dict(what='an arc of length %.1f (start and end %.2f apart, the long way round) is tested at %d points only' % ((2 * math.pi - gap) * rad, gap * rad, len(pts) // 2),
                              signature='C16:sampling', case=dict(start=[x0, y0], end=[x1, y1], ij=[cx - x0, cy - y0], clockwise=not ccw)))
    # centre exactly level with / above the start point (I or J is 0 or omitted), and arcs run while no region is defined: the arc is
    # sampled and tracked all the same
    for _ in range(150 * budget):
        n += 1
        cx, cy, rad = float(ctx.rng.randint(50, 150)), float(ctx.rng.randint(50, 150)), float(ctx.rng.randint(5, 30))
        small = ctx.rng.random() < 0.3
        if small:
            # small arcs near the origin, numbers below 1 in the short spellings a slicer / CNC post-processor writes (".5", "-.25", "+.75", "1.")
            cx, cy, rad = ctx.rng.randint(4, 12) / 4.0, ctx.rng.randint(4, 12) / 4.0, ctx.rng.choice([0.25, 0.5, 0.75])

        def sp(v):
            t = '%g' % v
            if not small:
                return t
            k = ctx.rng.random()
            if k < 0.6 and t.startswith('0.'):
                t = t[1:]
            elif k < 0.6 and t.startswith('-0.'):
                t = '-' + t[2:]
            elif k < 0.8 and '.' not in t:
                t = t + '.'
            if ctx.rng.random() < 0.2 and not t.startswith('-'):
                t = '+' + t
            return t
        side = ctx.rng.randint(0, 3)
        x0, y0 = [(cx - rad, cy), (cx + rad, cy), (cx, cy - rad), (cx, cy + rad)][side]
        i, j = cx - x0, cy - y0
        ccw = ctx.rng.random() < 0.5
        # half circle: ends opposite the start, passes through the quarter point
        x1, y1 = 2 * cx - x0, 2 * cy - y0
        qa = math.atan2(y0 - cy, x0 - cx) + (math.pi / 2 if ccw else -math.pi / 2)
        mx, my = cx + rad * math.cos(qa), cy + rad * math.sin(qa)
        words = []
        if i != 0 or ctx.rng.random() < 0.4:
            words.append('I' + sp(i))
        if j != 0 or ctx.rng.random() < 0.4:
            words.append('J' + sp(j))
        cmd = '%s X%s Y%s %s' % ('G3' if ccw else 'G2', sp(x1), sp(y1), ' '.join(words))
        with_region = ctx.rng.random() < 0.6 and not small
        hreg = impl.new_handlers([('rect', 'r', mx - 1.5, my - 1.5, mx + 1.5, my + 1.5)] if with_region else [])
        impl.run(hreg, ['G28', 'G1 X%g Y%g F3000' % (x0, y0)])
        res = impl.run(hreg, [cmd])
        pos = hreg.state.position
        if with_region and res[0][1] != 'suppress':
            fails.append(dict(what='%r from (%g,%g) passes 1.5 units deep through a region and is not excluded (%s)' % (cmd, x0, y0, res[0][1]), signature='C16:arc-not-excluded',
                              case=dict(start=[x0, y0], command=cmd, region=[mx - 1.5, my - 1.5, mx + 1.5, my + 1.5])))
        elif (pos.X_AXIS.current, pos.Y_AXIS.current) != (x1, y1):
            fails.append(dict(what='after %r from (%g,%g) the tracked position is (%r,%r), not the arc end (%g,%g)' % (cmd, x0, y0, pos.X_AXIS.current, pos.Y_AXIS.current, x1, y1),
                              signature='C16:arc-not-tracked', case=dict(start=[x0, y0], command=cmd, regions=with_region)))
    # arcs that start where a coordinate is exactly 0 (right after homing, along the bed edge): 0 is a position like any other
    for (pre, cmd, reg, end) in [([], 'G2 X20 Y0 I10 J0', (10, 10), (20.0, 0.0)), ([], 'G3 X0 Y20 I0 J10', (10, 10), (0.0, 20.0)),
                                 (['G1 X0 Y30 F3000'], 'G2 X0 Y50 I0 J10', (-10, 40), (0.0, 50.0)), (['G1 X30 Y0 F3000'], 'G3 X50 Y0 I10 J0', (40, -10), (50.0, 0.0)),
                                 (['G1 X0 Y30 F3000'], 'G3 X0 Y50 J10', (10, 40), (0.0, 50.0)), (['G1 X30 Y0 F3000'], 'G2 X50 Y0 I10', (40, 10), (50.0, 0.0))]:
        for with_region in (True, False):
            n += 1
            hreg = impl.new_handlers([('rect', 'r', reg[0] - 1.5, reg[1] - 1.5, reg[0] + 1.5, reg[1] + 1.5)] if with_region else [])
            impl.run(hreg, ['G28'] + pre)
            res = impl.run(hreg, [cmd])
            pos = hreg.state.position
            if with_region and res[0][1] != 'suppress':
                fails.append(dict(what='%r after %r passes 1.5 units deep through a region and is not excluded (%s)' % (cmd, ['G28'] + pre, res[0][1]),
                                  signature='C16:arc-not-excluded', case=dict(commands=['G28'] + pre + [cmd], region=[reg[0] - 1.5, reg[1] - 1.5, reg[0] + 1.5, reg[1] + 1.5])))
            elif not with_region and (pos.X_AXIS.current, pos.Y_AXIS.current) != end:
                fails.append(dict(what='after %r the tracked position is (%r,%r), not the arc end %r' % (cmd, pos.X_AXIS.current, pos.Y_AXIS.current, end),
                                  signature='C16:arc-not-tracked', case=dict(commands=['G28'] + pre + [cmd])))
    return dict(evaluations=n, failures=fails[:10], samples=[], distribution=dict(arcs=2500 * budget, radius_form=1500 * budget, crossing=300 * budget, axis_aligned=150 * budget))
