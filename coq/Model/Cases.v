(** Evaluation helpers for the generated correspondence case files (Q instance, vm_compute). *)
From Coq Require Import QArith Qreduction Qabs String List Bool.
From ER Require Import Base.Num Model.Geometry.
Import ListNotations.

Fixpoint failing_from {A} (ok : A -> bool) (l : list A) (k : nat) : list nat :=
  match l with
  | [] => []
  | a :: t => if ok a then failing_from ok t (S k) else k :: failing_from ok t (S k)
  end.
(** indices of the cases on which model and implementation disagree *)
Definition failing {A} (ok : A -> bool) (l : list A) : list nat := failing_from ok l 0.

(** |a - b| <= 1e-9 * max 1 |a| *)
Definition Qclose (a b : Q) : bool :=
  Qle_bool (Qabs (a - b)) ((1 # 1000000000) * (if Qle_bool 1 (Qabs a) then Qabs a else 1)).

Inductive gcase :=
| GPoint (g : region Q) (x y : Q) (expect : bool)
| GContains (o i : region Q) (expect : bool)
| GMkRect (a b c d : Q) (ea eb ec ed : Q).

Definition gcase_ok (c : gcase) : bool :=
  match c with
  | GPoint g x y e => Bool.eqb (contains_point g x y) e
  | GContains o i e => Bool.eqb (contains_region o i) e
  | GMkRect a b c d ea eb ec ed =>
      match mk_rect "" a b c d with
      | Rect _ x1 y1 x2 y2 => Qeq_bool x1 ea && Qeq_bool y1 eb && Qeq_bool x2 ec && Qeq_bool y2 ed
      | _ => false
      end
  end.
