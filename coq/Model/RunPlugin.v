(** Correspondence runner for plugin histories (Q instance). *)
From Coq Require Import QArith String Ascii List Bool.
From ER Require Import Base.Num Model.Geometry Model.Axis Model.Filter Model.Plugin Model.Cases Model.Run.
Import ListNotations.
Open Scope string_scope.
Open Scope list_scope.

(** a region as reported by the implementation (toDict) *)
Definition region_match (a b : region Q) : bool :=
  match a, b with
  | Rect i x1 y1 x2 y2, Rect i' a1 b1 a2 b2 => String.eqb i i' && Qeq_bool x1 a1 && Qeq_bool y1 b1 && Qeq_bool x2 a2 && Qeq_bool y2 b2
  | Circ i cx cy r, Circ i' a1 b1 r1 => String.eqb i i' && Qeq_bool cx a1 && Qeq_bool cy b1 && Qeq_bool r r1
  | _, _ => false
  end.
Fixpoint regions_match (a b : list (region Q)) : bool :=
  match a, b with
  | [], [] => true
  | x :: ta, y :: tb => region_match x y && regions_match ta tb
  | _, _ => false
  end.
Fixpoint notes_match (a b : list (list (region Q))) : bool :=
  match a, b with
  | [], [] => true
  | x :: ta, y :: tb => regions_match x y && notes_match ta tb
  | _, _ => false
  end.

(** expected response, as observed on the implementation *)
Inductive xresp :=
| XNone | XGcode (e : eres) | XSent (l : list ecmd) | XScript (l : list ecmd) | XHttp (code : nat) | XList (l : list (region Q)).

Definition presp_match (s' : fstate Q) (r : presp Q) (e : xresp) : bool :=
  match r, e with
  | PNone, XNone => true
  | PGcode r, XGcode e => res_match_tie s' r e
  | PSent l, XSent l' => ocmds_match_tie s' l l'
  | PScript l, XScript l' => ocmds_match_tie s' l l'
  | PHttp c, XHttp c' => Nat.eqb c c'
  | PList l, XList l' => regions_match l l'
  | _, _ => false
  end.

(** after every step: active flag, excluding flag and region list are compared too *)
Record xstate := mkX { x_active : bool; x_excluding : bool; x_regions : list (region Q) }.

Fixpoint prun_check (p : plugin Q) (h : list (pevent Q * xresp * list (list (region Q)) * xstate)) (k : nat) : option nat :=
  match h with
  | [] => None
  | (ev, e, notes, xs) :: t =>
      let '(p', r, n) := pstep p ev in
      if presp_match (pst p') r e && notes_match n notes && Bool.eqb (active p') (x_active xs)
         && Bool.eqb (excluding (pst p')) (x_excluding xs) && regions_match (regions (pst p')) (x_regions xs)
      then prun_check p' t (S k) else Some k
  end.

Record pcase := mkPCase { pc_cfg : cfg; pc_clear : bool; pc_shrink : bool;
                          pc_hist : list (pevent Q * xresp * list (list (region Q)) * xstate) }.
Definition pcase_first_bad (c : pcase) : option nat :=
  prun_check (init_plugin (pc_cfg c) (pc_clear c) (pc_shrink c)) (pc_hist c) 0.
Definition pcase_ok (c : pcase) : bool := match pcase_first_bad c with None => true | Some _ => false end.
