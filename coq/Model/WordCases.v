(** Exhaustive small-scope correspondence of the word tokenizer with GcodeParser.parameterItems. *)
From Coq Require Import QArith NArith String Ascii List Bool.
From ER Require Import Model.Lexer Model.LexCases Model.Words.
Import ListNotations.
Local Open Scope string_scope.

Definition walphabet : list ascii := [" "; "X"; "e"; "1"; "."; "+"; "-"; "@"]%char.
Fixpoint wall_strings (n : nat) : list string :=
  match n with O => [""] | S k => flat_map (fun c => map (String c) (wall_strings k)) walphabet end.

Definition enc_Q (q : Q) (h : N) : N :=
  let n := Qnum q in
  mix (mix h (match n with Z0 => 0 | Zpos p => 2 * Npos p | Zneg p => 2 * Npos p + 1 end)%N) (Npos (Qden q)).

Definition enc_items (s : string) (h : N) : N :=
  let '(l, sa) := items s in
  let h1 := fold_left (fun h it => let '(c, v) := it in
               match v with
               | None => mix (mix h (N.of_nat (nat_of_ascii c))) 1000
               | Some t => enc_Q (number_value t) (mix (mix h (N.of_nat (nat_of_ascii c))) 1001)
               end) l (mix h 5) in
  enc_ostring sa h1.

Definition wdigest (l : list string) : N := fold_left (fun h s => enc_items s h) l 0%N.
(** digests of all strings of length [n+1] by first symbol *)
Definition wshard_digests (n : nat) : list N :=
  map (fun a => wdigest (map (String a) (wall_strings n))) walphabet.
Definition wcase_digest (s : string) : N := enc_items s 0%N.
