(** Tier H: StreamProcessor.process_line -- offline filtering of a file, line by line, on a copy of the state.
    Text to command goes through the scanner (Lexer) and the word tokenizer (Words); the command is then handled by
    the same [handle] as in the live hook. *)
From Coq Require Import QArith String Ascii List Bool.
From ER Require Import Base.Num Model.Lexer Model.Words Model.Geometry Model.Axis Model.Filter.
Import ListNotations.
Local Open Scope string_scope.
Local Open Scope list_scope.

(** parameterItems of the parsed parameters, as the handlers see them *)
Definition witems_of (params : option string) : list (witem Q) :=
  match params with
  | None => []
  | Some ps =>
      let '(l, sa) := items ps in
      map (fun it => (String (fst it) "", match snd it with Some t => MNum (number_value t) | None => MNone end)) l
      ++ match sa with Some s => [("", MStr s)] | None => [] end
  end.

(** the command handed to the handlers: stringify(includeLineNumber=False, includeComment=False, includeEol=False),
    parsed.gcode; arc data as in the live correspondence *)
Definition to_icmd (p : pline) (ij : option (Q * Q)) (mid : list (Q * Q)) : option (icmd Q) :=
  match g_code p with
  | Some k => Some (mkCmd (stringify p true false None false false) (gcode_of k) (witems_of (g_params p)) ij mid)
  | None => None
  end.

Inductive sout :=
| SKeep                          (* the input line, byte for byte *)
| SDrop                          (* None: the line is removed *)
| SLines (l : list (ocmd Q)) (eol : string).   (* each command followed by eol *)

Record sstate := mkSS { ss_state : fstate Q; ss_eol : option string }.

Definition starts_at (s : string) : bool := match s with String c _ => Ascii.eqb c "@" | "" => false end.
Definition eol_of (e : option string) : string := match e with Some x => x | None => String "010" "" end.

Definition process_line (c : cfg) (st : sstate) (line : string) (ij : option (Q * Q)) (mid : list (Q * Q))
    (matched : list ataction) : sstate * sout :=
  let '(p, _) := parse_line line in
  let eol' := match g_eol p with "" => ss_eol st | e => Some e end in
  match to_icmd p ij mid with
  | Some m =>
      let '(s', r) := handle c (ss_state st) m in
      match r with
      | Unchanged => (mkSS s' eol', SKeep)
      | Suppress => (mkSS s' eol', SDrop)
      | Replace l => (mkSS s' (Some (eol_of eol')), SLines l (eol_of eol'))
      end
  | None =>
      if starts_at (text_of p) then
        let '(s', handled, sent) := handle_at c (ss_state st) false matched in
        if handled then
          match sent with
          | [] => (mkSS s' eol', SDrop)
          | _ => (mkSS s' (Some (eol_of eol')), SLines sent (eol_of eol'))
          end
        else (mkSS s' eol', SKeep)
      else (mkSS (ss_state st) eol', SKeep)
  end.
