(** correspondence cases for Model/Format.v *)
From Coq Require Import ZArith String Ascii List Bool.
From ER Require Import Model.Lexer Model.Format Model.Cases.
Import ListNotations.
Local Open Scope string_scope.
Record fmtcase := mkFmt { fm_neg : bool; fm_ds : string; fm_k : Z; fm_text : string }.
Definition fmtcase_ok (c : fmtcase) : bool := String.eqb (layout (fm_neg c) (fm_ds c) (fm_k c)) (fm_text c).
Record cmdcase := mkCmdCase { cc_code : string; cc_words : list (ascii * fnum); cc_text : string }.
Definition cmdcase_ok (c : cmdcase) : bool := String.eqb (render_cmd (cc_code c) (cc_words c)) (cc_text c).
