(** Tier H: regions, parametric in the number type (executable on Q, theorems on R).
    Mirrors RectangularRegion / CircularRegion of /repo; tied to the GENERATED definitions in Proofs/Tie.v. *)
From Coq Require Import String List Bool.
From ER Require Import Base.Num.
Import ListNotations.
Local Open Scope num_scope.

Section Geometry.
Context {T : Type} {N : Num T}.

Inductive region :=
| Rect (id : string) (x1 y1 x2 y2 : T)
| Circ (id : string) (cx cy r : T).

Definition region_id (g : region) : string :=
  match g with Rect i _ _ _ _ => i | Circ i _ _ _ => i end.

(** RectangularRegion.__init__: corners are normalised so that x1 <= x2 and y1 <= y2. *)
Definition mk_rect (id : string) (x1 y1 x2 y2 : T) : region :=
  let '(x1, x2) := if x2 <? x1 then (x2, x1) else (x1, x2) in
  let '(y1, y2) := if y2 <? y1 then (y2, y1) else (y1, y2) in
  Rect id x1 y1 x2 y2.

Definition contains_point (g : region) (x y : T) : bool :=
  match g with
  | Rect _ x1 y1 x2 y2 => (x1 <=? x) && (x <=? x2) && (y1 <=? y) && (y <=? y2)
  | Circ _ cx cy r => nhypot_le (x - cx) (y - cy) r
  end.

(** [contains_region outer inner] = outer.containsRegion(inner) *)
Definition contains_region (outer inner : region) : bool :=
  match outer, inner with
  | Rect _ x1 y1 x2 y2, Rect _ a1 b1 a2 b2 =>
      (x1 <=? a1) && (a2 <=? x2) && (y1 <=? b1) && (b2 <=? y2)
  | Rect _ x1 y1 x2 y2, Circ _ cx cy r =>
      (x1 <=? cx - r) && (cx + r <=? x2) && (y1 <=? cy - r) && (cy + r <=? y2)
  | Circ _ _ _ _, Rect _ a1 b1 a2 b2 =>
      contains_point outer a1 b1 && contains_point outer a2 b1 &&
      contains_point outer a2 b2 && contains_point outer a1 b2
  | Circ _ cx cy r, Circ _ cx2 cy2 r2 =>
      (** hypot(cx-cx2, cy-cy2) + r2 <= r *)
      nhypot_le (cx - cx2) (cy - cy2) (r - r2)
  end.

Definition any_contains (rs : list region) (x y : T) : bool :=
  existsb (fun g => contains_point g x y) rs.

End Geometry.
Arguments region T : clear implicits.
