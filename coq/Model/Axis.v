(** Tier H: AxisPosition / Position (post-homing: [cur] is always known). *)
From Coq Require Import String List Bool.
From ER Require Import Base.Num.
Local Open Scope num_scope.

Section Axis.
Context {T : Type} {N : Num T}.

Record axis := mkAxis { cur : T; hoff : T; off : T; absm : bool; um : T }.

(** logicalToNative(value) (absoluteMode=None) *)
Definition l2n (a : axis) (v : T) : T :=
  let v := v * um a in
  if absm a then v + (off a + hoff a) else v + cur a.
(** nativeToLogical() with no argument: always absolute *)
Definition n2l (a : axis) : T := (cur a - (off a + hoff a)) / um a.

Definition set_cur (a : axis) (c : T) : axis := mkAxis c (hoff a) (off a) (absm a) (um a).
Definition set_logical (a : axis) (v : T) : axis := set_cur a (l2n a v).
(** setLogicalOffsetPosition (G92 X/Y/Z) -- as the code has it (finding D18) *)
Definition set_offset_pos (a : axis) (v : T) : axis :=
  mkAxis (cur a) (hoff a) (off a + (l2n a v - cur a)) (absm a) (um a).
(** setHomeOffset (M206) -- as the code has it (D19) *)
Definition set_home_offset (a : axis) (v : T) : axis :=
  let h := v * um a in mkAxis (cur a + (hoff a - h)) h (off a) (absm a) (um a).
Definition set_home (a : axis) : axis := mkAxis n0 (hoff a) n0 (absm a) (um a).
Definition set_absm (a : axis) (b : bool) : axis := mkAxis (cur a) (hoff a) (off a) b (um a).
Definition set_um (a : axis) (m : T) : axis := mkAxis (cur a) (hoff a) (off a) (absm a) m.

Record pos := mkPos { px : axis; py : axis; pz : axis; pe : axis }.

Definition init_axis : axis := mkAxis n0 n0 n0 true n1.
Definition init_pos : pos := mkPos init_axis init_axis init_axis init_axis.

End Axis.
Arguments axis T : clear implicits.
Arguments pos T : clear implicits.
