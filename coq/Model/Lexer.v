(** Tier H: GcodeParser.parse -- a structurally recursive scanner that follows the priority order
    (and the backtracking) of REGEX_GCODE_LINE; see DESIGN.md Appendix A.  Tied to the real regex by the
    exhaustive `lexer` correspondence stream. *)
From Coq Require Import NArith String Ascii List Bool.
Import ListNotations.
Local Open Scope string_scope.

Definition is_digit (c : ascii) : bool := let n := nat_of_ascii c in Nat.leb 48 n && Nat.leb n 57.
Definition is_sp (c : ascii) : bool := Ascii.eqb c " ".
Definition is_cr (c : ascii) : bool := Ascii.eqb c "013".
Definition is_lf (c : ascii) : bool := Ascii.eqb c "010".
Definition is_eolc (c : ascii) : bool := is_cr c || is_lf c.
Definition is_semi (c : ascii) : bool := Ascii.eqb c ";".
Definition is_star (c : ascii) : bool := Ascii.eqb c "*".
Definition is_bs (c : ascii) : bool := Ascii.eqb c "\".
Definition upper (c : ascii) : ascii :=
  let n := nat_of_ascii c in if Nat.leb 97 n && Nat.leb n 122 then ascii_of_nat (n - 32) else c.
Definition is_GM (c : ascii) : bool := let u := upper c in Ascii.eqb u "G" || Ascii.eqb u "M".
Definition is_T (c : ascii) : bool := Ascii.eqb (upper c) "T".
Definition is_N (c : ascii) : bool := Ascii.eqb (upper c) "N".

(** longest prefix satisfying [p], and the rest *)
Fixpoint span (p : ascii -> bool) (s : string) : string * string :=
  match s with
  | String c t => if p c then let '(a, b) := span p t in (String c a, b) else ("", s)
  | "" => ("", "")
  end.

(** what follows the parameters:  ' '* ( '*' digits+ )?  ' '*  ( ';' ... )?  end-of-body *)
Record tailres := mkTail {
  t_ws : string;               (* blanks before the checksum, or (no checksum) the blanks that stay in group 2 *)
  t_cks : option string;       (* checksum digits (group 10) *)
  t_trail : string;            (* group 11 *)
  t_comment : option string    (* group 12 *)
}.

Definition finish (r : string) : option (option string) :=   (* rest must be empty or a comment *)
  match r with
  | "" => Some None
  | String c _ => if is_semi c then Some (Some r) else None
  end.

Definition tail (r : string) : option tailres :=
  let '(ws, r1) := span is_sp r in
  match r1 with
  | String c r2 =>
      if is_star c then
        let '(ds, r3) := span is_digit r2 in
        match ds with
        | "" => None
        | _ => let '(tr, r4) := span is_sp r3 in
               match finish r4 with Some cm => Some (mkTail ws (Some ds) tr cm) | None => None end
        end
      else match finish r1 with Some cm => Some (mkTail ws None "" cm) | None => None end
  | "" => Some (mkTail ws None "" None)
  end.

(** (PARAMCHAR+?) : lazy, with backtracking into the alternatives  \\ | \; | [^;*]  *)
Fixpoint lazy_params (r : string) (consumed : bool) : option (string * tailres) :=
  match (if consumed then tail r else None) with
  | Some t => Some ("", t)
  | None =>
      match r with
      | "" => None
      | String c r' =>
          let esc :=
            match r' with
            | String d r'' =>
                if is_bs c && (is_bs d || is_semi d) then
                  match lazy_params r'' true with
                  | Some (p, t) => Some (String c (String d p), t)
                  | None => None
                  end
                else None
            | "" => None
            end in
          match esc with
          | Some x => Some x
          | None =>
              if is_semi c || is_star c then None
              else match lazy_params r' true with
                   | Some (p, t) => Some (String c p, t)
                   | None => None
                   end
          end
      end
  end.

Record codeinfo := mkCode {
  c_lnum : option string;      (* group 3 *)
  c_type : ascii;              (* group 4 / 7 as written *)
  c_isT : bool;
  c_ws : string;               (* blanks between letter and digits *)
  c_digits : string;           (* group 5 / 8 *)
  c_sub : option string        (* group 6 *)
}.

(** the consumed prefix of alt1 up to and including the code, as written *)
Record alt1res := mkAlt1 {
  a_pre : string;              (* "N123" ++ blanks, as written *)
  a_code : codeinfo;
  a_ws2 : string;              (* blanks after the code *)
  a_params : option string;    (* group 9 *)
  a_tail : tailres
}.

Definition code_text (k : codeinfo) : string :=
  String (c_type k) (c_ws k) ++ c_digits k ++ match c_sub k with Some d => String "." d | None => "" end.

Definition alt1 (r : string) : option alt1res :=
  (* optional line number *)
  let '(pre, lnum, r1) :=
    match r with
    | String n r0 =>
        if is_N n then
          let '(ds, r0') := span is_digit r0 in
          match ds with "" => ("", None, r) | _ => (String n ds, Some ds, r0') end
        else ("", None, r)
    | "" => ("", None, r)
    end in
  let '(ws1, r2) := span is_sp r1 in
  match r2 with
  | String t r3 =>
      if is_GM t || is_T t then
        let '(wsc, r4) := span is_sp r3 in
        let '(ds, r5) := span is_digit r4 in
        match ds with
        | "" => None
        | _ =>
            let '(sub, r6) :=
              if is_GM t then
                match r5 with
                | String dot r5' =>
                    if Ascii.eqb dot "." then
                      let '(sd, r5'') := span is_digit r5' in
                      match sd with "" => (None, r5) | _ => (Some sd, r5'') end
                    else (None, r5)
                | "" => (None, r5)
                end
              else (None, r5) in
            let code := mkCode lnum t (is_T t) wsc ds sub in
            let '(ws2, r7) := span is_sp r6 in
            match lazy_params r7 false with
            | Some (p, tl) => Some (mkAlt1 (pre ++ ws1) code ws2 (Some p) tl)
            | None =>
                match tail r7 with
                | Some tl => Some (mkAlt1 (pre ++ ws1) code ws2 None tl)
                | None => None
                end
            end
        end
      else None
  | "" => None
  end.

(** alt2:  [^;]*?  then blanks, comment *)
Fixpoint alt2 (r : string) : string * string * option string :=   (* text, trailing blanks, comment *)
  match r with
  | "" => ("", "", None)
  | String c t =>
      if is_semi c then ("", "", Some r)
      else
        let '(tx, tr, cm) := alt2 t in
        match tx with
        | "" => if is_sp c then ("", String c tr, cm) else (String c "", tr, cm)
        | _ => (String c tx, tr, cm)
        end
  end.

(** one parsed line, in the regex's groups *)
Record pline := mkLine {
  g_lead : string;             (* 1 *)
  g_text2 : string;            (* 2: everything before trailing blanks / comment *)
  g_code : option codeinfo;    (* 3-8 *)
  g_params : option string;    (* 9 *)
  g_cks : option string;       (* 10 *)
  g_trail : string;            (* 11 *)
  g_comment : option string;   (* 12 *)
  g_eol : string               (* 13 *)
}.

Definition ostr (o : option string) : string := match o with Some s => s | None => "" end.

Definition tail_text (t : tailres) : string :=   (* the part of the tail inside group 2 *)
  t_ws t ++ match t_cks t with Some d => String "*" d | None => "" end.

Definition parse_body (l : string) : pline :=
  let '(lead, r) := span is_sp l in
  match alt1 r with
  | Some a =>
      let t := a_tail a in
      mkLine lead (a_pre a ++ code_text (a_code a) ++ a_ws2 a ++ ostr (a_params a) ++ tail_text t)
             (Some (a_code a)) (a_params a) (t_cks t) (t_trail t) (t_comment t) ""
  | None =>
      let '(tx, tr, cm) := alt2 r in mkLine lead tx None None None tr cm ""
  end.

(** split off the line body (up to the first CR / LF) and the end-of-line group *)
Definition split_eol (s : string) : string * string * string :=   (* body, eol, rest *)
  let '(body, r) := span (fun c => negb (is_eolc c)) s in
  match r with
  | String c r' =>
      if is_cr c then
        match r' with
        | String d r'' => if is_lf d then (body, String c (String d ""), r'') else (body, String c "", r')
        | "" => (body, String c "", r')
        end
      else (body, String c "", r')
  | "" => (body, "", "")
  end.

Definition parse_line (s : string) : pline * string :=
  let '(body, eol, rest) := split_eol s in
  let p := parse_body body in
  (mkLine (g_lead p) (g_text2 p) (g_code p) (g_params p) (g_cks p) (g_trail p) (g_comment p) eol, rest).

(** GcodeParser.fullText *)
Definition full_text (p : pline) : string :=
  g_lead p ++ g_text2 p ++ g_trail p ++ ostr (g_comment p) ++ g_eol p.

(** parseLines: parse until the source is used up (fuel = length, every line consumes at least one character) *)
Fixpoint parse_lines_fuel (fuel : nat) (s : string) : list pline :=
  match fuel with
  | O => []
  | S f => match s with
           | "" => []
           | _ => let '(p, rest) := parse_line s in p :: parse_lines_fuel f rest
           end
  end.
Definition parse_lines (s : string) : list pline := parse_lines_fuel (String.length s) s.

(** *** normalisation: GcodeParser.gcode / subCode / stringify / commandString / computeChecksum / validate *)
Fixpoint digits_val (s : string) (acc : N) : N :=
  match s with
  | "" => acc
  | String c t => digits_val t (acc * 10 + N.of_nat (nat_of_ascii c - 48))%N
  end.
Definition num_of (s : string) : N := digits_val s 0.

(** str(int) *)
Fixpoint show_pos_fuel (fuel : nat) (n : N) (acc : string) : string :=
  match fuel with
  | O => acc
  | S f => let d := ascii_of_nat (48 + N.to_nat (n mod 10)) in
           if (n / 10 =? 0)%N then String d acc else show_pos_fuel f (n / 10)%N (String d acc)
  end.
Definition show_N (n : N) : string := show_pos_fuel (S (N.to_nat (N.log2 n))) n "".

Definition gcode_of (k : codeinfo) : string := String (upper (c_type k)) (show_N (num_of (c_digits k))).
Definition subcode_of (k : codeinfo) : option N := match c_sub k with Some d => Some (num_of d) | None => None end.
Definition lineno_of (k : codeinfo) : option N := match c_lnum k with Some d => Some (num_of d) | None => None end.

Definition xor_ascii (a : N) (c : ascii) : N := N.lxor a (N.of_nat (nat_of_ascii c)).
Fixpoint checksum_from (s : string) (acc : N) : N :=
  match s with "" => acc | String c t => checksum_from t (xor_ascii acc c) end.
Definition compute_checksum (s : string) : N := checksum_from s 0.

Fixpoint join (sep : string) (l : list string) : string :=
  match l with [] => "" | [x] => x | x :: t => x ++ sep ++ join sep t end.

(** stringify(separator=" ", includeLeadingWhitespace, includeLineNumber, includeChecksum (None/True/False), includeComment, includeEol) *)
Definition stringify (p : pline) (lead lnum : bool) (cks : option bool) (comment eol : bool) : string :=
  let '(result, checksum) :=
    match g_code p with
    | None => (g_text2 p, "")     (* text: no code, no checksum *)
    | Some k =>
        let has_ln := lnum && match lineno_of k with Some _ => true | None => false end in
        let cks' := match cks with None => has_ln | Some b => b end in
        let lnpiece := String.append "N" (show_N (match lineno_of k with Some n => n | None => 0%N end)) in
        let codepiece := String.append (gcode_of k) (match subcode_of k with Some n => String.append "." (show_N n) | None => "" end) in
        let pieces := List.app (if has_ln then [lnpiece] else [])
                        (List.app [codepiece] (match g_params p with Some ps => [ps] | None => [] end)) in
        let r := join " " pieces in
        if cks' then (r ++ " ", "*" ++ show_N (compute_checksum (r ++ " "))) else (r, "")
    end in
  (if lead then g_lead p else "") ++ result ++ checksum
  ++ (if comment then match g_comment p with Some c => " " ++ c | None => "" end else "")
  ++ (if eol then g_eol p else "").

Definition command_string (p : pline) : string := stringify p true true (Some false) false false.

(** ExcludeRegionPlugin._splitGcodeScript: the non-empty normalised lines of a script setting (no leading blanks, line
    numbers, checksums, comments, line ends) *)
Definition split_script (s : string) : list string :=
  filter (fun t => negb (String.eqb t "")) (map (fun p => stringify p false false None false false) (parse_lines s)).

(** parser.text: group 2 without the raw checksum *)
Definition text_of (p : pline) : string :=
  match g_cks p with
  | Some d => substring 0 (String.length (g_text2 p) - S (String.length d)) (g_text2 p)
  | None => g_text2 p
  end.

(** validate(): None = ok *)
Inductive verr := VNoChecksum | VNoLine | VMismatch.
Definition validate (p : pline) : option verr :=
  let ln := match g_code p with Some k => lineno_of k | None => None end in
  match g_cks p, ln with
  | None, None => None
  | None, Some _ => Some VNoChecksum
  | Some _, None => Some VNoLine
  | Some d, Some _ => if (num_of d =? compute_checksum (text_of p))%N then None else Some VMismatch
  end.
