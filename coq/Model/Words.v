(** Tier H: GcodeParser.parameterItems -- the loop over REGEX_PARAMETER_OR_STR (DESIGN.md Appendix A). *)
From Coq Require Import QArith NArith String Ascii List Bool.
From ER Require Import Model.Lexer.
Import ListNotations.
Local Open Scope string_scope.
Local Open Scope nat_scope.

Definition is_alpha (c : ascii) : bool :=
  let n := nat_of_ascii c in (Nat.leb 65 n && Nat.leb n 90) || (Nat.leb 97 n && Nat.leb n 122).
Definition is_sign (c : ascii) : bool := Ascii.eqb c "-" || Ascii.eqb c "+".
Definition is_dot (c : ascii) : bool := Ascii.eqb c ".".

(** [-+]?[0-9]*\.?[0-9]+  with the regex's backtracking: returns the number text and the rest *)
Definition number (s : string) : option (string * string) :=
  let '(sg, r) := match s with String c t => if is_sign c then (String c "", t) else ("", s) | "" => ("", s) end in
  let '(d, r1) := span is_digit r in
  match r1 with
  | String dot r2 =>
      if is_dot dot then
        let '(f, r3) := span is_digit r2 in
        match f with
        | "" => match d with "" => None | _ => Some (sg ++ d, r1) end          (* "5." reads 5 and leaves "." *)
        | _ => Some (sg ++ d ++ String dot f, r3)
        end
      else match d with "" => None | _ => Some (sg ++ d, r1) end
  | "" => match d with "" => None | _ => Some (sg ++ d, r1) end
  end.

(** float(text) as an exact rational *)
Fixpoint pow10 (n : nat) : positive := match n with O => 1%positive | S k => (10 * pow10 k)%positive end.
Definition number_value (t : string) : Q :=
  let '(neg, r) := match t with String c u => if Ascii.eqb c "-" then (true, u) else if Ascii.eqb c "+" then (false, u) else (false, t) | "" => (false, t) end in
  let '(d, r1) := span is_digit r in
  let f := match r1 with String _ r2 => fst (span is_digit r2) | "" => "" end in
  let n := (Z.of_N (num_of d) * Zpos (pow10 (String.length f)) + Z.of_N (num_of f))%Z in
  Qred (Qmake (if neg then Z.opp n else n) (pow10 (String.length f))).

Inductive pitem := PWord (letter : ascii) (value : option string) | PStr (text : string).

(** the loop; [off] counts consumed characters so that the string argument can be cut out afterwards *)
Fixpoint items_loop (fuel : nat) (s : string) (off : nat) (strarg : option nat) : list (ascii * option string) * option nat :=
  match fuel with
  | O => ([], strarg)
  | S f =>
      let '(sp, r) := span is_sp s in
      let j := off + String.length sp in
      match r with
      | "" =>
          (* only blanks left: the greedy ' *' gives one blank back to [^A-Za-z] *)
          ([], match strarg with Some _ => strarg | None => match sp with "" => None | _ => Some (j - 1) end end)
      | String c t =>
          if is_alpha c then
            let '(sp2, r2) := span is_sp t in
            match number r2 with
            | Some (num, r3) =>
                let '(l, sa) := items_loop f r3 (j + 1 + String.length sp2 + String.length num) strarg in
                ((upper c, Some num) :: l, sa)
            | None =>
                let sa0 := match strarg with Some _ => strarg | None => Some j end in
                let '(l, sa) := items_loop f t (j + 1) sa0 in
                ((upper c, None) :: l, sa)
            end
          else
            let sa0 := match strarg with Some _ => strarg | None => Some j end in
            items_loop f t (j + 1) sa0
      end
  end.

Fixpoint drop (n : nat) (s : string) : string :=
  match n, s with O, _ => s | S k, String _ t => drop k t | S _, "" => "" end.

(** parameterItems(source): letter items in order, then the string argument (label "") if any *)
Definition items (s : string) : list (ascii * option string) * option string :=
  let '(l, sa) := items_loop (S (String.length s)) s 0 None in
  (l, match sa with Some k => Some (drop k s) | None => None end).
