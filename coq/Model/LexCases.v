(** Exhaustive small-scope correspondence of the scanner with the real regex: the model is evaluated on
    every string over a 13-symbol class alphabet up to a length; results are compared through digests
    (and, when a digest differs, case by case). *)
From Coq Require Import NArith String Ascii List Bool.
From ER Require Import Model.Lexer.
Import ListNotations.
Local Open Scope string_scope.

Definition alphabet : list ascii :=
  [" "; "N"; "G"; "T"; "X"; "1"; "0"; "."; "*"; ";"; "\"; "013"; "010"; "@"]%char.

Fixpoint all_strings (n : nat) : list string :=
  match n with
  | O => [""]
  | S k => flat_map (fun c => map (String c) (all_strings k)) alphabet
  end.

(** cheap rolling digest: multiply-add, truncated to 48 bits (bitwise mask, no division) *)
Definition MASK : N := 281474976710655%N.
Definition mix (h x : N) : N := N.land (h * 65599 + x + 7) MASK.

Fixpoint enc_str (s : string) (h : N) : N :=
  match s with "" => h | String c t => enc_str t (mix h (N.of_nat (nat_of_ascii c))) end.
Definition enc_string (s : string) (h : N) : N := enc_str s (mix h (N.of_nat (String.length s))).
Definition enc_ostring (o : option string) (h : N) : N :=
  match o with None => mix h 1000 | Some s => enc_string s (mix h 1001) end.
Definition enc_oN (o : option N) (h : N) : N := match o with None => mix h 1000 | Some n => mix (mix h 1001) n end.

(** the 13 groups *)
Definition enc_groups (p : pline) (h : N) : N :=
  let k := g_code p in
  let gm := match k with Some c => if c_isT c then None else Some (String (c_type c) "") | None => None end in
  let gmd := match k with Some c => if c_isT c then None else Some (c_digits c) | None => None end in
  let sub := match k with Some c => c_sub c | None => None end in
  let tt := match k with Some c => if c_isT c then Some (String (c_type c) "") else None | None => None end in
  let ttd := match k with Some c => if c_isT c then Some (c_digits c) else None | None => None end in
  let ln := match k with Some c => c_lnum c | None => None end in
  enc_string (g_eol p) (enc_ostring (g_comment p) (enc_string (g_trail p) (enc_ostring (g_cks p) (enc_ostring (g_params p)
    (enc_ostring ttd (enc_ostring tt (enc_ostring sub (enc_ostring gmd (enc_ostring gm (enc_ostring ln
      (enc_string (g_text2 p) (enc_string (g_lead p) h)))))))))))).

(** the parser object's derived attributes *)
Definition enc_parser (p : pline) (h : N) : N :=
  let k := g_code p in
  let gc := match k with Some c => Some (gcode_of c) | None => None end in
  let sc := match k with Some c => subcode_of c | None => None end in
  let ln := match k with Some c => lineno_of c | None => None end in
  let v := match validate p with None => 0 | Some VNoChecksum => 1 | Some VNoLine => 2 | Some VMismatch => 3 end%N in
  mix (enc_string (stringify p true true (Some true) false false) (enc_string (stringify p true true None true true)
    (enc_string (full_text p) (enc_string (command_string p) (enc_string (text_of p)
      (enc_oN ln (enc_oN sc (enc_ostring gc h)))))))) v.

Definition enc_case (s : string) (h : N) : N :=
  let '(p, rest) := parse_line s in
  enc_parser p (enc_groups p (mix h (N.of_nat (String.length rest)))).

Definition digest (l : list string) : N := fold_left (fun h s => enc_case s h) l 0%N.

(** digests of all strings of length [n+2] by their first two symbols (169 shards), in order *)
Definition shard_digests (n : nat) : list N :=
  flat_map (fun a => map (fun b => digest (map (fun t => String a (String b t)) (all_strings n))) alphabet) alphabet.
(** the 13 shards whose first symbol is the [k]-th of the alphabet *)
Definition shard_digests_from (n k : nat) : list N :=
  match nth_error alphabet k with
  | Some a => map (fun b => digest (map (fun t => String a (String b t)) (all_strings n))) alphabet
  | None => []
  end.
Definition short_digest : N := digest (all_strings 0 ++ all_strings 1).

(** explicit comparison, used when a digest differs and for random long lines *)
Definition case_digest (s : string) : N := enc_case s 0%N.
