(** Tier H: how a tracked float becomes text in a generated command: GcodeParser.formatNumber (str(float), with
    the exponent form re-rendered positionally).  The shortest round-tripping digits of the float are an INPUT
    (CPython's repr algorithm is not modelled): [ds] are the significant digits (no leading / trailing zero) and
    [k] the decimal point position, i.e. the value is 0.ds * 10^k. *)
From Coq Require Import ZArith String Ascii List Bool.
From ER Require Import Model.Lexer.
Import ListNotations.
Local Open Scope string_scope.

Fixpoint zeros (n : nat) : string := match n with O => "" | S k => String "0" (zeros k) end.
Fixpoint take (n : nat) (s : string) : string :=
  match n, s with O, _ => "" | S k, String c t => String c (take k t) | S _, "" => "" end.
Fixpoint dropn (n : nat) (s : string) : string :=
  match n, s with O, _ => s | S k, String _ t => dropn k t | S _, "" => "" end.

(** positional rendering of 0.ds * 10^k, as repr does for -4 < k <= 16 (with ".0" for integers) *)
Definition positional (ds : string) (k : Z) (point_zero : bool) : string :=
  let n := String.length ds in
  if (k <=? 0)%Z then "0." ++ zeros (Z.to_nat (- k)) ++ ds
  else if (k <? Z.of_nat n)%Z then take (Z.to_nat k) ds ++ "." ++ dropn (Z.to_nat k) ds
  else ds ++ zeros (Z.to_nat k - n) ++ (if point_zero then ".0" else "").

(** str(float) uses the exponent form outside -4 < k <= 16; formatNumber then re-renders it with
    format(Decimal(text), "f"), which is positional without a forced ".0" *)
Definition layout (neg : bool) (ds : string) (k : Z) : string :=
  (if neg then "-" else "") ++
  match ds with
  | "" => "0.0"                                   (* zero *)
  | _ => if ((-4 <? k) && (k <=? 16))%Z then positional ds k true else positional ds k false
  end.

(** what str(float) alone would print (the behaviour before the repair, finding D11): d[.ddd]e[+-]XX *)
Definition repr_exponent (neg : bool) (ds : string) (k : Z) : string :=
  let e := (k - 1)%Z in
  (if neg then "-" else "") ++
  match ds with
  | String d rest => String d (match rest with "" => "" | _ => "." ++ rest end)
  | "" => "0"
  end ++ "e" ++ (if (e <? 0)%Z then "-" else "+") ++
  (let a := show_N (Z.to_N (Z.abs e)) in match a with String _ "" => "0" ++ a | _ => a end).

(** one generated command: code, then letter/number words separated by single blanks *)
Definition fnum : Type := (bool * string * Z)%type.
Definition render_num (x : fnum) : string := let '(neg, ds, k) := x in layout neg ds k.
Fixpoint render_words (ws : list (ascii * fnum)) : string :=
  match ws with
  | [] => ""
  | (c, x) :: t => " " ++ String c (render_num x) ++ render_words t
  end.
Definition render_cmd (code : string) (ws : list (ascii * fnum)) : string := code ++ render_words ws.
