(** Correspondence runner for the offline stream processor (Q instance). *)
From Coq Require Import QArith String Ascii List Bool.
From ER Require Import Base.Num Model.Lexer Model.Words Model.Geometry Model.Axis Model.Filter Model.Stream Model.Cases Model.Run.
Import ListNotations.
Open Scope string_scope.
Open Scope list_scope.

Inductive xsout := XKeep | XDrop | XLines (l : list ecmd) (eol : string).

Record sline := mkSLine { sl_text : string; sl_ij : option (Q * Q); sl_mid : list (Q * Q); sl_matched : list ataction; sl_expect : xsout }.

Definition sout_match (s' : fstate Q) (o : sout) (x : xsout) : bool :=
  match o, x with
  | SKeep, XKeep => true
  | SDrop, XDrop => true
  | SLines l e, XLines l' e' => String.eqb e e' && ocmds_match_tie s' l l'
  | _, _ => false
  end.

Fixpoint srun (c : cfg) (st : sstate) (ls : list sline) (k : nat) : option nat :=
  match ls with
  | [] => None
  | l :: t =>
      let '(st', o) := process_line c st (sl_text l) (sl_ij l) (sl_mid l) (sl_matched l) in
      if sout_match (ss_state st') o (sl_expect l) then srun c st' t (S k) else Some k
  end.

Record scase := mkSCase { sc_cfg : cfg; sc_regions : list (region Q); sc_pre : list (icmd Q); sc_lines : list sline }.
(** the live state the processor is created from: [sc_pre] commands already handled *)
Definition scase_first_bad (c : scase) : option nat :=
  let s0 := fold_left (fun s m => fst (handle (sc_cfg c) s m)) (sc_pre c) (init_state (sc_regions c)) in
  srun (sc_cfg c) (mkSS s0 None) (sc_lines c) 0.
Definition scase_ok (c : scase) : bool := match scase_first_bad c with None => true | Some _ => false end.
