(** Tier H: the plugin object (ExcludeRegionPlugin in __init__.py): print lifecycle, hooks, REST API. *)
From Coq Require Import ZArith String Ascii List Bool.
From ER Require Import Base.Num Model.Geometry Model.Axis Model.Filter.
Import ListNotations.
Local Open Scope string_scope.
Local Open Scope list_scope.

Section Plugin.
Context {T : Type} {N : Num T}.

Record plugin := mkPlugin {
  pst : fstate T;            (* ExcludeRegionState (print state + regions) *)
  pcfg : cfg;                (* settings copied into the state object by _handleSettingsUpdated *)
  active : bool;             (* _activePrintJob *)
  clearAfter : bool;         (* clearRegionsAfterPrintFinishes *)
  mayShrink : bool           (* mayShrinkRegionsWhilePrinting *)
}.

(** resetState(clearExcludedRegions) *)
Definition reset_state (s : fstate T) (clear : bool) : fstate T :=
  init_state (if clear then [] else regions s).

Inductive pevent :=
| EvFileSelected
| EvSettings (c : cfg) (clearAfter mayShrink : bool)
| EvPrintStarted
| EvPrintEnd                              (* PRINT_DONE / FAILED / CANCELLING / CANCELLED / ERROR *)
| EvOther                                 (* pause, resume and every other event *)
| HookGcode (m : icmd T) (hasgcode : bool)
| HookAt (streaming : bool) (matched : list ataction)
| HookScript (is_gcode_afterPrintDone : bool)
| ApiAdd (anon : bool) (g : option (region T))       (* None: invalid type *)
| ApiUpdate (anon : bool) (g : option (region T))
| ApiDelete (anon : bool) (id : string)
| ApiGet.

Inductive presp :=
| PNone                                   (* nothing / None *)
| PGcode (r : result T)
| PSent (l : list (ocmd T))               (* commands sent through the comm object *)
| PScript (l : list (ocmd T))             (* (prefix, None) returned by the script hook *)
| PHttp (code : nat)                      (* 200 = None, 400, 403, 409 *)
| PList (l : list (region T)).

(** every notification carries the region list of the moment *)
Definition notify (p : plugin) : list (list (region T)) := [regions (pst p)].

Definition with_state (p : plugin) (s : fstate T) : plugin := mkPlugin s (pcfg p) (active p) (clearAfter p) (mayShrink p).
Definition with_regions (p : plugin) (rs : list (region T)) : plugin := with_state p (upd_regions (pst p) rs).

Definition pstep (p : plugin) (ev : pevent) : plugin * presp * list (list (region T)) :=
  match ev with
  | EvFileSelected =>
      let p' := with_state p (reset_state (pst p) true) in (p', PNone, notify p')
  | EvSettings c ca ms => (mkPlugin (pst p) c (active p) ca ms, PNone, [])
  | EvPrintStarted =>
      (mkPlugin (reset_state (pst p) false) (pcfg p) true (clearAfter p) (mayShrink p), PNone, [])
  | EvPrintEnd =>
      let p1 := mkPlugin (pst p) (pcfg p) false (clearAfter p) (mayShrink p) in
      if clearAfter p then let p' := with_state p1 (reset_state (pst p1) true) in (p', PNone, notify p')
      else (p1, PNone, [])
  | EvOther => (p, PNone, [])
  | HookGcode m hasg =>
      if hasg && active p then let '(s', r) := handle (pcfg p) (pst p) m in (with_state p s', PGcode r, [])
      else (p, PGcode Unchanged, [])
  | HookAt st matched =>
      if active p then let '(s', _, sent) := handle_at (pcfg p) (pst p) st matched in (with_state p s', PSent sent, [])
      else (p, PSent [], [])
  | HookScript hit =>
      if hit && active p && excluding (pst p) then
        let '(s', cmds) := exitExcludedRegion (pcfg p) (pst p) in (with_state p s', PScript cmds, [])
      else (p, PNone, [])
  | ApiAdd anon g =>
      if anon then (p, PHttp 403, [])
      else match g with
           | None => (p, PHttp 400, [])
           | Some g => match add_region (regions (pst p)) g with
                       | Some rs => let p' := with_regions p rs in (p', PHttp 200, notify p')
                       | None => (p, PHttp 409, [])
                       end
           end
  | ApiUpdate anon g =>
      if anon then (p, PHttp 403, [])
      else match g with
           | None => (p, PHttp 400, [])
           | Some g => match replace_region (regions (pst p)) g (negb (mayShrink p) && active p) with
                       | Some rs => let p' := with_regions p rs in (p', PHttp 200, notify p')
                       | None => (p, PHttp 409, [])
                       end
           end
  | ApiDelete anon id =>
      if anon then (p, PHttp 403, [])
      else if negb (mayShrink p) && active p then (p, PHttp 409, [])
      else match delete_region (regions (pst p)) id with
           | Some rs => let p' := with_regions p rs in (p', PHttp 200, notify p')
           | None => (p, PHttp 200, [])
           end
  | ApiGet => (p, PList (regions (pst p)), [])
  end.

(** initialize(): fresh state, settings applied, one notification *)
Definition init_plugin (c : cfg) (ca ms : bool) : plugin := mkPlugin (init_state []) c false ca ms.

Fixpoint prun (p : plugin) (h : list pevent) : plugin * list (presp * list (list (region T))) :=
  match h with
  | [] => (p, [])
  | ev :: t => let '(p1, r, n) := pstep p ev in let '(p2, rs) := prun p1 t in (p2, (r, n) :: rs)
  end.

End Plugin.
Arguments plugin T : clear implicits.
Arguments pevent T : clear implicits.
Arguments presp T : clear implicits.
