(** Tier H: ExcludeRegionState + GcodeHandlers as one executable step function.
    Mirrors /repo method by method (see DESIGN.md 2.1); tied to /repo by the `filter`
    correspondence stream (harness/props/filterstream.py). *)
From Coq Require Import ZArith String Ascii List Bool.
From ER Require Import Base.Num Model.Geometry Model.Axis.
Import ListNotations.
Local Open Scope string_scope.
Local Open Scope list_scope.
Local Open Scope num_scope.

Section Filter.
Context {T : Type} {N : Num T}.

(** *** commands in, commands out *)
Inductive mval := MNone | MNum (v : T) | MStr (s : string).
(** one item of GcodeParser.parameterItems(): label ("" for the string argument) and value *)
Definition witem : Type := string * mval.

Record icmd := mkCmd {
  ctext : string;              (* the command as received *)
  ccode : string;              (* upper-cased, normalised code, e.g. "G1", "M204" *)
  cwords : list witem;         (* parameterItems of the command *)
  carc_ij : option (T * T);    (* G2/G3 R form: result of computeArcCenterOffsets (data, see C16) *)
  carc_mid : list (T * T)      (* G2/G3: intermediate points of planArc (data, see C16) *)
}.

Inductive ocmd :=
| Orig (text : string)                      (* a command forwarded as received *)
| SetE (e : T)                              (* G92 E{e} *)
| MoveZ (f z : T)                           (* G0 F{f} Z{z} *)
| MoveXY (f x y : T)                        (* G0 F{f} X{x} Y{y} *)
| ExtrudeTo (f e : T)                       (* G1 F{f} E{e} *)
| FwCmd (recover : bool) (params : string)  (* G10 / G11 [params] *)
| Script (text : string)                    (* line of the enter / exit script *)
| Deferred (text : string)                  (* deferred command kept verbatim (first / last) *)
| Merged (gcode : string) (args : list witem). (* deferred command rebuilt from merged arguments *)

Inductive result := Unchanged | Suppress | Replace (l : list ocmd).

Inductive xmode := XExclude | XFirst | XLast | XMerge.
Inductive pentry := PRaw (s : string) | PArgs (args : list witem).

Record cfg := mkCfg {
  g90e : bool;                       (* g90InfluencesExtruder *)
  enterS : list string;              (* enteringExcludedRegionGcode (None = []) *)
  exitS : list string;               (* exitingExcludedRegionGcode *)
  ext : list (string * xmode)        (* extendedExcludeGcodes *)
}.

Record retr := mkRetr {
  recoverExcluded : bool; allowCombine : bool; fw : bool;
  amount : T; rfeed : T; rorig : string }.

Record fstate := mkSt {
  position : pos T; feedRate : T; frMult : T;
  enabled : bool; excluding : bool;
  lastRetraction : option retr;
  lastPosition : pos T;
  pending : list (string * pentry);
  regions : list (region T) }.

Definition init_state (rs : list (region T)) : fstate :=
  mkSt init_pos n0 n1 true false None init_pos [] rs.

Definition upd_pos (s : fstate) (p : pos T) : fstate :=
  mkSt p (feedRate s) (frMult s) (enabled s) (excluding s) (lastRetraction s) (lastPosition s) (pending s) (regions s).
Definition upd_retr (s : fstate) (r : option retr) : fstate :=
  mkSt (position s) (feedRate s) (frMult s) (enabled s) (excluding s) r (lastPosition s) (pending s) (regions s).
Definition upd_excl (s : fstate) (b : bool) : fstate :=
  mkSt (position s) (feedRate s) (frMult s) (enabled s) b (lastRetraction s) (lastPosition s) (pending s) (regions s).
Definition upd_lastpos (s : fstate) (p : pos T) : fstate :=
  mkSt (position s) (feedRate s) (frMult s) (enabled s) (excluding s) (lastRetraction s) p (pending s) (regions s).
Definition upd_pending (s : fstate) (p : list (string * pentry)) : fstate :=
  mkSt (position s) (feedRate s) (frMult s) (enabled s) (excluding s) (lastRetraction s) (lastPosition s) p (regions s).
Definition upd_enabled (s : fstate) (b : bool) : fstate :=
  mkSt (position s) (feedRate s) (frMult s) b (excluding s) (lastRetraction s) (lastPosition s) (pending s) (regions s).
Definition upd_feed (s : fstate) (f : T) : fstate :=
  mkSt (position s) f (frMult s) (enabled s) (excluding s) (lastRetraction s) (lastPosition s) (pending s) (regions s).
Definition upd_regions (s : fstate) (rs : list (region T)) : fstate :=
  mkSt (position s) (feedRate s) (frMult s) (enabled s) (excluding s) (lastRetraction s) (lastPosition s) (pending s) rs.
Definition upd_E (p : pos T) (e : axis T) : pos T := mkPos (px p) (py p) (pz p) e.
Definition upd_Z (p : pos T) (z : axis T) : pos T := mkPos (px p) (py p) z (pe p).
Definition upd_XY (p : pos T) (x y : axis T) : pos T := mkPos x y (pz p) (pe p).

(** *** RetractionState *)
(** GCODE_PARAMS_REGEX.sub(group 1, cmd): optional blanks, a letter, digits, optional .digits, blanks, then the rest *)
Definition is_digit (c : ascii) : bool := let n := nat_of_ascii c in Nat.leb 48 n && Nat.leb n 57.
Definition is_alpha (c : ascii) : bool :=
  let n := nat_of_ascii c in (Nat.leb 65 n && Nat.leb n 90) || (Nat.leb 97 n && Nat.leb n 122).
Definition is_space (c : ascii) : bool :=   (* Python \s on ASCII *)
  let n := nat_of_ascii c in Nat.eqb n 32 || (Nat.leb 9 n && Nat.leb n 13) || (Nat.leb 28 n && Nat.leb n 31).
Fixpoint skip (p : ascii -> bool) (s : string) : string :=
  match s with String c t => if p c then skip p t else s | EmptyString => s end.
Definition fw_params (cmd : string) : string :=
  match skip is_space cmd with
  | String c t =>
      if is_alpha c then
        match t with
        | String d _ =>
            if is_digit d then
              let t1 := skip is_digit t in
              let t2 := match t1 with
                        | String "." (String d2 t') => if is_digit d2 then skip is_digit (String d2 t') else t1
                        | _ => t1 end in
              skip is_space t2
            else cmd
        | EmptyString => cmd
        end
      else cmd
  | EmptyString => cmd
  end.

(** _addCommands(direction): direction = 1 retract, -1 recover *)
Definition retr_cmds (r : retr) (recover : bool) (p : pos T) : list ocmd :=
  if fw r then [FwCmd recover (fw_params (rorig r))]
  else
    let amt := if recover then (amount r * (- n1)) else (amount r * n1) in
    let e := pe p in
    let e1 := set_cur e (cur e + amt) in
    let e2 := set_cur e1 (cur e1 - amt) in
    [SetE (n2l e1); ExtrudeTo (rfeed r / um e2) (n2l e2)].

(** RetractionState.combine *)
Definition combine (r other : retr) : retr :=
  if allowCombine r then
    if Bool.eqb (fw r) (fw other) then
      if fw r then r
      else mkRetr (recoverExcluded r) (allowCombine r) (fw r) (amount r + amount other) (rfeed r) (rorig r)
    else r
  else r.

(** *** ExcludeRegionState *)
Definition recordRetraction (s : fstate) (rt : retr) : fstate * list ocmd :=
  match lastRetraction s with
  | None =>
      (upd_retr s (Some rt),
       if excluding s then retr_cmds rt false (position s) else [Orig (rorig rt)])
  | Some lr =>
      if recoverExcluded lr then
        let lr' := mkRetr false (allowCombine lr) (fw lr) (amount lr)
                     (if fw lr then rfeed lr else feedRate s) (rorig lr) in
        (upd_retr s (Some lr'), [])
      else if allowCombine lr then
        (upd_retr s (Some (combine lr rt)),
         if excluding s then retr_cmds rt false (position s) else [Orig (rorig rt)])
      else if excluding s then (s, [])
      else (s, [Orig (rorig rt)])
  end.

Definition recoverRetraction (s : fstate) (lr : retr) (cmd : string) : fstate * list ocmd :=
  let cmds := if recoverExcluded lr then retr_cmds lr true (position s) else [] in
  (upd_retr s None, cmds ++ [Orig cmd]).

Definition recoverRetractionIfNeeded (s : fstate) (cmd : string) (isRecovery : bool) : fstate * list ocmd :=
  match lastRetraction s with
  | Some lr =>
      let lr1 := mkRetr (recoverExcluded lr) false (fw lr) (amount lr) (rfeed lr) (rorig lr) in
      if excluding s then
        let lr2 := if isRecovery then mkRetr true false (fw lr) (amount lr) (rfeed lr) (rorig lr) else lr1 in
        (upd_retr s (Some lr2), [])
      else recoverRetraction (upd_retr s (Some lr1)) lr1 cmd
  | None => (s, if excluding s then [] else [Orig cmd])
  end.

Definition processNonMove (s : fstate) (cmd : string) (deltaE : T) : fstate * list ocmd :=
  if deltaE <? n0 then
    let owed := match lastRetraction s with Some lr => recoverExcluded lr | None => false end in
    let '(s1, cmds) := recordRetraction s (mkRetr false true false (- deltaE) (feedRate s) cmd) in
    if owed && negb (excluding s1) then (s1, cmds ++ [SetE (n2l (pe (position s1)))])
    else (s1, cmds)
  else if n0 <? deltaE then recoverRetractionIfNeeded s cmd true
  else if negb (excluding s) then (s, [Orig cmd])
  else (s, []).

Definition enterExcludedRegion (c : cfg) (s : fstate) : fstate * list ocmd :=
  if excluding s then (s, [])
  else (upd_lastpos (upd_excl s true) (position s), map Script (enterS c)).

Definition processExcludedMove (c : cfg) (s : fstate) (cmd : string) (deltaE : T) : fstate * list ocmd :=
  let '(s1, cmds) := if negb (excluding s) then enterExcludedRegion c s else (s, []) in
  if deltaE <? n0 then
    let '(s2, more) := processNonMove s1 cmd deltaE in (s2, cmds ++ more)
  else (s1, cmds).

Definition pending_cmds (p : list (string * pentry)) : list ocmd :=
  map (fun e => match snd e with PRaw t => Deferred t | PArgs a => Merged (fst e) a end) p.

Definition exitCoordinate (a last : axis T) : T :=
  if absm a then n2l a else (cur a - cur last) / um a.

Definition exitExcludedRegion (c : cfg) (s : fstate) : fstate * list ocmd :=
  if negb (excluding s) then (s, [])
  else
    let s1 := upd_pending (upd_excl s false) [] in
    let p := position s in
    let lp := lastPosition s in
    let f := feedRate s / frMult s in
    let newZ := cur (pz p) in
    let oldZ := cur (pz lp) in
    let mz := MoveZ f (exitCoordinate (pz p) (pz lp)) in
    (s1, pending_cmds (pending s) ++ map Script (exitS c) ++ [SetE (n2l (pe p))]
         ++ (if oldZ <? newZ then [mz] else [])
         ++ [MoveXY f (exitCoordinate (px p) (px lp)) (exitCoordinate (py p) (py lp))]
         ++ (if newZ <? oldZ then [mz] else [])).

(** isAnyPointExcluded: updates X/Y for every point *)
Fixpoint track_points (rs : list (region T)) (en : bool) (x y : axis T) (pts : list (option T * option T))
  : axis T * axis T * bool :=
  match pts with
  | [] => (x, y, false)
  | (ox, oy) :: t =>
      let x' := match ox with Some v => set_logical x v | None => x end in
      let y' := match oy with Some v => set_logical y v | None => y end in
      let hit := en && any_contains rs (cur x') (cur y') in
      let '(x2, y2, h2) := track_points rs en x' y' t in
      (x2, y2, hit || h2)
  end.

Definition is_some {A} (o : option A) : bool := match o with Some _ => true | None => false end.

Definition to_result (l : list ocmd) : result := match l with [] => Suppress | _ => Replace l end.

Definition processLinearMoves (c : cfg) (s : fstate) (cmd : string)
    (e f z : option T) (pts : list (option T * option T)) : fstate * result :=
  let start := position s in
  let eA := pe start in
  let priorE := cur eA in
  let eA' := match e with Some v => set_logical eA v | None => eA end in
  let deltaE := match e with Some _ => cur eA' - priorE | None => n0 end in
  let zA' := match z with Some v => set_logical (pz start) v | None => pz start end in
  let isMove := is_some z || existsb (fun p => is_some (fst p) || is_some (snd p)) pts in
  let s0 := match f with Some v => upd_feed s (v * frMult s) | None => s end in
  let s1 := upd_pos s0 (upd_Z (upd_E start eA') zA') in
  let '(s2, cmds) :=
    if negb isMove then processNonMove s1 cmd deltaE
    else
      let '(x', y', hit) := track_points (regions s1) (enabled s1) (px start) (py start) pts in
      let s1 := upd_pos s1 (upd_XY (position s1) x' y') in
      if hit then
        let was := excluding s1 in
        let '(s2, cmds) := processExcludedMove c s1 cmd deltaE in
        ((if excluding s2 && negb was then upd_lastpos s2 start else s2), cmds)
      else if excluding s1 then exitExcludedRegion c s1
      else if negb (deltaE =? n0) then
        let sp := upd_pos s1 (upd_E (position s1) (set_cur eA' priorE)) in
        let '(s2, cmds) := recoverRetractionIfNeeded sp cmd false in
        (upd_pos s2 (upd_E (position s2) eA'), cmds)
      else (s1, [Orig cmd]) in
  (s2, to_result cmds).

(** *** word extraction in the handlers *)
Fixpoint last_num (l : string) (ws : list witem) (acc : option T) : option T :=
  match ws with
  | [] => acc
  | (k, MNum v) :: t => last_num l t (if String.eqb k l then Some v else acc)
  | _ :: t => last_num l t acc
  end.
Definition word (l : string) (ws : list witem) : option T := last_num l ws None.
Definition has_label (l : string) (ws : list witem) : bool := existsb (fun w => String.eqb (fst w) l) ws.
Definition dflt (o : option T) (d : T) : T := match o with Some v => v | None => d end.

Definition handle_G0 (c : cfg) (s : fstate) (m : icmd) : fstate * result :=
  let ws := cwords m in
  processLinearMoves c s (ctext m) (word "E" ws) (word "F" ws) (word "Z" ws) [(word "X" ws, word "Y" ws)].

Definition nonzero (v : T) : bool := negb (v =? n0).

Definition handle_G2 (c : cfg) (s : fstate) (m : icmd) : fstate * result :=
  let ws := cwords m in
  let p := position s in
  let x := dflt (word "X" ws) (n2l (px p)) in
  let y := dflt (word "Y" ws) (n2l (py p)) in
  let z := dflt (word "Z" ws) (n2l (pz p)) in
  let '(i, j) := match word "R" ws with
                 | Some _ => match carc_ij m with Some ij => ij | None => (n0, n0) end
                 | None => (dflt (word "I" ws) n0, dflt (word "J" ws) n0)
                 end in
  if nonzero i || nonzero j then
    processLinearMoves c s (ctext m) (word "E" ws) (word "F" ws) (Some z)
      (map (fun q => (Some (fst q), Some (snd q))) (carc_mid m) ++ [(Some x, Some y)])
  else (s, Unchanged).

Definition handle_G10 (s : fstate) (m : icmd) : fstate * result :=
  if has_label "P" (cwords m) || has_label "L" (cwords m) then (s, Unchanged)
  else let '(s1, cmds) := recordRetraction s (mkRetr false true true n0 n0 (ctext m)) in (s1, to_result cmds).

Definition handle_G11 (s : fstate) (m : icmd) : fstate * result :=
  let '(s1, cmds) := recoverRetractionIfNeeded s (ctext m) true in (s1, to_result cmds).

Definition map_axes (fn : axis T -> axis T) (withE : bool) (p : pos T) : pos T :=
  mkPos (fn (px p)) (fn (py p)) (fn (pz p)) (if withE then fn (pe p) else pe p).

Definition setUnitMultiplier (s : fstate) (m : T) : fstate :=
  let s1 := upd_pos s (map_axes (fun a => set_um a m) true (position s)) in
  mkSt (position s1) (feedRate s1) m (enabled s1) (excluding s1) (lastRetraction s1) (lastPosition s1) (pending s1) (regions s1).

Definition handle_G28 (s : fstate) (m : icmd) : fstate :=
  let ws := cwords m in
  let hx := has_label "X" ws in let hy := has_label "Y" ws in let hz := has_label "Z" ws in
  let all := negb (hx || hy || hz) in
  let p := position s in
  upd_pos s (mkPos (if hx || all then set_home (px p) else px p)
                   (if hy || all then set_home (py p) else py p)
                   (if hz || all then set_home (pz p) else pz p) (pe p)).

Fixpoint g92_words (p : pos T) (ws : list witem) : pos T :=
  match ws with
  | [] => p
  | (k, MNum v) :: t =>
      let p' := if String.eqb k "E" then upd_E p (set_logical (pe p) v)
                else if String.eqb k "X" then mkPos (set_offset_pos (px p) v) (py p) (pz p) (pe p)
                else if String.eqb k "Y" then mkPos (px p) (set_offset_pos (py p) v) (pz p) (pe p)
                else if String.eqb k "Z" then upd_Z p (set_offset_pos (pz p) v)
                else p in
      g92_words p' t
  | _ :: t => g92_words p t
  end.

Fixpoint m206_words (p : pos T) (ws : list witem) : pos T :=
  match ws with
  | [] => p
  | (k, MNum v) :: t =>
      let p' := if String.eqb k "X" then mkPos (set_home_offset (px p) v) (py p) (pz p) (pe p)
                else if String.eqb k "Y" then mkPos (px p) (set_home_offset (py p) v) (pz p) (pe p)
                else if String.eqb k "Z" then upd_Z p (set_home_offset (pz p) v)
                else p in
      m206_words p' t
  | _ :: t => m206_words p t
  end.

(** *** extended (deferred) G-codes *)
Fixpoint assoc {A} (k : string) (l : list (string * A)) : option A :=
  match l with [] => None | (k', v) :: t => if String.eqb k k' then Some v else assoc k t end.
Fixpoint remove_key {A} (k : string) (l : list (string * A)) : list (string * A) :=
  match l with [] => [] | (k', v) :: t => if String.eqb k k' then remove_key k t else (k', v) :: remove_key k t end.
(** dict assignment: replace in place if present, else append *)
Fixpoint dict_set (k : string) (v : mval) (l : list witem) : list witem :=
  match l with
  | [] => [(k, v)]
  | (k', v') :: t => if String.eqb k k' then (k, v) :: t else (k', v') :: dict_set k v t
  end.

Definition processExtendedGcodeEntry (s : fstate) (mode : xmode) (m : icmd) : fstate :=
  let g := ccode m in
  match mode with
  | XExclude => s
  | XMerge =>
      let old := match assoc g (pending s) with Some (PArgs a) => a | _ => [] end in
      let args := fold_left (fun acc w => if String.eqb (fst w) "" then acc else dict_set (fst w) (snd w) acc) (cwords m) old in
      upd_pending s (remove_key g (pending s) ++ [(g, PArgs args)])
  | XFirst =>
      match assoc g (pending s) with
      | Some _ => s
      | None => upd_pending s (pending s ++ [(g, PRaw (ctext m))])
      end
  | XLast => upd_pending s (remove_key g (pending s) ++ [(g, PRaw (ctext m))])
  end.

Definition processExtendedGcode (c : cfg) (s : fstate) (m : icmd) : fstate * result :=
  if negb (String.eqb (ccode m) "") && excluding s then
    match assoc (ccode m) (ext c) with
    | Some mode => (processExtendedGcodeEntry s mode m, Suppress)
    | None => (s, Unchanged)
    end
  else (s, Unchanged).

(** *** GcodeHandlers.handleGcode *)
Definition inch : T := nofQ (QArith_base.Qmake 254%Z 10%positive).

Definition handle (c : cfg) (s : fstate) (m : icmd) : fstate * result :=
  let g := ccode m in
  if String.eqb g "G0" || String.eqb g "G1" then handle_G0 c s m
  else if String.eqb g "G2" || String.eqb g "G3" then handle_G2 c s m
  else if String.eqb g "G10" then handle_G10 s m
  else if String.eqb g "G11" then handle_G11 s m
  else if String.eqb g "G20" then (setUnitMultiplier s inch, Unchanged)
  else if String.eqb g "G21" then (setUnitMultiplier s n1, Unchanged)
  else if String.eqb g "G28" then (handle_G28 s m, Unchanged)
  else if String.eqb g "G90" then (upd_pos s (map_axes (fun a => set_absm a true) (g90e c) (position s)), Unchanged)
  else if String.eqb g "G91" then (upd_pos s (map_axes (fun a => set_absm a false) (g90e c) (position s)), Unchanged)
  else if String.eqb g "G92" then (upd_pos s (g92_words (position s) (cwords m)), Unchanged)
  else if String.eqb g "M206" then (upd_pos s (m206_words (position s) (cwords m)), Unchanged)
  else processExtendedGcode c s m.

(** *** @-commands (AtCommandAction.matches is supplied per entry by the harness) *)
Inductive ataction := AtEnable | AtDisable.

Definition disableExclusion (c : cfg) (s : fstate) : fstate * list ocmd :=
  if enabled s then
    let s1 := upd_enabled s false in
    if excluding s1 then exitExcludedRegion c s1 else (s1, [])
  else (s, []).
Definition enableExclusion (s : fstate) : fstate := if enabled s then s else upd_enabled s true.

(** [matched]: the actions of the configured entries for this command whose pattern matched, in order *)
Definition handle_at (c : cfg) (s : fstate) (streaming : bool) (matched : list ataction) : fstate * bool * list ocmd :=
  if streaming then (s, false, [])
  else
    fold_left (fun acc a =>
      let '(s, _, sent) := acc in
      match a with
      | AtEnable => (enableExclusion s, true, sent)
      | AtDisable => let '(s1, cmds) := disableExclusion c s in (s1, true, sent ++ cmds)
      end) matched (s, false, []).

(** *** region registry (ExcludeRegionState.addRegion / deleteRegion / replaceRegion) *)
Definition get_region (rs : list (region T)) (id : string) : option (region T) :=
  find (fun g => String.eqb (region_id g) id) rs.
Definition add_region (rs : list (region T)) (g : region T) : option (list (region T)) :=
  match get_region rs (region_id g) with None => Some (rs ++ [g]) | Some _ => None end.
Fixpoint delete_region (rs : list (region T)) (id : string) : option (list (region T)) :=
  match rs with
  | [] => None
  | g :: t => if String.eqb (region_id g) id then Some t
              else match delete_region t id with Some t' => Some (g :: t') | None => None end
  end.
(** None = ValueError (not found / not contained) *)
Fixpoint replace_region (rs : list (region T)) (g : region T) (mustContain : bool) : option (list (region T)) :=
  match rs with
  | [] => None
  | o :: t => if String.eqb (region_id o) (region_id g) then
                if mustContain && negb (contains_region g o) then None else Some (g :: t)
              else match replace_region t g mustContain with Some t' => Some (o :: t') | None => None end
  end.

End Filter.

Arguments icmd T : clear implicits.
Arguments ocmd T : clear implicits.
Arguments result T : clear implicits.
Arguments fstate T : clear implicits.
Arguments retr T : clear implicits.
Arguments mval T : clear implicits.
Arguments witem T : clear implicits.
Arguments pentry T : clear implicits.
