(** Correspondence runner (Q instance): fold [handle] over a history and compare every result
    with what the implementation returned (given as data by the harness). *)
From Coq Require Import QArith Qreduction Qabs String Ascii List Bool.
From ER Require Import Base.Num Model.Lexer Model.Words Model.Geometry Model.Axis Model.Filter Model.Cases.
Import ListNotations.
Open Scope string_scope.
Open Scope list_scope.

(** what the implementation emitted, as read back by harness/reader.py *)
Record ecmd := mkE { etext : string; ecode : string; ewords : list (witem Q) }.

(** blank-separated tokens of a text *)
Fixpoint tokens_fuel (fuel : nat) (s : string) : list string :=
  match fuel with
  | O => []
  | S f => let '(_, r) := span is_sp s in
           match r with
           | "" => []
           | _ => let '(t, r') := span (fun c => negb (is_sp c)) r in t :: tokens_fuel f r'
           end
  end.
Definition tokens (s : string) : list string := tokens_fuel (S (String.length s)) s.

Inductive event :=
| ECmd (m : icmd Q)
| EAdd (g : region Q)
| EAt (streaming : bool) (matched : list ataction)
| EPos.                                   (* compare the tracked native position *)

Inductive eres :=
| RUnchanged | RSuppress | RReplace (l : list ecmd)
| RAt (handled : bool) (l : list ecmd)
| RAdded (ok : bool)
| RPos (x y z e : Q).

Definition mval_match (a b : mval Q) : bool :=
  match a, b with
  | MNone, MNone => true
  | MNum x, MNum y => Qclose x y
  | MStr s, MStr t => String.eqb s t
  | _, _ => false
  end.
Fixpoint words_match (a b : list (witem Q)) : bool :=
  match a, b with
  | [], [] => true
  | (k, v) :: ta, (k', v') :: tb => String.eqb k k' && mval_match v v' && words_match ta tb
  | _, _ => false
  end.
Definition num (k : string) (v : Q) : witem Q := (k, MNum v).

(** a merged deferred command is compared token by token with the text the implementation built:
    key ++ number (value within tolerance), a bare key, or the blank-separated pieces of a string argument;
    entries with an empty key and no value are dropped by the parameterDict setter *)
Inductive tokpat := TNum (k : string) (v : Q) | TText (t : string).
Definition merged_pats (args : list (witem Q)) : list tokpat :=
  flat_map (fun w => match w with
                     | (k, MNum v) => [TNum k v]
                     | (k, MNone) => match k with "" => [] | _ => [TText k] end
                     | (k, MStr t) => match tokens (k ++ t) with [] => [] | l => map TText l end
                     end) args.
Definition tok_match (p : tokpat) (t : string) : bool :=
  match p with
  | TText x => String.eqb x t
  | TNum k v =>
      let n := String.length k in
      String.eqb (substring 0 n t) k &&
      match number (substring n (String.length t - n) t) with
      | Some (num, "") => Qclose v (number_value num)
      | _ => false
      end
  end.
Fixpoint toks_match (ps : list tokpat) (ts : list string) : bool :=
  match ps, ts with
  | [], [] => true
  | p :: tp, t :: tr => tok_match p t && toks_match tp tr
  | _, _ => false
  end.
Definition merged_match (g : string) (args : list (witem Q)) (e : ecmd) : bool :=
  match tokens (etext e) with
  | c :: ts => String.eqb c g && toks_match (merged_pats args) ts
  | [] => false
  end.

Definition ocmd_match (o : ocmd Q) (e : ecmd) : bool :=
  match o with
  | Orig t | Script t | Deferred t => String.eqb t (etext e)
  | SetE v => String.eqb (ecode e) "G92" && words_match [num "E" v] (ewords e)
  | MoveZ f z => String.eqb (ecode e) "G0" && words_match [num "F" f; num "Z" z] (ewords e)
  | MoveXY f x y => String.eqb (ecode e) "G0" && words_match [num "F" f; num "X" x; num "Y" y] (ewords e)
  | ExtrudeTo f v => String.eqb (ecode e) "G1" && words_match [num "F" f; num "E" v] (ewords e)
  | FwCmd rec p => String.eqb (etext e) ((if rec then "G11" else "G10") ++ (if String.eqb p "" then "" else " " ++ p))
  | Merged g args => merged_match g args e
  end.
Fixpoint ocmds_match (a : list (ocmd Q)) (b : list ecmd) : bool :=
  match a, b with
  | [], [] => true
  | o :: ta, e :: tb => ocmd_match o e && ocmds_match ta tb
  | _, _ => false
  end.

Definition res_match (r : result Q) (e : eres) : bool :=
  match r, e with
  | Unchanged, RUnchanged => true
  | Suppress, RSuppress => true
  | Replace l, RReplace l' => ocmds_match l l'
  | _, _ => false
  end.

(** Float round-off tie: when the new and the old native Z agree to 1e-9 (they are equal in exact
    arithmetic, or differ by accumulated binary64 round-off of relative moves), the implementation may
    or may not emit the exit sequence's Z move; results are then compared modulo Z-only moves. *)
Definition is_movez_o (o : ocmd Q) : bool := match o with MoveZ _ _ => true | _ => false end.
Definition is_movez_e (e : ecmd) : bool :=
  String.eqb (ecode e) "G0" &&
  match ewords e with [(f, MNum _); (z, MNum _)] => String.eqb f "F" && String.eqb z "Z" | _ => false end.
Definition ztie (s : fstate Q) : bool := Qclose (cur (pz (position s))) (cur (pz (lastPosition s))).
Definition ocmds_match_tie (s' : fstate Q) (l : list (ocmd Q)) (l' : list ecmd) : bool :=
  ocmds_match l l' ||
  (ztie s' && ocmds_match (filter (fun o => negb (is_movez_o o)) l) (filter (fun e => negb (is_movez_e e)) l')).
Definition res_match_tie (s' : fstate Q) (r : result Q) (e : eres) : bool :=
  res_match r e || match r, e with Replace l, RReplace l' => ocmds_match_tie s' l l' | _, _ => false end.

Definition step_event (c : cfg) (s : fstate Q) (ev : event) (e : eres) : fstate Q * bool :=
  match ev with
  | ECmd m => let '(s', r) := handle c s m in (s', res_match_tie s' r e)
  | EAdd g =>
      match add_region (regions s) g, e with
      | Some rs, RAdded true => (upd_regions s rs, true)
      | None, RAdded false => (s, true)
      | Some rs, _ => (upd_regions s rs, false)
      | None, _ => (s, false)
      end
  | EAt st matched =>
      let '(s', handled, sent) := handle_at c s st matched in
      (s', match e with RAt h l => Bool.eqb h handled && ocmds_match_tie s' sent l | _ => false end)
  | EPos =>
      (s, match e with
          | RPos x y z e' => let p := position s in
              Qclose (cur (px p)) x && Qclose (cur (py p)) y && Qclose (cur (pz p)) z && Qclose (cur (pe p)) e'
          | _ => false end)
  end.

(** index of the first step on which model and implementation disagree *)
Fixpoint run (c : cfg) (s : fstate Q) (h : list (event * eres)) (k : nat) : option nat :=
  match h with
  | [] => None
  | (ev, e) :: t => let '(s', ok) := step_event c s ev e in if ok then run c s' t (S k) else Some k
  end.

Record fcase := mkCase { fc_cfg : cfg; fc_regions : list (region Q); fc_hist : list (event * eres) }.
Definition fcase_first_bad (f : fcase) : option nat := run (fc_cfg f) (init_state (fc_regions f)) (fc_hist f) 0.
Definition fcase_ok (f : fcase) : bool := match fcase_first_bad f with None => true | Some _ => false end.

(** for diagnosis: the model's own results *)
Fixpoint trace (c : cfg) (s : fstate Q) (h : list event) : list (result Q) :=
  match h with
  | [] => []
  | ECmd m :: t => let '(s', r) := handle c s m in r :: trace c s' t
  | EAdd g :: t => trace c (match add_region (regions s) g with Some rs => upd_regions s rs | None => s end) t
  | EAt st matched :: t => let '(s', _, sent) := handle_at c s st matched in Replace sent :: trace c s' t
  | EPos :: t => trace c s t
  end.
