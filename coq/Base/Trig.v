(** atan2 over R (no installed library provides it), its characterisation, and chord <= arc. *)
From Coq Require Import Reals Lra Lia.
From ER Require Import Base.Num.
Open Scope R_scope.

Definition atan2 (y x : R) : R :=
  if Rlt_dec 0 x then atan (y / x)
  else if Rlt_dec x 0 then (if Rle_dec 0 y then atan (y / x) + PI else atan (y / x) - PI)
  else if Rlt_dec 0 y then PI / 2 else if Rlt_dec y 0 then - PI / 2 else 0.

Lemma sqrt_sq_ratio x y : x <> 0 -> sqrt (1 + (y/x)²) = sqrt (x*x+y*y) / Rabs x.
Proof.
  intros Hx. unfold Rsqr.
  replace (1 + y / x * (y / x)) with ((x*x+y*y) / (x*x)) by (field; assumption).
  rewrite sqrt_div_alt by nra.
  f_equal. replace (x*x) with (Rsqr x) by reflexivity. apply sqrt_Rsqr_abs.
Qed.

Lemma atan2_cos_sin x y : (x <> 0 \/ y <> 0) ->
  x = hypot x y * cos (atan2 y x) /\ y = hypot x y * sin (atan2 y x).
Proof.
  intros H. pose proof (hypot_pos x y H) as Hp. unfold hypot in *. unfold atan2.
  destruct (Rlt_dec 0 x) as [Hx|Hx].
  - rewrite cos_atan, sin_atan, sqrt_sq_ratio by lra. rewrite Rabs_right by lra. split; field; split; lra.
  - destruct (Rlt_dec x 0) as [Hx'|Hx'].
    + assert (Hx0 : x <> 0) by lra.
      destruct (Rle_dec 0 y).
      * rewrite cos_plus, sin_plus, cos_PI, sin_PI, cos_atan, sin_atan, sqrt_sq_ratio by lra.
        rewrite Rabs_left by lra. split; field; split; lra.
      * rewrite cos_minus, sin_minus, cos_PI, sin_PI, cos_atan, sin_atan, sqrt_sq_ratio by lra.
        rewrite Rabs_left by lra. split; field; split; lra.
    + assert (x = 0) by lra. subst x.
      replace (0*0 + y*y) with (Rsqr y) in * by (unfold Rsqr; ring). rewrite sqrt_Rsqr_abs in *.
      destruct (Rlt_dec 0 y).
      * rewrite cos_PI2, sin_PI2, Rabs_right by lra. lra.
      * destruct (Rlt_dec y 0).
        -- replace (- PI / 2) with (- (PI/2)) by lra. rewrite cos_neg, sin_neg, cos_PI2, sin_PI2, Rabs_left by lra. lra.
        -- exfalso. destruct H; lra.
Qed.

Lemma atan2_range y x : - PI < atan2 y x <= PI.
Proof.
  unfold atan2. pose proof PI_RGT_0.
  destruct (Rlt_dec 0 x).
  - pose proof (atan_bound (y/x)). lra.
  - destruct (Rlt_dec x 0).
    + destruct (Rle_dec 0 y).
      * assert (y / x <= 0). { unfold Rdiv. assert (/ x < 0) by (apply Rinv_lt_0_compat; lra). nra. }
        pose proof (atan_bound (y/x)). assert (atan (y/x) <= 0).
        { destruct H0 as [H0|H0]. - left. rewrite <- atan_0. apply atan_increasing; lra. - rewrite H0, atan_0. lra. }
        lra.
      * assert (0 < y / x). { unfold Rdiv. assert (/ x < 0) by (apply Rinv_lt_0_compat; lra). nra. }
        pose proof (atan_bound (y/x)). assert (0 < atan (y/x)). { rewrite <- atan_0. apply atan_increasing; lra. }
        lra.
    + destruct (Rlt_dec 0 y); [lra|]. destruct (Rlt_dec y 0); lra.
Qed.

Lemma atan2_0_0 : atan2 0 0 = 0.
Proof. unfold atan2. destruct (Rlt_dec 0 0); [lra|]. destruct (Rlt_dec 0 0); lra. Qed.

(** chord <= arc *)
Lemma chord_sq u v : (cos (u+v) - cos (u-v))*(cos (u+v) - cos (u-v)) + (sin (u+v) - sin (u-v))*(sin (u+v) - sin (u-v)) = Rsqr (2 * sin v).
Proof.
  rewrite cos_plus, cos_minus, sin_plus, sin_minus. unfold Rsqr.
  pose proof (sin2_cos2 u) as H1. unfold Rsqr in H1.
  set (s1 := sin u) in *. set (c1 := cos u) in *. set (s2 := sin v). set (c2 := cos v). nra.
Qed.
Lemma abs_sin_le t : Rabs (sin t) <= Rabs t.
Proof.
  assert (P : forall t, 0 <= t -> Rabs (sin t) <= t).
  { intros u Hu. destruct (Req_dec u 0) as [->|Hn]. { rewrite sin_0, Rabs_R0. lra. }
    apply Rabs_le. split.
    - destruct (Rle_dec u 1).
      + assert (0 <= sin u). { apply sin_ge_0; try lra. pose proof PI2_3_2. lra. } lra.
      + pose proof (SIN_bound u). lra.
    - left. apply sin_lt_x. lra. }
  destruct (Rle_dec 0 t).
  - rewrite (Rabs_right t) by lra. apply P; lra.
  - rewrite (Rabs_left t) by lra. replace (sin t) with (- sin (- t)) by (rewrite sin_neg; lra). rewrite Rabs_Ropp. apply P; lra.
Qed.
Lemma chord_le_arc a b r : 0 <= r ->
  hypot (r*cos a - r*cos b) (r*sin a - r*sin b) <= r * Rabs (a - b).
Proof.
  intros Hr. unfold hypot.
  set (u := (a+b)/2). set (v := (a-b)/2).
  replace a with (u+v) at 1 2 3 4 by (unfold u, v; lra). replace b with (u-v) at 1 2 3 4 by (unfold u, v; lra).
  replace ((r*cos (u+v) - r*cos (u-v))*(r*cos (u+v) - r*cos (u-v)) + (r*sin (u+v) - r*sin (u-v))*(r*sin (u+v) - r*sin (u-v)))
     with (r*r*((cos (u+v) - cos (u-v))*(cos (u+v) - cos (u-v)) + (sin (u+v) - sin (u-v))*(sin (u+v) - sin (u-v)))) by ring.
  rewrite chord_sq. replace (r*r*Rsqr (2*sin v)) with (Rsqr (r*(2*sin v))) by (unfold Rsqr; ring).
  rewrite sqrt_Rsqr_abs, Rabs_mult, (Rabs_right r) by lra. rewrite Rabs_mult, (Rabs_right 2) by lra.
  pose proof (abs_sin_le v) as H. replace (Rabs v) with (Rabs (a-b) / 2) in H.
  2:{ unfold v, Rdiv. rewrite Rabs_mult. rewrite (Rabs_right (/2)) by lra. reflexivity. }
  nra.
Qed.
