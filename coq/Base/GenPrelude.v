(** Hand-written support for the definitions GENERATED from /repo by harness/py2coq.py. *)
From Coq Require Import Reals ZArith List Bool Lra.
From ER Require Export Base.Num Base.Trig.
Import ListNotations.
Open Scope R_scope.

(** Records mirroring the attribute sets of the Python classes (names are the Python names). *)
Record RectR := { x1 : R; y1 : R; x2 : R; y2 : R }.
Record CircR := { cx : R; cy : R; r : R }.
Record AxisR := { current : R; homeOffset : R; offset : R; absoluteMode : bool; unitMultiplier : R }.

(** Python [math.ceil] on a real, as an integer: ceil x = - floor (-x), floor y = up y - 1. *)
Definition Rceil (x : R) : Z := (1 - up (- x))%Z.
Lemma Rceil_spec x : IZR (Rceil x) - 1 < x <= IZR (Rceil x).
Proof.
  unfold Rceil. destruct (archimed (- x)) as [H1 H2]. rewrite minus_IZR. simpl. lra.
Qed.

(** [for k in range(a, b): st = body st] *)
Definition for_range {S : Type} (a b : Z) (body : S -> S) (init : S) : S :=
  nat_rect (fun _ => S) init (fun _ st => body st) (Z.to_nat (b - a)).
Lemma for_range_iter {S} a b (body : S -> S) init :
  for_range a b body init = Nat.iter (Z.to_nat (b - a)) body init.
Proof. unfold for_range. induction (Z.to_nat (b - a)); simpl; congruence. Qed.

Definition xorb_py (a b : bool) : bool := xorb a b.
