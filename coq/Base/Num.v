(** Number class: the model is written once over [Num T]; theorems are proved on the
    [R] instance, execution (vm_compute) uses the [Q] instance. *)
From Coq Require Import QArith Qreduction Qabs Reals Qreals Lra Bool.

Class Num (T : Type) := {
  n0 : T; n1 : T;
  nadd : T -> T -> T; nsub : T -> T -> T; nmul : T -> T -> T; ndiv : T -> T -> T; nopp : T -> T;
  nleb : T -> T -> bool; nltb : T -> T -> bool; neqb : T -> T -> bool;
  nofQ : Q -> T;
  (** [nhypot_le dx dy b]  <->  hypot dx dy <= b *)
  nhypot_le : T -> T -> T -> bool
}.

Declare Scope num_scope.
Delimit Scope num_scope with num.
Infix "+" := nadd : num_scope.
Infix "-" := nsub : num_scope.
Infix "*" := nmul : num_scope.
Infix "/" := ndiv : num_scope.
Notation "- x" := (nopp x) : num_scope.
Infix "<=?" := nleb : num_scope.
Infix "<?" := nltb : num_scope.
Infix "=?" := neqb : num_scope.

(** ** R instance *)
Definition Rleb (a b : R) : bool := if Rle_dec a b then true else false.
Definition Rltb (a b : R) : bool := if Rlt_dec a b then true else false.
Definition Reqb (a b : R) : bool := if Req_EM_T a b then true else false.
Definition Rgeb (a b : R) : bool := Rleb b a.
Definition Rgtb (a b : R) : bool := Rltb b a.
Definition hypot (x y : R) : R := sqrt (x * x + y * y).

#[export] Instance RNum : Num R := {|
  n0 := 0%R; n1 := 1%R;
  nadd := Rplus; nsub := Rminus; nmul := Rmult; ndiv := Rdiv; nopp := Ropp;
  nleb := Rleb; nltb := Rltb; neqb := Reqb;
  nofQ := Q2R;
  nhypot_le := fun dx dy b => Rleb (hypot dx dy) b
|}.

Lemma Rleb_true a b : Rleb a b = true <-> (a <= b)%R.
Proof. unfold Rleb; destruct (Rle_dec a b); split; intros; auto; try discriminate; lra. Qed.
Lemma Rleb_false a b : Rleb a b = false <-> (b < a)%R.
Proof. unfold Rleb; destruct (Rle_dec a b); split; intros; auto; try discriminate; lra. Qed.
Lemma Rltb_true a b : Rltb a b = true <-> (a < b)%R.
Proof. unfold Rltb; destruct (Rlt_dec a b); split; intros; auto; try discriminate; lra. Qed.
Lemma Rltb_false a b : Rltb a b = false <-> (b <= a)%R.
Proof. unfold Rltb; destruct (Rlt_dec a b); split; intros; auto; try discriminate; lra. Qed.
Lemma Reqb_true a b : Reqb a b = true <-> a = b.
Proof. unfold Reqb; destruct (Req_EM_T a b); split; intros; auto; try discriminate; contradiction. Qed.
Lemma Reqb_false a b : Reqb a b = false <-> a <> b.
Proof. unfold Reqb; destruct (Req_EM_T a b); split; intros; auto; try discriminate; contradiction. Qed.
Lemma Rgeb_true a b : Rgeb a b = true <-> (b <= a)%R.
Proof. apply Rleb_true. Qed.

Lemma hypot_le_iff dx dy b :
  (hypot dx dy <= b <-> 0 <= b /\ dx * dx + dy * dy <= b * b)%R.
Proof.
  unfold hypot. assert (0 <= dx*dx+dy*dy)%R by nra. pose proof (sqrt_pos (dx*dx+dy*dy)).
  split.
  - intros Hle. split; [lra|]. rewrite <- (sqrt_sqrt (dx*dx+dy*dy)) at 1 by lra. nra.
  - intros (Hb & Hs). rewrite <- (sqrt_square b) by lra. apply sqrt_le_1_alt. lra.
Qed.
Lemma hypot_nonneg x y : (0 <= hypot x y)%R.
Proof. apply sqrt_pos. Qed.
Lemma hypot_sqr x y : (hypot x y * hypot x y = x * x + y * y)%R.
Proof. unfold hypot. apply sqrt_sqrt. nra. Qed.
Lemma hypot_pos x y : (x <> 0 \/ y <> 0)%R -> (0 < hypot x y)%R.
Proof. intros H. apply sqrt_lt_R0. destruct H; nra. Qed.

(** Unfold the class operations on the R instance. *)
Ltac numR := cbv [n0 n1 nadd nsub nmul ndiv nopp nleb nltb neqb nofQ nhypot_le RNum] in *.

(** ** Q instance (reduced after every operation) *)
#[export] Instance QNum : Num Q := {|
  n0 := 0%Q; n1 := 1%Q;
  nadd := fun a b => Qred (a + b); nsub := fun a b => Qred (a - b);
  nmul := fun a b => Qred (a * b); ndiv := fun a b => Qred (a / b); nopp := fun a => Qred (- a);
  nleb := Qle_bool; nltb := fun a b => negb (Qle_bool b a); neqb := Qeq_bool;
  nofQ := Qred;
  nhypot_le := fun dx dy b => Qle_bool 0 b && Qle_bool (dx * dx + dy * dy) (b * b)
|}.

(** The Q reading of [nhypot_le] agrees with the R reading on rationals. *)
Lemma Q_hypot_le_sound (dx dy b : Q) :
  @nhypot_le Q QNum dx dy b = @nhypot_le R RNum (Q2R dx) (Q2R dy) (Q2R b).
Proof.
  cbv [nhypot_le QNum RNum].
  destruct (Rleb (hypot (Q2R dx) (Q2R dy)) (Q2R b)) eqn:E.
  - apply Rleb_true in E. apply hypot_le_iff in E. destruct E as (E1 & E2).
    apply andb_true_iff. split; apply Qle_bool_iff; apply Rle_Qle.
    + rewrite RMicromega.Q2R_0. exact E1.
    + rewrite Q2R_plus, !Q2R_mult. exact E2.
  - apply Rleb_false in E. apply andb_false_iff.
    destruct (Qle_bool 0 b) eqn:B; [right|left; reflexivity].
    destruct (Qle_bool (dx*dx+dy*dy) (b*b)) eqn:C; [|reflexivity]. exfalso.
    apply Qle_bool_iff in B, C. apply Qle_Rle in B, C.
    rewrite RMicromega.Q2R_0 in B. rewrite Q2R_plus, !Q2R_mult in C.
    assert (hypot (Q2R dx) (Q2R dy) <= Q2R b)%R by (apply hypot_le_iff; split; assumption). lra.
Qed.
