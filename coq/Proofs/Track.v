(** Tracking (Sync (i)): the position, modes and units the filter tracks are those of the file,
    i.e. of the reference printer executing the unfiltered program -- whatever the exclusion state. *)
From Coq Require Import Reals Lra String Ascii List Bool.
From ER Require Import Base.Num Model.Geometry Model.Axis Model.Filter Spec.Printer Proofs.FilterLemmas Proofs.Outputs.
Import ListNotations.
Open Scope R_scope.

Notation fstateR := (fstate R).
Notation icmdR := (icmd R).
Notation printerR := (printer R).

Definition axis_tracks (a : axis R) (c : R) (ab : bool) (m : R) : Prop :=
  cur a = c /\ off a = 0 /\ hoff a = 0 /\ absm a = ab /\ um a = m.

Record Track (s : fstateR) (U : printerR) : Prop := mkTrack {
  t_um : qum U <> 0;
  t_eabs : qeabs U = true;
  t_x : axis_tracks (px (position s)) (qx U) (qabs U) (qum U);
  t_y : axis_tracks (py (position s)) (qy U) (qabs U) (qum U);
  t_z : axis_tracks (pz (position s)) (qz U) (qabs U) (qum U);
  t_e : axis_tracks (pe (position s)) (qe U) true (qum U);
  t_fm : frMult s = qum U
}.

(** *** the dialect of the motion properties *)
Definition no_xyz_nums (ws : list (witem R)) : bool :=
  forallb (fun w => match w with
                    | (k, MNum _) => negb (String.eqb k "X" || String.eqb k "Y" || String.eqb k "Z")
                    | _ => true end) ws.
Definition arc_nondegenerate (m : icmdR) : bool :=
  match word "R" (cwords m) with
  | Some _ => match carc_ij m with Some (i, j) => nonzero i || nonzero j | None => false end
  | None => nonzero (dflt (word "I" (cwords m)) n0) || nonzero (dflt (word "J" (cwords m)) n0)
  end.
Definition is_arc (m : icmdR) : bool := String.eqb (ccode m) "G2" || String.eqb (ccode m) "G3".

(** G92 carries no X/Y/Z (finding D18), no M206 (D19), arcs only in absolute positioning (D15) and with a
    usable centre (D21), the extruder stays in absolute mode (D16) *)
Definition wf_cmd (c : cfg) (U : printerR) (m : icmdR) : Prop :=
  (ccode m = "G92"%string -> no_xyz_nums (cwords m) = true) /\
  ccode m <> "M206"%string /\
  (is_arc m = true -> qabs U = true /\ arc_nondegenerate m = true) /\
  (g90e c = true -> ccode m <> "G91"%string).

Lemma inch_nonzero : @inch R RNum <> 0.
Proof. unfold inch. numR. unfold Q2R. cbn. lra. Qed.

Ltac axt := unfold axis_tracks in *; cbn [cur off hoff absm um set_logical set_cur set_um set_absm set_home l2n] in *.

Lemma set_logical_tracks a c ab m v : axis_tracks a c ab m ->
  axis_tracks (set_logical a v) (if ab then v * m else c + v * m) ab m.
Proof.
  intros (A & B & C & D & E). unfold axis_tracks, set_logical, set_cur, l2n. cbn. numR. rewrite B, C, D, E, A.
  repeat split; auto. destruct ab; lra.
Qed.

Lemma tgt_tracks a c ab m (w : option R) : axis_tracks a c ab m ->
  axis_tracks (match w with Some v => set_logical a v | None => a end) (tgt ab m c w) ab m.
Proof.
  intros H. destruct w as [v|]; [|exact H]. unfold tgt. numR. apply set_logical_tracks. exact H.
Qed.

(** in absolute mode the scan over several points ends where its last point is *)
Lemma track_points_abs rs en (x y : axis R) pts cx cy m lx ly :
  axis_tracks x cx true m -> axis_tracks y cy true m ->
  let '(x', y', _) := track_points rs en x y (pts ++ [(Some lx, Some ly)]) in
  axis_tracks x' (lx * m) true m /\ axis_tracks y' (ly * m) true m.
Proof.
  revert x y cx cy. induction pts as [|[ox oy] t IH]; intros x y cx cy Hx Hy.
  - cbn. split; [apply (set_logical_tracks x cx true m lx Hx) | apply (set_logical_tracks y cy true m ly Hy)].
  - cbn [app track_points].
    specialize (IH (match ox with Some v => set_logical x v | None => x end) (match oy with Some v => set_logical y v | None => y end)
                  (tgt true m cx ox) (tgt true m cy oy) (tgt_tracks x cx true m ox Hx) (tgt_tracks y cy true m oy Hy)).
    destruct (track_points rs en _ _ (t ++ [(Some lx, Some ly)])) as [[x2 y2] h]. exact IH.
Qed.

Lemma last_num_app l (ws : list (witem R)) acc : forall w,
  last_num l (ws ++ [w]) acc = match w with (k, MNum v) => if String.eqb k l then Some v else last_num l ws acc | _ => last_num l ws acc end.
Proof.
  revert acc. induction ws as [|[k mv] t IH]; intros acc w; cbn.
  - destruct w as [k [|v|s]]; reflexivity.
  - destruct mv; apply IH.
Qed.

(** G92 without X/Y/Z words: only the extruder coordinate is set, last value wins *)
Lemma set_logical_abs_twice (a : axis R) v v' : absm a = true -> set_logical (set_logical a v) v' = set_logical a v'.
Proof. intros A. unfold set_logical, set_cur, l2n. cbn. rewrite A. reflexivity. Qed.

Lemma g92_words_E (p : pos R) ws : no_xyz_nums ws = true -> absm (pe p) = true ->
  g92_words p ws = match word "E" ws with Some v => upd_E p (set_logical (pe p) v) | None => p end.
Proof.
  unfold word. intros H A.
  assert (G : forall ws (q : pos R) acc, no_xyz_nums ws = true ->
     q = match acc with Some v => upd_E p (set_logical (pe p) v) | None => p end ->
     g92_words q ws = match last_num "E" ws acc with Some v => upd_E p (set_logical (pe p) v) | None => p end).
  { clear H. induction ws0 as [|[k mv] t IH]; intros q acc H HQ; cbn.
    - exact HQ.
    - cbn in H. apply andb_true_iff in H. destruct H as (H1 & H2).
      destruct mv as [|v|s0]; try (apply IH; assumption).
      destruct (String.eqb k "E") eqn:EE.
      + apply IH; [assumption|]. subst q. destruct acc as [v0|]; cbn.
        * rewrite set_logical_abs_twice by exact A. reflexivity.
        * reflexivity.
      + apply negb_true_iff in H1. apply orb_false_iff in H1. destruct H1 as (H1 & HZ). apply orb_false_iff in H1. destruct H1 as (HX & HY).
        rewrite HX, HY, HZ. apply IH; assumption. }
  apply G; [assumption | reflexivity].
Qed.

Ltac by_code m :=
  destruct (code_cases (ccode m)) as [E|[E|[E|[E|[E|[E|[E|[E|[E|[E|[E|[E|[E|E]]]]]]]]]]]]];
  [rewrite E; cbn [String.eqb Ascii.eqb Bool.eqb orb andb negb existsb] .. | ].

(** *** helper lemmas *)
Lemma plm_pos_single (p : pos R) e z ox oy :
  plm_pos p e z [(ox, oy)] =
  mkPos (match ox with Some v => set_logical (px p) v | None => px p end)
        (match oy with Some v => set_logical (py p) v | None => py p end)
        (match z with Some v => set_logical (pz p) v | None => pz p end)
        (match e with Some v => set_logical (pe p) v | None => pe p end).
Proof.
  unfold plm_pos. cbn [existsb fst snd track_points].
  destruct z, ox, oy; cbn; reflexivity.
Qed.

Lemma plm_frmult c (s : fstateR) cmd e f z pts : frMult (fst (processLinearMoves c s cmd e f z pts)) = frMult s.
Proof.
  unfold processLinearMoves.
  set (eA' := match e with Some v => set_logical (pe (position s)) v | None => pe (position s) end).
  set (zA' := match z with Some v => set_logical (pz (position s)) v | None => pz (position s) end).
  set (dE := match e with Some _ => nsub (cur eA') (cur (pe (position s))) | None => n0 end).
  set (s0 := match f with Some v => upd_feed s (nmul v (frMult s)) | None => s end).
  assert (R0 : frMult s0 = frMult s) by (unfold s0; destruct f; auto).
  set (s1 := upd_pos s0 (upd_Z (upd_E (position s) eA') zA')).
  destruct (is_some z || existsb (fun q => is_some (fst q) || is_some (snd q)) pts); cbn [negb].
  - destruct (track_points (regions s1) (enabled s1) (px (position s)) (py (position s)) pts) as [[x' y'] hit].
    set (s1' := upd_pos s1 (upd_XY (position s1) x' y')).
    destruct hit.
    + unfold processExcludedMove.
      assert (P : frMult (fst (if negb (excluding s1') then enterExcludedRegion c s1' else (s1', []))) = frMult s).
      { unfold enterExcludedRegion. destruct (excluding s1'); cbn; exact R0. }
      destruct (if negb (excluding s1') then enterExcludedRegion c s1' else (s1', [])) as [s1e cmds]. cbn [fst] in P.
      destruct (nltb dE n0).
      * pose proof (processNonMove_frame s1e (cmd) dE) as F. destruct (processNonMove s1e cmd dE) as [s2 more]. cbn [fst] in *.
        destruct F as (_ & _ & _ & _ & _ & _ & _ & F). destruct (excluding s2 && negb (excluding s1')); cbn; congruence.
      * cbn [fst]. destruct (excluding s1e && negb (excluding s1')); cbn; exact P.
    + destruct (excluding s1') eqn:X.
      * unfold exitExcludedRegion. rewrite X. cbn. exact R0.
      * destruct (negb (neqb dE n0)).
        -- match goal with |- context [recoverRetractionIfNeeded ?sp cmd false] =>
             pose proof (recoverRetractionIfNeeded_frame sp cmd false) as F; destruct (recoverRetractionIfNeeded sp cmd false) as [s2 cmds] end.
           cbn [fst] in *. destruct F as (_ & _ & _ & _ & _ & _ & _ & F). cbn. rewrite F. exact R0.
        -- cbn. exact R0.
  - pose proof (processNonMove_frame s1 cmd dE) as F. destruct (processNonMove s1 cmd dE) as [s2 cmds]. cbn [fst] in *.
    destruct F as (_ & _ & _ & _ & _ & _ & _ & F). rewrite F. exact R0.
Qed.

Lemma handle_frmult_other c (s : fstateR) (m : icmdR) : ccode m <> "G20"%string -> ccode m <> "G21"%string ->
  frMult (fst (handle c s m)) = frMult s.
Proof.
  intros N20 N21. unfold handle. by_code m; try (cbn; reflexivity); try congruence.
  - unfold handle_G0. apply plm_frmult.
  - unfold handle_G0. apply plm_frmult.
  - unfold handle_G2. destruct (match word "R" (cwords m) with Some _ => _ | None => _ end) as [i j].
    destruct (nonzero i || nonzero j); [apply plm_frmult | reflexivity].
  - unfold handle_G2. destruct (match word "R" (cwords m) with Some _ => _ | None => _ end) as [i j].
    destruct (nonzero i || nonzero j); [apply plm_frmult | reflexivity].
  - unfold handle_G10. destruct (has_label "P" (cwords m) || has_label "L" (cwords m)); [reflexivity|].
    pose proof (recordRetraction_frame s (mkRetr false true true n0 n0 (ctext m))) as F.
    destruct (recordRetraction s _) as [s1 cmds]. cbn [fst] in *. destruct F as (_ & _ & _ & _ & _ & _ & _ & F). exact F.
  - unfold handle_G11. pose proof (recoverRetractionIfNeeded_frame s (ctext m) true) as F.
    destruct (recoverRetractionIfNeeded s (ctext m) true) as [s1 cmds]. cbn [fst] in *. destruct F as (_ & _ & _ & _ & _ & _ & _ & F). exact F.
  - pose proof E as E'. unfold handled_code in E'. cbn [existsb] in E'.
    repeat (apply orb_false_iff in E'; destruct E' as (?E1 & E')).
    repeat match goal with H : String.eqb (ccode m) _ = false |- _ => rewrite H; clear H end. cbn [orb].
    unfold processExtendedGcode. destruct (negb (String.eqb (ccode m) "") && excluding s); [|reflexivity].
    destruct (assoc (ccode m) (ext c)) as [mode|]; [|reflexivity]. cbn [fst]. unfold processExtendedGcodeEntry.
    destruct mode; cbn; try reflexivity. destruct (assoc (ccode m) (pending s)); reflexivity.
Qed.

Lemma exec_move_fields (U : printerR) ws :
  qx (exec_move U ws) = tgt (qabs U) (qum U) (qx U) (word "X" ws) /\
  qy (exec_move U ws) = tgt (qabs U) (qum U) (qy U) (word "Y" ws) /\
  qz (exec_move U ws) = tgt (qabs U) (qum U) (qz U) (word "Z" ws) /\
  qe (exec_move U ws) = tgt (qeabs U) (qum U) (qe U) (word "E" ws) /\
  qabs (exec_move U ws) = qabs U /\ qeabs (exec_move U ws) = qeabs U /\ qum (exec_move U ws) = qum U /\ qfw (exec_move U ws) = qfw U.
Proof.
  unfold exec_move, tgt. destruct (word "E" ws); cbn; repeat split; reflexivity.
Qed.

(** *** the step theorem *)
Lemma dflt_n2l_tracks (a : axis R) c m (w : option R) : m <> 0 -> axis_tracks a c true m ->
  dflt w (n2l a) * m = tgt true m c w.
Proof.
  intros Hm (A & B & C & D & E). unfold tgt, dflt, n2l. numR. destruct w as [v|]; [reflexivity|].
  rewrite A, B, C, E. field. exact Hm.
Qed.

Lemma same_pos_track (s s' : fstateR) (U U' : printerR) : Track s U -> position s' = position s -> frMult s' = frMult s ->
  qx U' = qx U -> qy U' = qy U -> qz U' = qz U -> qe U' = qe U -> qabs U' = qabs U -> qeabs U' = qeabs U -> qum U' = qum U ->
  Track s' U'.
Proof.
  intros [Hum Hea Hx Hy Hz He Hfm] P Fm A B C D E F G. constructor; rewrite ?P, ?Fm, ?A, ?B, ?C, ?D, ?E, ?F, ?G; assumption.
Qed.

Lemma arc_case c (s : fstateR) (U : printerR) (m : icmdR) : Track s U -> qabs U = true -> arc_nondegenerate m = true ->
  Track (fst (handle_G2 c s m)) (exec_move U (cwords m)).
Proof.
  intros [Hum Hea Hx Hy Hz He Hfm] AB ND. rewrite AB in Hx, Hy, Hz.
  destruct (exec_move_fields U (cwords m)) as (Fx & Fy & Fz & Fe & Fa & Fea & Fu & _).
  unfold handle_G2. unfold arc_nondegenerate in ND.
  set (ij := match word "R" (cwords m) with
             | Some _ => match carc_ij m with Some ij => ij | None => (n0, n0) end
             | None => (dflt (word "I" (cwords m)) n0, dflt (word "J" (cwords m)) n0) end).
  assert (NZ : nonzero (fst ij) || nonzero (snd ij) = true).
  { unfold ij. destruct (word "R" (cwords m)); [|exact ND]. destruct (carc_ij m) as [[i j]|]; [exact ND | discriminate]. }
  destruct ij as [i j]. cbn [fst snd] in NZ. rewrite NZ.
  set (x := dflt (word "X" (cwords m)) (n2l (px (position s)))).
  set (y := dflt (word "Y" (cwords m)) (n2l (py (position s)))).
  set (z := dflt (word "Z" (cwords m)) (n2l (pz (position s)))).
  pose proof (track_points_abs [] false (px (position s)) (py (position s))
                (map (fun q : R * R => (Some (fst q), Some (snd q))) (carc_mid m)) (qx U) (qy U) (qum U) x y Hx Hy) as TP.
  constructor; rewrite ?plm_position, ?plm_frmult; unfold plm_pos; cbn [is_some orb];
    destruct (track_points [] false (px (position s)) (py (position s)) _) as [[x' y'] h]; cbn [px py pz pe];
    rewrite ?Fx, ?Fy, ?Fz, ?Fe, ?Fa, ?Fea, ?Fu, ?Hea, ?AB; try assumption; try reflexivity.
  - destruct TP as (TP & _). unfold x in TP. rewrite (dflt_n2l_tracks _ _ _ _ Hum Hx) in TP. exact TP.
  - destruct TP as (_ & TP). unfold y in TP. rewrite (dflt_n2l_tracks _ _ _ _ Hum Hy) in TP. exact TP.
  - pose proof (set_logical_tracks (pz (position s)) (qz U) true (qum U) z Hz) as TZ. cbn beta iota in TZ.
    unfold z in TZ. rewrite (dflt_n2l_tracks _ _ _ _ Hum Hz) in TZ. exact TZ.
  - apply tgt_tracks. exact He.
Qed.

Theorem track_step c (s : fstateR) (U : printerR) (m : icmdR) : Track s U -> wf_cmd c U m ->
  Track (fst (handle c s m)) (exec_cmd (g90e c) U (ccode m) (cwords m)).
Proof.
  intros TR (WF92 & WF206 & WFarc & WF91). pose proof TR as [Hum Hea Hx Hy Hz He Hfm].
  assert (LIN : forall e f z ox oy, Track (fst (processLinearMoves c s (ctext m) e f z [(ox, oy)]))
              (mkP (tgt (qabs U) (qum U) (qx U) ox) (tgt (qabs U) (qum U) (qy U) oy) (tgt (qabs U) (qum U) (qz U) z)
                   (tgt true (qum U) (qe U) e) (qabs U) true (qum U) (qdep U) (qfw U))).
  { intros e f z ox oy. constructor; cbn [qx qy qz qe qabs qeabs qum]; rewrite ?plm_position, ?plm_pos_single, ?plm_frmult; cbn [px py pz pe];
      try assumption; try reflexivity; apply tgt_tracks; assumption. }
  unfold handle, exec_cmd. by_code m.
  - (* G0 *) unfold handle_G0.
    destruct (exec_move_fields U (cwords m)) as (Fx & Fy & Fz & Fe & Fa & Fea & Fu & _).
    pose proof (LIN (word "E" (cwords m)) (word "F" (cwords m)) (word "Z" (cwords m)) (word "X" (cwords m)) (word "Y" (cwords m))) as [A1 A2 A3 A4 A5 A6 A7].
    cbn [qx qy qz qe qabs qeabs qum] in *.
    constructor; rewrite ?Fx, ?Fy, ?Fz, ?Fe, ?Fa, ?Fea, ?Fu, ?Hea; assumption.
  - (* G1 *) unfold handle_G0.
    destruct (exec_move_fields U (cwords m)) as (Fx & Fy & Fz & Fe & Fa & Fea & Fu & _).
    pose proof (LIN (word "E" (cwords m)) (word "F" (cwords m)) (word "Z" (cwords m)) (word "X" (cwords m)) (word "Y" (cwords m))) as [A1 A2 A3 A4 A5 A6 A7].
    cbn [qx qy qz qe qabs qeabs qum] in *.
    constructor; rewrite ?Fx, ?Fy, ?Fz, ?Fe, ?Fa, ?Fea, ?Fu, ?Hea; assumption.
  - (* G2 *) destruct WFarc as (AB & ND); [unfold is_arc; rewrite E; reflexivity|]. apply arc_case; assumption.
  - (* G3 *) destruct WFarc as (AB & ND); [unfold is_arc; rewrite E; reflexivity|]. apply arc_case; assumption.
  - (* G10 *) unfold handle_G10. destruct (has_label "P" (cwords m) || has_label "L" (cwords m)); [exact TR|].
    pose proof (recordRetraction_frame s (mkRetr false true true n0 n0 (ctext m))) as F.
    destruct (recordRetraction s _) as [s1 cmds]. cbn [fst] in *. destruct F as (F1 & _ & _ & _ & _ & _ & _ & F2).
    apply (same_pos_track s s1 U _ TR F1 F2); reflexivity.
  - (* G11 *) unfold handle_G11. pose proof (recoverRetractionIfNeeded_frame s (ctext m) true) as F.
    destruct (recoverRetractionIfNeeded s (ctext m) true) as [s1 cmds]. cbn [fst] in *. destruct F as (F1 & _ & _ & _ & _ & _ & _ & F2).
    apply (same_pos_track s s1 U _ TR F1 F2); reflexivity.
  - (* G20 *) cbn [fst]. unfold setUnitMultiplier. destruct Hx as (X1 & X2 & X3 & X4 & X5), Hy as (Y1 & Y2 & Y3 & Y4 & Y5), Hz as (Z1 & Z2 & Z3 & Z4 & Z5), He as (E1 & E2 & E3 & E4 & E5).
    constructor; cbn; unfold axis_tracks; cbn; auto using inch_nonzero.
  - (* G21 *) cbn [fst]. unfold setUnitMultiplier. destruct Hx as (X1 & X2 & X3 & X4 & X5), Hy as (Y1 & Y2 & Y3 & Y4 & Y5), Hz as (Z1 & Z2 & Z3 & Z4 & Z5), He as (E1 & E2 & E3 & E4 & E5).
    constructor; cbn; unfold axis_tracks; cbn; auto.
  - (* G28 *) cbn [fst]. unfold handle_G28. destruct Hx as (X1 & X2 & X3 & X4 & X5), Hy as (Y1 & Y2 & Y3 & Y4 & Y5), Hz as (Z1 & Z2 & Z3 & Z4 & Z5).
    constructor; cbn; try assumption; unfold axis_tracks;
      repeat match goal with |- context [if ?b then _ else _] => destruct b end; cbn; auto.
  - (* G90 *) cbn [fst]. destruct Hx as (X1 & X2 & X3 & X4 & X5), Hy as (Y1 & Y2 & Y3 & Y4 & Y5), Hz as (Z1 & Z2 & Z3 & Z4 & Z5), He as (E1 & E2 & E3 & E4 & E5).
    constructor; cbn; unfold axis_tracks; try assumption; destruct (g90e c); cbn; auto.
  - (* G91 *) cbn [fst]. destruct (g90e c) eqn:G; [exfalso; apply (WF91 eq_refl); exact E|].
    destruct Hx as (X1 & X2 & X3 & X4 & X5), Hy as (Y1 & Y2 & Y3 & Y4 & Y5), Hz as (Z1 & Z2 & Z3 & Z4 & Z5), He as (E1 & E2 & E3 & E4 & E5).
    constructor; cbn; unfold axis_tracks; try assumption; cbn; auto.
  - (* G92 *) cbn [fst]. destruct He as (E1 & E2 & E3 & E4 & E5).
    rewrite (g92_words_E (position s) (cwords m) (WF92 E) E4).
    destruct (word "E" (cwords m)) as [v|]; [|apply (same_pos_track s _ U U TR); reflexivity].
    constructor; cbn; try assumption.
    pose proof (set_logical_tracks (pe (position s)) (qe U) true (qum U) v (conj E1 (conj E2 (conj E3 (conj E4 E5))))) as H. numR. exact H.
  - (* M206 *) congruence.
  - (* other *) pose proof E as E'. unfold handled_code in E'. cbn [existsb] in E'.
    repeat (apply orb_false_iff in E'; destruct E' as (?E1 & E')).
    repeat match goal with H : String.eqb (ccode m) _ = false |- _ => rewrite H; clear H end. cbn [orb].
    assert (Q : position (fst (processExtendedGcode c s m)) = position s /\ frMult (fst (processExtendedGcode c s m)) = frMult s).
    { unfold processExtendedGcode. destruct (negb (String.eqb (ccode m) "") && excluding s); [|auto].
      destruct (assoc (ccode m) (ext c)) as [mode|]; [|auto]. cbn [fst]. unfold processExtendedGcodeEntry.
      destruct mode; cbn; auto. destruct (assoc (ccode m) (pending s)); auto. }
    destruct Q as (Q1 & Q2). apply (same_pos_track s _ U U TR Q1 Q2); reflexivity.
Qed.
