(** C20 -- offline stream filtering equals live filtering: what process_line returns is determined by what the
    live handler answers for the normalised command, and untouched lines come back byte for byte. *)
From Coq Require Import QArith String Ascii List Bool.
From ER Require Import Base.Num Model.Lexer Model.Words Model.Geometry Model.Axis Model.Filter Model.Stream.
Import ListNotations.
Local Open Scope string_scope.

(** the line ending used for emitted lines: the current line's, else the last one seen, else LF *)
Definition chosen_eol (st : sstate) (line : string) : string :=
  match g_eol (fst (parse_line line)) with "" => eol_of (ss_eol st) | e => e end.

Theorem stream_command c st line ij mid matched m :
  to_icmd (fst (parse_line line)) ij mid = Some m ->
  let r := handle c (ss_state st) m in
  ss_state (fst (process_line c st line ij mid matched)) = fst r /\
  snd (process_line c st line ij mid matched) =
    match snd r with
    | Unchanged => SKeep
    | Suppress => SDrop
    | Replace l => SLines l (chosen_eol st line)
    end.
Proof.
  intros H. unfold process_line, chosen_eol. destruct (parse_line line) as [p rest]. cbn [fst] in *. rewrite H.
  destruct (handle c (ss_state st) m) as [s' r]. cbn [fst snd]. destruct r; cbn; split; try reflexivity.
  destruct (g_eol p); reflexivity.
Qed.

(** blank, whitespace-only, comment-only and other non-command lines that are not @-commands: untouched, state unchanged *)
Theorem stream_noncommand c st line ij mid matched :
  g_code (fst (parse_line line)) = None -> starts_at (text_of (fst (parse_line line))) = false ->
  snd (process_line c st line ij mid matched) = SKeep /\ ss_state (fst (process_line c st line ij mid matched)) = ss_state st.
Proof.
  intros H A. unfold process_line, to_icmd. destruct (parse_line line) as [p rest]. cbn [fst] in *. rewrite H, A. auto.
Qed.

(** @-lines: exactly what the live @-command handler does; unmatched ones are untouched *)
Theorem stream_atcommand c st line ij mid matched :
  g_code (fst (parse_line line)) = None -> starts_at (text_of (fst (parse_line line))) = true ->
  let '(s', handled, sent) := handle_at c (ss_state st) false matched in
  ss_state (fst (process_line c st line ij mid matched)) = s' /\
  snd (process_line c st line ij mid matched) =
    (if handled then match sent with [] => SDrop | _ => SLines sent (chosen_eol st line) end else SKeep).
Proof.
  intros H A. unfold process_line, to_icmd, chosen_eol. destruct (parse_line line) as [p rest]. cbn [fst] in *. rewrite H, A.
  destruct (handle_at c (ss_state st) false matched) as [[s' handled] sent]. destruct handled; [|auto].
  destruct sent; cbn; split; try reflexivity. destruct (g_eol p); reflexivity.
Qed.

(** the command handed to the handlers is the normalised one: code upper-cased without leading zeros, line number,
    checksum, comment and line ending removed, leading blanks kept *)
Theorem stream_normalised_command p ij mid m : to_icmd p ij mid = Some m ->
  exists k, g_code p = Some k /\ ccode m = gcode_of k /\ ctext m = stringify p true false None false false /\
            cwords m = witems_of (g_params p).
Proof.
  unfold to_icmd. destruct (g_code p) as [k|]; [|discriminate]. intros H. injection H as <-. exists k. auto.
Qed.
