(** The simulation invariant over whole histories (commands, region additions, @-commands), and the
    statements of C01 / C03 / C04 that follow from it. *)
From Coq Require Import Reals Lra String Ascii List Bool.
From ER Require Import Base.Num Model.Geometry Model.Axis Model.Filter Spec.Printer
  Proofs.FilterLemmas Proofs.Transparent Proofs.Deferred Proofs.Outputs Proofs.Track Proofs.FSync.
Import ListNotations.
Open Scope R_scope.

Inductive hev :=
| HCmd (m : icmdR)
| HAdd (g : region R)
| HAt (streaming : bool) (matched : list ataction).

Record sim := mkSim { sm_s : fstateR; sm_F : printerR; sm_U : printerR }.

Definition hstep (c : cfg) (x : sim) (ev : hev) : sim :=
  match ev with
  | HCmd m => mkSim (fst (handle c (sm_s x) m))
                    (run_outs (g90e c) m (sm_F x) (outs m (snd (handle c (sm_s x) m))))
                    (exec_cmd (g90e c) (sm_U x) (ccode m) (cwords m))
  | HAdd g => mkSim (match add_region (regions (sm_s x)) g with Some rs => upd_regions (sm_s x) rs | None => sm_s x end) (sm_F x) (sm_U x)
  | HAt st ms => let '(s', _, sent) := handle_at c (sm_s x) st ms in
                 mkSim s' (run_outs (g90e c) (mkCmd "" "" [] None []) (sm_F x) sent) (sm_U x)
  end.

(** the dialect, judged along the run *)
Fixpoint wf_hist (c : cfg) (x : sim) (h : list hev) : Prop :=
  match h with
  | [] => True
  | ev :: t => match ev with HCmd m => wf_cmd c (sm_U x) m /\ no_home_inside (sm_s x) m | _ => True end /\ wf_hist c (hstep c x ev) t
  end.

Definition Sync (x : sim) : Prop := Track (sm_s x) (sm_U x) /\ FSync (sm_s x) (sm_F x) (sm_U x).

Lemma disable_sync c (s : fstateR) (F U : printerR) m0 : Track s U -> FSync s F U ->
  let '(s1, cmds) := disableExclusion c s in Track s1 U /\ FSync s1 (run_outs (g90e c) m0 F cmds) U.
Proof.
  intros TR FS. unfold disableExclusion. destruct (enabled s) eqn:En; [|cbn; auto].
  cbn [upd_enabled excluding]. destruct (excluding s) eqn:X.
  - set (s1 := upd_enabled s false).
    assert (X1 : excluding s1 = true) by exact X.
    assert (TR1 : Track s1 U) by (apply (Track_ext s1 s); [reflexivity | reflexivity | exact TR]).
    destruct FS as [FA FE FU FO FI]. destruct (FI X) as (IX & IY & IZ).
    pose proof (exit_exec (g90e c) m0 c s1 F U X1 TR1 FA FE FU IX IY IZ) as (A1 & A2 & A3 & A4 & A5 & A6 & A7).
    destruct (exit_shape c s1 X1) as (rs & _ & _ & XE & _ & P1 & _).
    assert (FM : frMult (fst (exitExcludedRegion c s1)) = frMult s1) by (unfold exitExcludedRegion; rewrite X1; reflexivity).
    unfold exit_sequence in *. destruct (exitExcludedRegion c s1) as [s2 cmds]. cbn [fst snd] in *.
    split; [apply (Track_ext s2 s1); assumption|].
    constructor; [congruence | congruence | congruence | intros _; auto | intros H; congruence].
  - cbn. split; [apply (Track_ext _ s); [reflexivity | reflexivity | exact TR]|].
    destruct FS as [FA FE FU FO FI]. constructor; auto.
Qed.

Theorem sync_step c (x : sim) (ev : hev) : Sync x ->
  match ev with HCmd m => wf_cmd c (sm_U x) m /\ no_home_inside (sm_s x) m | _ => True end ->
  Sync (hstep c x ev).
Proof.
  intros (TR & FS) WF. destruct ev as [m|g|st ms]; cbn [hstep].
  - destruct WF as (W & NH). split; cbn [sm_s sm_F sm_U]; [apply track_step | apply fsync_step]; assumption.
  - destruct (add_region (regions (sm_s x)) g); cbn [sm_s sm_F sm_U]; [|split; assumption].
    split; [apply (Track_ext _ (sm_s x)); [reflexivity | reflexivity | exact TR]|].
    destruct FS as [FA FE FU FO FI]. constructor; auto.
  - unfold handle_at. destruct st; [cbn; split; assumption|].
    set (m0 := mkCmd "" "" [] None []).
    set (stepf := fun (acc : fstateR * bool * list (ocmd R)) (a : ataction) =>
      let '(s0, _, sent) := acc in
      match a with
      | AtEnable => (enableExclusion s0, true, sent)
      | AtDisable => let '(s1, cmds) := disableExclusion c s0 in (s1, true, sent ++ cmds)
      end).
    assert (G : forall ms (acc : fstateR * bool * list (ocmd R)),
              Track (fst (fst acc)) (sm_U x) /\ FSync (fst (fst acc)) (run_outs (g90e c) m0 (sm_F x) (snd acc)) (sm_U x) ->
              let r := fold_left stepf ms acc in
              Track (fst (fst r)) (sm_U x) /\ FSync (fst (fst r)) (run_outs (g90e c) m0 (sm_F x) (snd r)) (sm_U x)).
    { induction ms0 as [|a t IH]; intros acc H; cbn; [exact H|]. apply IH.
      destruct acc as [[s0 hd] sent]. cbn [fst snd] in *. destruct H as (T0 & F0). unfold stepf. destruct a.
      - cbn [fst snd]. unfold enableExclusion. destruct (enabled s0); [split; assumption|].
        split; [apply (Track_ext _ s0); [reflexivity | reflexivity | exact T0]|].
        destruct F0 as [FA FE FU FO FI]. constructor; auto.
      - pose proof (disable_sync c s0 _ (sm_U x) m0 T0 F0) as D.
        destruct (disableExclusion c s0) as [s1 cmds]. cbn [fst snd]. unfold run_outs in *. rewrite fold_left_app. exact D. }
    specialize (G ms (sm_s x, false, []) (conj TR FS)).
    destruct (fold_left stepf ms (sm_s x, false, [])) as [[s' hd] sent]. cbn [fst snd sm_s sm_F sm_U] in *. exact G.
Qed.

Fixpoint hrun (c : cfg) (x : sim) (h : list hev) : sim :=
  match h with [] => x | ev :: t => hrun c (hstep c x ev) t end.

Theorem sync_run c (h : list hev) : forall x, Sync x -> wf_hist c x h -> Sync (hrun c x h).
Proof.
  induction h as [|ev t IH]; intros x S W; cbn; [exact S|].
  destruct W as (W1 & W2). apply IH; [apply sync_step; assumption | exact W2].
Qed.

(** the start: homed, nothing printed yet *)
Lemma sync_init (rs : list (region R)) : Sync (mkSim (init_state rs) init_printer init_printer).
Proof.
  split; cbn [sm_s sm_F sm_U].
  - constructor; cbn; unfold axis_tracks; cbn; numR; repeat split; auto; lra.
  - constructor; cbn; auto; discriminate.
Qed.

(** *** reading the invariant *)
(** outside an episode the printer stands where the file says, in the file's modes and units (C03),
    with the file's extruder coordinate (C04) *)
Corollary sync_outside c rs h : wf_hist c (mkSim (init_state rs) init_printer init_printer) h ->
  let x := hrun c (mkSim (init_state rs) init_printer init_printer) h in
  qabs (sm_F x) = qabs (sm_U x) /\ qeabs (sm_F x) = qeabs (sm_U x) /\ qum (sm_F x) = qum (sm_U x) /\
  (excluding (sm_s x) = false ->
   qx (sm_F x) = qx (sm_U x) /\ qy (sm_F x) = qy (sm_U x) /\ qz (sm_F x) = qz (sm_U x) /\ qe (sm_F x) = qe (sm_U x)).
Proof.
  intros W x. destruct (sync_run c h _ (sync_init rs) W) as (_ & [FA FE FU FO FI]). auto.
Qed.
