(** The executable axis model (Model/Axis.v, real-number instance) IS the code: every conversion and every state-changing method of
    AxisPosition, as GENERATED from /repo on this run (Gen/GenAxis.v), computes exactly what the hand-written model computes -- for all
    axis states and all arguments.  (Over the reals: binary64 rounding is outside both.)  These lemmas turn a change of the arithmetic in
    AxisPosition.py (an offset rescaled by a unit switch, a sign, a cached conversion) into a broken proof obligation instead of leaving it
    to the sampled correspondence. *)
From Coq Require Import Reals Lra Bool.
From ER Require Import Base.Num Base.GenPrelude Gen.GenAxis Model.Axis.
Open Scope R_scope.

Definition axisR (a : axis R) : AxisR :=
  {| current := cur a; homeOffset := hoff a; offset := off a; absoluteMode := absm a; unitMultiplier := um a |}.

Lemma AxisR_eq c h o b u c' h' o' b' u' : c = c' -> h = h' -> o = o' -> b = b' -> u = u' ->
  Build_AxisR c h o b u = Build_AxisR c' h' o' b' u'.
Proof. intros -> -> -> -> ->. reflexivity. Qed.

Ltac tie_axis :=
  intros;
  repeat (progress unfold axisR, l2n, n2l, set_logical, set_cur, set_offset_pos, set_home_offset, set_home, set_um, set_absm,
    axis_logicalToNative, axis_nativeToLogical, axis_setLogicalOffsetPosition, axis_setHomeOffset, axis_setHome, axis_setUnitMultiplier,
    axis_setAbsoluteMode, axis_setLogicalPosition);
  cbn; numR; cbv zeta; cbn [current homeOffset offset absoluteMode unitMultiplier];
  repeat match goal with |- context [if ?b then _ else _] => destruct b end;
  first [ apply AxisR_eq; try reflexivity; try lra | lra | reflexivity ].

Lemma tie_l2n (a : axis R) v : l2n a v = axis_logicalToNative (axisR a) v.
Proof. tie_axis. Qed.
Lemma tie_n2l (a : axis R) : n2l a = axis_nativeToLogical (axisR a).
Proof. tie_axis. Qed.
Lemma tie_set_logical (a : axis R) v : axisR (set_logical a v) = axis_setLogicalPosition (axisR a) v.
Proof. tie_axis. Qed.
Lemma tie_set_offset_pos (a : axis R) v : axisR (set_offset_pos a v) = axis_setLogicalOffsetPosition (axisR a) v.
Proof. tie_axis. Qed.
Lemma tie_set_home_offset (a : axis R) v : axisR (set_home_offset a v) = axis_setHomeOffset (axisR a) v.
Proof. tie_axis. Qed.
Lemma tie_set_home (a : axis R) : axisR (set_home a) = axis_setHome (axisR a).
Proof. tie_axis. Qed.
Lemma tie_set_um (a : axis R) m : axisR (set_um a m) = axis_setUnitMultiplier (axisR a) m.
Proof. tie_axis. Qed.
Lemma tie_set_absm (a : axis R) b : axisR (set_absm a b) = axis_setAbsoluteMode (axisR a) b.
Proof. tie_axis. Qed.

(** all of them at once *)
Theorem axis_model_is_the_code (a : axis R) (v : R) (b : bool) :
  l2n a v = axis_logicalToNative (axisR a) v /\ n2l a = axis_nativeToLogical (axisR a) /\
  axisR (set_logical a v) = axis_setLogicalPosition (axisR a) v /\
  axisR (set_offset_pos a v) = axis_setLogicalOffsetPosition (axisR a) v /\
  axisR (set_home_offset a v) = axis_setHomeOffset (axisR a) v /\
  axisR (set_home a) = axis_setHome (axisR a) /\
  axisR (set_um a v) = axis_setUnitMultiplier (axisR a) v /\
  axisR (set_absm a b) = axis_setAbsoluteMode (axisR a) b.
Proof.
  repeat apply conj; [apply tie_l2n | apply tie_n2l | apply tie_set_logical | apply tie_set_offset_pos | apply tie_set_home_offset | apply tie_set_home
                 | apply tie_set_um | apply tie_set_absm].
Qed.

(** the division in nativeToLogical is the only partial operation of the class: safe exactly when the unit multiplier is not 0 *)
Lemma n2l_safe (a : axis R) : um a <> 0 -> axis_nativeToLogical_safe (axisR a).
Proof. intros H. unfold axis_nativeToLogical_safe, axisR. cbn. exact H. Qed.
