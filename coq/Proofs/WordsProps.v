(** C19 -- parameter extraction: the handlers act on the last value given for each letter; the number
    reader follows the RS274 reading (sign, digits, optional fraction; no exponent). *)
From Coq Require Import QArith NArith String Ascii List Bool Lia.
From ER Require Import Base.Num Model.Lexer Model.Words Model.Geometry Model.Axis Model.Filter Proofs.LexerProps.
Import ListNotations.
Local Open Scope string_scope.

Section LW.
Context {T : Type} {N : Num T}.

(** [word l ws] is the value of the LAST numeric item labelled [l] *)
Lemma last_num_app l (a b : list (witem T)) acc : last_num l (a ++ b) acc = last_num l b (last_num l a acc).
Proof. revert acc. induction a as [|[k v] t IH]; intros acc; cbn; [reflexivity|]. destruct v; apply IH. Qed.

Definition no_num (l : string) (ws : list (witem T)) : Prop :=
  forall k v, In (k, MNum v) ws -> String.eqb k l = false.

Lemma last_num_none l ws acc : no_num l ws -> last_num l ws acc = acc.
Proof.
  revert acc. induction ws as [|[k v] t IH]; intros acc H; cbn; [reflexivity|].
  assert (Ht : no_num l t) by (intros k' v' Hin; apply (H k' v'); right; exact Hin).
  destruct v as [|x|s]; try (apply IH; exact Ht).
  rewrite (H k x (or_introl eq_refl)). apply IH. exact Ht.
Qed.

Theorem word_last_wins l (before after : list (witem T)) v : no_num l after ->
  word l (before ++ (l, MNum v) :: after) = Some v.
Proof.
  intros H. unfold word. rewrite last_num_app. cbn. rewrite String.eqb_refl. apply last_num_none. exact H.
Qed.
Theorem word_absent l (ws : list (witem T)) : no_num l ws -> word l ws = None.
Proof. intros H. unfold word. apply last_num_none. exact H. Qed.
(** valueless words and the string argument never count as a value *)
Theorem word_ignores_valueless l (a b : list (witem T)) k : word l (a ++ (k, MNone) :: b) = word l (a ++ b).
Proof. unfold word. rewrite !last_num_app. reflexivity. Qed.
End LW.

(** *** the number reader *)
Definition all_digits (s : string) : Prop := forall c, In c (list_ascii_of_string s) -> Lexer.is_digit c = true.

Lemma span_all p (a b : string) : (forall c, In c (list_ascii_of_string a) -> p c = true) ->
  (match b with "" => True | String c _ => p c = false end) -> span p (a ++ b) = (a, b).
Proof.
  induction a as [|x a IH]; cbn; intros Ha Hb.
  - destruct b as [|c t]; [reflexivity|]. cbn. rewrite Hb. reflexivity.
  - rewrite (Ha x (or_introl eq_refl)). rewrite IH; [reflexivity | intros c Hc; apply Ha; right; exact Hc | exact Hb].
Qed.

(** what may follow a number: nothing, a blank, or a letter -- never a digit or a dot *)
Definition stops (r : string) : Prop :=
  match r with "" => True | String c _ => Lexer.is_digit c = false /\ is_dot c = false end.

(** digits [ '.' digits ] with optional sign reads back completely *)
Theorem number_reads_decimal sg ip fp r :
  (sg = "" \/ sg = "-" \/ sg = "+") -> all_digits ip -> all_digits fp -> ip <> "" -> fp <> "" -> stops r ->
  number (sg ++ ip ++ String "." fp ++ r) = Some (sg ++ ip ++ String "." fp, r).
Proof.
  intros Hs Hi Hf Ni Nf St. unfold number.
  assert (E : match sg ++ ip ++ String "." fp ++ r with
              | String c t => if is_sign c then (String c "", t) else ("", sg ++ ip ++ String "." fp ++ r)
              | "" => ("", sg ++ ip ++ String "." fp ++ r) end = (sg, ip ++ String "." fp ++ r)).
  { destruct Hs as [-> | [-> | ->]]; cbn; [|reflexivity|reflexivity].
    destruct ip as [|c ip']; [congruence|]. cbn. assert (D : Lexer.is_digit c = true) by (apply Hi; left; reflexivity).
    unfold is_sign. destruct (Ascii.eqb_spec c "-") as [->|]; [discriminate|]. destruct (Ascii.eqb_spec c "+") as [->|]; [discriminate|]. reflexivity. }
  rewrite E. rewrite (span_all Lexer.is_digit ip (String "." fp ++ r)); [|exact Hi|reflexivity].
  cbn. rewrite (span_all Lexer.is_digit fp r); [|exact Hf|destruct r; [exact I|apply St]].
  destruct fp; [congruence|]. rewrite ?append_assoc. reflexivity.
Qed.

Theorem number_reads_integer sg ip r :
  (sg = "" \/ sg = "-" \/ sg = "+") -> all_digits ip -> ip <> "" -> stops r ->
  number (sg ++ ip ++ r) = Some (sg ++ ip, r).
Proof.
  intros Hs Hi Ni St. unfold number.
  assert (E : match sg ++ ip ++ r with
              | String c t => if is_sign c then (String c "", t) else ("", sg ++ ip ++ r)
              | "" => ("", sg ++ ip ++ r) end = (sg, ip ++ r)).
  { destruct Hs as [-> | [-> | ->]]; cbn; [|reflexivity|reflexivity].
    destruct ip as [|c ip']; [congruence|]. cbn. assert (D : Lexer.is_digit c = true) by (apply Hi; left; reflexivity).
    unfold is_sign. destruct (Ascii.eqb_spec c "-") as [->|]; [discriminate|]. destruct (Ascii.eqb_spec c "+") as [->|]; [discriminate|]. reflexivity. }
  rewrite E. rewrite (span_all Lexer.is_digit ip r); [|exact Hi|destruct r; [exact I|apply St]].
  destruct ip; [congruence|]. destruct r as [|c t]; [reflexivity|].
  destruct St as (_ & D). rewrite D. reflexivity.
Qed.

(** a trailing decimal point is not part of the number: "5." reads 5 and leaves the point *)
Theorem number_trailing_point sg ip r :
  (sg = "" \/ sg = "-" \/ sg = "+") -> all_digits ip -> ip <> "" ->
  (match r with "" => True | String c _ => Lexer.is_digit c = false end) ->
  number (sg ++ ip ++ String "." r) = Some (sg ++ ip, String "." r).
Proof.
  intros Hs Hi Ni St. unfold number.
  assert (E : match sg ++ ip ++ String "." r with
              | String c t => if is_sign c then (String c "", t) else ("", sg ++ ip ++ String "." r)
              | "" => ("", sg ++ ip ++ String "." r) end = (sg, ip ++ String "." r)).
  { destruct Hs as [-> | [-> | ->]]; cbn; [|reflexivity|reflexivity].
    destruct ip as [|c ip']; [congruence|]. cbn. assert (D : Lexer.is_digit c = true) by (apply Hi; left; reflexivity).
    unfold is_sign. destruct (Ascii.eqb_spec c "-") as [->|]; [discriminate|]. destruct (Ascii.eqb_spec c "+") as [->|]; [discriminate|]. reflexivity. }
  rewrite E. rewrite (span_all Lexer.is_digit ip (String "." r)); [|exact Hi|reflexivity].
  cbn. assert (S0 : span Lexer.is_digit r = ("", r)) by (destruct r as [|c t]; [reflexivity|]; cbn; rewrite St; reflexivity).
  rewrite S0. destruct ip; [congruence|]. reflexivity.
Qed.

(** no exponent: a letter (also 'e' / 'E') after the digits starts the next word *)
Example number_no_exponent : number "1e-05" = Some ("1", "e-05") /\ number "-.5X" = Some ("-.5", "X") /\ number "+" = None /\ number "." = None.
Proof. repeat split; reflexivity. Qed.
