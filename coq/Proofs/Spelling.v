(** C19 -- the tokenizer against a reference reading, for ALL word lists in ALL legal spellings: blanks before the letter
    and between letter and number, upper / lower case letters, optional sign, integer / decimal / leading-point /
    trailing-point numbers, valueless flags, repeated letters, words glued together ("X1Y2", "X1E5").  The tokenizer
    (Model/Words.v, the model of GcodeParser.parameterItems) yields exactly the reference letter / number-text pairs, and
    each number text denotes exactly the value of its digits. *)
From Coq Require Import QArith ZArith NArith String Ascii List Bool Lia.
From ER Require Import Model.Lexer Model.Words Proofs.LexerProps Proofs.WordsProps Proofs.FormatProps Proofs.CommandShape.
Import ListNotations.
Local Open Scope string_scope.

Fixpoint blanks (n : nat) : string := match n with O => "" | S k => String " " (blanks k) end.

Inductive sign := SNone | SMinus | SPlus.
Definition sg_text (s : sign) : string := match s with SNone => "" | SMinus => "-" | SPlus => "+" end.

(** the spellings of a number (without exponent) -- or no number at all (a flag) *)
Inductive numsp :=
| NInt (sg : sign) (ip : string)                 (* 12  -3  +7 *)
| NDec (sg : sign) (ip fp : string)              (* 1.5  -0.25  .5  -.5   (ip may be empty) *)
| NTrail (sg : sign) (ip : string)               (* 5.   : reads 5 *)
| NFlag.

Definition num_text (x : numsp) : string :=
  match x with
  | NInt sg ip => sg_text sg ++ ip
  | NDec sg ip fp => sg_text sg ++ ip ++ String "." fp
  | NTrail sg ip => sg_text sg ++ ip ++ "."
  | NFlag => ""
  end.
(** reference reading: the text of the number that the word carries *)
Definition read_text (x : numsp) : option string :=
  match x with
  | NInt sg ip => Some (sg_text sg ++ ip)
  | NDec sg ip fp => Some (sg_text sg ++ ip ++ String "." fp)
  | NTrail sg ip => Some (sg_text sg ++ ip)
  | NFlag => None
  end.
(** reference reading: its value *)
Definition is_neg (s : sign) : bool := match s with SMinus => true | _ => false end.
Definition read_value (x : numsp) : option Q :=
  match x with
  | NInt sg ip | NTrail sg ip => Some (Qmake ((if is_neg sg then -1 else 1) * Z.of_N (num_of ip)) 1)
  | NDec sg ip fp =>
      Some (Qmake ((if is_neg sg then -1 else 1) * (Z.of_N (num_of ip) * Zpos (pow10 (String.length fp)) + Z.of_N (num_of fp))) (pow10 (String.length fp)))
  | NFlag => None
  end.
Definition num_ok (x : numsp) : Prop :=
  match x with
  | NInt _ ip | NTrail _ ip => all_digits ip /\ ip <> ""
  | NDec _ ip fp => all_digits ip /\ all_digits fp /\ fp <> ""
  | NFlag => True
  end.

Record wordsp := mkW { w_pre : nat; w_letter : ascii; w_mid : nat; w_num : numsp }.
(** (blanks after a flag belong to the next word) *)
Definition word_ok (w : wordsp) : Prop :=
  Words.is_alpha (w_letter w) = true /\ num_ok (w_num w) /\ (w_num w = NFlag -> w_mid w = 0%nat).

Fixpoint spell (ws : list wordsp) (trail : nat) : string :=
  match ws with
  | [] => blanks trail
  | w :: t => blanks (w_pre w) ++ String (w_letter w) (blanks (w_mid w) ++ num_text (w_num w) ++ spell t trail)
  end.
Definition reference (ws : list wordsp) : list (ascii * option string) :=
  map (fun w => (upper (w_letter w), read_text (w_num w))) ws.

(** *** character classes *)
Lemma alpha_not_digit c : Words.is_alpha c = true -> Lexer.is_digit c = false.
Proof.
  unfold Words.is_alpha, Lexer.is_digit. intros H. destruct (Nat.leb 48 (nat_of_ascii c)) eqn:A, (Nat.leb (nat_of_ascii c) 57) eqn:B; try reflexivity.
  apply Nat.leb_le in A, B. exfalso.
  apply orb_true_iff in H. destruct H as [H|H]; apply andb_true_iff in H; destruct H as (H1 & H2); apply Nat.leb_le in H1, H2; lia.
Qed.
Lemma alpha_not_dot c : Words.is_alpha c = true -> is_dot c = false.
Proof. intros H. unfold is_dot. destruct (Ascii.eqb_spec c ".") as [->|]; [discriminate | reflexivity]. Qed.
Lemma alpha_not_sign c : Words.is_alpha c = true -> is_sign c = false.
Proof.
  intros H. unfold is_sign. destruct (Ascii.eqb_spec c "-") as [->|]; [discriminate|]. destruct (Ascii.eqb_spec c "+") as [->|]; [discriminate | reflexivity].
Qed.

Lemma blanks_all n : forall c, In c (list_ascii_of_string (blanks n)) -> is_sp c = true.
Proof. induction n as [|n IH]; cbn; [tauto|]. intros c [<-|H]; [reflexivity | exact (IH c H)]. Qed.
Lemma span_blanks n r : match r with "" => True | String c _ => is_sp c = false end -> span is_sp (blanks n ++ r) = (blanks n, r).
Proof. intros H. apply span_all; [apply blanks_all | exact H]. Qed.
Lemma length_blanks n : String.length (blanks n) = n.
Proof. induction n; cbn; congruence. Qed.

(** what a spelled word list looks like from the front: blanks, then nothing or a letter *)
Lemma spell_head ws trail : Forall word_ok ws ->
  exists n r, spell ws trail = blanks n ++ r /\ (r = "" \/ exists c t, r = String c t /\ Words.is_alpha c = true).
Proof.
  intros OK. destruct ws as [|w t].
  - exists trail, "". cbn. rewrite append_nil_r. auto.
  - inversion OK as [|? ? (A & _) _]; subst.
    exists (w_pre w), (String (w_letter w) (blanks (w_mid w) ++ num_text (w_num w) ++ spell t trail)). cbn. split; [reflexivity|].
    right. eexists _, _. split; [reflexivity | exact A].
Qed.

Lemma stops_spell ws trail : Forall word_ok ws -> stops (spell ws trail).
Proof.
  intros OK. destruct (spell_head ws trail OK) as (n & r & -> & H).
  destruct n as [|n]; [|cbn; auto]. cbn. destruct H as [->|(c & t & -> & A)]; cbn; [exact I|].
  split; [apply alpha_not_digit | apply alpha_not_dot]; exact A.
Qed.
Lemma spell_not_digit ws trail : Forall word_ok ws -> match spell ws trail with "" => True | String c _ => Lexer.is_digit c = false end.
Proof. intros OK. pose proof (stops_spell ws trail OK) as H. destruct (spell ws trail); [exact I | apply H]. Qed.

(** *** the number reader on each spelling *)
Lemma sg_ok s : sg_text s = "" \/ sg_text s = "-" \/ sg_text s = "+".
Proof. destruct s; cbn; auto. Qed.

Lemma number_alpha c t : Words.is_alpha c = true -> number (String c t) = None.
Proof.
  intros A. unfold number. rewrite (alpha_not_sign c A). cbn [span]. rewrite (alpha_not_digit c A). rewrite (alpha_not_dot c A). reflexivity.
Qed.

Lemma number_reads_point sg fp r : all_digits fp -> fp <> "" -> stops r ->
  number (sg_text sg ++ String "." fp ++ r) = Some (sg_text sg ++ String "." fp, r).
Proof.
  intros Hf Nf St.
  assert (S2 : span Lexer.is_digit (fp ++ r) = (fp, r)) by (apply span_all; [exact Hf | destruct r; [exact I | apply St]]).
  destruct fp as [|f0 fp']; [congruence|].
  destruct sg; cbn [sg_text append]; unfold number; cbn [is_sign Ascii.eqb orb]; cbn -[span append];
    change (String "." (String f0 fp' ++ r)) with (String "." (String f0 fp' ++ r)).
  all: cbn [span]; change (Lexer.is_digit ".") with false; cbv iota; change (is_dot ".") with true; cbv iota;
    cbn [append] in S2 |- *; rewrite S2; reflexivity.
Qed.

Lemma num_reads x rest : num_ok x -> x <> NFlag -> stops rest ->
  (match rest with "" => True | String c _ => Lexer.is_digit c = false end) ->
  exists txt rest', read_text x = Some txt /\ number (num_text x ++ rest) = Some (txt, rest') /\
    (rest' = rest \/ rest' = String "." rest).
Proof.
  intros OK NF St ND. destruct x as [sg ip|sg ip fp|sg ip|]; [| | |congruence]; cbn [num_ok num_text read_text] in *.
  - destruct OK as (Hi & Ni). eexists _, rest. split; [reflexivity|]. split; [|auto].
    rewrite append_assoc. apply number_reads_integer; auto using sg_ok.
  - destruct OK as (Hi & Hf & Nf). eexists _, rest. split; [reflexivity|]. split; [|auto].
    destruct ip as [|i0 ip'].
    + cbn [append]. rewrite append_assoc. cbn [append]. apply number_reads_point; assumption.
    + rewrite !append_assoc.
      apply (number_reads_decimal (sg_text sg) (String i0 ip') fp rest (sg_ok sg) Hi Hf); [discriminate | exact Nf | exact St].
  - destruct OK as (Hi & Ni). eexists _, (String "." rest). split; [reflexivity|]. split; [|auto].
    rewrite !append_assoc. cbn [append].
    apply number_trailing_point; auto using sg_ok.
Qed.

Lemma flag_dec x : {x = NFlag} + {x <> NFlag}.
Proof. destruct x; [right|right|right|left]; congruence. Qed.
Lemma num_text_length x : num_ok x -> x <> NFlag -> (1 <= String.length (num_text x))%nat.
Proof.
  destruct x as [sg ip|sg ip fp|sg ip|]; cbn [num_ok num_text]; intros OK NF; [| | |congruence]; rewrite ?length_append; cbn [String.length]; try lia.
  destruct OK as (_ & N0). destruct ip; [congruence | cbn; lia].
Qed.

(** *** the loop *)
Lemma fst_cons {A B C} (X : list A * B) (a : A) (f : B -> C) : fst (let '(l, sa) := X in (a :: l, f sa)) = a :: fst X.
Proof. destruct X; reflexivity. Qed.

Lemma length_append' a b : String.length (a ++ b) = (String.length a + String.length b)%nat.
Proof. apply length_append. Qed.

Lemma items_loop_spell ws trail : Forall word_ok ws -> forall fuel off sa,
  (String.length (spell ws trail) < fuel)%nat -> fst (items_loop fuel (spell ws trail) off sa) = reference ws.
Proof.
  induction ws as [|w t IH]; intros OK fuel off sa Hf.
  - destruct fuel as [|f]; [lia|]. cbn [spell items_loop].
    pose proof (span_blanks trail "" I) as E. rewrite append_nil_r in E. rewrite E. reflexivity.
  - inversion OK as [|? ? (Ha & Hn & Hm) OKt]; subst.
    destruct fuel as [|f]; [lia|].
    destruct w as [p c m x]. cbn [w_pre w_letter w_mid w_num] in *.
    cbn [spell w_pre w_letter w_mid w_num] in Hf |- *. cbn [items_loop].
    rewrite span_blanks by (apply alpha_not_sp; exact Ha).
    rewrite Ha.
    rewrite !length_append', !length_blanks in Hf. cbn [String.length] in Hf. rewrite !length_append', !length_blanks in Hf.
    destruct (spell_head t trail OKt) as (n2 & r2 & E2 & H2).
    assert (SP2 : span is_sp (spell t trail) = (blanks n2, r2)).
    { rewrite E2. apply span_blanks. destruct H2 as [->|(c2 & t2 & -> & A2)]; [exact I | apply alpha_not_sp; exact A2]. }
    assert (NN : number r2 = None) by (destruct H2 as [->|(c2 & t2 & -> & A2)]; [reflexivity | apply number_alpha; exact A2]).
    destruct (flag_dec x) as [->|NF].
    { (* a flag *)
      rewrite (Hm eq_refl). cbn [blanks num_text append]. rewrite SP2, NN.
      rewrite (fst_cons _ _ (fun z => z)). cbn [reference map w_letter w_num read_text]. f_equal.
      apply IH; [exact OKt | lia]. }
    destruct (num_reads x (spell t trail) Hn NF (stops_spell t trail OKt) (spell_not_digit t trail OKt)) as (txt & rest' & RT & NM & RR).
    assert (SPM : span is_sp (blanks m ++ num_text x ++ spell t trail) = (blanks m, num_text x ++ spell t trail)).
    { apply span_blanks. pose proof (number_no_leading_blank _ _ _ NM) as Q. destruct (num_text x ++ spell t trail) as [|q0 q1]; [exact I|].
      cbn [span] in Q. destruct (is_sp q0); [destruct (span is_sp q1); discriminate | reflexivity]. }
    pose proof (num_text_length x Hn NF) as LT.
    rewrite SPM, NM. rewrite (fst_cons _ _ (fun z => z)). cbn [reference map w_letter w_num]. rewrite RT. f_equal.
    destruct RR as [->| ->]; [apply IH; [exact OKt | lia] |].
    (* trailing point: one more turn of the loop skips the point *)
    destruct f as [|f']; [lia|]. cbn [items_loop span]. change (is_sp ".") with false. cbv iota.
    change (Words.is_alpha ".") with false. cbv iota. apply IH; [exact OKt | lia].
Qed.

(** *** C19: the tokenizer yields exactly the reference reading, for every word list and every legal spelling *)
Theorem tokenizer_reads_all_spellings ws trail : Forall word_ok ws -> fst (items (spell ws trail)) = reference ws.
Proof.
  intros OK. unfold items.
  pose proof (items_loop_spell ws trail OK (S (String.length (spell ws trail))) 0%nat None (Nat.lt_succ_diag_r _)) as H.
  destruct (items_loop (S (String.length (spell ws trail))) (spell ws trail) 0 None) as [l sa]. exact H.
Qed.

(** ... and the number text of each spelling denotes exactly the reference value *)
Lemma number_value_sg sg ip : all_digits ip -> ip <> "" ->
  number_value (sg_text sg ++ ip) == Qmake ((if is_neg sg then -1 else 1) * Z.of_N (num_of ip)) 1.
Proof.
  intros Hi Ni. destruct sg.
  - exact (number_value_integer false ip Hi Ni).
  - exact (number_value_integer true ip Hi Ni).
  - cbn [sg_text is_neg append]. pose proof (number_value_integer false ip Hi Ni) as H. cbn [sign_text append] in H.
    unfold number_value in *. cbn [Ascii.eqb]. cbn -[span Qred num_of pow10 Z.mul Z.add] in *.
    destruct ip as [|c ip']; [congruence|].
    assert (D : Lexer.is_digit c = true) by (apply Hi; left; reflexivity).
    destruct (Ascii.eqb_spec c "-") as [->|]; [discriminate|]. destruct (Ascii.eqb_spec c "+") as [->|]; [discriminate|]. exact H.
Qed.

Lemma number_value_dec_sg sg ip fp : all_digits ip -> all_digits fp ->
  number_value (sg_text sg ++ ip ++ String "." fp) ==
  Qmake ((if is_neg sg then -1 else 1) * (Z.of_N (num_of ip) * Zpos (pow10 (String.length fp)) + Z.of_N (num_of fp))) (pow10 (String.length fp)).
Proof.
  intros Hi Hf. unfold number_value.
  assert (E : match sg_text sg ++ ip ++ String "." fp with
              | String c u => if Ascii.eqb c "-" then (true, u) else if Ascii.eqb c "+" then (false, u) else (false, sg_text sg ++ ip ++ String "." fp)
              | "" => (false, sg_text sg ++ ip ++ String "." fp) end = (is_neg sg, ip ++ String "." fp)).
  { destruct sg; cbn; [|reflexivity|reflexivity]. destruct ip as [|c ip']; [reflexivity|]. cbn.
    assert (D : Lexer.is_digit c = true) by (apply Hi; left; reflexivity).
    destruct (Ascii.eqb_spec c "-") as [->|]; [discriminate|]. destruct (Ascii.eqb_spec c "+") as [->|]; [discriminate|]. reflexivity. }
  rewrite E. rewrite (span_all Lexer.is_digit ip (String "." fp)); [|exact Hi|reflexivity].
  cbn [fst]. rewrite (span_digits_all fp Hf). cbn [fst].
  rewrite Qred_correct. destruct (is_neg sg); unfold Qeq; cbn [Qnum Qden]; lia.
Qed.

Theorem spelling_value x txt v : num_ok x -> read_text x = Some txt -> read_value x = Some v -> number_value txt == v.
Proof.
  destruct x as [sg ip|sg ip fp|sg ip|]; cbn [num_ok read_text read_value]; intros OK RT RV; try discriminate;
    injection RT as <-; injection RV as <-.
  - apply number_value_sg; tauto.
  - apply number_value_dec_sg; tauto.
  - apply number_value_sg; tauto.
Qed.

(** the premises are satisfiable: "  x-1.5Y.5 e5. z S  " *)
Example spelling_witness :
  let ws := [mkW 2 "x" 0 (NDec SMinus "1" "5"); mkW 0 "Y" 0 (NDec SNone "" "5"); mkW 1 "e" 0 (NTrail SNone "5"); mkW 1 "z" 0 NFlag; mkW 1 "S" 0 NFlag] in
  spell ws 2 = "  x-1.5Y.5 e5. z S  " /\ fst (items (spell ws 2)) = [("X"%char, Some "-1.5"); ("Y"%char, Some ".5"); ("E"%char, Some "5"); ("Z"%char, None); ("S"%char, None)].
Proof. split; reflexivity. Qed.
