(** C16 -- the commanded end point, when it lies on the circle, is the point at angle start + sweep: the last sample
    step ends exactly there, so the spacing and cover statements extend to the final segment. *)
From Coq Require Import Reals ZArith Lra Lia Psatz List Bool.
From ER Require Import Base.Num Base.Trig Base.GenPrelude Gen.GenArc Proofs.ArcGen.
Import ListNotations.
Open Scope R_scope.

Lemma cos_plus_2PI x : cos (x + 2 * PI) = cos x. Proof. rewrite cos_plus, cos_2PI, sin_2PI. ring. Qed.
Lemma sin_plus_2PI x : sin (x + 2 * PI) = sin x. Proof. rewrite sin_plus, cos_2PI, sin_2PI. ring. Qed.
Lemma cos_minus_2PI x : cos (x - 2 * PI) = cos x.
Proof. rewrite <- (cos_plus_2PI (x - 2 * PI)). f_equal. lra. Qed.
Lemma sin_minus_2PI x : sin (x - 2 * PI) = sin x.
Proof. rewrite <- (sin_plus_2PI (x - 2 * PI)). f_equal. lra. Qed.

(** the sweep differs from the raw angle between start and end radius by a multiple of 2 pi *)
Lemma arc_sweep_mod posX posY endX endY i j cw t :
  let a0 := atan2 (- i * (endY - (posY + j)) + j * (endX - (posX + i))) (- i * (endX - (posX + i)) - j * (endY - (posY + j))) in
  cos (t + arc_sweep posX posY endX endY i j cw) = cos (t + a0) /\ sin (t + arc_sweep posX posY endX endY i j cw) = sin (t + a0).
Proof.
  cbv zeta. unfold arc_sweep. cbv zeta. set (a0 := atan2 _ _).
  assert (A1 : cos (t + (if Rltb a0 0 then a0 + 2 * PI else a0)) = cos (t + a0) /\ sin (t + (if Rltb a0 0 then a0 + 2 * PI else a0)) = sin (t + a0)).
  { destruct (Rltb a0 0); [|auto]. replace (t + (a0 + 2 * PI)) with (t + a0 + 2 * PI) by lra. rewrite cos_plus_2PI, sin_plus_2PI. auto. }
  set (a1 := if Rltb a0 0 then a0 + 2 * PI else a0) in *.
  assert (A2 : cos (t + (if cw then a1 - 2 * PI else a1)) = cos (t + a0) /\ sin (t + (if cw then a1 - 2 * PI else a1)) = sin (t + a0)).
  { destruct cw; [|exact A1]. replace (t + (a1 - 2 * PI)) with (t + a1 - 2 * PI) by lra. rewrite cos_minus_2PI, sin_minus_2PI. exact A1. }
  set (a2 := if cw then a1 - 2 * PI else a1) in *.
  destruct (Reqb a2 0 && Reqb posX endX && Reqb posY endY) eqn:Z; [|exact A2].
  apply andb_true_iff in Z. destruct Z as (Z & _). apply andb_true_iff in Z. destruct Z as (Z & _). apply Reqb_true in Z.
  rewrite Z in A2. replace (t + 2 * PI) with (t + 0 + 2 * PI) by lra. rewrite cos_plus_2PI, sin_plus_2PI. exact A2.
Qed.

(** the point at angle start + sweep is the end point whenever the end point is on the circle *)
Theorem arc_end_on_circle posX posY endX endY i j cw : (i <> 0 \/ j <> 0) ->
  hypot (endX - (posX + i)) (endY - (posY + j)) = hypot i j ->
  posX + i + cos (atan2 (- j) (- i) + arc_sweep posX posY endX endY i j cw) * hypot i j = endX /\
  posY + j + sin (atan2 (- j) (- i) + arc_sweep posX posY endX endY i j cw) * hypot i j = endY.
Proof.
  intros H On. destruct (arc_sweep_mod posX posY endX endY i j cw (atan2 (- j) (- i))) as (C & S). cbv zeta in C, S.
  rewrite C, S. clear C S.
  set (tx := endX - (posX + i)) in *. set (ty := endY - (posY + j)) in *.
  set (rho := hypot i j) in *.
  assert (Rp : 0 < rho) by (apply hypot_pos; exact H).
  assert (R2 : rho * rho = i * i + j * j) by apply hypot_sqr.
  assert (T2 : tx * tx + ty * ty = rho * rho) by (rewrite <- On; symmetry; apply hypot_sqr).
  assert (H' : - i <> 0 \/ - j <> 0) by (destruct H; [left|right]; lra).
  destruct (atan2_cos_sin (- i) (- j) H') as (A & B).
  assert (E : hypot (- i) (- j) = rho) by (unfold rho, hypot; f_equal; ring). rewrite E in A, B.
  set (dot := - i * tx - j * ty). set (crs := - i * ty + j * tx).
  assert (DC : dot * dot + crs * crs = (rho * rho) * (rho * rho)) by (replace ((rho * rho) * (rho * rho)) with ((i * i + j * j) * (tx * tx + ty * ty)) by (rewrite T2, <- R2; ring); unfold dot, crs; ring).
  assert (NZ : dot <> 0 \/ crs <> 0).
  { destruct (Req_dec dot 0) as [D0|D0]; [|left; exact D0]. right. intros C0. rewrite D0, C0 in DC. assert (0 < rho * rho) by nra. nra. }
  destruct (atan2_cos_sin dot crs NZ) as (A1 & B1).
  assert (HD : hypot dot crs = rho * rho).
  { unfold hypot. rewrite DC. rewrite sqrt_square; [reflexivity | nra]. }
  rewrite HD in A1, B1.
  set (t0 := atan2 (- j) (- i)) in *. set (a0 := atan2 crs dot) in *.
  rewrite cos_plus, sin_plus.
  assert (R3 : rho * rho * rho <> 0) by (apply Rmult_integral_contrapositive_currified; [apply Rmult_integral_contrapositive_currified|]; lra).
  split.
  - assert (G : (cos t0 * cos a0 - sin t0 * sin a0) * rho = tx).
    { apply Rmult_eq_reg_l with (rho * rho); [|nra].
      replace (rho * rho * ((cos t0 * cos a0 - sin t0 * sin a0) * rho)) with ((rho * cos t0) * (rho * rho * cos a0) - (rho * sin t0) * (rho * rho * sin a0)) by ring.
      rewrite <- A, <- B, <- A1, <- B1. unfold dot, crs. rewrite R2. ring. }
    unfold tx in G. lra.
  - assert (G : (sin t0 * cos a0 + cos t0 * sin a0) * rho = ty).
    { apply Rmult_eq_reg_l with (rho * rho); [|nra].
      replace (rho * rho * ((sin t0 * cos a0 + cos t0 * sin a0) * rho)) with ((rho * sin t0) * (rho * rho * cos a0) + (rho * cos t0) * (rho * rho * sin a0)) by ring.
      rewrite <- A, <- B, <- A1, <- B1. unfold dot, crs. rewrite R2. ring. }
    unfold ty in G. lra.
Qed.

(** the sample numbered N = segments is the end point: the list of tested points, end point included, is the list of
    equally spaced points 1..N *)
Theorem arc_last_point posX posY endX endY i j cw : (i <> 0 \/ j <> 0) ->
  hypot (endX - (posX + i)) (endY - (posY + j)) = hypot i j ->
  arc_point posX posY endX endY i j cw (Z.to_nat (arc_segments posX posY endX endY i j cw)) = (endX, endY).
Proof.
  intros H On. unfold arc_point. cbv zeta.
  pose proof (arc_segments_ge1 posX posY endX endY i j cw) as N1.
  set (n := arc_segments posX posY endX endY i j cw) in *.
  assert (NN : INR (Z.to_nat n) = IZR n) by (rewrite INR_IZR_INZ, Z2Nat.id by lia; reflexivity).
  assert (NP : 0 < IZR n) by (apply IZR_lt; lia).
  rewrite NN. replace (IZR n * (arc_sweep posX posY endX endY i j cw / IZR n)) with (arc_sweep posX posY endX endY i j cw) by (field; lra).
  destruct (arc_end_on_circle posX posY endX endY i j cw H On) as (A & B). rewrite A, B. reflexivity.
Qed.

(** spacing of the final segment: from the last intermediate sample to the commanded end point *)
Theorem arc_final_spacing posX posY endX endY i j cw : (i <> 0 \/ j <> 0) ->
  hypot (endX - (posX + i)) (endY - (posY + j)) = hypot i j ->
  let n := Z.to_nat (arc_segments posX posY endX endY i j cw) in
  let '(ax, ay) := arc_point posX posY endX endY i j cw (pred n) in
  hypot (ax - endX) (ay - endY) <= 1.
Proof.
  intros H On. cbv zeta.
  pose proof (arc_segments_ge1 posX posY endX endY i j cw) as N1.
  pose proof (arc_spacing posX posY endX endY i j cw (pred (Z.to_nat (arc_segments posX posY endX endY i j cw)))) as SP.
  replace (S (pred (Z.to_nat (arc_segments posX posY endX endY i j cw)))) with (Z.to_nat (arc_segments posX posY endX endY i j cw)) in SP by lia.
  rewrite (arc_last_point posX posY endX endY i j cw H On) in SP. exact SP.
Qed.

(** *** cover: every point of the arc is within one unit of a tested point *)
(** the point of the arc a fraction [u] of the sweep after the start *)
Definition arc_at (posX posY endX endY i j : R) (cw : bool) (u : R) : R * R :=
  let a := atan2 (- j) (- i) + u * arc_sweep posX posY endX endY i j cw in
  (posX + i + cos a * hypot i j, posY + j + sin a * hypot i j).

Theorem arc_cover posX posY endX endY i j cw u : 0 <= u <= 1 ->
  exists k : nat, (k <= Z.to_nat (arc_segments posX posY endX endY i j cw))%nat /\
    let '(px, py) := arc_at posX posY endX endY i j cw u in
    let '(sx, sy) := arc_point posX posY endX endY i j cw k in
    hypot (px - sx) (py - sy) <= 1.
Proof.
  intros (U0 & U1). unfold arc_at, arc_point. cbv zeta.
  set (d := arc_sweep posX posY endX endY i j cw). set (n := arc_segments posX posY endX endY i j cw).
  set (t0 := atan2 (- j) (- i)). set (rho := hypot i j).
  pose proof (hypot_nonneg i j) as RP. fold rho in RP.
  pose proof (arc_segments_bound posX posY endX endY i j cw) as NB. fold d n rho in NB.
  pose proof (arc_segments_ge1 posX posY endX endY i j cw) as N1. fold n in N1.
  assert (NP : 1 <= IZR n) by (apply IZR_le in N1; exact N1).
  (* the sample just before the point: m <= u * n < m + 1 *)
  set (m := (up (u * IZR n) - 1)%Z).
  destruct (archimed (u * IZR n)) as (A1 & A2).
  assert (M1 : IZR m <= u * IZR n < IZR m + 1) by (unfold m; rewrite minus_IZR; lra).
  assert (M0 : (0 <= m)%Z).
  { apply le_IZR. destruct (Z_lt_le_dec m 0) as [L|L]; [|apply IZR_le; exact L].
    exfalso. assert (IZR m <= -1) by (apply IZR_le; lia). assert (0 <= u * IZR n) by nra. lra. }
  assert (MN : (m <= n)%Z).
  { apply le_IZR. assert (u * IZR n <= IZR n) by nra. lra. }
  exists (Z.to_nat m). split; [lia|].
  assert (KM : INR (Z.to_nat m) = IZR m) by (rewrite INR_IZR_INZ, Z2Nat.id by lia; reflexivity).
  rewrite KM.
  set (a := t0 + u * d). set (b := t0 + IZR m * (d / IZR n)).
  replace (posX + i + cos a * rho - (posX + i + cos b * rho)) with (rho * cos a - rho * cos b) by lra.
  replace (posY + j + sin a * rho - (posY + j + sin b * rho)) with (rho * sin a - rho * sin b) by lra.
  apply Rle_trans with (rho * Rabs (a - b)); [apply chord_le_arc; exact RP|].
  assert (AB : a - b = (u * IZR n - IZR m) * (d / IZR n)) by (unfold a, b; field; lra).
  rewrite AB, Rabs_mult. rewrite (Rabs_right (u * IZR n - IZR m)) by lra.
  unfold Rdiv. rewrite Rabs_mult, (Rabs_right (/ IZR n)) by (left; apply Rinv_0_lt_compat; lra).
  assert (Q : rho * (Rabs d * / IZR n) <= 1).
  { apply Rmult_le_reg_r with (IZR n); [lra|]. rewrite Rmult_1_l.
    replace (rho * (Rabs d * / IZR n) * IZR n) with (Rabs d * rho) by (field; lra). exact NB. }
  assert (Q0 : 0 <= rho * (Rabs d * / IZR n)).
  { apply Rmult_le_pos; [exact RP|]. apply Rmult_le_pos; [apply Rabs_pos | left; apply Rinv_0_lt_compat; lra]. }
  replace (rho * ((u * IZR n - IZR m) * (Rabs d * / IZR n))) with ((u * IZR n - IZR m) * (rho * (Rabs d * / IZR n))) by ring.
  nra.
Qed.
