(** C18 -- the scanner is lossless and makes progress, for every string. *)
From Coq Require Import NArith Arith Wf_nat String Ascii List Bool Lia.
From ER Require Import Model.Lexer.
Import ListNotations.
Local Open Scope string_scope.

Lemma append_assoc (a b c : string) : (a ++ b) ++ c = a ++ (b ++ c).
Proof. induction a as [|x a IH]; cbn; [reflexivity|]. rewrite IH. reflexivity. Qed.
Lemma append_nil_r (a : string) : a ++ "" = a.
Proof. induction a as [|x a IH]; cbn; [reflexivity|]. rewrite IH. reflexivity. Qed.
Lemma length_append (a b : string) : String.length (a ++ b) = String.length a + String.length b.
Proof. induction a as [|x a IH]; cbn; [reflexivity|]. rewrite IH. reflexivity. Qed.

Lemma span_app p s : fst (span p s) ++ snd (span p s) = s.
Proof.
  induction s as [|c t IH]; cbn; [reflexivity|]. destruct (p c); cbn; [|reflexivity].
  destruct (span p t) as [a b]. cbn in *. rewrite IH. reflexivity.
Qed.
Lemma span_eq p s a b : span p s = (a, b) -> a ++ b = s.
Proof. intros H. pose proof (span_app p s) as E. rewrite H in E. exact E. Qed.

Lemma finish_some r cm : finish r = Some cm -> ostr cm = r.
Proof.
  unfold finish. destruct r as [|c t]; [intros H; injection H as <-; reflexivity|].
  destruct (is_semi c); [intros H; injection H as <-; reflexivity | discriminate].
Qed.

Lemma tail_lossless r t : tail r = Some t -> tail_text t ++ t_trail t ++ ostr (t_comment t) = r.
Proof.
  unfold tail. destruct (span is_sp r) as [ws r1] eqn:S1. apply span_eq in S1. subst r.
  destruct r1 as [|c r2].
  - intros H. injection H as <-. cbn. rewrite !append_nil_r. reflexivity.
  - destruct (is_star c) eqn:ST.
    + destruct (span is_digit r2) as [ds r3] eqn:S2. apply span_eq in S2. subst r2.
      destruct ds as [|d ds']; [discriminate|].
      destruct (span is_sp r3) as [tr r4] eqn:S3. apply span_eq in S3. subst r3.
      destruct (finish r4) as [cm|] eqn:F; [|discriminate]. intros H. injection H as <-.
      apply finish_some in F. subst r4. unfold tail_text. cbn [t_ws t_cks t_trail t_comment].
      unfold is_star in ST. apply Ascii.eqb_eq in ST. subst c. rewrite ?append_assoc. cbn. rewrite ?append_assoc. reflexivity.
    + destruct (finish (String c r2)) as [cm|] eqn:F; [|discriminate]. intros H. injection H as <-.
      apply finish_some in F. unfold tail_text. cbn [t_ws t_cks t_trail t_comment]. rewrite F, append_nil_r. reflexivity.
Qed.

Lemma lazy_lossless r : forall consumed p t, lazy_params r consumed = Some (p, t) ->
  p ++ tail_text t ++ t_trail t ++ ostr (t_comment t) = r.
Proof.
  (* strong induction on the length: the escape alternatives recurse two characters ahead *)
  remember (String.length r) as n eqn:Hn. revert r Hn.
  induction n as [n IH] using lt_wf_ind. intros r Hn consumed p t.
  destruct r as [|c r']; cbn [lazy_params].
  - destruct (if consumed then tail "" else None) as [t0|] eqn:T; [|discriminate].
    intros H. injection H as <- <-. destruct consumed; [|discriminate]. cbn. apply (tail_lossless "" t0 T).
  - destruct (if consumed then tail (String c r') else None) as [t0|] eqn:T.
    + intros H. injection H as <- <-. destruct consumed; [|discriminate]. cbn. apply (tail_lossless _ t0 T).
    + clear T.
      assert (REC1 : forall p1 t1, lazy_params r' true = Some (p1, t1) -> p1 ++ tail_text t1 ++ t_trail t1 ++ ostr (t_comment t1) = r').
      { intros p1 t1 H1. apply (IH (String.length r')) with (consumed := true); [subst n; cbn; lia | reflexivity | exact H1]. }
      set (esc := match r' with
                  | String d r'' => if is_bs c && (is_bs d || is_semi d) then
                        match lazy_params r'' true with Some (p0, t0) => Some (String c (String d p0), t0) | None => None end else None
                  | "" => None end).
      assert (ESC : forall x, esc = Some x -> fst x ++ tail_text (snd x) ++ t_trail (snd x) ++ ostr (t_comment (snd x)) = String c r').
      { unfold esc. destruct r' as [|d r'']; [discriminate|].
        destruct (is_bs c && (is_bs d || is_semi d)); [|discriminate].
        destruct (lazy_params r'' true) as [[p0 t0]|] eqn:L; [|discriminate].
        intros x H. injection H as <-. cbn [fst snd]. cbn. f_equal. f_equal.
        apply (IH (String.length r'')) with (consumed := true); [subst n; cbn; lia | reflexivity | exact L]. }
      destruct esc as [[p0 t0]|] eqn:E.
      * intros H. injection H as <- <-. apply (ESC (p0, t0) eq_refl).
      * destruct (is_semi c || is_star c); [discriminate|].
        destruct (lazy_params r' true) as [[p1 t1]|] eqn:L; [|discriminate].
        intros H. injection H as <- <-. cbn. f_equal. apply REC1. reflexivity.
Qed.

Lemma alt1_lossless r a : alt1 r = Some a ->
  a_pre a ++ code_text (a_code a) ++ a_ws2 a ++ ostr (a_params a) ++ tail_text (a_tail a) ++ t_trail (a_tail a) ++ ostr (t_comment (a_tail a)) = r.
Proof.
  unfold alt1.
  set (first := match r with
                | String n r0 => if is_N n then let '(ds, r0') := span is_digit r0 in
                                   match ds with "" => ("", None, r) | _ => (String n ds, Some ds, r0') end
                                 else ("", None, r)
                | "" => ("", None, r) end).
  assert (F : fst (fst first) ++ snd first = r).
  { unfold first. destruct r as [|n r0]; [reflexivity|]. destruct (is_N n); [|reflexivity].
    destruct (span is_digit r0) as [ds r0'] eqn:S. apply span_eq in S. destruct ds; cbn; [reflexivity|]. cbn in S. rewrite S. reflexivity. }
  destruct first as [[pre lnum] r1]. cbn [fst snd] in F.
  destruct (span is_sp r1) as [ws1 r2] eqn:S1. apply span_eq in S1.
  destruct r2 as [|t r3]; [discriminate|].
  destruct (is_GM t || is_T t); [|discriminate].
  destruct (span is_sp r3) as [wsc r4] eqn:S2. apply span_eq in S2.
  destruct (span is_digit r4) as [ds r5] eqn:S3. apply span_eq in S3.
  destruct ds as [|d0 ds']; [discriminate|].
  set (subr := if is_GM t then
                 match r5 with
                 | String dot r5' => if Ascii.eqb dot "." then let '(sd, r5'') := span is_digit r5' in
                                       match sd with "" => (None, r5) | _ => (Some sd, r5'') end
                                     else (None, r5)
                 | "" => (None, r5) end
               else (None, r5)).
  assert (SB : match fst subr with Some d => String "." d | None => "" end ++ snd subr = r5).
  { unfold subr. destruct (is_GM t); [|reflexivity]. destruct r5 as [|dot r5']; [reflexivity|].
    destruct (Ascii.eqb dot ".") eqn:ED; [|reflexivity]. apply Ascii.eqb_eq in ED. subst dot.
    destruct (span is_digit r5') as [sd r5''] eqn:S. apply span_eq in S. destruct sd; cbn; [reflexivity|]. cbn in S. rewrite S. reflexivity. }
  destruct subr as [sub r6]. cbn [fst snd] in SB.
  destruct (span is_sp r6) as [ws2 r7] eqn:S4. apply span_eq in S4.
  assert (PRE : forall tl ps, ostr ps ++ tail_text tl ++ t_trail tl ++ ostr (t_comment tl) = r7 ->
     (pre ++ ws1) ++ code_text (mkCode lnum t (is_T t) wsc (String d0 ds') sub) ++ ws2 ++ ostr ps ++ tail_text tl ++ t_trail tl ++ ostr (t_comment tl) = r).
  { intros tl ps H. rewrite H. unfold code_text. cbn [c_type c_ws c_digits c_sub].
    rewrite <- F, <- S1, <- S2, <- S3, <- SB, <- S4. rewrite ?append_assoc. cbn. rewrite ?append_assoc. reflexivity. }
  destruct (lazy_params r7 false) as [[p tl]|] eqn:L.
  - intros H. injection H as <-. cbn [a_pre a_code a_ws2 a_params a_tail]. apply (PRE tl (Some p)). cbn. apply (lazy_lossless r7 false p tl L).
  - destruct (tail r7) as [tl|] eqn:T; [|discriminate]. intros H. injection H as <-.
    cbn [a_pre a_code a_ws2 a_params a_tail]. apply (PRE tl None). cbn. apply (tail_lossless r7 tl T).
Qed.

Lemma alt2_lossless r : let '(tx, tr, cm) := alt2 r in tx ++ tr ++ ostr cm = r.
Proof.
  induction r as [|c t IH]; cbn; [reflexivity|].
  destruct (is_semi c); [reflexivity|].
  destruct (alt2 t) as [[tx tr] cm]. destruct tx as [|x tx'].
  - cbn in IH. destruct (is_sp c); cbn; rewrite IH; reflexivity.
  - cbn. cbn in IH. rewrite IH. reflexivity.
Qed.

Lemma parse_body_lossless l :
  let p := parse_body l in g_lead p ++ g_text2 p ++ g_trail p ++ ostr (g_comment p) = l.
Proof.
  unfold parse_body. destruct (span is_sp l) as [lead r] eqn:S. apply span_eq in S.
  destruct (alt1 r) as [a|] eqn:A.
  - cbn [g_lead g_text2 g_trail g_comment]. apply alt1_lossless in A. rewrite <- S, <- A. rewrite ?append_assoc. reflexivity.
  - pose proof (alt2_lossless r) as L. destruct (alt2 r) as [[tx tr] cm]. cbn. rewrite L. exact S.
Qed.

Lemma split_eol_lossless s : let '(body, eol, rest) := split_eol s in body ++ eol ++ rest = s.
Proof.
  unfold split_eol. destruct (span (fun c => negb (is_eolc c)) s) as [body r] eqn:S. apply span_eq in S.
  destruct r as [|c r']; [rewrite append_nil_r in S; cbn; rewrite append_nil_r; exact S|].
  destruct (is_cr c); [|exact S].
  destruct r' as [|d r'']; [exact S|]. destruct (is_lf d); exact S.
Qed.

(** C18 (lossless): the full text of a parsed line is exactly the consumed prefix *)
Theorem parse_line_lossless s : let '(p, rest) := parse_line s in full_text p ++ rest = s.
Proof.
  unfold parse_line. pose proof (split_eol_lossless s) as E. destruct (split_eol s) as [[body eol] rest].
  pose proof (parse_body_lossless body) as B. cbn zeta in B. unfold full_text. cbn.
  rewrite <- E. rewrite <- B at 5. rewrite ?append_assoc. reflexivity.
Qed.

(** C18 (progress): a non-empty source always loses at least one character *)
Lemma split_eol_progress s : s <> "" -> let '(body, eol, rest) := split_eol s in String.length rest < String.length s.
Proof.
  intros NE. pose proof (split_eol_lossless s) as E. unfold split_eol in *.
  destruct (span (fun c => negb (is_eolc c)) s) as [body r] eqn:S.
  destruct r as [|c r'].
  - destruct s; [congruence|]. cbn. lia.
  - destruct (is_cr c).
    + destruct r' as [|d r'']; [subst s; rewrite length_append; cbn; lia|].
      destruct (is_lf d); subst s; rewrite !length_append; cbn; lia.
    + subst s. rewrite length_append. cbn. lia.
Qed.

Theorem parse_line_progress s : s <> "" -> String.length (snd (parse_line s)) < String.length s.
Proof.
  intros NE. unfold parse_line. pose proof (split_eol_progress s NE) as P. destruct (split_eol s) as [[body eol] rest]. exact P.
Qed.
Theorem parse_line_at_end : full_text (fst (parse_line "")) = "" /\ snd (parse_line "") = "".
Proof. split; reflexivity. Qed.

Fixpoint concat_str (l : list string) : string := match l with [] => "" | x :: t => x ++ concat_str t end.

(** C18: parsing line by line consumes the text completely and reproduces it byte for byte *)
Theorem parse_lines_lossless s : concat_str (map full_text (parse_lines s)) = s.
Proof.
  unfold parse_lines.
  assert (G : forall fuel s, String.length s <= fuel -> concat_str (map full_text (parse_lines_fuel fuel s)) = s).
  { induction fuel as [|f IH]; intros s0 L.
    - destruct s0; [reflexivity | cbn in L; lia].
    - cbn [parse_lines_fuel]. destruct s0 as [|c t] eqn:ES; [reflexivity|]. rewrite <- ES in *.
      pose proof (parse_line_lossless s0) as LL. pose proof (parse_line_progress s0 ltac:(subst; discriminate)) as PG.
      destruct (parse_line s0) as [p rest]. cbn [snd] in PG. cbn [map concat_str]. rewrite IH by lia. exact LL. }
  apply G. lia.
Qed.
