(** C05 -- firmware retraction (G10 / G11) over whole programs: the printer's retracted flag is the file's, except that
    it stays set while a recovery is owed:   retracted(printer) = retracted(file) || owed,  and owed implies the file is
    not retracted.  Hence G10/G11 reach the printer with the file's parity (never two G10 or two G11 in a row), and a
    forwarded extruding move finds the printer un-retracted: the owed G11 is emitted in front of it, once. *)
From Coq Require Import Reals Lra String Ascii List Bool.
From ER Require Import Base.Num Model.Geometry Model.Axis Model.Filter Spec.Printer
  Proofs.FilterLemmas Proofs.Transparent Proofs.Deferred Proofs.Outputs Proofs.Track Proofs.FSync Proofs.Sync Proofs.Depth.
Import ListNotations.
Open Scope R_scope.

Definition FwR (lr : option (retr R)) (fF fU : bool) : Prop :=
  match lr with
  | None => fF = false /\ fU = false
  | Some r => fw r = true /\ fF = true /\ fU = negb (recoverExcluded r)
  end.
Definition Fwp (s : fstateR) (F U : printerR) : Prop := FwR (lastRetraction s) (qfw F) (qfw U).

(** the firmware dialect, judged on the file's own printer: no filament is pulled back by E moves; extrusion only while
    not retracted; G10 only while not retracted (or the tool-offset form with P / L); G11 only while retracted *)
Definition is_g10 (m : icmdR) : bool := String.eqb (ccode m) "G10" && negb (has_label "P" (cwords m) || has_label "L" (cwords m)).
Definition fwf (U : printerR) (m : icmdR) : Prop :=
  (linear m = true -> 0 <= dE U (cwords m) /\ (0 < dE U (cwords m) -> qfw U = false)) /\
  (is_g10 m = true -> qfw U = false) /\
  (ccode m = "G11"%string -> qfw U = true).

Lemma fw_cmd_exec g (P : printerR) r recover p : fw r = true -> qfw (run_outs g (mkCmd "" "" [] None []) P (retr_cmds r recover p)) = negb recover.
Proof. intros Fw. unfold retr_cmds. rewrite Fw. reflexivity. Qed.
Lemma fw_cmd_exec_m g m (P : printerR) r recover p : fw r = true -> qfw (run_outs g m P (retr_cmds r recover p)) = negb recover.
Proof. intros Fw. unfold retr_cmds. rewrite Fw. reflexivity. Qed.

Lemma orig_fw g (m : icmdR) (P : printerR) t : linear m = true -> qfw (exec_out g m P (Orig t)) = qfw P.
Proof. intros L. cbn [exec_out]. rewrite (exec_linear g P m L). apply exec_move_fw. Qed.

(** a move or E-only command with dE >= 0 *)
Lemma fw_recover_if g (m : icmdR) (s : fstateR) (F U : printerR) cmd b :
  linear m = true -> Fwp s F U -> qfw U = false ->
  let r := recoverRetractionIfNeeded s cmd b in
  FwR (lastRetraction (fst r)) (qfw (run_outs g m F (snd r))) false.
Proof.
  intros Lin D UF. unfold recoverRetractionIfNeeded, recoverRetraction, Fwp in *. rewrite UF in D.
  destruct (lastRetraction s) as [lr|] eqn:LR.
  - destruct D as (D1 & D2 & D3). assert (O : recoverExcluded lr = true) by (destruct (recoverExcluded lr); [reflexivity | discriminate]).
    destruct (excluding s).
    + cbn [fst snd lastRetraction upd_retr run_outs fold_left]. unfold FwR. destruct b; cbn [fw recoverExcluded negb]; rewrite ?O; auto.
    + cbn [fst snd lastRetraction upd_retr recoverExcluded]. rewrite O.
      unfold run_outs. rewrite fold_left_app. cbn [fold_left]. rewrite (orig_fw g m _ cmd Lin).
      change (fold_left (exec_out g m) ?l F) with (run_outs g m F l). rewrite fw_cmd_exec_m by exact D1. cbn. auto.
  - destruct D as (D1 & D2). destruct (excluding s); cbn [fst snd run_outs fold_left]; rewrite ?LR; unfold FwR; [auto|].
    rewrite (orig_fw g m F cmd Lin). auto.
Qed.

Lemma fw_plm c (s : fstateR) (F U : printerR) (m : icmdR) f z pts :
  linear m = true -> Track s U -> Fwp s F U ->
  0 <= dE U (cwords m) -> (0 < dE U (cwords m) -> qfw U = false) ->
  let r := processLinearMoves c s (ctext m) (word "E" (cwords m)) f z pts in
  Fwp (fst r) (run_outs (g90e c) m F (outs m (snd r))) (exec_move U (cwords m)).
Proof.
  intros Lin [Hum Hea Hx Hy Hz He Hfm] D W0 W1.
  set (ws := cwords m) in *. set (e := word "E" ws) in *.
  pose proof (tgt_tracks (pe (position s)) (qe U) true (qum U) e He) as He'.
  set (eA' := match e with Some v => set_logical (pe (position s)) v | None => pe (position s) end) in *.
  assert (DE : (match e with Some _ => (cur eA' - cur (pe (position s)))%num | None => n0 end) = dE U ws).
  { unfold dE. fold e. destruct He as (C & _), He' as (C' & _). rewrite Hea. destruct e as [v|]; [|reflexivity].
    rewrite C', C. unfold tgt. numR. reflexivity. }
  unfold Fwp. rewrite exec_move_fw. unfold processLinearMoves. fold ws e eA'. rewrite DE.
  remember (dE U ws) as d eqn:Dd in *.
  set (zA' := match z with Some v => set_logical (pz (position s)) v | None => pz (position s) end).
  set (mv := is_some z || existsb (fun p => is_some (fst p) || is_some (snd p)) pts).
  set (s0 := match f with Some v => upd_feed s (v * frMult s)%num | None => s end).
  assert (S0 : lastRetraction s0 = lastRetraction s /\ excluding s0 = excluding s) by (unfold s0; destruct f; auto).
  destruct S0 as (S0r & S0x).
  set (s1 := upd_pos s0 (upd_Z (upd_E (position s) eA') zA')).
  assert (ND : Rltb d 0 = false) by (apply Rltb_false; exact W0).
  destruct mv; cbn [negb].
  - destruct (track_points (regions s1) (enabled s1) (px (position s)) (py (position s)) pts) as [[x' y'] hit].
    set (s1' := upd_pos s1 (upd_XY (position s1) x' y')).
    assert (S1r : lastRetraction s1' = lastRetraction s) by exact S0r.
    destruct hit.
    + unfold processExcludedMove, enterExcludedRegion. numR. rewrite ND.
      destruct (excluding s1') eqn:X1; cbn [negb fst snd andb excluding upd_excl upd_lastpos]; rewrite outs_to_result.
      * cbn [run_outs fold_left]. rewrite andb_false_r. rewrite S1r. exact D.
      * assert (Q : Forall dep_quiet (map Script (enterS c))).
        { apply Forall_forall. intros o Ho. apply in_map_iff in Ho. destruct Ho as (t & <- & _). exact I. }
        destruct (run_dep_quiet (g90e c) m _ F Q) as (_ & B). rewrite B. cbn [andb negb lastRetraction upd_lastpos upd_excl]. rewrite S1r. exact D.
    + destruct (excluding s1') eqn:X1.
      * pose proof (exit_dep_quiet c s1' X1) as Q. unfold exit_sequence in Q.
        assert (LR : lastRetraction (fst (exitExcludedRegion c s1')) = lastRetraction s) by (unfold exitExcludedRegion; rewrite X1; cbn; exact S1r).
        destruct (exitExcludedRegion c s1') as [s2 cmds]. cbn [fst snd] in *. rewrite outs_to_result.
        destruct (run_dep_quiet (g90e c) m cmds F Q) as (_ & B). rewrite B, LR. exact D.
      * numR. destruct (Reqb d 0) eqn:DZ; cbn [negb].
        -- cbn [fst snd outs to_result run_outs fold_left]. rewrite (orig_fw (g90e c) m F _ Lin). rewrite S1r. exact D.
        -- apply Reqb_false in DZ. assert (DP : 0 < d) by lra.
           set (sp := upd_pos s1' (upd_E (position s1') (set_cur eA' (cur (pe (position s)))))).
           assert (Dsp : Fwp sp F U) by (unfold Fwp; change (lastRetraction sp) with (lastRetraction s1'); rewrite S1r; exact D).
           pose proof (fw_recover_if (g90e c) m sp F U (ctext m) false Lin Dsp (W1 DP)) as G.
           destruct (recoverRetractionIfNeeded sp (ctext m) false) as [s2 cmds]. cbn [fst snd] in *. rewrite outs_to_result.
           cbn [lastRetraction upd_pos]. rewrite (W1 DP). exact G.
  - unfold processNonMove. numR. rewrite ND.
    assert (Ds1 : Fwp s1 F U) by (unfold Fwp; change (lastRetraction s1) with (lastRetraction s0); rewrite S0r; exact D).
    destruct (Rltb 0 d) eqn:NP.
    + apply Rltb_true in NP.
      pose proof (fw_recover_if (g90e c) m s1 F U (ctext m) true Lin Ds1 (W1 NP)) as G.
      destruct (recoverRetractionIfNeeded s1 (ctext m) true) as [s2 cmds]. cbn [fst snd] in *. rewrite outs_to_result. rewrite (W1 NP). exact G.
    + destruct (excluding s1); cbn [negb fst snd]; rewrite outs_to_result; cbn [run_outs fold_left]; [exact Ds1|].
      rewrite (orig_fw (g90e c) m F _ Lin). exact Ds1.
Qed.

Lemma fw_handle c (s : fstateR) (F U : printerR) (m : icmdR) :
  Track s U -> Fwp s F U -> wf_cmd c U m -> fwf U m ->
  Fwp (fst (handle c s m)) (run_outs (g90e c) m F (outs m (snd (handle c s m)))) (exec_cmd (g90e c) U (ccode m) (cwords m)).
Proof.
  intros TR D WF (WL & W10 & W11).
  destruct (linear m) eqn:Lin.
  - destruct (WL eq_refl) as (W0 & W1). rewrite (exec_linear _ U m Lin). unfold handle.
    destruct (linear_cases m Lin) as [E|(E0 & E)]; rewrite ?E0, E.
    + unfold handle_G0. apply fw_plm; assumption.
    + unfold handle_G2. destruct (match word "R" (cwords m) with Some _ => _ | None => _ end) as [i j] eqn:IJ.
      destruct (nonzero i || nonzero j) eqn:NZ; [apply fw_plm; assumption|].
      exfalso. assert (IA : is_arc m = true) by exact E.
      destruct WF as (_ & _ & WA & _). destruct (WA IA) as (_ & ND). unfold arc_nondegenerate in ND.
      destruct (word "R" (cwords m)); [destruct (carc_ij m) as [[i' j']|]|]; injection IJ as <- <-; try congruence.
      numR. congruence.
  - assert (LN : (String.eqb (ccode m) "G0" || String.eqb (ccode m) "G1" || String.eqb (ccode m) "G2" || String.eqb (ccode m) "G3") = false) by exact Lin.
    destruct (String.eqb_spec (ccode m) "G10") as [E10|N10].
    + (* G10 *)
      unfold handle, exec_cmd. rewrite LN. apply orb_false_iff in LN. destruct LN as (LN & L3). apply orb_false_iff in LN. destruct LN as (LN & L2).
      apply orb_false_iff in LN. destruct LN as (L0 & L1). rewrite L0, L1, L2, L3. cbn [orb]. rewrite E10. cbn [String.eqb Ascii.eqb Bool.eqb].
      unfold handle_G10. unfold is_g10 in W10. rewrite E10 in W10. cbn [String.eqb Ascii.eqb Bool.eqb andb] in W10.
      destruct (has_label "P" (cwords m) || has_label "L" (cwords m)) eqn:PL.
      * cbn [fst snd outs run_outs fold_left exec_out]. unfold exec_cmd. rewrite E10. cbn [String.eqb Ascii.eqb Bool.eqb orb]. rewrite PL. exact D.
      * specialize (W10 eq_refl). unfold Fwp in *. cbn [qfw]. unfold recordRetraction. rewrite W10 in D.
        destruct (lastRetraction s) as [lr|] eqn:LR.
        -- destruct D as (D1 & D2 & D3). assert (O : recoverExcluded lr = true) by (destruct (recoverExcluded lr); [reflexivity | discriminate]).
           rewrite O. cbn [fst snd to_result outs run_outs fold_left lastRetraction upd_retr]. unfold FwR. cbn [fw recoverExcluded negb]. auto.
        -- destruct D as (D1 & D2). cbn [fst snd lastRetraction upd_retr]. rewrite outs_to_result.
           destruct (excluding s).
           ++ rewrite fw_cmd_exec_m by reflexivity. unfold FwR. cbn. auto.
           ++ cbn [run_outs fold_left exec_out]. unfold exec_cmd. rewrite E10. cbn [String.eqb Ascii.eqb Bool.eqb orb]. rewrite PL.
              unfold FwR. cbn. auto.
    + destruct (String.eqb_spec (ccode m) "G11") as [E11|N11].
      * (* G11 *)
        specialize (W11 E11).
        unfold handle, exec_cmd. rewrite LN. apply orb_false_iff in LN. destruct LN as (LN & L3). apply orb_false_iff in LN. destruct LN as (LN & L2).
        apply orb_false_iff in LN. destruct LN as (L0 & L1). rewrite L0, L1, L2, L3. cbn [orb]. rewrite E11. cbn [String.eqb Ascii.eqb Bool.eqb].
        unfold handle_G11, recoverRetractionIfNeeded, recoverRetraction. unfold Fwp in *. cbn [qfw]. rewrite W11 in D.
        destruct (lastRetraction s) as [lr|] eqn:LR; [|destruct D; discriminate].
        destruct D as (D1 & D2 & D3). assert (O : recoverExcluded lr = false) by (destruct (recoverExcluded lr); [discriminate | reflexivity]).
        destruct (excluding s).
        -- cbn [fst snd to_result outs run_outs fold_left lastRetraction upd_retr]. unfold FwR. cbn [fw recoverExcluded negb]. auto.
        -- cbn [fst snd lastRetraction upd_retr recoverExcluded]. rewrite O. cbn [app]. rewrite outs_to_result.
           cbn [run_outs fold_left exec_out]. unfold exec_cmd. rewrite E11. cbn [String.eqb Ascii.eqb Bool.eqb orb]. unfold FwR. cbn. auto.
      * destruct (handle_other_retr c s m Lin N10 N11) as (LR & OUT).
        destruct (exec_other_dep (g90e c) U (ccode m) (cwords m) LN N10 N11) as (_ & U2).
        unfold Fwp. rewrite LR, U2. destruct OUT as [O|O]; rewrite O; cbn [outs run_outs fold_left exec_out]; [|exact D].
        destruct (exec_other_dep (g90e c) F (ccode m) (cwords m) LN N10 N11) as (_ & F2). rewrite F2. exact D.
Qed.

(** a forwarded extruding move finds the printer un-retracted: an owed G11 stands in front of it *)
Lemma fw_print_outside g (m : icmdR) (s : fstateR) (F U : printerR) cmd : Fwp s F U -> qfw U = false -> excluding s = false ->
  exists pre, snd (recoverRetractionIfNeeded s cmd false) = pre ++ [Orig cmd] /\ qfw (run_outs g m F pre) = false.
Proof.
  intros D UF X. unfold recoverRetractionIfNeeded, recoverRetraction, Fwp in *. rewrite UF in D. rewrite X.
  destruct (lastRetraction s) as [lr|].
  - destruct D as (D1 & D2 & D3). assert (O : recoverExcluded lr = true) by (destruct (recoverExcluded lr); [reflexivity | discriminate]).
    cbn [fst snd recoverExcluded]. rewrite O. eexists. split; [reflexivity|]. rewrite fw_cmd_exec_m by exact D1. reflexivity.
  - destruct D as (D1 & _). exists []. split; [reflexivity | exact D1].
Qed.

Lemma fw_plm_print_level c (s : fstateR) (F U : printerR) (m : icmdR) f z pts :
  linear m = true -> Track s U -> Fwp s F U ->
  is_some z || existsb (fun p => is_some (fst p) || is_some (snd p)) pts = true ->
  0 < dE U (cwords m) -> qfw U = false -> excluding s = false ->
  let r := processLinearMoves c s (ctext m) (word "E" (cwords m)) f z pts in
  excluding (fst r) = false ->
  exists pre, outs m (snd r) = pre ++ [Orig (ctext m)] /\ qfw (run_outs (g90e c) m F pre) = false.
Proof.
  intros Lin [Hum Hea Hx Hy Hz He Hfm] D MV DP UF X.
  set (ws := cwords m) in *. set (e := word "E" ws) in *.
  pose proof (tgt_tracks (pe (position s)) (qe U) true (qum U) e He) as He'.
  set (eA' := match e with Some v => set_logical (pe (position s)) v | None => pe (position s) end) in *.
  assert (DE : (match e with Some _ => (cur eA' - cur (pe (position s)))%num | None => n0 end) = dE U ws).
  { unfold dE. fold e. destruct He as (C & _), He' as (C' & _). rewrite Hea. destruct e as [v|]; [|reflexivity].
    rewrite C', C. unfold tgt. numR. reflexivity. }
  unfold processLinearMoves. fold ws e eA'. rewrite MV. cbn [negb]. rewrite DE.
  set (zA' := match z with Some v => set_logical (pz (position s)) v | None => pz (position s) end).
  set (s0 := match f with Some v => upd_feed s (v * frMult s)%num | None => s end).
  assert (S0 : lastRetraction s0 = lastRetraction s /\ excluding s0 = excluding s) by (unfold s0; destruct f; auto).
  destruct S0 as (S0r & S0x).
  set (s1 := upd_pos s0 (upd_Z (upd_E (position s) eA') zA')).
  destruct (track_points (regions s1) (enabled s1) (px (position s)) (py (position s)) pts) as [[x' y'] hit].
  set (s1' := upd_pos s1 (upd_XY (position s1) x' y')).
  assert (S1r : lastRetraction s1' = lastRetraction s) by exact S0r.
  assert (S1x : excluding s1' = false) by (unfold s1', s1; cbn; congruence).
  destruct hit.
  - pose proof (processExcludedMove_frame c s1' (ctext m) (dE U ws)) as PF.
    destruct (processExcludedMove c s1' (ctext m) (dE U ws)) as [s2 cmds]. cbn [fst snd] in *.
    destruct PF as (_ & _ & _ & _ & PX). rewrite PX. cbn [andb]. rewrite S1x. cbn [negb excluding upd_lastpos]. rewrite PX. discriminate.
  - rewrite S1x. numR.
    assert (DZ : Reqb (dE U ws) 0 = false) by (apply Reqb_false; lra). rewrite DZ. cbn [negb].
    set (sp := upd_pos s1' (upd_E (position s1') (set_cur eA' (cur (pe (position s)))))).
    assert (Dsp : Fwp sp F U) by (unfold Fwp; change (lastRetraction sp) with (lastRetraction s1'); rewrite S1r; exact D).
    destruct (fw_print_outside (g90e c) m sp F U (ctext m) Dsp UF S1x) as (pre & P1 & P2).
    destruct (recoverRetractionIfNeeded sp (ctext m) false) as [s2 cmds]. cbn [fst snd] in *. intros _.
    rewrite outs_to_result. exists pre. split; assumption.
Qed.

Lemma fw_handle_print_level c (s : fstateR) (F U : printerR) (m : icmdR) :
  Track s U -> Fwp s F U -> wf_cmd c U m -> fwf U m ->
  linear m = true -> moving m = true -> 0 < dE U (cwords m) ->
  excluding s = false -> excluding (fst (handle c s m)) = false ->
  exists pre, outs m (snd (handle c s m)) = pre ++ [Orig (ctext m)] /\ qfw (run_outs (g90e c) m F pre) = false /\ qfw U = false.
Proof.
  intros TR D WF (WL & _ & _) Lin MV DP X. destruct (WL Lin) as (_ & W1). pose proof (W1 DP) as UF. unfold handle.
  destruct (linear_cases m Lin) as [E|(E0 & E)]; rewrite ?E0, E.
  - assert (NA : is_arc m = false).
    { unfold is_arc. apply orb_true_iff in E. destruct E as [E|E]; apply String.eqb_eq in E; rewrite E; reflexivity. }
    unfold moving in MV. rewrite NA in MV. unfold handle_G0. intros X'.
    destruct (fw_plm_print_level c s F U m (word "F" (cwords m)) (word "Z" (cwords m)) [(word "X" (cwords m), word "Y" (cwords m))]
                Lin TR D MV DP UF X X') as (pre & P1 & P2). exists pre. auto.
  - unfold handle_G2. destruct (match word "R" (cwords m) with Some _ => _ | None => _ end) as [i j] eqn:IJ.
    destruct (nonzero i || nonzero j) eqn:NZ.
    + intros X'. match goal with |- context [processLinearMoves c s (ctext m) _ ?f ?z ?pts] =>
        destruct (fw_plm_print_level c s F U m f z pts Lin TR D eq_refl DP UF X X') as (pre & P1 & P2) end.
      exists pre. auto.
    + intros _. exfalso. assert (IA : is_arc m = true) by exact E.
      destruct WF as (_ & _ & WA & _). destruct (WA IA) as (_ & ND). unfold arc_nondegenerate in ND.
      destruct (word "R" (cwords m)); [destruct (carc_ij m) as [[i' j']|]|]; injection IJ as <- <-; try congruence.
      numR. congruence.
Qed.

(** *** whole histories *)
Lemma disable_fw c (s : fstateR) (F U : printerR) m0 : Fwp s F U ->
  let '(s1, cmds) := disableExclusion c s in Fwp s1 (run_outs (g90e c) m0 F cmds) U.
Proof.
  intros D. unfold disableExclusion. destruct (enabled s); [|exact D].
  cbn [excluding upd_enabled]. destruct (excluding s) eqn:X; [|exact D].
  set (s1 := upd_enabled s false). assert (X1 : excluding s1 = true) by exact X.
  pose proof (exit_dep_quiet c s1 X1) as Q. unfold exit_sequence in Q.
  assert (LR : lastRetraction (fst (exitExcludedRegion c s1)) = lastRetraction s) by (unfold exitExcludedRegion; rewrite X1; reflexivity).
  destruct (exitExcludedRegion c s1) as [s2 cmds]. cbn [fst snd] in *.
  destruct (run_dep_quiet (g90e c) m0 cmds F Q) as (_ & B). unfold Fwp. rewrite B, LR. exact D.
Qed.

Fixpoint fwf_hist (c : cfg) (x : sim) (h : list hev) : Prop :=
  match h with
  | [] => True
  | ev :: t => match ev with HCmd m => fwf (sm_U x) m | _ => True end /\ fwf_hist c (hstep c x ev) t
  end.

Definition FwX (x : sim) : Prop := Fwp (sm_s x) (sm_F x) (sm_U x).

Lemma fw_step c (x : sim) (ev : hev) : Sync x -> FwX x ->
  match ev with HCmd m => wf_cmd c (sm_U x) m /\ no_home_inside (sm_s x) m | _ => True end ->
  match ev with HCmd m => fwf (sm_U x) m | _ => True end ->
  FwX (hstep c x ev).
Proof.
  intros (TR & FS) D WF DW. destruct ev as [m|g|st ms]; cbn [hstep]; unfold FwX; cbn [sm_s sm_F sm_U].
  - destruct WF as (W & _). apply fw_handle; assumption.
  - destruct (add_region (regions (sm_s x)) g); exact D.
  - unfold handle_at. destruct st; [exact D|].
    set (m0 := mkCmd "" "" [] None []).
    set (stepf := fun (acc : fstateR * bool * list (ocmd R)) (a : ataction) =>
      let '(s0, _, sent) := acc in
      match a with
      | AtEnable => (enableExclusion s0, true, sent)
      | AtDisable => let '(s1, cmds) := disableExclusion c s0 in (s1, true, sent ++ cmds)
      end).
    assert (G : forall ms (acc : fstateR * bool * list (ocmd R)),
              Fwp (fst (fst acc)) (run_outs (g90e c) m0 (sm_F x) (snd acc)) (sm_U x) ->
              let r := fold_left stepf ms acc in Fwp (fst (fst r)) (run_outs (g90e c) m0 (sm_F x) (snd r)) (sm_U x)).
    { induction ms0 as [|a t IH]; intros acc H; cbn; [exact H|]. apply IH.
      destruct acc as [[s0 hd] sent]. cbn [fst snd] in *. unfold stepf. destruct a.
      - cbn [fst snd]. unfold enableExclusion. destruct (enabled s0); exact H.
      - pose proof (disable_fw c s0 _ (sm_U x) m0 H) as DD.
        destruct (disableExclusion c s0) as [s1 cmds]. cbn [fst snd]. unfold run_outs in *. rewrite fold_left_app. exact DD. }
    specialize (G ms (sm_s x, false, []) D).
    destruct (fold_left stepf ms (sm_s x, false, [])) as [[s' hd] sent]. cbn [fst snd] in *. exact G.
Qed.

Theorem fw_run c (h : list hev) : forall x, Sync x -> FwX x -> wf_hist c x h -> fwf_hist c x h -> Sync (hrun c x h) /\ FwX (hrun c x h).
Proof.
  induction h as [|ev t IH]; intros x S D W DW; cbn; [auto|].
  destruct W as (W1 & W2), DW as (DW1 & DW2).
  apply IH; [apply sync_step; assumption | apply fw_step; assumption | exact W2 | exact DW2].
Qed.

Lemma fw_init rs : FwX (mkSim (init_state rs) init_printer init_printer).
Proof. unfold FwX, Fwp, FwR. cbn. auto. Qed.

(** reading the invariant *)
Lemma fw_reading (s : fstateR) (F U : printerR) : Fwp s F U ->
  qfw F = (qfw U || match lastRetraction s with Some lr => recoverExcluded lr | None => false end) /\
  (match lastRetraction s with Some lr => recoverExcluded lr | None => false end = true -> qfw U = false).
Proof.
  unfold Fwp, FwR. destruct (lastRetraction s) as [lr|].
  - intros (_ & D2 & D3). rewrite D2, D3. destruct (recoverExcluded lr); cbn; auto.
  - intros (D1 & D2). rewrite D1, D2. cbn. split; [reflexivity | discriminate].
Qed.

(** *** non-vacuity: print, G10, travel, G11, print -- meets the premises for any region set *)
Local Open Scope string_scope.
Record ustf (P : printerR) (e : R) (f : bool) : Prop := mkUstf { uf_e : qe P = e; uf_f : qfw P = f; uf_a : qeabs P = true; uf_m : qum P = 1 }.
Lemma g1f_E g (P : printerR) e f ws v : ustf P e f -> word "E" ws = Some v -> ustf (exec_cmd g P "G1" ws) v f.
Proof.
  intros [A B C D] W. change (exec_cmd g P "G1" ws) with (exec_move P ws).
  destruct (exec_move_fields P ws) as (_ & _ & _ & E1 & _ & E2 & E3 & E4).
  constructor; [rewrite E1, W, C, D; unfold tgt; numR; lra | congruence | congruence | congruence].
Qed.
Lemma g1f_noE g (P : printerR) e f ws : ustf P e f -> word "E" ws = None -> ustf (exec_cmd g P "G1" ws) e f.
Proof.
  intros [A B C D] W. change (exec_cmd g P "G1" ws) with (exec_move P ws).
  destruct (exec_move_fields P ws) as (_ & _ & _ & E1 & _ & E2 & E3 & E4).
  constructor; [rewrite E1, W; exact A | congruence | congruence | congruence].
Qed.
Lemma g10f g (P : printerR) e f : ustf P e f -> ustf (exec_cmd g P "G10" []) e true.
Proof. intros [A B C D]. constructor; cbn; assumption || reflexivity. Qed.
Lemma g11f g (P : printerR) e f : ustf P e f -> ustf (exec_cmd g P "G11" []) e false.
Proof. intros [A B C D]. constructor; cbn; assumption || reflexivity. Qed.
Lemma dE_ustf (P : printerR) e f ws : ustf P e f -> dE P ws = match word "E" ws with Some v => v - e | None => 0 end.
Proof. intros [A B C D]. unfold dE. destruct (word "E" ws); [|reflexivity]. rewrite A, C, D. lra. Qed.

Definition fw_ex_hist : list hev :=
  [ g1 "G1 X5 Y5 E1" [("X", MNum 5); ("Y", MNum 5); ("E", MNum 1)];
    HCmd (mkCmd "G10" "G10" [] None []);
    g1 "G1 X15 Y15" [("X", MNum 15); ("Y", MNum 15)];
    HCmd (mkCmd "G11" "G11" [] None []);
    g1 "G1 X30 Y30 E2" [("X", MNum 30); ("Y", MNum 30); ("E", MNum 2)] ].

Example fw_premises_satisfiable (rs : list (region R)) :
  let x0 := mkSim (init_state rs) init_printer init_printer in
  wf_hist ex_cfg x0 fw_ex_hist /\ fwf_hist ex_cfg x0 fw_ex_hist.
Proof.
  cbn zeta. split.
  - unfold fw_ex_hist, g1. cbn [wf_hist]. unfold wf_cmd, no_home_inside, is_arc. cbn [ccode cwords String.eqb Ascii.eqb Bool.eqb orb g90e ex_cfg].
    repeat split; try discriminate; try (intros; discriminate).
  - unfold fw_ex_hist, g1. cbn [fwf_hist hstep sm_U]. unfold fwf, linear, is_g10.
    cbn [ccode cwords String.eqb Ascii.eqb Bool.eqb orb andb negb has_label existsb].
    assert (U0 : ustf init_printer 0 false) by (constructor; reflexivity).
    set (w1 := [("X", MNum 5); ("Y", MNum 5); ("E", MNum 1)] : list (witem R)).
    set (w3 := [("X", MNum 15); ("Y", MNum 15)] : list (witem R)).
    set (w5 := [("X", MNum 30); ("Y", MNum 30); ("E", MNum 2)] : list (witem R)).
    pose proof (g1f_E (g90e ex_cfg) _ _ _ w1 1 U0 eq_refl) as U1.
    pose proof (g10f (g90e ex_cfg) _ _ _ U1) as U2.
    pose proof (g1f_noE (g90e ex_cfg) _ _ _ w3 U2 eq_refl) as U3.
    pose proof (g11f (g90e ex_cfg) _ _ _ U3) as U4.
    rewrite (dE_ustf _ _ _ w1 U0), (dE_ustf _ _ _ w3 U2), (dE_ustf _ _ _ w5 U4).
    rewrite (uf_f _ _ _ U0), (uf_f _ _ _ U1), (uf_f _ _ _ U3), (uf_f _ _ _ U4).
    cbn [word last_num w1 w3 w5 String.eqb Ascii.eqb Bool.eqb].
    repeat split; try discriminate; intros; try lra; try reflexivity; try discriminate.
Qed.
