(** Plugin-level properties: lifecycle gating (C11), clean start (C10), registry integrity and
    notification (C13), monotone excluded area (C12), end-of-print cleanup (C15). *)
From Coq Require Import String Ascii List Bool.
From ER Require Import Base.Num Model.Geometry Model.Axis Model.Filter Model.Plugin Proofs.FilterLemmas Proofs.Transparent Proofs.Deferred Proofs.Outputs.
Import ListNotations.

Section PP.
Context {T : Type} {N : Num T}.
Notation plugin := (plugin T).
Notation pevent := (pevent T).

Lemma handle_at_regions c (s : fstate T) st ms : regions (fst (fst (handle_at c s st ms))) = regions s.
Proof.
  unfold handle_at. destruct st; [reflexivity|].
  set (stepf := fun (acc : fstate T * bool * list (ocmd T)) (a : ataction) =>
      let '(s0, _, sent) := acc in
      match a with
      | AtEnable => (enableExclusion s0, true, sent)
      | AtDisable => let '(s1, cmds) := disableExclusion c s0 in (s1, true, sent ++ cmds)
      end).
  assert (G : forall ms (acc : fstate T * bool * list (ocmd T)), regions (fst (fst (fold_left stepf ms acc))) = regions (fst (fst acc))).
  { induction ms0 as [|a t IH]; intros acc; cbn; [reflexivity|]. rewrite IH.
    destruct acc as [[s0 h] sent]. cbn [fst]. unfold stepf. destruct a.
    - cbn. unfold enableExclusion. destruct (enabled s0); reflexivity.
    - unfold disableExclusion. destruct (enabled s0); cbn; [|reflexivity].
      destruct (excluding s0) eqn:X0; [|reflexivity].
      assert (X1 : excluding (upd_enabled s0 false) = true) by exact X0.
      destruct (exit_shape c (upd_enabled s0 false) X1) as (r & _ & _ & _ & _ & _ & _ & _ & R).
      destruct (exitExcludedRegion c (upd_enabled s0 false)) as [s2 cmds]. cbn [fst] in *. exact R. }
  apply (G ms (s, false, [])).
Qed.

(** *** C10: every print starts clean *)
Theorem print_started_is_fresh (p : plugin) :
  let p' := fst (fst (pstep p EvPrintStarted)) in
  pst p' = init_state (regions (pst p)) /\ active p' = true /\ pcfg p' = pcfg p /\
  clearAfter p' = clearAfter p /\ mayShrink p' = mayShrink p.
Proof. cbn. auto. Qed.

(** two plugins with the same regions and settings behave identically from print-started on *)
Theorem clean_start (p q : plugin) (h : list pevent) :
  regions (pst p) = regions (pst q) -> pcfg p = pcfg q -> clearAfter p = clearAfter q -> mayShrink p = mayShrink q ->
  snd (prun p (EvPrintStarted :: h)) = snd (prun q (EvPrintStarted :: h)).
Proof.
  intros R C A M.
  assert (E : pstep p EvPrintStarted = pstep q EvPrintStarted) by (cbn; unfold reset_state; rewrite R, C, A, M; reflexivity).
  cbn [prun]. rewrite E. reflexivity.
Qed.

(** *** C11: the lifecycle *)
Inductive lifecycle := LStart | LEnd | LNeutral.
Definition classify (ev : pevent) : lifecycle :=
  match ev with EvPrintStarted => LStart | EvPrintEnd => LEnd | _ => LNeutral end.
(** spec: active iff the last start/end event of the history is a start *)
Fixpoint active_spec (init : bool) (h : list pevent) : bool :=
  match h with
  | [] => init
  | ev :: t => active_spec (match classify ev with LStart => true | LEnd => false | LNeutral => init end) t
  end.

Lemma pstep_active (p : plugin) ev :
  active (fst (fst (pstep p ev))) = match classify ev with LStart => true | LEnd => false | LNeutral => active p end.
Proof.
  destruct ev; cbn; try reflexivity.
  - destruct (clearAfter p); reflexivity.
  - destruct (hasgcode && active p); [destruct (handle _ _ _)|]; reflexivity.
  - destruct (active p) eqn:A; [destruct (handle_at _ _ _ _) as [[? ?] ?]; cbn; exact A | cbn; exact A].
  - destruct (is_gcode_afterPrintDone && active p && excluding (pst p)); [destruct (exitExcludedRegion _ _)|]; reflexivity.
  - destruct anon; [reflexivity|]. destruct g; [|reflexivity]. destruct (add_region _ _); reflexivity.
  - destruct anon; [reflexivity|]. destruct g; [|reflexivity]. destruct (replace_region _ _ _); reflexivity.
  - destruct anon; [reflexivity|]. destruct (negb (mayShrink p) && active p); [reflexivity|]. destruct (delete_region _ _); reflexivity.
Qed.

Theorem active_follows_spec (h : list pevent) : forall p : plugin, active (fst (prun p h)) = active_spec (active p) h.
Proof.
  induction h as [|ev t IH]; intros p; cbn; [reflexivity|].
  pose proof (pstep_active p ev) as A. destruct (pstep p ev) as [[p1 r] n]. cbn [fst] in A.
  specialize (IH p1). destruct (prun p1 t) as [p2 rs]. cbn [fst] in *. rewrite IH, A. reflexivity.
Qed.

(** while no print is active the hooks neither alter nor track anything *)
Theorem inert_when_inactive (p : plugin) : active p = false ->
  (forall m hg, pstep p (HookGcode m hg) = (p, PGcode Unchanged, [])) /\
  (forall st ms, pstep p (HookAt st ms) = (p, PSent [], [])) /\
  (forall b, pstep p (HookScript b) = (p, PNone, [])).
Proof.
  intros A. repeat split; intros; cbn; rewrite A, ?andb_false_r; reflexivity.
Qed.

(** region clearing rules *)
Theorem regions_lifecycle (p : plugin) :
  regions (pst (fst (fst (pstep p EvFileSelected)))) = [] /\
  regions (pst (fst (fst (pstep p EvPrintEnd)))) = (if clearAfter p then [] else regions (pst p)) /\
  regions (pst (fst (fst (pstep p EvPrintStarted)))) = regions (pst p) /\
  regions (pst (fst (fst (pstep p EvOther)))) = regions (pst p).
Proof. cbn. destruct (clearAfter p); cbn; auto. Qed.

(** *** C15: the script hook *)
Theorem script_hook (p : plugin) (b : bool) :
  (b && active p && excluding (pst p) = true ->
     snd (fst (pstep p (HookScript b))) = PScript (exit_sequence (pcfg p) (pst p)) /\
     excluding (pst (fst (fst (pstep p (HookScript b))))) = false /\
     pending (pst (fst (fst (pstep p (HookScript b))))) = []) /\
  (b && active p && excluding (pst p) = false -> pstep p (HookScript b) = (p, PNone, [])).
Proof.
  split; intros H; cbn; rewrite H; [|reflexivity].
  apply andb_true_iff in H. destruct H as (_ & X).
  destruct (exit_shape (pcfg p) (pst p) X) as (r & _ & _ & A & B & _).
  unfold exit_sequence. destruct (exitExcludedRegion (pcfg p) (pst p)) as [s' cmds]. cbn in *. auto.
Qed.

(** contributed at most once per episode: after the hook fired, firing it again contributes nothing *)
Theorem script_hook_once (p : plugin) (b b' : bool) : b && active p && excluding (pst p) = true ->
  pstep (fst (fst (pstep p (HookScript b)))) (HookScript b') = (fst (fst (pstep p (HookScript b))), PNone, []).
Proof.
  intros H. destruct (script_hook p b) as (A & _). destruct (A H) as (_ & X & _).
  destruct (script_hook (fst (fst (pstep p (HookScript b)))) b') as (_ & B). apply B. rewrite X. apply andb_false_r.
Qed.

(** *** C13: the registry *)
Definition ids (rs : list (region T)) : list string := map (@region_id T) rs.

Lemma get_region_none_notin (rs : list (region T)) id : get_region rs id = None -> ~ In id (ids rs).
Proof.
  unfold get_region, ids. induction rs as [|g t IH]; cbn; [tauto|].
  destruct (String.eqb (region_id g) id) eqn:E; [discriminate|]. intros H [H1|H1]; [subst; rewrite String.eqb_refl in E; discriminate | exact (IH H H1)].
Qed.
Lemma add_region_nodup (rs : list (region T)) g rs' : NoDup (ids rs) -> add_region rs g = Some rs' -> NoDup (ids rs') /\ rs' = rs ++ [g].
Proof.
  unfold add_region. intros ND. destruct (get_region rs (region_id g)) eqn:G; [discriminate|]. intros H. injection H as <-.
  split; [|reflexivity]. unfold ids. rewrite map_app. cbn.
  pose proof (Add_app (region_id g) (map region_id rs) []) as A. rewrite app_nil_r in A.
  apply (NoDup_Add A). split; [exact ND | apply get_region_none_notin; exact G].
Qed.
Lemma delete_region_ids (rs : list (region T)) id rs' : delete_region rs id = Some rs' ->
  exists a b g, rs = a ++ g :: b /\ rs' = a ++ b /\ region_id g = id.
Proof.
  revert rs'. induction rs as [|g t IH]; cbn; intros rs' H; [discriminate|].
  destruct (String.eqb (region_id g) id) eqn:E.
  - injection H as <-. exists [], t, g. apply String.eqb_eq in E. auto.
  - destruct (delete_region t id) as [t'|]; [|discriminate]. injection H as <-.
    destruct (IH t' eq_refl) as (a & b & g' & A & B & C). exists (g :: a), b, g'. subst. auto.
Qed.
Lemma delete_region_nodup (rs : list (region T)) id rs' : NoDup (ids rs) -> delete_region rs id = Some rs' -> NoDup (ids rs').
Proof.
  intros ND H. destruct (delete_region_ids rs id rs' H) as (a & b & g & -> & -> & _).
  unfold ids in *. rewrite map_app in *. cbn in ND. apply NoDup_remove_1 in ND. exact ND.
Qed.
Lemma replace_region_ids (rs : list (region T)) g mc rs' : replace_region rs g mc = Some rs' -> ids rs' = ids rs.
Proof.
  revert rs'. induction rs as [|o t IH]; cbn; intros rs' H; [discriminate|].
  destruct (String.eqb (region_id o) (region_id g)) eqn:E.
  - destruct (mc && negb (contains_region g o)); [discriminate|]. injection H as <-. cbn. apply String.eqb_eq in E. congruence.
  - destruct (replace_region t g mc) as [t'|]; [|discriminate]. injection H as <-. cbn. f_equal. apply IH. reflexivity.
Qed.

(** invariant: ids unique; every change of the list is notified exactly once with the new list;
    a response other than 200 (or an anonymous request) leaves the plugin untouched *)
Ltac fin := repeat split; auto; try constructor; try (intros; contradiction); try (intros; congruence).

Theorem registry_step (p : plugin) (ev : pevent) : NoDup (ids (regions (pst p))) ->
  let '(p', r, n) := pstep p ev in
  NoDup (ids (regions (pst p'))) /\
  (regions (pst p') <> regions (pst p) -> n = [regions (pst p')]) /\
  (n = [] \/ n = [regions (pst p')]) /\
  (match r with PHttp c => c <> 200 -> p' = p /\ n = [] | _ => True end).
Proof.
  intros ND. destruct ev; cbn.
  all: try (fin; fail).
  - destruct (clearAfter p); cbn; fin.
  - destruct (hasgcode && active p).
    + pose proof (proj1 (handle_regions_enabled (pcfg p) (pst p) m)) as R. destruct (handle (pcfg p) (pst p) m) as [s' r]. cbn in *.
      rewrite R. fin.
    + fin.
  - destruct (active p).
    + pose proof (handle_at_regions (pcfg p) (pst p) streaming matched) as R.
      destruct (handle_at (pcfg p) (pst p) streaming matched) as [[s' hd] sent]. cbn in *. rewrite R. fin.
    + fin.
  - destruct (is_gcode_afterPrintDone && active p && excluding (pst p)) eqn:H.
    + apply andb_true_iff in H. destruct H as (_ & X).
      destruct (exit_shape (pcfg p) (pst p) X) as (r & _ & _ & _ & _ & _ & _ & _ & R).
      destruct (exitExcludedRegion (pcfg p) (pst p)) as [s' cmds]. cbn in *. rewrite R. fin.
    + fin.
  - destruct anon; [fin|].
    destruct g as [g|]; [|fin].
    destruct (add_region (regions (pst p)) g) as [rs|] eqn:A; cbn.
    + destruct (add_region_nodup _ _ _ ND A) as (B & _). fin.
    + fin.
  - destruct anon; [fin|].
    destruct g as [g|]; [|fin].
    destruct (replace_region (regions (pst p)) g (negb (mayShrink p) && active p)) as [rs|] eqn:A; cbn.
    + pose proof (replace_region_ids _ _ _ _ A) as RI. unfold ids in *. cbn. rewrite RI. fin.
    + fin.
  - destruct anon; [fin|].
    destruct (negb (mayShrink p) && active p); [fin|].
    destruct (delete_region (regions (pst p)) id) as [rs|] eqn:A; cbn.
    + pose proof (delete_region_nodup _ _ _ ND A) as ND'. fin.
    + fin.
Qed.

Theorem get_returns_list (p : plugin) : snd (fst (pstep p ApiGet)) = PList (regions (pst p)).
Proof. reflexivity. Qed.

End PP.
