(** C12 -- the excluded area never shrinks during an active print unless allowed (R instance,
    via the soundness of the GENERATED containment tests). *)
From Coq Require Import Reals String Ascii List Bool.
From ER Require Import Base.GenPrelude Model.Geometry Model.Axis Model.Filter Model.Plugin
  Proofs.RegionsGen Proofs.Tie Proofs.Regions Proofs.FilterLemmas Proofs.Transparent Proofs.Deferred Proofs.Outputs Proofs.PluginProps.
Import ListNotations.
Open Scope R_scope.

Notation pluginR := (plugin R).
Notation peventR := (pevent R).

Definition covers (rs rs' : list (region R)) : Prop :=
  forall x y : R, any_contains rs x y = true -> any_contains rs' x y = true.

Lemma covers_refl rs : covers rs rs. Proof. intros x y H; exact H. Qed.
Lemma covers_trans a b c : covers a b -> covers b c -> covers a c.
Proof. intros H1 H2 x y H. apply H2, H1, H. Qed.

Lemma covers_add (rs : list (region R)) g rs' : add_region rs g = Some rs' -> covers rs rs'.
Proof.
  unfold add_region. destruct (get_region rs (region_id g)); [discriminate|]. intros H. injection H as <-.
  intros x y. unfold any_contains. rewrite existsb_app. intros ->. reflexivity.
Qed.

Lemma covers_replace (rs : list (region R)) g rs' : replace_region rs g true = Some rs' -> covers rs rs'.
Proof.
  revert rs'. induction rs as [|o t IH]; cbn; intros rs' H; [discriminate|].
  destruct (String.eqb (region_id o) (region_id g)).
  - destruct (contains_region g o) eqn:C; cbn in H; [|discriminate]. injection H as <-.
    intros x y. unfold any_contains. cbn. intros Hx. apply orb_true_iff in Hx. apply orb_true_iff.
    destruct Hx as [Hx|Hx]; [left; apply (contains_region_sound g o C x y Hx) | right; exact Hx].
  - destruct (replace_region t g true) as [t'|]; [|discriminate]. injection H as <-.
    specialize (IH t' eq_refl). intros x y. unfold any_contains. cbn. intros Hx. apply orb_true_iff in Hx. apply orb_true_iff.
    destruct Hx as [Hx|Hx]; [left; exact Hx | right; apply IH; exact Hx].
Qed.

(** events that neither end the print nor change the shrink permission *)
Definition keeps_print (ev : peventR) : bool :=
  match ev with
  | EvFileSelected | EvPrintEnd | EvPrintStarted | EvSettings _ _ _ => false
  | _ => true
  end.

Theorem restricted_step_monotone (p : pluginR) (ev : peventR) :
  active p = true -> mayShrink p = false -> keeps_print ev = true ->
  let p' := fst (fst (pstep p ev)) in
  covers (regions (pst p)) (regions (pst p')) /\ active p' = true /\ mayShrink p' = false /\
  (match snd (fst (pstep p ev)) with PHttp c => c <> 200%nat -> p' = p | _ => True end).
Proof.
  intros A M K. destruct ev; try discriminate; cbn; rewrite ?A, ?M; cbn.
  - repeat split; auto. apply covers_refl.
  - destruct hasgcode; cbn.
    + pose proof (proj1 (handle_regions_enabled (pcfg p) (pst p) m)) as R0. destruct (handle (pcfg p) (pst p) m) as [s' r]. cbn in *.
      rewrite R0. repeat split; auto. apply covers_refl.
    + repeat split; auto. apply covers_refl.
  - pose proof (handle_at_regions (pcfg p) (pst p) streaming matched) as R0.
    destruct (handle_at (pcfg p) (pst p) streaming matched) as [[s' hd] sent]. cbn in *. rewrite R0. repeat split; auto. apply covers_refl.
  - destruct is_gcode_afterPrintDone; cbn; [|repeat split; auto; apply covers_refl].
    destruct (excluding (pst p)) eqn:X; cbn; [|repeat split; auto; apply covers_refl].
    destruct (exit_shape (pcfg p) (pst p) X) as (r & _ & _ & _ & _ & _ & _ & _ & R0).
    destruct (exitExcludedRegion (pcfg p) (pst p)) as [s' cmds]. cbn in *. rewrite R0. repeat split; auto. apply covers_refl.
  - destruct anon; [cbn; repeat split; auto; apply covers_refl|].
    destruct g as [g|]; [|cbn; repeat split; auto; apply covers_refl].
    destruct (add_region (regions (pst p)) g) as [rs|] eqn:E; cbn; repeat split; auto; try apply covers_refl; try congruence.
    apply (covers_add _ _ _ E).
  - destruct anon; [cbn; repeat split; auto; apply covers_refl|].
    destruct g as [g|]; [|cbn; repeat split; auto; apply covers_refl].
    destruct (replace_region (regions (pst p)) g true) as [rs|] eqn:E; cbn; repeat split; auto; try apply covers_refl; try congruence.
    apply (covers_replace _ _ _ E).
  - destruct anon; cbn; repeat split; auto; apply covers_refl.
  - repeat split; auto. apply covers_refl.
Qed.

(** any sequence of requests / hook invocations while the print is active and shrinking is not allowed *)
Theorem restricted_run_monotone (h : list peventR) : forall p : pluginR,
  active p = true -> mayShrink p = false -> forallb keeps_print h = true ->
  covers (regions (pst p)) (regions (pst (fst (prun p h)))).
Proof.
  induction h as [|ev t IH]; intros p A M K; cbn; [apply covers_refl|].
  cbn in K. apply andb_true_iff in K. destruct K as (K1 & K2).
  destruct (restricted_step_monotone p ev A M K1) as (C & A' & M' & _).
  destruct (pstep p ev) as [[p1 r] n]. cbn [fst] in *.
  specialize (IH p1 A' M' K2). destruct (prun p1 t) as [p2 rs]. cbn [fst] in *.
  eapply covers_trans; eassumption.
Qed.
