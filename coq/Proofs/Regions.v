(** C17 / C12 support on the Tier H model (R instance), via the tie to the generated code. *)
From Coq Require Import Reals Lra Bool String List.
From ER Require Import Base.GenPrelude Gen.GenRegions Model.Geometry Proofs.RegionsGen Proofs.Tie.
Open Scope R_scope.

Notation regionR := (region R).

(** membership as a closed set *)
Definition in_region (g : regionR) (x y : R) : Prop :=
  match g with
  | Rect _ a b c d => a <= x <= c /\ b <= y <= d
  | Circ _ a b c => hypot (x - a) (y - b) <= c
  end.

Lemma contains_point_spec g x y : contains_point g x y = true <-> in_region g x y.
Proof.
  destruct g as [i a b c d|i a b c]; cbn [in_region].
  - rewrite tie_rect_point, rect_point_spec. unfold in_rect, rectR. cbn. tauto.
  - rewrite tie_circ_point, circ_point_dist. unfold circR. cbn. tauto.
Qed.

Theorem contains_region_sound (o i : regionR) : contains_region o i = true ->
  forall x y, contains_point i x y = true -> contains_point o x y = true.
Proof.
  destruct o as [io a b c d|io a b c]; destruct i as [ii a' b' c' d'|ii a' b' c'].
  - rewrite tie_rect_rect. intros H x y. rewrite !tie_rect_point. apply rect_rect_sound, H.
  - rewrite tie_rect_circ. intros H x y. rewrite tie_rect_point, tie_circ_point. apply rect_circ_sound, H.
  - rewrite tie_circ_rect. intros H x y. rewrite tie_rect_point, tie_circ_point. apply circ_rect_sound, H.
  - rewrite tie_circ_circ. intros H x y. rewrite !tie_circ_point. apply circ_circ_sound, H.
Qed.

(** corner order: the constructor's normalisation makes the four corner orders equivalent *)
Lemma mk_rect_spec i (a b c d x y : R) :
  contains_point (mk_rect i a b c d) x y = true <->
  Rmin a c <= x <= Rmax a c /\ Rmin b d <= y <= Rmax b d.
Proof.
  unfold mk_rect. numR. unfold Rltb, Rmin, Rmax.
  destruct (Rlt_dec c a); destruct (Rlt_dec d b); rewrite contains_point_spec; cbn [in_region];
  destruct (Rle_dec a c); destruct (Rle_dec b d); lra.
Qed.

Theorem corner_order i (a b c d x y : R) :
  contains_point (mk_rect i a b c d) x y = contains_point (mk_rect i c d a b) x y /\
  contains_point (mk_rect i a b c d) x y = contains_point (mk_rect i c b a d) x y /\
  contains_point (mk_rect i a b c d) x y = contains_point (mk_rect i a d c b) x y.
Proof.
  assert (E : forall p q : bool, (p = true <-> q = true) -> p = q).
  { intros [] [] H; auto; [symmetry|]; apply H; reflexivity. }
  split; [|split]; apply E; rewrite !mk_rect_spec;
    rewrite ?(Rmin_comm c a), ?(Rmax_comm c a), ?(Rmin_comm d b), ?(Rmax_comm d b); tauto.
Qed.

Lemma any_contains_spec (rs : list regionR) x y :
  any_contains rs x y = true <-> exists g, In g rs /\ contains_point g x y = true.
Proof. unfold any_contains. rewrite existsb_exists. tauto. Qed.
