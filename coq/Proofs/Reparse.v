(** C18 -- stability of the normalisation: re-parsing a command string yields the same code, sub-code, line number,
    parameters and command string.  The heart is the lazy parameter group (PARAMCHAR+?): a parameter text captured once
    is captured again, whole, when it stands alone. *)
From Coq Require Import NArith String Ascii List Bool Arith Lia.
From ER Require Import Model.Lexer Proofs.LexerProps.
Import ListNotations.
Local Open Scope string_scope.

Definition empty_tail : tailres := mkTail "" None "" None.

Lemma tail_nil : tail "" = Some empty_tail. Proof. reflexivity. Qed.

Lemma tail_blank c r : is_sp c = true ->
  tail (String c r) = match tail r with Some t => Some (mkTail (String c (t_ws t)) (t_cks t) (t_trail t) (t_comment t)) | None => None end.
Proof.
  intros H. unfold tail. cbn [span]. rewrite H. destruct (span is_sp r) as [ws r1].
  destruct r1 as [|c1 r2]; [reflexivity|].
  destruct (is_star c1).
  - destruct (span is_digit r2) as [ds r3]. destruct ds; [reflexivity|]. destruct (span is_sp r3) as [tr r4]. destruct (finish r4); reflexivity.
  - destruct (finish (String c1 r2)); reflexivity.
Qed.
Lemma tail_nonblank c r : is_sp c = false -> is_star c = false -> is_semi c = false -> tail (String c r) = None.
Proof. intros A B C. unfold tail. cbn [span]. rewrite A, B. cbn [finish]. rewrite C. reflexivity. Qed.
Lemma tail_semi c r : is_semi c = true -> exists t, tail (String c r) = Some t.
Proof.
  intros C. unfold tail. cbn [span]. assert (A : is_sp c = false) by (unfold is_semi, is_sp in *; apply Ascii.eqb_eq in C; subst c; reflexivity).
  assert (B : is_star c = false) by (unfold is_semi, is_star in *; apply Ascii.eqb_eq in C; subst c; reflexivity).
  rewrite A, B. cbn [finish]. rewrite C. eauto.
Qed.

Lemma bs_props c : is_bs c = true -> is_sp c = false /\ is_star c = false /\ is_semi c = false.
Proof. unfold is_bs. intros H. apply Ascii.eqb_eq in H. subst c. repeat split; reflexivity. Qed.

(** one step of the lazy matcher *)
Definition esc_of (c : ascii) (r' : string) : option (string * tailres) :=
  match r' with
  | String d r'' =>
      if is_bs c && (is_bs d || is_semi d) then
        match lazy_params r'' true with Some (p, t) => Some (String c (String d p), t) | None => None end
      else None
  | "" => None
  end.
Lemma lazy_step c r' consumed : lazy_params (String c r') consumed =
  match (if consumed then tail (String c r') else None) with
  | Some t => Some ("", t)
  | None =>
      match esc_of c r' with
      | Some x => Some x
      | None => if is_semi c || is_star c then None
                else match lazy_params r' true with Some (p, t) => Some (String c p, t) | None => None end
      end
  end.
Proof. destruct r'; reflexivity. Qed.
Lemma lazy_nil consumed : lazy_params "" consumed = if consumed then Some ("", empty_tail) else None.
Proof. destruct consumed; reflexivity. Qed.

(** the captured text never starts with ';' or '*', and starts like the input *)
Lemma lazy_first r b p t : lazy_params r b = Some (p, t) ->
  p = "" \/ exists c p0 r', r = String c r' /\ p = String c p0 /\ is_semi c = false /\ is_star c = false.
Proof.
  destruct r as [|c r']; [rewrite lazy_nil; destruct b; [intros H; injection H as <- <-; auto | discriminate]|].
  rewrite lazy_step. destruct (if b then tail (String c r') else None); [intros H; injection H as <- <-; auto|].
  destruct (esc_of c r') as [[q tq]|] eqn:E.
  - intros H. injection H as <- <-. right. unfold esc_of in E. destruct r' as [|d r'']; [discriminate|].
    destruct (is_bs c && (is_bs d || is_semi d)) eqn:B; [|discriminate]. apply andb_true_iff in B. destruct B as (B & _).
    destruct (bs_props c B) as (_ & B2 & B3).
    destruct (lazy_params r'' true) as [[p2 t2]|]; [|discriminate]. injection E as <- <-. eauto 10.
  - destruct (is_semi c || is_star c) eqn:S; [discriminate|]. apply orb_false_iff in S. destruct S as (S1 & S2).
    destruct (lazy_params r' true) as [[p1 t1]|]; [|discriminate]. intros H. injection H as <- <-. right. eauto 10.
Qed.

(** if no tail can follow the input, none can follow the captured text either *)
Lemma lazy_tail_none : forall n r, String.length r <= n -> forall p t, lazy_params r true = Some (p, t) -> tail r = None -> tail p = None.
Proof.
  induction n as [|n IH]; intros r Hn p t H T.
  - destruct r; [discriminate T | cbn in Hn; lia].
  - destruct r as [|c r']; [discriminate T|]. rewrite lazy_step in H. cbn [negb] in H. rewrite T in H.
    destruct (esc_of c r') as [[q tq]|] eqn:E.
    + injection H as <- <-. unfold esc_of in E. destruct r' as [|d r'']; [discriminate|].
      destruct (is_bs c && (is_bs d || is_semi d)) eqn:B; [|discriminate]. apply andb_true_iff in B. destruct B as (B & _).
      destruct (bs_props c B) as (B1 & B2 & B3).
      destruct (lazy_params r'' true) as [[p2 t2]|]; [|discriminate]. injection E as <- <-. apply tail_nonblank; assumption.
    + destruct (is_semi c || is_star c) eqn:S; [discriminate|]. apply orb_false_iff in S. destruct S as (S1 & S2).
      destruct (lazy_params r' true) as [[p1 t1]|] eqn:L1; [|discriminate]. injection H as <- <-.
      destruct (is_sp c) eqn:SP; [|apply tail_nonblank; assumption].
      rewrite (tail_blank c r' SP) in T. rewrite (tail_blank c p1 SP).
      destruct (tail r') eqn:T'; [discriminate|].
      rewrite (IH r' ltac:(cbn in Hn; lia) p1 t1 L1 T'). reflexivity.
Qed.

(** a backslash in front of text that cannot be matched does not help *)
Lemma lazy_bs_none c r2 : is_bs c = true -> lazy_params r2 true = None -> lazy_params (String c r2) true = None.
Proof.
  intros B N. destruct (bs_props c B) as (B1 & B2 & B3). rewrite lazy_step. rewrite (tail_nonblank c r2 B1 B2 B3).
  assert (E : esc_of c r2 = None).
  { unfold esc_of. destruct r2 as [|d2 r3]; [reflexivity|]. rewrite B. cbn [andb].
    destruct (is_bs d2 || is_semi d2) eqn:D; [|reflexivity]. apply orb_true_iff in D. destruct D as [D|D].
    - destruct (lazy_params r3 true) as [[p3 t3]|] eqn:L3; [|reflexivity]. exfalso.
      destruct (bs_props d2 D) as (D1 & D2 & D3). rewrite lazy_step in N. rewrite (tail_nonblank d2 r3 D1 D2 D3) in N.
      destruct (esc_of d2 r3); [discriminate|]. rewrite D3, D2, L3 in N. discriminate.
    - exfalso. destruct (tail_semi d2 r3 D) as (t & Ht). rewrite lazy_step, Ht in N. discriminate. }
  rewrite E, B3, B2, N. reflexivity.
Qed.

(** *** the captured text, standing alone, is captured again -- whole, with nothing after it *)
Lemma lazy_stable : forall n r, String.length r <= n -> forall consumed p t,
  lazy_params r consumed = Some (p, t) ->
  lazy_params p consumed = Some (p, empty_tail).
Proof.
  induction n as [|n IH]; intros r Hn consumed p t H.
  - destruct r; [|cbn in Hn; lia]. rewrite lazy_nil in H. destruct consumed; [|discriminate]. injection H as <- <-. reflexivity.
  - destruct r as [|c r'].
    { rewrite lazy_nil in H. destruct consumed; [|discriminate]. injection H as <- <-. reflexivity. }
    rewrite lazy_step in H.
    destruct (if consumed then tail (String c r') else None) as [t0|] eqn:T0.
    { injection H as <- <-. destruct consumed; [reflexivity | discriminate]. }
    destruct (esc_of c r') as [[q tq]|] eqn:E.
    + (* escape pair *)
      injection H as <- <-. unfold esc_of in E. destruct r' as [|d r'']; [discriminate|].
      destruct (is_bs c && (is_bs d || is_semi d)) eqn:B; [|discriminate].
      destruct (lazy_params r'' true) as [[p2 t2]|] eqn:L2; [|discriminate]. injection E as <- <-.
      pose proof (IH r'' ltac:(cbn in Hn; lia) true p2 t2 L2) as S2.
      apply andb_true_iff in B. destruct B as (Bc & Bd). destruct (bs_props c Bc) as (B1 & B2 & B3).
      rewrite lazy_step. rewrite (tail_nonblank c _ B1 B2 B3). replace (if consumed then None else None) with (@None tailres) by (destruct consumed; reflexivity).
      unfold esc_of. rewrite Bc, Bd. cbn [andb]. rewrite S2. reflexivity.
    + (* plain character *)
      destruct (is_semi c || is_star c) eqn:S; [discriminate|]. apply orb_false_iff in S. destruct S as (S1 & S2).
      destruct (lazy_params r' true) as [[p1 t1]|] eqn:L1; [|discriminate]. injection H as <- <-.
      pose proof (IH r' ltac:(cbn in Hn; lia) true p1 t1 L1) as St1.
      rewrite lazy_step.
      (* no tail directly after the first character *)
      assert (T1 : (if consumed then tail (String c p1) else None) = None).
      { destruct consumed; [|reflexivity]. destruct (is_sp c) eqn:SP; [|apply tail_nonblank; assumption].
        rewrite (tail_blank c r' SP) in T0. rewrite (tail_blank c p1 SP). destruct (tail r') eqn:T'; [discriminate|].
        rewrite (lazy_tail_none (String.length r') r' (le_n _) p1 t1 L1 T'). reflexivity. }
      rewrite T1.
      (* the escape alternative does not fire on the captured text either *)
      assert (E1 : esc_of c p1 = None).
      { unfold esc_of. destruct p1 as [|d1 p2]; [reflexivity|].
        destruct (is_bs c && (is_bs d1 || is_semi d1)) eqn:B; [|reflexivity]. exfalso.
        apply andb_true_iff in B. destruct B as (Bc & Bd).
        destruct (lazy_first r' true (String d1 p2) t1 L1) as [F|(c0 & p0 & r2 & Er & Ep & F1 & F2)]; [discriminate|].
        injection Ep as <- <-. subst r'. apply orb_true_iff in Bd. destruct Bd as [Bd|Bd]; [|congruence].
        (* c and the next character are both backslashes: then the escape alternative was tried on the input and failed *)
        unfold esc_of in E. rewrite Bc, Bd in E. cbn [andb orb] in E.
        destruct (lazy_params r2 true) as [[q tq]|] eqn:L2; [discriminate|].
        rewrite (lazy_bs_none d1 r2 Bd L2) in L1. discriminate. }
      rewrite E1, S1, S2. cbn [orb]. rewrite St1. reflexivity.
Qed.

Theorem params_stable r p t : lazy_params r false = Some (p, t) -> lazy_params p false = Some (p, empty_tail).
Proof. intros H. exact (lazy_stable (String.length r) r (le_n _) false p t H). Qed.

(** *** str(int) and int(str) *)
Lemma digit_char m : m < 10 -> is_digit (ascii_of_nat (48 + m)) = true /\ N.of_nat (nat_of_ascii (ascii_of_nat (48 + m)) - 48) = N.of_nat m.
Proof.
  intros H. unfold is_digit. rewrite nat_ascii_embedding by lia. split.
  - apply andb_true_iff. split; apply Nat.leb_le; lia.
  - f_equal. lia.
Qed.

Lemma show_fuel_digits : forall f n acc, (forall c, In c (list_ascii_of_string acc) -> is_digit c = true) ->
  forall c, In c (list_ascii_of_string (show_pos_fuel f n acc)) -> is_digit c = true.
Proof.
  induction f as [|f IH]; intros n acc Ha c Hc; cbn [show_pos_fuel] in Hc; [apply Ha; exact Hc|].
  assert (M : N.to_nat (n mod 10) < 10) by (pose proof (N.mod_lt n 10 ltac:(discriminate)); lia).
  assert (Hd : forall c0, In c0 (list_ascii_of_string (String (ascii_of_nat (48 + N.to_nat (n mod 10))) acc)) -> is_digit c0 = true).
  { intros c0 [<-|H0]; [apply (digit_char _ M) | apply Ha; exact H0]. }
  destruct (n / 10 =? 0)%N; [apply Hd; exact Hc | apply (IH _ _ Hd c Hc)].
Qed.
Lemma show_fuel_nonempty : forall f n acc, (f <> 0 \/ acc <> "") -> show_pos_fuel f n acc <> "".
Proof.
  induction f as [|f IH]; intros n acc H; cbn [show_pos_fuel]; [destruct H; congruence|].
  destruct (n / 10 =? 0)%N; [discriminate|]. apply IH. right. discriminate.
Qed.
Lemma show_fuel_value : forall f n acc, (n < 10 ^ N.of_nat f)%N -> digits_val (show_pos_fuel f n acc) 0 = digits_val acc n.
Proof.
  induction f as [|f IH]; intros n acc H.
  - cbn in H. assert (n = 0%N) by lia. subst n. reflexivity.
  - cbn [show_pos_fuel].
    assert (M : N.to_nat (n mod 10) < 10) by (pose proof (N.mod_lt n 10 ltac:(discriminate)); lia).
    destruct (digit_char _ M) as (_ & DV). rewrite N2Nat.id in DV.
    pose proof (N.div_mod n 10 ltac:(discriminate)) as DM.
    destruct (n / 10 =? 0)%N eqn:Z.
    + apply N.eqb_eq in Z. cbn [digits_val]. rewrite DV. f_equal. lia.
    + rewrite IH.
      * cbn [digits_val]. rewrite DV. f_equal. lia.
      * rewrite Nat2N.inj_succ, N.pow_succ_r' in H. apply N.div_lt_upper_bound; [discriminate | exact H].
Qed.

Lemma show_N_digits n : forall c, In c (list_ascii_of_string (show_N n)) -> is_digit c = true.
Proof. unfold show_N. apply show_fuel_digits. intros c []. Qed.
Lemma show_N_nonempty n : show_N n <> "".
Proof. unfold show_N. apply show_fuel_nonempty. left. discriminate. Qed.
Lemma num_of_show n : num_of (show_N n) = n.
Proof.
  unfold num_of, show_N. rewrite show_fuel_value; [reflexivity|].
  rewrite Nat2N.inj_succ, N2Nat.id.
  destruct n as [|p]; [reflexivity|].
  apply N.lt_le_trans with (2 ^ N.succ (N.log2 (N.pos p)))%N.
  - apply N.log2_spec. reflexivity.
  - apply N.pow_le_mono_l. lia.
Qed.

(** *** the canonical spelling produced by stringify, and how alt1 reads it *)
From ER Require Import Model.Words Proofs.WordsProps.

Definition canon (ln : option N) (t : ascii) (num : N) (sub : option N) (ps : option string) : string :=
  (match ln with Some n => String "N" (show_N n ++ " ") | None => "" end) ++
  String t (show_N num ++ (match sub with Some n => String "." (show_N n) | None => "" end)
                       ++ (match ps with Some p => String " " p | None => "" end)).

Definition is_code_letter (t : ascii) : Prop := t = "G"%char \/ t = "M"%char \/ t = "T"%char.

Lemma span_digits_show n rest : (match rest with "" => True | String c _ => is_digit c = false end) ->
  span is_digit (show_N n ++ rest) = (show_N n, rest).
Proof. intros H. apply span_all; [apply show_N_digits | exact H]. Qed.

Lemma head_show n : exists d s, show_N n = String d s /\ is_digit d = true.
Proof.
  pose proof (show_N_nonempty n) as NE. pose proof (show_N_digits n) as D.
  destruct (show_N n) as [|d s]; [congruence|]. exists d, s. split; [reflexivity | apply D; left; reflexivity].
Qed.
Lemma digit_not_sp d : is_digit d = true -> is_sp d = false.
Proof.
  unfold is_digit, is_sp. intros H. destruct (Ascii.eqb_spec d " ") as [->|]; [discriminate | reflexivity].
Qed.

Lemma alt1_canon ln t num sub ps :
  is_code_letter t -> (t = "T"%char -> sub = None) ->
  (forall p, ps = Some p -> lazy_params p false = Some (p, empty_tail) /\ exists c p0, p = String c p0 /\ is_sp c = false) ->
  alt1 (canon ln t num sub ps) =
  Some (mkAlt1 (match ln with Some n => String "N" (show_N n) ++ " " | None => "" end)
               (mkCode (option_map show_N ln) t (is_T t) "" (show_N num) (option_map show_N sub))
               (match ps with Some _ => " " | None => "" end) ps empty_tail).
Proof.
  intros CL TS PS. unfold alt1, canon.
  set (body := String t (show_N num ++ (match sub with Some n => String "." (show_N n) | None => "" end)
                                   ++ (match ps with Some p => String " " p | None => "" end))).
  assert (NT : is_N t = false) by (destruct CL as [->|[->| ->]]; reflexivity).
  assert (GT : is_GM t || is_T t = true) by (destruct CL as [->|[->| ->]]; reflexivity).
  (* the optional line number *)
  assert (F : (match (match ln with Some n => String "N" (show_N n ++ " ") | None => "" end) ++ body with
               | String n r0 => if is_N n then let '(ds, r0') := span is_digit r0 in
                                  match ds with "" => ("", None, (match ln with Some n => String "N" (show_N n ++ " ") | None => "" end) ++ body)
                                             | _ => (String n ds, Some ds, r0') end
                                else ("", None, (match ln with Some n => String "N" (show_N n ++ " ") | None => "" end) ++ body)
               | "" => ("", None, (match ln with Some n => String "N" (show_N n ++ " ") | None => "" end) ++ body) end)
              = (match ln with Some n => String "N" (show_N n) | None => "" end, option_map show_N ln,
                 (match ln with Some _ => " " | None => "" end) ++ body)).
  { destruct ln as [n|].
    - cbn [append]. change (is_N "N") with true. cbv iota. rewrite append_assoc.
      rewrite (span_digits_show n (" " ++ body)) by reflexivity.
      destruct (head_show n) as (d & s & E & _). cbn [option_map append]. rewrite E. reflexivity.
    - cbn [append]. unfold body at 1. rewrite NT. reflexivity. }
  rewrite F. clear F.
  assert (S1 : span is_sp ((match ln with Some _ => " " | None => "" end) ++ body) = (match ln with Some _ => " " | None => "" end, body)).
  { assert (TB : is_sp t = false) by (destruct CL as [->|[->| ->]]; reflexivity).
    destruct ln; cbn [append span]; unfold body; cbn [span]; rewrite TB; reflexivity. }
  rewrite S1. unfold body at 1. rewrite GT.
  (* digits of the code *)
  set (tailpart := (match sub with Some n => String "." (show_N n) | None => "" end) ++ (match ps with Some p => String " " p | None => "" end)).
  destruct (head_show num) as (d & s & E & Dd).
  assert (S2 : span is_sp (show_N num ++ tailpart) = ("", show_N num ++ tailpart)).
  { rewrite E. cbn [append span]. rewrite (digit_not_sp d Dd). reflexivity. }
  rewrite S2.
  assert (S3 : span is_digit (show_N num ++ tailpart) = (show_N num, tailpart)).
  { apply span_digits_show. unfold tailpart. destruct sub; [reflexivity|]. destruct ps; [reflexivity | exact I]. }
  rewrite S3. rewrite E at 1.
  (* the sub code *)
  assert (SB : (if is_GM t then
                  match tailpart with
                  | String dot r5' => if Ascii.eqb dot "." then let '(sd, r5'') := span is_digit r5' in
                                        match sd with "" => (None, tailpart) | _ => (Some sd, r5'') end
                                      else (None, tailpart)
                  | "" => (None, tailpart) end
                else (None, tailpart)) = (option_map show_N sub, match ps with Some p => String " " p | None => "" end)).
  { unfold tailpart. destruct sub as [sn|].
    - assert (G : is_GM t = true) by (destruct CL as [->|[->| ->]]; [reflexivity | reflexivity | specialize (TS eq_refl); discriminate]).
      rewrite G. cbn [append]. change (Ascii.eqb "." ".") with true. cbv iota.
      rewrite (span_digits_show sn (match ps with Some p => String " " p | None => "" end)) by (destruct ps; [reflexivity | exact I]).
      destruct (head_show sn) as (d2 & s2 & E2 & _). cbn [option_map]. rewrite E2. reflexivity.
    - cbn [append option_map]. destruct (is_GM t); [|reflexivity]. destruct ps; reflexivity. }
  rewrite SB. clear SB.
  (* blanks and parameters *)
  destruct ps as [p|].
  - destruct (PS p eq_refl) as (LP & c & p0 & Ep & Cb).
    assert (S4 : span is_sp (String " " p) = (" ", p)) by (rewrite Ep; cbn [span]; rewrite Cb; reflexivity).
    rewrite S4, LP. destruct ln; reflexivity.
  - cbn [span]. rewrite lazy_nil. rewrite tail_nil. destruct ln; reflexivity.
Qed.

(** *** what a successful alt1 guarantees about its pieces *)
Lemma alt1_inv r a : alt1 r = Some a ->
  (is_GM (c_type (a_code a)) || is_T (c_type (a_code a)) = true) /\
  (is_GM (c_type (a_code a)) = false -> c_sub (a_code a) = None) /\
  (forall ps, a_params a = Some ps ->
     exists r7 tl, lazy_params r7 false = Some (ps, tl) /\ match r7 with String c _ => is_sp c = false | "" => True end).
Proof.
  unfold alt1.
  destruct (match r with
            | String n r0 => if is_N n then let '(ds, r0') := span is_digit r0 in
                               match ds with "" => ("", None, r) | _ => (String n ds, Some ds, r0') end
                             else ("", None, r)
            | "" => ("", None, r) end) as [[pre lnum] r1].
  destruct (span is_sp r1) as [ws1 r2].
  destruct r2 as [|t r3]; [discriminate|].
  destruct (is_GM t || is_T t) eqn:GT; [|discriminate].
  destruct (span is_sp r3) as [wsc r4].
  destruct (span is_digit r4) as [ds r5].
  destruct ds as [|d0 ds']; [discriminate|].
  set (subr := if is_GM t then
                 match r5 with
                 | String dot r5' => if Ascii.eqb dot "." then let '(sd, r5'') := span is_digit r5' in
                                       match sd with "" => (None, r5) | _ => (Some sd, r5'') end
                                     else (None, r5)
                 | "" => (None, r5) end
               else (None, r5)).
  assert (SB : is_GM t = false -> fst subr = None) by (intros G; unfold subr; rewrite G; reflexivity).
  destruct subr as [sub r6]. cbn [fst] in SB.
  destruct (span is_sp r6) as [ws2 r7] eqn:S4.
  assert (H7 : match r7 with String c _ => is_sp c = false | "" => True end).
  { clear - S4. revert ws2 r7 S4. induction r6 as [|c r6 IH]; intros ws2 r7 S4; cbn in S4.
    - injection S4 as <- <-. exact I.
    - destruct (is_sp c) eqn:E.
      + destruct (span is_sp r6) as [a b]. injection S4 as <- <-. apply (IH a b eq_refl).
      + injection S4 as <- <-. exact E. }
  destruct (lazy_params r7 false) as [[p tl]|] eqn:L.
  - intros H. injection H as <-. cbn [a_code a_params c_type c_sub]. repeat split; [exact GT | exact SB|].
    intros ps E. injection E as <-. eauto.
  - destruct (tail r7) as [tl|]; [|discriminate]. intros H. injection H as <-. cbn [a_code a_params c_type c_sub].
    repeat split; [exact GT | exact SB | discriminate].
Qed.

Lemma lazy_false_head r p t : lazy_params r false = Some (p, t) ->
  exists c p0 r', r = String c r' /\ p = String c p0.
Proof.
  intros H. destruct r as [|c r']; [discriminate|]. rewrite lazy_step in H.
  destruct (esc_of c r') as [[q tq]|] eqn:E.
  - injection H as <- <-. unfold esc_of in E. destruct r' as [|d r'']; [discriminate|].
    destruct (is_bs c && (is_bs d || is_semi d)); [|discriminate]. destruct (lazy_params r'' true) as [[p2 t2]|]; [|discriminate].
    injection E as <- <-. eauto.
  - destruct (is_semi c || is_star c); [discriminate|]. destruct (lazy_params r' true) as [[p1 t1]|]; [|discriminate].
    injection H as <- <-. eauto.
Qed.

(** *** characters: nothing in a command string ends a line *)
Definition no_eol (s : string) : Prop := forall c, In c (list_ascii_of_string s) -> is_eolc c = false.
Lemma in_app_string a b c : In c (list_ascii_of_string (a ++ b)) <-> In c (list_ascii_of_string a) \/ In c (list_ascii_of_string b).
Proof. induction a as [|x a IH]; cbn; [tauto|]. rewrite IH. tauto. Qed.
Lemma no_eol_app a b : no_eol (a ++ b) <-> no_eol a /\ no_eol b.
Proof.
  unfold no_eol. split.
  - intros H. split; intros c Hc; apply H; apply in_app_string; auto.
  - intros (A & B) c Hc. apply in_app_string in Hc. destruct Hc; auto.
Qed.
Lemma span_fst_all f s : forall c, In c (list_ascii_of_string (fst (span f s))) -> f c = true.
Proof.
  induction s as [|x s IH]; cbn; [tauto|]. destruct (f x) eqn:E; [|cbn; tauto].
  destruct (span f s) as [a b]. cbn in *. intros c [<-|H]; [exact E | apply IH; exact H].
Qed.
Lemma split_eol_body_no_eol s : no_eol (fst (fst (split_eol s))).
Proof.
  unfold split_eol. pose proof (span_fst_all (fun c => negb (is_eolc c)) s) as H.
  destruct (span (fun c => negb (is_eolc c)) s) as [body r]. cbn [fst] in H.
  assert (B : no_eol body) by (intros c Hc; specialize (H c Hc); destruct (is_eolc c); [discriminate | reflexivity]).
  destruct r as [|c r']; [exact B|]. destruct (is_cr c); [|exact B]. destruct r' as [|d r'']; [exact B|]. destruct (is_lf d); exact B.
Qed.
Lemma split_eol_noeol s : no_eol s -> split_eol s = (s, "", "").
Proof.
  intros H. unfold split_eol.
  assert (E : span (fun c => negb (is_eolc c)) s = (s, "")).
  { pose proof (span_all (fun c => negb (is_eolc c)) s "") as A. rewrite append_nil_r in A. apply A; [|exact I].
    intros c Hc. rewrite (H c Hc). reflexivity. }
  rewrite E. reflexivity.
Qed.
Lemma digits_no_eol s : (forall c, In c (list_ascii_of_string s) -> is_digit c = true) -> no_eol s.
Proof.
  intros H c Hc. specialize (H c Hc). unfold is_digit in H. unfold is_eolc, is_cr, is_lf.
  destruct (Ascii.eqb_spec c "013") as [->|]; [discriminate|]. destruct (Ascii.eqb_spec c "010") as [->|]; [discriminate | reflexivity].
Qed.
Lemma blanks_no_eol s : (forall c, In c (list_ascii_of_string s) -> is_sp c = true) -> no_eol s.
Proof.
  intros H c Hc. specialize (H c Hc). unfold is_sp in H. apply Ascii.eqb_eq in H. subst c. reflexivity.
Qed.

(** *** the theorem *)
Definition cs_of (lead : string) (k : codeinfo) (ps : option string) : string :=
  lead ++ canon (lineno_of k) (upper (c_type k)) (num_of (c_digits k)) (subcode_of k) ps.

Lemma command_string_canon p k : g_code p = Some k -> command_string p = cs_of (g_lead p) k (g_params p).
Proof.
  intros H. unfold command_string, stringify, cs_of, canon. rewrite H. unfold gcode_of.
  destruct (lineno_of k) as [n|], (subcode_of k) as [sn|], (g_params p) as [q|];
    cbn [andb join List.app String.append append]; rewrite ?append_assoc; cbn [append]; rewrite ?append_nil_r; rewrite ?append_assoc; cbn [append]; reflexivity.
Qed.

Lemma code_letter_upper t : is_GM t || is_T t = true -> is_code_letter (upper t) /\ (upper t = "T"%char -> is_GM t = false).
Proof.
  unfold is_GM, is_T, is_code_letter. intros H.
  destruct (Ascii.eqb_spec (upper t) "G") as [E|NG]; [rewrite E; split; [auto | discriminate]|].
  destruct (Ascii.eqb_spec (upper t) "M") as [E|NM]; [rewrite E; split; [auto | discriminate]|].
  destruct (Ascii.eqb_spec (upper t) "T") as [E|NT]; [rewrite E; split; [auto | reflexivity]|].
  discriminate.
Qed.
Lemma upper_code_letter t : is_code_letter t -> upper t = t.
Proof. intros [->|[->| ->]]; reflexivity. Qed.

Lemma no_eol_canon ln t num sub ps : is_code_letter t -> (forall p, ps = Some p -> no_eol p) -> no_eol (canon ln t num sub ps).
Proof.
  intros CL PS. unfold canon.
  assert (T1 : no_eol (String t "")) by (intros c [<-|[]]; destruct CL as [->|[->| ->]]; reflexivity).
  assert (SP : no_eol " ") by (intros c [<-|[]]; reflexivity).
  assert (DT : no_eol ".") by (intros c [<-|[]]; reflexivity).
  assert (NN : no_eol "N") by (intros c [<-|[]]; reflexivity).
  assert (SH : forall n, no_eol (show_N n)) by (intros n; apply digits_no_eol, show_N_digits).
  apply no_eol_app. split.
  - destruct ln as [n|]; [|intros c []]. change (String "N" (show_N n ++ " ")) with ("N" ++ show_N n ++ " ").
    apply no_eol_app. split; [exact NN|]. apply no_eol_app. split; [apply SH | exact SP].
  - change (String t ?x) with (String t "" ++ x). apply no_eol_app. split; [exact T1|].
    apply no_eol_app. split; [apply SH|]. apply no_eol_app. split.
    + destruct sub as [sn|]; [|intros c []]. change (String "." (show_N sn)) with ("." ++ show_N sn). apply no_eol_app. split; [exact DT | apply SH].
    + destruct ps as [p|]; [|intros c []]. change (String " " p) with (" " ++ p). apply no_eol_app. split; [exact SP | apply PS; reflexivity].
Qed.

Theorem reparse_stable s : forall k, g_code (fst (parse_line s)) = Some k ->
  let p := fst (parse_line s) in
  let p' := fst (parse_line (command_string p)) in
  (exists k', g_code p' = Some k' /\ gcode_of k' = gcode_of k /\ subcode_of k' = subcode_of k /\ lineno_of k' = lineno_of k) /\
  g_params p' = g_params p /\ command_string p' = command_string p.
Proof.
  intros k HK p p'.
  (* the original parse *)
  assert (ORIG : exists lead r a, g_lead p = lead /\ g_params p = a_params a /\ a_code a = k /\ alt1 r = Some a /\
                   (forall c, In c (list_ascii_of_string lead) -> is_sp c = true) /\ no_eol (lead ++ r)).
  { unfold p in *. unfold parse_line in *. pose proof (split_eol_body_no_eol s) as NB.
    destruct (split_eol s) as [[body eol] rest]. cbn [fst] in *. unfold parse_body in *.
    pose proof (span_fst_all is_sp body) as LB. pose proof (span_app is_sp body) as SA.
    destruct (span is_sp body) as [lead r]. cbn [fst snd] in *.
    destruct (alt1 r) as [a|] eqn:A.
    - cbn [g_code g_lead g_params] in *. injection HK as HK. exists lead, r, a. rewrite SA. auto 10.
    - destruct (alt2 r) as [[tx tr] cm]. cbn [g_code] in HK. discriminate. }
  destruct ORIG as (lead & r & a & EL & EP & EK & A & LB & NE).
  destruct (alt1_inv r a A) as (GT & SUBN & PSI). rewrite EK in GT, SUBN.
  destruct (code_letter_upper (c_type k) GT) as (CL & TN).
  pose proof (alt1_lossless r a A) as LL.
  (* facts about the parameters *)
  assert (PS : forall q, a_params a = Some q -> (lazy_params q false = Some (q, empty_tail) /\ exists c p0, q = String c p0 /\ is_sp c = false) /\ no_eol q).
  { intros q Eq. destruct (PSI q Eq) as (r7 & tl & L7 & H7). split.
    - split; [apply (params_stable r7 q tl L7)|]. destruct (lazy_false_head r7 q tl L7) as (c & p0 & r' & -> & ->). eauto.
    - apply no_eol_app in NE. destruct NE as (_ & NR). rewrite <- LL in NR. rewrite Eq in NR. cbn [ostr] in NR.
      apply no_eol_app in NR. destruct NR as (_ & NR). apply no_eol_app in NR. destruct NR as (_ & NR).
      apply no_eol_app in NR. destruct NR as (_ & NR). apply no_eol_app in NR. destruct NR as (NR & _). exact NR. }
  assert (TS : upper (c_type k) = "T"%char -> subcode_of k = None).
  { intros E. unfold subcode_of. rewrite (SUBN (TN E)). reflexivity. }
  (* the command string and its parse *)
  assert (CS : command_string p = cs_of lead k (a_params a)) by (rewrite (command_string_canon p k HK), EL, EP; reflexivity).
  set (cn := canon (lineno_of k) (upper (c_type k)) (num_of (c_digits k)) (subcode_of k) (a_params a)) in *.
  assert (NC : no_eol (lead ++ cn)).
  { apply no_eol_app. split; [apply blanks_no_eol; exact LB|]. apply no_eol_canon; [exact CL|]. intros q Eq. apply (PS q Eq). }
  assert (HEAD : match cn with "" => True | String c _ => is_sp c = false end).
  { unfold cn, canon. destruct (lineno_of k); [reflexivity|]. cbn [append]. destruct CL as [->|[->| ->]]; reflexivity. }
  assert (A' : alt1 cn = Some (mkAlt1 (match lineno_of k with Some n => String "N" (show_N n) ++ " " | None => "" end)
               (mkCode (option_map show_N (lineno_of k)) (upper (c_type k)) (is_T (upper (c_type k))) "" (show_N (num_of (c_digits k))) (option_map show_N (subcode_of k)))
               (match a_params a with Some _ => " " | None => "" end) (a_params a) empty_tail)).
  { apply alt1_canon; [exact CL | exact TS|]. intros q Eq. apply (PS q Eq). }
  set (k' := mkCode (option_map show_N (lineno_of k)) (upper (c_type k)) (is_T (upper (c_type k))) "" (show_N (num_of (c_digits k))) (option_map show_N (subcode_of k))) in *.
  assert (P' : g_code p' = Some k' /\ g_params p' = a_params a /\ g_lead p' = lead).
  { unfold p'. rewrite CS. unfold cs_of. fold cn. unfold parse_line. rewrite (split_eol_noeol _ NC). cbn [fst]. unfold parse_body.
    rewrite (span_all is_sp lead cn LB HEAD). rewrite A'. cbn [g_code g_params g_lead a_code a_params]. auto. }
  destruct P' as (PK & PP & PL).
  assert (G1 : gcode_of k' = gcode_of k).
  { unfold gcode_of, k'. cbn [c_type c_digits]. rewrite num_of_show, (upper_code_letter _ CL). reflexivity. }
  assert (G2 : subcode_of k' = subcode_of k).
  { unfold subcode_of at 1. unfold k'. cbn [c_sub]. destruct (subcode_of k); cbn [option_map]; [rewrite num_of_show|]; reflexivity. }
  assert (G3 : lineno_of k' = lineno_of k).
  { unfold lineno_of at 1. unfold k'. cbn [c_lnum]. destruct (lineno_of k); cbn [option_map]; [rewrite num_of_show|]; reflexivity. }
  split; [exists k'; auto|]. split; [rewrite PP, EP; reflexivity|].
  rewrite (command_string_canon p' k' PK), CS, PL, PP. unfold cs_of. rewrite G2, G3. unfold k' at 1 2. cbn [c_type c_digits].
  rewrite num_of_show, (upper_code_letter _ CL). reflexivity.
Qed.

(** *** a line rendered with line number and checksum validates against its own checksum *)
Lemma span_app_nonempty f a b u c v : span f a = (u, String c v) -> span f (a ++ b) = (u, String c v ++ b).
Proof.
  revert u. induction a as [|x a IH]; intros u H; cbn in H; [discriminate|].
  cbn [append span]. destruct (f x) eqn:E.
  - destruct (span f a) as [u1 v1] eqn:S. injection H as <- ->. rewrite (IH u1 eq_refl). reflexivity.
  - injection H as <- <- <-. cbn [append]. reflexivity.
Qed.

Lemma tail_none_app q y : tail q = None -> tail (q ++ String " " y) = None.
Proof.
  unfold tail. destruct (span is_sp q) as [ws r1] eqn:S1. destruct r1 as [|c r2]; [discriminate|].
  rewrite (span_app_nonempty is_sp q (String " " y) ws c r2 S1). cbn [append].
  destruct (is_star c) eqn:ST.
  - destruct (span is_digit r2) as [ds r3] eqn:S2. destruct ds as [|d ds'].
    + intros _. destruct r2 as [|c2 r2'].
      * cbn [append span]. change (is_digit " ") with false. reflexivity.
      * cbn [span] in S2. destruct (is_digit c2) eqn:D2; [destruct (span is_digit r2'); discriminate|].
        cbn [append span]. rewrite D2. reflexivity.
    + destruct (span is_sp r3) as [tr r4] eqn:S3. destruct (finish r4) as [cm|] eqn:F; [discriminate|]. intros _.
      destruct r4 as [|c4 r4']; [discriminate F|].
      assert (R3 : exists c3 r3', r3 = String c3 r3').
      { destruct r3 as [|c3 r3']; [cbn in S3; discriminate | eauto]. }
      destruct R3 as (c3 & r3' & ->).
      rewrite (span_app_nonempty is_digit r2 (String " " y) (String d ds') c3 r3' S2).
      rewrite (span_app_nonempty is_sp (String c3 r3') (String " " y) tr c4 r4' S3).
      cbn [append finish] in *. destruct (is_semi c4); [discriminate | reflexivity].
  - cbn [finish]. destruct (is_semi c); [discriminate | reflexivity].
Qed.

Lemma lazy_app : forall n p, String.length p <= n -> forall consumed y tx,
  lazy_params p consumed = Some (p, empty_tail) -> tail (String " " y) = Some tx ->
  lazy_params (p ++ String " " y) consumed = Some (p, tx).
Proof.
  induction n as [|n IH]; intros p Hn consumed y tx H T.
  - destruct p; [|cbn in Hn; lia]. rewrite lazy_nil in H. destruct consumed; [|discriminate]. cbn [append]. rewrite lazy_step, T. reflexivity.
  - destruct p as [|c p'].
    { rewrite lazy_nil in H. destruct consumed; [|discriminate]. cbn [append]. rewrite lazy_step, T. reflexivity. }
    rewrite lazy_step in H. cbn [append]. rewrite lazy_step.
    destruct (if consumed then tail (String c p') else None) as [t0|] eqn:T0; [injection H as H _; discriminate|].
    assert (T0' : (if consumed then tail (String c (p' ++ String " " y)) else None) = None).
    { destruct consumed; [|reflexivity]. apply (tail_none_app (String c p') y T0). }
    rewrite T0'.
    destruct (esc_of c p') as [[q tq]|] eqn:E.
    + injection H as Hq Ht. subst tq. unfold esc_of in E. destruct p' as [|d p'']; [discriminate|].
      destruct (is_bs c && (is_bs d || is_semi d)) eqn:B; [|discriminate].
      destruct (lazy_params p'' true) as [[p2 t2]|] eqn:L2; [|discriminate]. injection E as E1 E2. subst q t2.
      injection Hq as ->.
      cbn [append]. unfold esc_of. rewrite B. rewrite (IH p'' ltac:(cbn in Hn; lia) true y tx L2 T). reflexivity.
    + destruct (is_semi c || is_star c) eqn:S; [discriminate|].
      destruct (lazy_params p' true) as [[p1 t1]|] eqn:L1; [|discriminate]. injection H as -> ->.
      assert (E' : esc_of c (p' ++ String " " y) = None).
      { unfold esc_of. destruct p' as [|d p'']; cbn [append].
        - change (is_bs " ") with false. change (is_semi " ") with false. rewrite andb_false_r. reflexivity.
        - destruct (is_bs c && (is_bs d || is_semi d)) eqn:B; [|reflexivity]. exfalso.
          apply andb_true_iff in B. destruct B as (Bc & Bd).
          destruct (lazy_first (String d p'') true (String d p'') empty_tail L1) as [F|(c0 & p0 & r' & Er & _ & F1 & F2)]; [discriminate|].
          injection Er as <- <-. apply orb_true_iff in Bd. destruct Bd as [Bd|Bd]; [|congruence].
          unfold esc_of in E. rewrite Bc, Bd in E. cbn [andb orb] in E.
          destruct (lazy_params p'' true) as [[q tq]|] eqn:L2; [discriminate|].
          rewrite (lazy_bs_none d p'' Bd L2) in L1. discriminate. }
      rewrite E'. rewrite (IH p' ltac:(cbn in Hn; lia) true y tx L1 T). reflexivity.
Qed.

Definition canon_e (ln : option N) (t : ascii) (num : N) (sub : option N) (ps : option string) (e : string) : string :=
  (match ln with Some n => String "N" (show_N n ++ " ") | None => "" end) ++
  String t (show_N num ++ (match sub with Some n => String "." (show_N n) | None => "" end)
                       ++ (match ps with Some p => String " " p | None => "" end) ++ e).
Lemma canon_e_eq ln t num sub ps e : canon_e ln t num sub ps e = canon ln t num sub ps ++ e.
Proof. unfold canon_e, canon. rewrite !append_assoc. cbn [append]. rewrite !append_assoc. reflexivity. Qed.

(** alt1 on the canonical spelling followed by " *<digits>" *)
Lemma alt1_canon_cks ln t num sub ps dd :
  is_code_letter t -> (t = "T"%char -> sub = None) ->
  (forall p, ps = Some p -> lazy_params p false = Some (p, empty_tail) /\ exists c p0, p = String c p0 /\ is_sp c = false) ->
  (forall c, In c (list_ascii_of_string dd) -> is_digit c = true) -> dd <> "" ->
  alt1 (canon_e ln t num sub ps (String " " (String "*" dd))) =
  Some (mkAlt1 (match ln with Some n => String "N" (show_N n) ++ " " | None => "" end)
               (mkCode (option_map show_N ln) t (is_T t) "" (show_N num) (option_map show_N sub))
               " " ps (mkTail (match ps with Some _ => " " | None => "" end) (Some dd) "" None)).
Proof.
  intros CL TS PS DD DN.
  assert (TX : forall w : unit, tail (String " " (String "*" dd)) = Some (mkTail " " (Some dd) "" None) /\ tail (String "*" dd) = Some (mkTail "" (Some dd) "" None)).
  { intros _. unfold tail. cbn [span]. change (is_sp " ") with true. change (is_sp "*") with false. cbv iota. change (is_star "*") with true. cbv iota.
    pose proof (span_all is_digit dd "" DD I) as SD. rewrite append_nil_r in SD. rewrite SD. destruct dd; [congruence|]. cbn. auto. }
  destruct (TX tt) as (TX1 & TX2). clear TX.
  set (e := String " " (String "*" dd)).
  unfold alt1, canon_e.
  set (body := String t (show_N num ++ (match sub with Some n => String "." (show_N n) | None => "" end)
                                   ++ (match ps with Some p => String " " p | None => "" end) ++ e)).
  assert (NT : is_N t = false) by (destruct CL as [->|[->| ->]]; reflexivity).
  assert (GT : is_GM t || is_T t = true) by (destruct CL as [->|[->| ->]]; reflexivity).
  assert (F : (match (match ln with Some n => String "N" (show_N n ++ " ") | None => "" end) ++ body with
               | String n r0 => if is_N n then let '(ds, r0') := span is_digit r0 in
                                  match ds with "" => ("", None, (match ln with Some n => String "N" (show_N n ++ " ") | None => "" end) ++ body)
                                             | _ => (String n ds, Some ds, r0') end
                                else ("", None, (match ln with Some n => String "N" (show_N n ++ " ") | None => "" end) ++ body)
               | "" => ("", None, (match ln with Some n => String "N" (show_N n ++ " ") | None => "" end) ++ body) end)
              = (match ln with Some n => String "N" (show_N n) | None => "" end, option_map show_N ln,
                 (match ln with Some _ => " " | None => "" end) ++ body)).
  { destruct ln as [n|].
    - cbn [append]. change (is_N "N") with true. cbv iota. rewrite append_assoc.
      rewrite (span_digits_show n (" " ++ body)) by reflexivity.
      destruct (head_show n) as (d & s & E & _). cbn [option_map append]. rewrite E. reflexivity.
    - cbn [append]. unfold body at 1. rewrite NT. reflexivity. }
  rewrite F. clear F.
  assert (S1 : span is_sp ((match ln with Some _ => " " | None => "" end) ++ body) = (match ln with Some _ => " " | None => "" end, body)).
  { assert (TB : is_sp t = false) by (destruct CL as [->|[->| ->]]; reflexivity).
    destruct ln; cbn [append span]; unfold body; cbn [span]; rewrite TB; reflexivity. }
  rewrite S1. unfold body at 1. rewrite GT.
  set (tailpart := (match sub with Some n => String "." (show_N n) | None => "" end) ++ (match ps with Some p => String " " p | None => "" end) ++ e).
  destruct (head_show num) as (d & s & E & Dd).
  assert (S2 : span is_sp (show_N num ++ tailpart) = ("", show_N num ++ tailpart)).
  { rewrite E. cbn [append span]. rewrite (digit_not_sp d Dd). reflexivity. }
  rewrite S2.
  assert (S3 : span is_digit (show_N num ++ tailpart) = (show_N num, tailpart)).
  { apply span_digits_show. unfold tailpart. destruct sub; [reflexivity|]. destruct ps; reflexivity. }
  rewrite S3. rewrite E at 1.
  assert (SB : (if is_GM t then
                  match tailpart with
                  | String dot r5' => if Ascii.eqb dot "." then let '(sd, r5'') := span is_digit r5' in
                                        match sd with "" => (None, tailpart) | _ => (Some sd, r5'') end
                                      else (None, tailpart)
                  | "" => (None, tailpart) end
                else (None, tailpart)) = (option_map show_N sub, (match ps with Some p => String " " p | None => "" end) ++ e)).
  { unfold tailpart. destruct sub as [sn|].
    - assert (G : is_GM t = true) by (destruct CL as [->|[->| ->]]; [reflexivity | reflexivity | specialize (TS eq_refl); discriminate]).
      rewrite G. cbn [append]. change (Ascii.eqb "." ".") with true. cbv iota.
      rewrite (span_digits_show sn ((match ps with Some p => String " " p | None => "" end) ++ e)) by (destruct ps; reflexivity).
      destruct (head_show sn) as (d2 & s2 & E2 & _). cbn [option_map]. rewrite E2. reflexivity.
    - cbn [append option_map]. destruct (is_GM t); [|reflexivity]. destruct ps; reflexivity. }
  rewrite SB. clear SB.
  destruct ps as [p|].
  - destruct (PS p eq_refl) as (LP & c & p0 & Ep & Cb).
    assert (S4 : span is_sp (String " " p ++ e) = (" ", p ++ e)) by (rewrite Ep; cbn [append span]; rewrite Cb; reflexivity).
    rewrite S4. unfold e at 1. rewrite (lazy_app (String.length p) p (le_n _) false (String "*" dd) _ LP TX1).
    destruct ln; reflexivity.
  - cbn [append]. unfold e. cbn [span]. change (is_sp " ") with true. change (is_sp "*") with false. cbv iota.
    rewrite lazy_step. cbn [esc_of]. change (is_bs "*") with false. cbn [andb]. change (is_semi "*" || is_star "*") with true. cbv iota.
    assert (EZ : esc_of "*" dd = None) by (unfold esc_of; destruct dd; reflexivity). rewrite EZ. rewrite TX2.
    destruct ln; reflexivity.
Qed.

Lemma substring_prefix a b : substring 0 (String.length a) (a ++ b) = a.
Proof. induction a as [|c a IH]; cbn; [destruct b; reflexivity | rewrite IH; reflexivity]. Qed.

Definition rendered (p : pline) : string := stringify p true true (Some true) false false.

Lemma rendered_canon p k : g_code p = Some k ->
  let cn := canon (lineno_of k) (upper (c_type k)) (num_of (c_digits k)) (subcode_of k) (g_params p) in
  rendered p = g_lead p ++ canon_e (lineno_of k) (upper (c_type k)) (num_of (c_digits k)) (subcode_of k) (g_params p)
                             (String " " (String "*" (show_N (compute_checksum (cn ++ " "))))).
Proof.
  intros H cn. rewrite canon_e_eq. fold cn.
  assert (R : command_string p = g_lead p ++ cn) by (rewrite (command_string_canon p k H); reflexivity).
  unfold rendered, stringify. unfold command_string, stringify in R. rewrite H in *.
  cbn [andb] in *.
  set (r := join " " _) in *.
  assert (Er : r = cn).
  { rewrite !append_nil_r in R. apply (f_equal (fun x => substring (String.length (g_lead p)) (String.length x - String.length (g_lead p)) x)) in R.
    clear - R. revert R. generalize (g_lead p). intros l. induction l as [|c l IH]; cbn [append String.length].
    - rewrite !Nat.sub_0_r. intros R. assert (S : forall x, substring 0 (String.length x) x = x) by (intros x; pose proof (substring_prefix x "") as Q; rewrite append_nil_r in Q; exact Q).
      rewrite !S in R. exact R.
    - cbn [substring]. intros R. apply IH. cbn in R. exact R. }
  rewrite Er. cbn [append]. rewrite !append_nil_r. rewrite !append_assoc. cbn [append]. reflexivity.
Qed.

Theorem checksum_roundtrip s : forall k n, g_code (fst (parse_line s)) = Some k -> lineno_of k = Some n ->
  validate (fst (parse_line (rendered (fst (parse_line s))))) = None.
Proof.
  intros k n HK HN. set (p := fst (parse_line s)) in *.
  assert (ORIG : exists lead r a, g_lead p = lead /\ g_params p = a_params a /\ a_code a = k /\ alt1 r = Some a /\
                   (forall c, In c (list_ascii_of_string lead) -> is_sp c = true) /\ no_eol (lead ++ r)).
  { unfold p in *. unfold parse_line in *. pose proof (split_eol_body_no_eol s) as NB.
    destruct (split_eol s) as [[body eol] rest]. cbn [fst] in *. unfold parse_body in *.
    pose proof (span_fst_all is_sp body) as LB. pose proof (span_app is_sp body) as SA.
    destruct (span is_sp body) as [lead r]. cbn [fst snd] in *.
    destruct (alt1 r) as [a|] eqn:A.
    - cbn [g_code g_lead g_params] in *. injection HK as HK. exists lead, r, a. rewrite SA. auto 10.
    - destruct (alt2 r) as [[tx tr] cm]. cbn [g_code] in HK. discriminate. }
  destruct ORIG as (lead & r & a & EL & EP & EK & A & LB & NE).
  destruct (alt1_inv r a A) as (GT & SUBN & PSI). rewrite EK in GT, SUBN.
  destruct (code_letter_upper (c_type k) GT) as (CL & TN).
  pose proof (alt1_lossless r a A) as LL.
  assert (PS : forall q, a_params a = Some q -> (lazy_params q false = Some (q, empty_tail) /\ exists c p0, q = String c p0 /\ is_sp c = false) /\ no_eol q).
  { intros q Eq. destruct (PSI q Eq) as (r7 & tl & L7 & H7). split.
    - split; [apply (params_stable r7 q tl L7)|]. destruct (lazy_false_head r7 q tl L7) as (c & p0 & r' & -> & ->). eauto.
    - apply no_eol_app in NE. destruct NE as (_ & NR). rewrite <- LL in NR. rewrite Eq in NR. cbn [ostr] in NR.
      apply no_eol_app in NR. destruct NR as (_ & NR). apply no_eol_app in NR. destruct NR as (_ & NR).
      apply no_eol_app in NR. destruct NR as (_ & NR). apply no_eol_app in NR. destruct NR as (NR & _). exact NR. }
  assert (TS : upper (c_type k) = "T"%char -> subcode_of k = None).
  { intros E. unfold subcode_of. rewrite (SUBN (TN E)). reflexivity. }
  pose proof (rendered_canon p k HK) as RC. cbv zeta in RC. rewrite EL, EP in RC.
  set (cn := canon (lineno_of k) (upper (c_type k)) (num_of (c_digits k)) (subcode_of k) (a_params a)) in *.
  set (dd := show_N (compute_checksum (cn ++ " "))) in *.
  set (ce := canon_e (lineno_of k) (upper (c_type k)) (num_of (c_digits k)) (subcode_of k) (a_params a) (String " " (String "*" dd))) in *.
  assert (CE : ce = cn ++ String " " (String "*" dd)) by (unfold ce, cn; apply canon_e_eq).
  assert (NC : no_eol (lead ++ ce)).
  { apply no_eol_app. split; [apply blanks_no_eol; exact LB|]. rewrite CE. apply no_eol_app. split.
    - apply no_eol_canon; [exact CL|]. intros q Eq. apply (PS q Eq).
    - change (String " " (String "*" dd)) with (" " ++ "*" ++ dd). apply no_eol_app. split; [intros c [<-|[]]; reflexivity|].
      apply no_eol_app. split; [intros c [<-|[]]; reflexivity | apply digits_no_eol, show_N_digits]. }
  assert (HEAD : match ce with "" => True | String c _ => is_sp c = false end).
  { unfold ce, canon_e. destruct (lineno_of k); [reflexivity|]. cbn [append]. destruct CL as [->|[->| ->]]; reflexivity. }
  pose proof (alt1_canon_cks (lineno_of k) (upper (c_type k)) (num_of (c_digits k)) (subcode_of k) (a_params a) dd CL TS
                (fun q Eq => proj1 (PS q Eq)) (show_N_digits _) (show_N_nonempty _)) as A'. fold ce in A'.
  rewrite RC. unfold parse_line. rewrite (split_eol_noeol _ NC). cbn [fst]. unfold parse_body.
  rewrite (span_all is_sp lead ce LB HEAD). rewrite A'.
  unfold validate. cbn [g_code g_cks a_code a_tail t_cks]. unfold lineno_of at 1. cbn [c_lnum]. rewrite HN. cbn [option_map].
  (* the text without the raw checksum is the canonical text plus the blank *)
  assert (TX : text_of (mkLine lead
       (a_pre (mkAlt1 (match Some n with Some n0 => String "N" (show_N n0) ++ " " | None => "" end)
                 (mkCode (Some (show_N n)) (upper (c_type k)) (is_T (upper (c_type k))) "" (show_N (num_of (c_digits k))) (option_map show_N (subcode_of k)))
                 " " (a_params a) (mkTail (match a_params a with Some _ => " " | None => "" end) (Some dd) "" None)) ++
        code_text (mkCode (Some (show_N n)) (upper (c_type k)) (is_T (upper (c_type k))) "" (show_N (num_of (c_digits k))) (option_map show_N (subcode_of k))) ++
        " " ++ ostr (a_params a) ++ tail_text (mkTail (match a_params a with Some _ => " " | None => "" end) (Some dd) "" None))
       (Some (mkCode (Some (show_N n)) (upper (c_type k)) (is_T (upper (c_type k))) "" (show_N (num_of (c_digits k))) (option_map show_N (subcode_of k))))
       (a_params a) (Some dd) "" None "") = cn ++ " ").
  { unfold text_of. cbn [g_cks g_text2 a_pre].
    assert (E2 : (String "N" (show_N n) ++ " ") ++
                 code_text (mkCode (Some (show_N n)) (upper (c_type k)) (is_T (upper (c_type k))) "" (show_N (num_of (c_digits k))) (option_map show_N (subcode_of k))) ++
                 " " ++ ostr (a_params a) ++ tail_text (mkTail (match a_params a with Some _ => " " | None => "" end) (Some dd) "" None)
                 = (cn ++ " ") ++ String "*" dd).
    { unfold cn, canon, code_text, tail_text. rewrite HN. cbn [c_type c_ws c_digits c_sub t_ws t_cks].
      destruct (subcode_of k), (a_params a); cbn [option_map ostr append]; rewrite ?append_nil_r; repeat first [rewrite append_assoc | progress cbn [append]]; reflexivity. }
    rewrite E2. rewrite length_append. cbn [String.length].
    replace (String.length (cn ++ " ") + S (String.length dd) - S (String.length dd)) with (String.length (cn ++ " ")) by lia.
    apply substring_prefix. }
  rewrite HN in A'. cbn [option_map] in A'.
  match goal with |- (if (num_of dd =? compute_checksum ?t)%N then _ else _) = _ => replace t with (cn ++ " ") end.
  all: try (unfold dd; rewrite num_of_show, N.eqb_refl; reflexivity).
  all: try (symmetry; rewrite HN; exact TX).
Qed.
