(** C17 on the GENERATED region geometry (Gen/GenRegions.v). *)
From Coq Require Import Reals Lra Psatz Bool.
From ER Require Import Base.GenPrelude Gen.GenRegions.
Open Scope R_scope.

Definition in_rect (q : RectR) (x y : R) : Prop := x1 q <= x <= x2 q /\ y1 q <= y <= y2 q.
Definition in_disc (c : CircR) (x y : R) : Prop :=
  0 <= r c /\ (x - cx c) * (x - cx c) + (y - cy c) * (y - cy c) <= r c * r c.

Lemma rect_point_spec q x y : rect_containsPoint q x y = true <-> in_rect q x y.
Proof. unfold rect_containsPoint, in_rect. rewrite ?andb_true_iff, ?Rgeb_true, ?Rleb_true. lra. Qed.

Lemma circ_point_spec c x y : circ_containsPoint c x y = true <-> in_disc c x y.
Proof. unfold circ_containsPoint, in_disc. rewrite ?Rgeb_true, ?Rleb_true. apply hypot_le_iff. Qed.

(** the disc test is the closed Euclidean disc: distance to the centre <= r *)
Lemma circ_point_dist c x y : circ_containsPoint c x y = true <-> hypot (x - cx c) (y - cy c) <= r c.
Proof. unfold circ_containsPoint. rewrite ?Rgeb_true, ?Rleb_true. reflexivity. Qed.

Lemma rect_rect_sound o i : rect_containsRegion_rect o i = true ->
  forall x y, rect_containsPoint i x y = true -> rect_containsPoint o x y = true.
Proof.
  unfold rect_containsRegion_rect. rewrite ?andb_true_iff, ?Rgeb_true, ?Rleb_true.
  intros H x y Hi. apply rect_point_spec in Hi. apply rect_point_spec. unfold in_rect in *. lra.
Qed.

Lemma sq_bound a b : 0 <= b -> a * a <= b * b -> - b <= a <= b.
Proof. intros Hr H. split; apply Rnot_lt_le; intro; nra. Qed.

Lemma rect_circ_sound o i : rect_containsRegion_circ o i = true ->
  forall x y, circ_containsPoint i x y = true -> rect_containsPoint o x y = true.
Proof.
  unfold rect_containsRegion_circ. rewrite ?andb_true_iff, ?Rgeb_true, ?Rleb_true.
  intros (((A & B) & C) & D) x y Hi.
  apply circ_point_spec in Hi. destruct Hi as (Hr & Hi). apply rect_point_spec. unfold in_rect.
  pose proof (Rle_0_sqr (x - cx i)) as Qx. pose proof (Rle_0_sqr (y - cy i)) as Qy. unfold Rsqr in Qx, Qy.
  assert (Ax : (x - cx i) * (x - cx i) <= r i * r i) by lra.
  assert (Ay : (y - cy i) * (y - cy i) <= r i * r i) by lra.
  pose proof (sq_bound _ _ Hr Ax). pose proof (sq_bound _ _ Hr Ay). lra.
Qed.

Lemma sq_conv lo hi v c : lo <= v <= hi -> (v-c)*(v-c) <= (lo-c)*(lo-c) \/ (v-c)*(v-c) <= (hi-c)*(hi-c).
Proof. intros H. destruct (Rle_dec v c); [left|right]; nra. Qed.

Lemma circ_rect_sound o i : circ_containsRegion_rect o i = true ->
  forall x y, rect_containsPoint i x y = true -> circ_containsPoint o x y = true.
Proof.
  unfold circ_containsRegion_rect. rewrite !andb_true_iff, !circ_point_spec. unfold in_disc.
  intros (((A & B) & C) & D) x y Hr.
  apply rect_point_spec in Hr. unfold in_rect in Hr. apply circ_point_spec. unfold in_disc. split; [lra|].
  destruct A as (_ & A), B as (_ & B), C as (_ & C), D as (_ & D).
  pose proof (sq_conv (x1 i) (x2 i) x (cx o) ltac:(lra)) as [Hx|Hx];
  pose proof (sq_conv (y1 i) (y2 i) y (cy o) ltac:(lra)) as [Hy|Hy]; lra.
Qed.

Lemma circ_circ_sound o i : circ_containsRegion_circ o i = true ->
  forall x y, circ_containsPoint i x y = true -> circ_containsPoint o x y = true.
Proof.
  unfold circ_containsRegion_circ. cbv zeta. rewrite Rleb_true. intros H x y Hi.
  apply circ_point_spec in Hi. destruct Hi as (Hr2 & Hi).
  assert (Hd : hypot (cx o - cx i) (cy o - cy i) <= r o - r i) by lra.
  apply hypot_le_iff in Hd. destruct Hd as (Hd0 & Hd).
  apply circ_point_spec. unfold in_disc. split; [lra|].
  set (a := x - cx i) in *. set (b := y - cy i) in *. set (c := cx i - cx o). set (d := cy i - cy o).
  replace (x - cx o) with (a + c) by (unfold a, c; lra). replace (y - cy o) with (b + d) by (unfold b, d; lra).
  assert (Hcd : c*c + d*d <= (r o - r i)*(r o - r i)) by (unfold c, d; nra).
  assert (CS : (a*c + b*d) <= r i * (r o - r i)).
  { assert ((a*c+b*d)*(a*c+b*d) <= (a*a+b*b)*(c*c+d*d)) by (pose proof (Rle_0_sqr (a*d - b*c)) as Q; unfold Rsqr in Q; nra).
    assert ((a*a+b*b)*(c*c+d*d) <= (r i*r i)*((r o-r i)*(r o-r i))) by (apply Rmult_le_compat; nra).
    destruct (Rle_dec (a*c+b*d) 0); [nra|].
    assert (0 <= r i * (r o - r i)) by nra.
    apply Rnot_le_lt in n. apply Rsqr_incr_0_var; [unfold Rsqr; nra | lra]. }
  nra.
Qed.

(** Non-vacuity: concrete regions satisfying the hypotheses. *)
Example circ_circ_nonvacuous :
  circ_containsRegion_circ {| cx := 0; cy := 0; r := 5 |} {| cx := 1; cy := 0; r := 2 |} = true.
Proof.
  unfold circ_containsRegion_circ. cbv zeta. apply Rleb_true. cbn [cx cy r].
  assert (hypot (0 - 1) (0 - 0) <= 1); [|lra]. apply hypot_le_iff. lra.
Qed.
Example circ_rect_nonvacuous :
  circ_containsRegion_rect {| cx := 0; cy := 0; r := 5 |} {| x1 := -3; y1 := -3; x2 := 3; y2 := 3 |} = true.
Proof.
  unfold circ_containsRegion_rect. rewrite !andb_true_iff, !circ_point_spec. unfold in_disc. cbn [cx cy r x1 x2 y1 y2].
  repeat split; lra.
Qed.
