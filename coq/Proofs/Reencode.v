(** C08 -- exclusion decisions depend only on the NATIVE tool path and the regions: any re-encoding of the same path
    (inches, relative coordinates) that the reference printer maps to the same native destinations gets the same
    decisions; translating path and regions together changes nothing. *)
From Coq Require Import Reals Lra String Ascii List Bool.
From ER Require Import Base.Num Model.Geometry Model.Axis Model.Filter Spec.Printer
  Proofs.FilterLemmas Proofs.Transparent Proofs.Deferred Proofs.Outputs Proofs.Track Proofs.Regions.
Import ListNotations.
Open Scope R_scope.

Definition is_G01 (m : icmdR) : bool := String.eqb (ccode m) "G0" || String.eqb (ccode m) "G1".

(** the decision for a G0/G1: is the file's own native destination inside an enabled region? *)
Theorem decision_is_native c (s : fstateR) (U : printerR) (m : icmdR) : Track s U -> wf_cmd c U m -> is_G01 m = true ->
  let U' := exec_cmd (g90e c) U (ccode m) (cwords m) in
  cmd_hits s m = enabled s && any_contains (regions s) (qx U') (qy U').
Proof.
  intros TR WF G. pose proof (track_step c s U m TR WF) as [_ _ (TX & _) (TY & _) _ _ _]. cbn zeta.
  rewrite <- TX, <- TY. clear TX TY. unfold is_G01 in G. unfold cmd_hits, cmd_points, handle. rewrite G.
  unfold handle_G0. rewrite plm_position, plm_pos_single. cbn [px py track_points snd].
  rewrite orb_false_r. reflexivity.
Qed.

(** two encodings of the same move (any modes / units / offsets on either side) that reach the same native destination
    are decided alike *)
Corollary same_destination_same_decision c1 c2 (s1 s2 : fstateR) (U1 U2 : printerR) (m1 m2 : icmdR) :
  Track s1 U1 -> Track s2 U2 -> wf_cmd c1 U1 m1 -> wf_cmd c2 U2 m2 -> is_G01 m1 = true -> is_G01 m2 = true ->
  regions s1 = regions s2 -> enabled s1 = enabled s2 ->
  qx (exec_cmd (g90e c1) U1 (ccode m1) (cwords m1)) = qx (exec_cmd (g90e c2) U2 (ccode m2) (cwords m2)) ->
  qy (exec_cmd (g90e c1) U1 (ccode m1) (cwords m1)) = qy (exec_cmd (g90e c2) U2 (ccode m2) (cwords m2)) ->
  cmd_hits s1 m1 = cmd_hits s2 m2.
Proof.
  intros T1 T2 W1 W2 G1 G2 R E X Y.
  rewrite (decision_is_native c1 s1 U1 m1 T1 W1 G1), (decision_is_native c2 s2 U2 m2 T2 W2 G2), R, E, X, Y. reflexivity.
Qed.

(** translation of a region and of a point by the same vector *)
Definition translate (vx vy : R) (g : region R) : region R :=
  match g with
  | Rect i a b c d => Rect i (a + vx) (b + vy) (c + vx) (d + vy)
  | Circ i a b r => Circ i (a + vx) (b + vy) r
  end.

Lemma contains_translate vx vy g x y : contains_point (translate vx vy g) (x + vx) (y + vy) = contains_point g x y.
Proof.
  assert (E : forall p q : bool, (p = true <-> q = true) -> p = q).
  { intros [] [] H; auto; [symmetry|]; apply H; reflexivity. }
  apply E. rewrite !contains_point_spec. destruct g as [i a b c d|i a b r]; cbn [translate in_region].
  - lra.
  - replace (x + vx - (a + vx)) with (x - a) by lra. replace (y + vy - (b + vy)) with (y - b) by lra. tauto.
Qed.

Theorem translation_invariant vx vy (rs : list (region R)) x y :
  any_contains (map (translate vx vy) rs) (x + vx) (y + vy) = any_contains rs x y.
Proof.
  unfold any_contains. induction rs as [|g t IH]; cbn; [reflexivity|]. rewrite contains_translate, IH. reflexivity.
Qed.
