(** C09 -- filtering is total and protocol-conformant: result shapes and non-zero divisors. *)
From Coq Require Import Reals Lra String Ascii List Bool.
From ER Require Import Base.Num Model.Geometry Model.Axis Model.Filter Proofs.FilterLemmas Proofs.Outputs Proofs.Track.
Import ListNotations.
Open Scope R_scope.

Section SHAPE.
Context {T : Type} {N : Num T}.

(** processLinearMoves always answers through to_result *)
Lemma plm_to_result c (s : fstate T) cmd e f z pts : exists l, snd (processLinearMoves c s cmd e f z pts) = to_result l.
Proof.
  unfold processLinearMoves.
  repeat match goal with |- context [let '(_, _) := ?x in _] => destruct x end.
  cbn [snd]. eexists. reflexivity.
Qed.

(** a command is answered by `leave unchanged', `suppress', or a NON-EMPTY list of commands *)
Theorem result_shape c (s : fstate T) (m : icmd T) :
  match snd (handle c s m) with Replace l => l <> [] | _ => True end.
Proof.
  assert (TR : forall l : list (ocmd T), match to_result l with Replace l' => l' <> [] | _ => True end)
    by (intros [|a l]; cbn; [exact I | discriminate]).
  unfold handle.
  repeat match goal with |- context [if ?b then _ else _] => destruct b end; try exact I.
  - unfold handle_G0. destruct (plm_to_result c s (ctext m) (word "E" (cwords m)) (word "F" (cwords m)) (word "Z" (cwords m)) [(word "X" (cwords m), word "Y" (cwords m))]) as (l & ->). apply TR.
  - unfold handle_G2. destruct (match word "R" (cwords m) with Some _ => _ | None => _ end) as [i j].
    destruct (nonzero i || nonzero j); [|exact I].
    match goal with |- context [processLinearMoves c s ?a ?b ?cc ?d ?pts] => destruct (plm_to_result c s a b cc d pts) as (l & ->) end. apply TR.
  - unfold handle_G10. destruct (has_label "P" (cwords m) || has_label "L" (cwords m)); [exact I|].
    destruct (recordRetraction s _) as [s1 cmds]. apply TR.
  - unfold handle_G11. destruct (recoverRetractionIfNeeded s (ctext m) true) as [s1 cmds]. apply TR.
  - unfold processExtendedGcode. destruct (negb (String.eqb (ccode m) "") && excluding s); [|exact I].
    destruct (assoc (ccode m) (ext c)); exact I.
Qed.
End SHAPE.

(** *** divisors: every division in the handlers is by a unit multiplier; they are never zero *)
Definition units_ok (s : fstate R) : Prop :=
  um (px (position s)) <> 0 /\ um (py (position s)) <> 0 /\ um (pz (position s)) <> 0 /\ um (pe (position s)) <> 0 /\ frMult s <> 0.

Lemma units_ok_init rs : units_ok (init_state rs).
Proof. unfold units_ok. cbn. numR. repeat split; lra. Qed.

Lemma plm_units c (s : fstate R) cmd e f z pts : units_ok s -> units_ok (fst (processLinearMoves c s cmd e f z pts)).
Proof.
  intros (A & B & C & D & E). unfold units_ok. rewrite plm_position, plm_frmult. unfold plm_pos.
  destruct (is_some z || existsb (fun q : option R * option R => is_some (fst q) || is_some (snd q)) pts).
  - assert (G : forall pts (x y : axis R), um x <> 0 -> um y <> 0 ->
               um (fst (fst (track_points [] false x y pts))) <> 0 /\ um (snd (fst (track_points [] false x y pts))) <> 0).
    { induction pts0 as [|[ox oy] t IH]; intros x y Hx Hy; cbn; [auto|].
      specialize (IH (match ox with Some v => set_logical x v | None => x end) (match oy with Some v => set_logical y v | None => y end)).
      destruct (track_points [] false _ _ t) as [[a b] h]. cbn in *. apply IH; [destruct ox | destruct oy]; cbn; assumption. }
    destruct (G pts (px (position s)) (py (position s)) A B) as (GX & GY).
    destruct (track_points [] false (px (position s)) (py (position s)) pts) as [[x' y'] h]. cbn in *.
    repeat split; try assumption; [destruct z | destruct e]; cbn; assumption.
  - cbn. repeat split; try assumption; [destruct z | destruct e]; cbn; assumption.
Qed.

Theorem handle_units c (s : fstate R) (m : icmd R) : units_ok s -> units_ok (fst (handle c s m)).
Proof.
  intros U. pose proof U as (A & B & C & D & FM). unfold handle. by_code m.
  - unfold handle_G0. apply plm_units; exact U.
  - unfold handle_G0. apply plm_units; exact U.
  - unfold handle_G2. destruct (match word "R" (cwords m) with Some _ => _ | None => _ end) as [i j].
    destruct (nonzero i || nonzero j); [apply plm_units; exact U | exact U].
  - unfold handle_G2. destruct (match word "R" (cwords m) with Some _ => _ | None => _ end) as [i j].
    destruct (nonzero i || nonzero j); [apply plm_units; exact U | exact U].
  - unfold handle_G10. destruct (has_label "P" (cwords m) || has_label "L" (cwords m)); [exact U|].
    pose proof (recordRetraction_frame s (mkRetr false true true n0 n0 (ctext m))) as F.
    destruct (recordRetraction s _) as [s1 cmds]. cbn [fst] in *. destruct F as (F1 & _ & _ & _ & _ & _ & _ & F2).
    unfold units_ok. rewrite F1, F2. exact U.
  - unfold handle_G11. pose proof (recoverRetractionIfNeeded_frame s (ctext m) true) as F.
    destruct (recoverRetractionIfNeeded s (ctext m) true) as [s1 cmds]. cbn [fst] in *. destruct F as (F1 & _ & _ & _ & _ & _ & _ & F2).
    unfold units_ok. rewrite F1, F2. exact U.
  - cbn. unfold units_ok. cbn. repeat split; apply inch_nonzero.
  - cbn. unfold units_ok. cbn. numR. repeat split; lra.
  - cbn. unfold units_ok, handle_G28. cbn. repeat split; try assumption;
      repeat match goal with |- context [if ?b then _ else _] => destruct b end; cbn; assumption.
  - cbn. unfold units_ok. cbn. destruct (g90e c); cbn; auto.
  - cbn. unfold units_ok. cbn. destruct (g90e c); cbn; auto.
  - cbn. unfold units_ok. cbn.
    assert (G : forall ws (p : pos R), um (px p) <> 0 -> um (py p) <> 0 -> um (pz p) <> 0 -> um (pe p) <> 0 ->
       um (px (g92_words p ws)) <> 0 /\ um (py (g92_words p ws)) <> 0 /\ um (pz (g92_words p ws)) <> 0 /\ um (pe (g92_words p ws)) <> 0).
    { induction ws as [|[k v] t IH]; intros p Hx Hy Hz He; cbn; [auto|].
      destruct v as [|x|sx]; try (apply IH; assumption).
      repeat match goal with |- context [if ?b then _ else _] => destruct b end; apply IH; cbn; assumption. }
    destruct (G (cwords m) (position s) A B C D) as (G1 & G2 & G3 & G4). auto.
  - cbn. unfold units_ok. cbn.
    assert (G : forall ws (p : pos R), um (px p) <> 0 -> um (py p) <> 0 -> um (pz p) <> 0 -> um (pe p) <> 0 ->
       um (px (m206_words p ws)) <> 0 /\ um (py (m206_words p ws)) <> 0 /\ um (pz (m206_words p ws)) <> 0 /\ um (pe (m206_words p ws)) <> 0).
    { induction ws as [|[k v] t IH]; intros p Hx Hy Hz He; cbn; [auto|].
      destruct v as [|x|sx]; try (apply IH; assumption).
      repeat match goal with |- context [if ?b then _ else _] => destruct b end; apply IH; cbn; assumption. }
    destruct (G (cwords m) (position s) A B C D) as (G1 & G2 & G3 & G4). auto.
  - pose proof E as E'. unfold handled_code in E'. cbn [existsb] in E'.
    repeat (apply orb_false_iff in E'; destruct E' as (?E1 & E')).
    repeat match goal with H : String.eqb (ccode m) _ = false |- _ => rewrite H; clear H end. cbn [orb].
    unfold processExtendedGcode. destruct (negb (String.eqb (ccode m) "") && excluding s); [|exact U].
    destruct (assoc (ccode m) (ext c)) as [mode|]; [|exact U]. cbn [fst]. unfold processExtendedGcodeEntry.
    destruct mode; cbn; try exact U. destruct (assoc (ccode m) (pending s)); exact U.
Qed.

(** over every program from the initial (homed) state *)
Theorem units_ok_reachable c rs (p : list (icmd R)) :
  units_ok (fold_left (fun s m => fst (handle c s m)) p (init_state rs)).
Proof.
  assert (G : forall p s, units_ok s -> units_ok (fold_left (fun s m => fst (handle c s m)) p s)).
  { induction p0 as [|m t IH]; intros s U; cbn; [exact U|]. apply IH. apply handle_units. exact U. }
  apply G. apply units_ok_init.
Qed.
