(** C06 -- order of the deferred commands across codes: the pending list is ordered by the RETAINED occurrence of each
    code -- the first occurrence for `first` codes, the last one for `last` and `merge` codes -- after any sequence of
    deferred commands. *)
From Coq Require Import String Ascii List Bool Arith Lia Sorted.
From ER Require Import Base.Num Model.Geometry Model.Axis Model.Filter Proofs.Deferred.
Import ListNotations.

Section ORD.
Context {T : Type} {N : Num T}.
Notation icmd := (icmd T).

Fixpoint first_idx (g : string) (seen : list (xmode * icmd)) (k : nat) : option nat :=
  match seen with
  | [] => None
  | x :: t => if String.eqb g (ccode (snd x)) then Some k else first_idx g t (S k)
  end.
Fixpoint last_idx (g : string) (seen : list (xmode * icmd)) (k : nat) (acc : option nat) : option nat :=
  match seen with
  | [] => acc
  | x :: t => last_idx g t (S k) (if String.eqb g (ccode (snd x)) then Some k else acc)
  end.
(** index (in [seen]) of the occurrence of code [g] that the pending entry stands for *)
Definition retained (modef : string -> xmode) (seen : list (xmode * icmd)) (g : string) : option nat :=
  match modef g with
  | XExclude => None
  | XFirst => first_idx g seen 0
  | XLast | XMerge => last_idx g seen 0 None
  end.

Lemma first_idx_snoc g seen x k : first_idx g (seen ++ [x]) k =
  match first_idx g seen k with Some i => Some i | None => if String.eqb g (ccode (snd x)) then Some (k + length seen) else None end.
Proof.
  revert k. induction seen as [|y t IH]; intros k; cbn.
  - rewrite Nat.add_0_r. reflexivity.
  - destruct (String.eqb g (ccode (snd y))); [reflexivity|]. rewrite IH. replace (S k + length t) with (k + S (length t)) by lia. reflexivity.
Qed.
Lemma last_idx_snoc g seen x k acc : last_idx g (seen ++ [x]) k acc =
  if String.eqb g (ccode (snd x)) then Some (k + length seen) else last_idx g seen k acc.
Proof.
  revert k acc. induction seen as [|y t IH]; intros k acc; cbn.
  - rewrite Nat.add_0_r. reflexivity.
  - rewrite IH. replace (S k + length t) with (k + S (length t)) by lia. reflexivity.
Qed.
Lemma first_idx_bound g seen k i : first_idx g seen k = Some i -> k <= i < k + length seen.
Proof.
  revert k. induction seen as [|y t IH]; intros k; cbn; [discriminate|].
  destruct (String.eqb g (ccode (snd y))); [intros H; injection H as <-; lia|]. intros H. apply IH in H. lia.
Qed.
Lemma last_idx_bound g seen k acc i : last_idx g seen k acc = Some i -> (acc = Some i) \/ k <= i < k + length seen.
Proof.
  revert k acc. induction seen as [|y t IH]; intros k acc; cbn; [auto|].
  intros H. apply IH in H. destruct H as [H|H]; [|right; lia].
  destruct (String.eqb g (ccode (snd y))); [injection H as <-; right; lia | auto].
Qed.
Lemma first_idx_none g seen k : first_idx g seen k = None <-> of_code g seen = [].
Proof.
  revert k. induction seen as [|y t IH]; intros k; cbn; [tauto|]. unfold of_code in *. cbn.
  destruct (String.eqb g (ccode (snd y))); cbn; [split; discriminate | apply IH].
Qed.

Lemma retained_bound modef seen g i : retained modef seen g = Some i -> i < length seen.
Proof.
  unfold retained. destruct (modef g); [discriminate | | |].
  - intros H. apply first_idx_bound in H. lia.
  - intros H. apply last_idx_bound in H. destruct H as [H|H]; [discriminate | lia].
  - intros H. apply last_idx_bound in H. destruct H as [H|H]; [discriminate | lia].
Qed.
Lemma retained_other modef seen x g : String.eqb g (ccode (snd x)) = false -> retained modef (seen ++ [x]) g = retained modef seen g.
Proof.
  intros E. unfold retained. destruct (modef g); [reflexivity | | |].
  - rewrite first_idx_snoc, E. destruct (first_idx g seen 0); reflexivity.
  - rewrite last_idx_snoc, E. reflexivity.
  - rewrite last_idx_snoc, E. reflexivity.
Qed.

(** [a] stands before [b]: both retained, [a]'s occurrence earlier *)
Definition before (modef : string -> xmode) (seen : list (xmode * icmd)) (a b : string) : Prop :=
  exists i j, retained modef seen a = Some i /\ retained modef seen b = Some j /\ i < j.

Lemma SS_ext {A} (R R' : A -> A -> Prop) l : (forall a b, In a l -> In b l -> R a b -> R' a b) -> StronglySorted R l -> StronglySorted R' l.
Proof.
  intros H S. induction S as [|a l S IH F]; [constructor|]. constructor.
  - apply IH. intros x y Hx Hy. apply H; right; assumption.
  - rewrite Forall_forall in *. intros x Hx. apply H; [left; reflexivity | right; exact Hx | apply F; exact Hx].
Qed.
Lemma SS_filter {A} (R : A -> A -> Prop) f l : StronglySorted R l -> StronglySorted R (filter f l).
Proof.
  intros S. induction S as [|a l S IH F]; [constructor|]. cbn. destruct (f a); [|exact IH].
  constructor; [exact IH|]. rewrite Forall_forall in *. intros x Hx. apply filter_In in Hx. apply F. tauto.
Qed.
Lemma SS_snoc {A} (R : A -> A -> Prop) l x : StronglySorted R l -> Forall (fun a => R a x) l -> StronglySorted R (l ++ [x]).
Proof.
  intros S. induction S as [|a l S IH F]; intros H; cbn; [constructor; constructor|].
  inversion H; subst. constructor; [apply IH; assumption|]. apply Forall_app. split; [exact F | constructor; [assumption | constructor]].
Qed.
Lemma keys_remove_filter {A} k (l : list (string * A)) : map fst (remove_key k l) = filter (fun x => negb (String.eqb k x)) (map fst l).
Proof. induction l as [|[k2 v] t IH]; cbn; [reflexivity|]. destruct (String.eqb k k2); cbn; [exact IH | f_equal; exact IH]. Qed.

(** every pending key has a retained occurrence *)
Lemma pending_retained modef seen : consistent modef seen -> forall g, In g (map fst (pend_after seen)) -> exists i, retained modef seen g = Some i.
Proof.
  induction seen as [|[mode m] t IH] using rev_ind; intros C g Hg; [destruct Hg|].
  assert (Ct : consistent modef t) by (intros x Hx; apply C; apply in_or_app; auto).
  assert (Cm : mode = modef (ccode m)) by (apply (C (mode, m)); apply in_or_app; right; left; reflexivity).
  rewrite pend_after_snoc in Hg.
  destruct (String.eqb g (ccode m)) eqn:E.
  - apply String.eqb_eq in E. subst g. unfold retained. rewrite <- Cm. destruct mode.
    + rewrite entry_exclude in Hg. destruct (IH Ct _ Hg) as (i & Hi). unfold retained in Hi. rewrite <- Cm in Hi. discriminate.
    + rewrite first_idx_snoc. cbn [snd]. rewrite String.eqb_refl. destruct (first_idx (ccode m) t 0); eauto.
    + rewrite last_idx_snoc. cbn [snd]. rewrite String.eqb_refl. eauto.
    + rewrite last_idx_snoc. cbn [snd]. rewrite String.eqb_refl. eauto.
  - rewrite (retained_other modef t (mode, m) g E). apply IH; [exact Ct|].
    apply in_map_iff in Hg. destruct Hg as ([k v] & <- & Hin). cbn [fst] in *.
    assert (A : assoc k (entry (pend_after t) mode m) = assoc k (pend_after t)) by (apply entry_other; exact E).
    destruct (assoc k (pend_after t)) as [v'|] eqn:A'.
    + clear - A'. induction (pend_after t) as [|[k2 v2] l IHl]; cbn in *; [discriminate|].
      destruct (String.eqb k k2) eqn:E2; [left; apply String.eqb_eq in E2; auto | right; apply IHl; exact A'].
    + exfalso. apply assoc_none_notin in A. apply A. apply in_map_iff. exists (k, v). auto.
Qed.

Theorem pending_order modef seen : consistent modef seen -> StronglySorted (before modef seen) (map fst (pend_after seen)).
Proof.
  induction seen as [|[mode m] t IH] using rev_ind; intros C; [constructor|].
  assert (Ct : consistent modef t) by (intros x Hx; apply C; apply in_or_app; auto).
  assert (Cm : mode = modef (ccode m)) by (apply (C (mode, m)); apply in_or_app; right; left; reflexivity).
  specialize (IH Ct). rewrite pend_after_snoc.
  pose proof (pend_nodup t) as ND.
  (* keys other than the new code keep their retained index *)
  assert (KEEP : forall l, (forall a, In a l -> String.eqb a (ccode m) = false) -> StronglySorted (before modef t) l ->
                           StronglySorted (before modef (t ++ [(mode, m)])) l).
  { intros l Hl. apply SS_ext. intros a b Ha Hb (i & j & A & B & L). exists i, j.
    rewrite !retained_other by (cbn [snd]; auto). auto. }
  (* the new occurrence is later than every retained one *)
  assert (NEW : forall l, (forall a, In a l -> In a (map fst (pend_after t)) /\ String.eqb a (ccode m) = false) ->
                          retained modef (t ++ [(mode, m)]) (ccode m) = Some (length t) ->
                          Forall (fun a => before modef (t ++ [(mode, m)]) a (ccode m)) l).
  { intros l Hl R. apply Forall_forall. intros a Ha. destruct (Hl a Ha) as (I1 & I2).
    destruct (pending_retained modef t Ct a I1) as (i & Hi). exists i, (length t).
    rewrite retained_other by (cbn [snd]; exact I2). split; [exact Hi|]. split; [exact R|]. apply (retained_bound modef t a i Hi). }
  destruct mode.
  - (* exclude: nothing changes, and the code is not pending *)
    rewrite entry_exclude. apply KEEP; [|exact IH]. intros a Ha.
    destruct (String.eqb a (ccode m)) eqn:E; [|reflexivity]. apply String.eqb_eq in E. subst a.
    destruct (pending_retained modef t Ct _ Ha) as (i & Hi). unfold retained in Hi. rewrite <- Cm in Hi. discriminate.
  - (* first *)
    rewrite entry_first. destruct (assoc (ccode m) (pend_after t)) eqn:A.
    + (* already pending: its first occurrence stays *)
      apply (SS_ext (before modef t)); [|exact IH]. intros a b Ha Hb (i & j & RA & RB & L). exists i, j.
      assert (K : forall k i0, retained modef t k = Some i0 -> retained modef (t ++ [(XFirst, m)]) k = Some i0).
      { intros k i0 Hk. destruct (String.eqb k (ccode m)) eqn:E; [|rewrite retained_other by (cbn [snd]; exact E); exact Hk].
        apply String.eqb_eq in E. subst k. unfold retained in *. rewrite <- Cm in *. rewrite first_idx_snoc, Hk. reflexivity. }
      auto.
    + rewrite map_app. cbn [map fst].
      assert (NI : forall a, In a (map fst (pend_after t)) -> String.eqb a (ccode m) = false).
      { intros a Ha. destruct (String.eqb a (ccode m)) eqn:E; [|reflexivity]. apply String.eqb_eq in E. subst a.
        exfalso. apply (assoc_none_notin _ _ A). exact Ha. }
      apply SS_snoc; [apply KEEP; assumption|]. apply NEW; [intros a Ha; split; [exact Ha | apply NI; exact Ha]|].
      unfold retained. rewrite <- Cm. rewrite first_idx_snoc. cbn [snd]. rewrite String.eqb_refl.
      rewrite (pend_spec modef t Ct) in A. rewrite <- Cm in A. unfold spec_entry in A.
      destruct (of_code (ccode m) t) eqn:O; [|discriminate]. apply (first_idx_none _ _ 0) in O. rewrite O. reflexivity.
  - (* last *)
    rewrite entry_last, map_app. cbn [map fst]. rewrite keys_remove_filter.
    assert (NI : forall a, In a (filter (fun x => negb (String.eqb (ccode m) x)) (map fst (pend_after t))) ->
                           In a (map fst (pend_after t)) /\ String.eqb a (ccode m) = false).
    { intros a Ha. apply filter_In in Ha. destruct Ha as (I1 & I2). split; [exact I1|]. rewrite String.eqb_sym. destruct (String.eqb (ccode m) a); [discriminate | reflexivity]. }
    apply SS_snoc; [apply KEEP; [intros a Ha; apply NI; exact Ha | apply SS_filter; exact IH]|].
    apply NEW; [exact NI|]. unfold retained. rewrite <- Cm. rewrite last_idx_snoc. cbn [snd]. rewrite String.eqb_refl. reflexivity.
  - (* merge *)
    rewrite entry_merge, map_app. cbn [map fst]. rewrite keys_remove_filter.
    assert (NI : forall a, In a (filter (fun x => negb (String.eqb (ccode m) x)) (map fst (pend_after t))) ->
                           In a (map fst (pend_after t)) /\ String.eqb a (ccode m) = false).
    { intros a Ha. apply filter_In in Ha. destruct Ha as (I1 & I2). split; [exact I1|]. rewrite String.eqb_sym. destruct (String.eqb (ccode m) a); [discriminate | reflexivity]. }
    apply SS_snoc; [apply KEEP; [intros a Ha; apply NI; exact Ha | apply SS_filter; exact IH]|].
    apply NEW; [exact NI|]. unfold retained. rewrite <- Cm. rewrite last_idx_snoc. cbn [snd]. rewrite String.eqb_refl. reflexivity.
Qed.

End ORD.

From ER Require Import Proofs.FilterLemmas Proofs.Outputs Proofs.Episode.

Section EPO.
Context {T : Type} {N : Num T}.

(** a whole episode: the deferred commands are flushed in the order of their retained occurrences *)
Theorem episode_order c (s : fstate T) (m0 : icmd T) (ms : list (icmd T)) :
  excluding s = false -> no_leak s ->
  excluding (fst (handle c s m0)) = true -> inside_run c (fst (handle c s m0)) ms ->
  let s1 := run_state c (fst (handle c s m0)) ms in
  StronglySorted (before (modef c) (seen_of c ms)) (map fst (pending s1)) /\
  map fst (pending s1) = map fst (pend_after (seen_of c ms)).
Proof.
  intros X NL X' IR s1.
  destruct (handle_opening c s m0 X X') as (rest & _ & _ & _ & P0).
  destruct (episode_pending_gen c ms _ X' IR) as (P & XE). fold s1 in P, XE.
  rewrite P0, (NL X) in P. change (fold_left _ (seen_of c ms) []) with (pend_after (seen_of c ms)) in P.
  rewrite P. split; [|reflexivity]. apply pending_order. apply seen_consistent.
Qed.
End EPO.
