(** C02 -- transparency: while no episode is open and no recovery is owed, every command is
    forwarded verbatim; an episode can only open on a tested point inside an enabled region. *)
From Coq Require Import String Ascii List Bool.
From ER Require Import Base.Num Model.Geometry Model.Axis Model.Filter Proofs.FilterLemmas.
Import ListNotations.

Section TR.
Context {T : Type} {N : Num T}.
Notation fstate := (fstate T).
Notation icmd := (icmd T).

Definition not_owed (s : fstate) : Prop :=
  match lastRetraction s with Some lr => recoverExcluded lr = false | None => True end.
(** quiet state: no episode open, nothing owed, nothing deferred *)
Definition quiet (s : fstate) : Prop := excluding s = false /\ not_owed s.
Definition verbatim (m : icmd) (r : result T) : Prop := r = Unchanged \/ r = Replace [Orig (ctext m)].

Lemma recordRetraction_transparent (s : fstate) rt : excluding s = false -> not_owed s -> recoverExcluded rt = false ->
  snd (recordRetraction s rt) = [Orig (rorig rt)] /\ not_owed (fst (recordRetraction s rt)).
Proof.
  intros X O Rt. unfold recordRetraction, not_owed in *. destruct (lastRetraction s) as [lr|] eqn:L; rewrite ?X; cbn.
  - rewrite O. destruct (allowCombine lr) eqn:A; cbn; rewrite ?X; cbn.
    + split; [reflexivity|]. unfold combine. rewrite A. destruct (Bool.eqb (fw lr) (fw rt)); [destruct (fw lr)|]; cbn; auto.
    + rewrite L. auto.
  - auto.
Qed.

Lemma recoverIfNeeded_transparent (s : fstate) cmd b : excluding s = false -> not_owed s ->
  snd (recoverRetractionIfNeeded s cmd b) = [Orig cmd] /\ not_owed (fst (recoverRetractionIfNeeded s cmd b)).
Proof.
  intros X O. unfold recoverRetractionIfNeeded, recoverRetraction, not_owed in *.
  destruct (lastRetraction s) as [lr|] eqn:L; rewrite ?X; cbn.
  - rewrite O. cbn. auto.
  - rewrite L. auto.
Qed.

Lemma processNonMove_transparent (s : fstate) cmd d : excluding s = false -> not_owed s ->
  snd (processNonMove s cmd d) = [Orig cmd] /\ not_owed (fst (processNonMove s cmd d)).
Proof.
  intros X O. unfold processNonMove.
  destruct (nltb d n0).
  - assert (Ow : match lastRetraction s with Some lr => recoverExcluded lr | None => false end = false).
    { unfold not_owed in O. destruct (lastRetraction s); auto. }
    rewrite Ow.
    pose proof (recordRetraction_transparent s (mkRetr false true false (nopp d) (feedRate s) cmd) X O eq_refl) as (A & B).
    destruct (recordRetraction s _) as [s1 cmds]. cbn in *. auto.
  - destruct (nltb n0 d); [apply recoverIfNeeded_transparent; assumption|].
    rewrite X. cbn. auto.
Qed.

(** the step lemma for processLinearMoves *)
Lemma plm_transparent c (s : fstate) cmd e f z pts : quiet s ->
  let r := processLinearMoves c s cmd e f z pts in
  excluding (fst r) = false -> snd r = Replace [Orig cmd] /\ quiet (fst r).
Proof.
  intros (X & O). unfold processLinearMoves.
  set (eA' := match e with Some v => set_logical (pe (position s)) v | None => pe (position s) end).
  set (zA' := match z with Some v => set_logical (pz (position s)) v | None => pz (position s) end).
  set (dE := match e with Some _ => nsub (cur eA') (cur (pe (position s))) | None => n0 end).
  set (s0 := match f with Some v => upd_feed s (nmul v (frMult s)) | None => s end).
  assert (X0 : excluding s0 = false) by (unfold s0; destruct f; exact X).
  assert (O0 : not_owed s0) by (unfold s0, not_owed in *; destruct f; exact O).
  set (s1 := upd_pos s0 (upd_Z (upd_E (position s) eA') zA')).
  assert (X1 : excluding s1 = false) by exact X0.
  assert (O1 : not_owed s1) by exact O0.
  destruct (is_some z || existsb (fun q => is_some (fst q) || is_some (snd q)) pts) eqn:M; cbn [negb].
  - destruct (track_points (regions s1) (enabled s1) (px (position s)) (py (position s)) pts) as [[x' y'] hit].
    set (s1' := upd_pos s1 (upd_XY (position s1) x' y')).
    assert (X1' : excluding s1' = false) by exact X1.
    assert (O1' : not_owed s1') by exact O1.
    destruct hit.
    + (* the move enters a region: an episode opens, contradiction with the hypothesis *)
      pose proof (processExcludedMove_frame c s1' cmd dE) as F.
      destruct (processExcludedMove c s1' cmd dE) as [s2 cmds]. cbn [fst] in F. destruct F as (_ & _ & _ & _ & F).
      cbn [fst snd]. intros H. exfalso.
      destruct (excluding s2 && negb (excluding s1')); cbn in H; congruence.
    + rewrite X1'. destruct (negb (neqb dE n0)).
      * pose proof (recoverIfNeeded_transparent (upd_pos s1' (upd_E (position s1') (set_cur eA' (cur (pe (position s)))))) cmd false X1' O1') as (A & B).
        destruct (recoverRetractionIfNeeded _ cmd false) as [s2 cmds] eqn:R. cbn [fst snd] in *. intros H.
        subst cmds. cbn. split; [reflexivity|]. split; [exact H|exact B].
      * cbn. intros _. split; [reflexivity|]. split; assumption.
  - pose proof (processNonMove_transparent s1 cmd dE X1 O1) as (A & B).
    destruct (processNonMove s1 cmd dE) as [s2 cmds]. cbn [fst snd] in *. subst cmds. cbn. intros H. split; [reflexivity|]. split; assumption.
Qed.

(** an episode opens only when the scan of the tested points hits an enabled region *)
Lemma plm_opens_only_on_hit c (s : fstate) cmd e f z pts : excluding s = false ->
  excluding (fst (processLinearMoves c s cmd e f z pts)) = true ->
  snd (track_points (regions s) (enabled s) (px (position s)) (py (position s)) pts) = true.
Proof.
  intros X. unfold processLinearMoves.
  set (eA' := match e with Some v => set_logical (pe (position s)) v | None => pe (position s) end).
  set (zA' := match z with Some v => set_logical (pz (position s)) v | None => pz (position s) end).
  set (dE := match e with Some _ => nsub (cur eA') (cur (pe (position s))) | None => n0 end).
  set (s0 := match f with Some v => upd_feed s (nmul v (frMult s)) | None => s end).
  assert (X0 : excluding s0 = false /\ regions s0 = regions s /\ enabled s0 = enabled s) by (unfold s0; destruct f; auto).
  destruct X0 as (X0 & R0 & E0).
  set (s1 := upd_pos s0 (upd_Z (upd_E (position s) eA') zA')).
  destruct (is_some z || existsb (fun q => is_some (fst q) || is_some (snd q)) pts) eqn:M; cbn [negb].
  - change (regions s1) with (regions s0). change (enabled s1) with (enabled s0). rewrite R0, E0.
    destruct (track_points (regions s) (enabled s) (px (position s)) (py (position s)) pts) as [[x' y'] hit].
    destruct hit; [reflexivity|].
    set (s1' := upd_pos s1 (upd_XY (position s1) x' y')).
    assert (X1' : excluding s1' = false) by exact X0. rewrite X1'.
    destruct (negb (neqb dE n0)).
    + match goal with |- context [recoverRetractionIfNeeded ?sp cmd false] =>
        pose proof (recoverRetractionIfNeeded_frame sp cmd false) as F; destruct (recoverRetractionIfNeeded sp cmd false) as [s2 cmds] end.
      cbn [fst] in *. destruct F as (_ & F & _). cbn. rewrite F. cbn. rewrite X0. discriminate.
    + cbn. rewrite X0. discriminate.
  - pose proof (processNonMove_frame s1 cmd dE) as F. destruct (processNonMove s1 cmd dE) as [s2 cmds]. cbn [fst] in *.
    destruct F as (_ & F & _). rewrite F. cbn. rewrite X0. discriminate.
Qed.

(** ** the whole dispatcher *)
Lemma handle_transparent c (s : fstate) (m : icmd) : quiet s ->
  excluding (fst (handle c s m)) = false -> verbatim m (snd (handle c s m)) /\ quiet (fst (handle c s m)).
Proof.
  intros Q. pose proof Q as (X & O). unfold handle, verbatim.
  repeat match goal with |- context [if ?b then _ else _] => destruct b end;
    try (cbn; intros _; split; [left; reflexivity | split; [exact X | exact O]]).
  - unfold handle_G0. intros H. pose proof (plm_transparent c s (ctext m) _ _ _ _ Q H) as (A & B). rewrite A.
    split; [right; reflexivity | exact B].
  - unfold handle_G2.
    destruct (match word "R" (cwords m) with Some _ => _ | None => _ end) as [i j].
    destruct (nonzero i || nonzero j).
    + intros H. pose proof (plm_transparent c s (ctext m) _ _ _ _ Q H) as (A & B). rewrite A.
      split; [right; reflexivity | exact B].
    + cbn. intros _. split; [left; reflexivity | split; [exact X | exact O]].
  - unfold handle_G10. destruct (has_label "P" (cwords m) || has_label "L" (cwords m)).
    { cbn. intros _. split; [left; reflexivity | split; [exact X | exact O]]. }
    pose proof (recordRetraction_transparent s (mkRetr false true true n0 n0 (ctext m)) X O eq_refl) as (A & B).
    destruct (recordRetraction s _) as [s1 cmds]. cbn [fst snd] in *. subst cmds. cbn. intros H.
    split; [right; reflexivity | split; [exact H | exact B]].
  - unfold handle_G11.
    pose proof (recoverIfNeeded_transparent s (ctext m) true X O) as (A & B).
    destruct (recoverRetractionIfNeeded s (ctext m) true) as [s1 cmds]. cbn [fst snd] in *. subst cmds. cbn. intros H.
    split; [right; reflexivity | split; [exact H | exact B]].
  - unfold processExtendedGcode. rewrite X, andb_false_r. cbn. intros _.
    split; [left; reflexivity | split; [exact X | exact O]].
Qed.

(** over a whole program: all outputs verbatim as long as no episode opens *)
Fixpoint run_handle (c : cfg) (s : fstate) (p : list icmd) : fstate * list (result T) :=
  match p with
  | [] => (s, [])
  | m :: t => let '(s1, r) := handle c s m in let '(s2, rs) := run_handle c s1 t in (s2, r :: rs)
  end.
Fixpoint never_excluding (c : cfg) (s : fstate) (p : list icmd) : Prop :=
  match p with
  | [] => True
  | m :: t => excluding (fst (handle c s m)) = false /\ never_excluding c (fst (handle c s m)) t
  end.

Theorem program_transparent c (p : list icmd) : forall s : fstate, quiet s -> never_excluding c s p ->
  Forall2 verbatim p (snd (run_handle c s p)).
Proof.
  induction p as [|m t IH]; intros s Q NE; cbn; [constructor|].
  destruct NE as (H & NE). pose proof (handle_transparent c s m Q H) as (V & Q').
  destruct (handle c s m) as [s1 r]. cbn [fst snd] in *.
  specialize (IH s1 Q' NE). destruct (run_handle c s1 t) as [s2 rs]. cbn [snd] in *.
  constructor; assumption.
Qed.

(** the tested points of a command (as the handlers build them) and whether the scan hits a region *)
Definition cmd_points (s : fstate) (m : icmd) : option (list (option T * option T)) :=
  let g := ccode m in let ws := cwords m in
  if String.eqb g "G0" || String.eqb g "G1" then Some [(word "X" ws, word "Y" ws)]
  else if String.eqb g "G2" || String.eqb g "G3" then
    let p := position s in
    let x := dflt (word "X" ws) (n2l (px p)) in
    let y := dflt (word "Y" ws) (n2l (py p)) in
    Some (map (fun q => (Some (fst q), Some (snd q))) (carc_mid m) ++ [(Some x, Some y)])
  else None.
Definition cmd_hits (s : fstate) (m : icmd) : bool :=
  match cmd_points s m with
  | Some pts => snd (track_points (regions s) (enabled s) (px (position s)) (py (position s)) pts)
  | None => false
  end.

Lemma handle_opens_only_on_hit c (s : fstate) (m : icmd) : excluding s = false ->
  excluding (fst (handle c s m)) = true -> cmd_hits s m = true.
Proof.
  intros X. unfold handle, cmd_hits, cmd_points.
  destruct (String.eqb (ccode m) "G0" || String.eqb (ccode m) "G1").
  { unfold handle_G0. apply plm_opens_only_on_hit; exact X. }
  destruct (String.eqb (ccode m) "G2" || String.eqb (ccode m) "G3").
  { unfold handle_G2.
    destruct (match word "R" (cwords m) with Some _ => _ | None => _ end) as [i j].
    destruct (nonzero i || nonzero j); [apply plm_opens_only_on_hit; exact X | cbn; congruence]. }
  repeat match goal with |- context [if ?b then _ else _] => destruct b end; try (cbn; congruence).
  - unfold handle_G10. destruct (has_label "P" (cwords m) || has_label "L" (cwords m)); [cbn; congruence|].
    pose proof (recordRetraction_frame s (mkRetr false true true n0 n0 (ctext m))) as F.
    destruct (recordRetraction s _) as [s1 cmds]. cbn [fst] in *. destruct F as (_ & F & _). congruence.
  - unfold handle_G11. pose proof (recoverRetractionIfNeeded_frame s (ctext m) true) as F.
    destruct (recoverRetractionIfNeeded s (ctext m) true) as [s1 cmds]. cbn [fst] in *. destruct F as (_ & F & _). congruence.
  - unfold processExtendedGcode. rewrite X, andb_false_r. cbn. congruence.
Qed.

Lemma plm_regions_enabled c (s : fstate) cmd e f z pts :
  regions (fst (processLinearMoves c s cmd e f z pts)) = regions s /\
  enabled (fst (processLinearMoves c s cmd e f z pts)) = enabled s.
Proof.
  unfold processLinearMoves.
  set (eA' := match e with Some v => set_logical (pe (position s)) v | None => pe (position s) end).
  set (zA' := match z with Some v => set_logical (pz (position s)) v | None => pz (position s) end).
  set (dE := match e with Some _ => nsub (cur eA') (cur (pe (position s))) | None => n0 end).
  set (s0 := match f with Some v => upd_feed s (nmul v (frMult s)) | None => s end).
  assert (R0 : regions s0 = regions s /\ enabled s0 = enabled s) by (unfold s0; destruct f; auto).
  set (s1 := upd_pos s0 (upd_Z (upd_E (position s) eA') zA')).
  destruct (is_some z || existsb (fun q => is_some (fst q) || is_some (snd q)) pts); cbn [negb].
  - destruct (track_points (regions s1) (enabled s1) (px (position s)) (py (position s)) pts) as [[x' y'] hit].
    set (s1' := upd_pos s1 (upd_XY (position s1) x' y')).
    destruct hit.
    + pose proof (processExcludedMove_frame c s1' cmd dE) as F.
      destruct (processExcludedMove c s1' cmd dE) as [s2 cmds]. cbn [fst] in *. destruct F as (_ & _ & F1 & F2 & _).
      destruct (excluding s2 && negb (excluding s1')); cbn; rewrite ?F1, ?F2; exact (conj (proj1 R0) (proj2 R0)).
    + destruct (excluding s1') eqn:X.
      * destruct (exit_shape c s1' X) as (r & _ & _ & _ & _ & _ & _ & F1 & F2).
        destruct (exitExcludedRegion c s1') as [s2 cmds]. cbn [fst] in *. rewrite F1, F2. exact (conj (proj1 R0) (proj2 R0)).
      * destruct (negb (neqb dE n0)).
        -- match goal with |- context [recoverRetractionIfNeeded ?sp cmd false] =>
             pose proof (recoverRetractionIfNeeded_frame sp cmd false) as F; destruct (recoverRetractionIfNeeded sp cmd false) as [s2 cmds] end.
           cbn [fst] in *. destruct F as (_ & _ & _ & F1 & F2 & _). cbn. rewrite F1, F2. exact (conj (proj1 R0) (proj2 R0)).
        -- cbn. exact (conj (proj1 R0) (proj2 R0)).
  - pose proof (processNonMove_frame s1 cmd dE) as F. destruct (processNonMove s1 cmd dE) as [s2 cmds]. cbn [fst] in *.
    destruct F as (_ & _ & _ & F1 & F2 & _). rewrite F1, F2. exact (conj (proj1 R0) (proj2 R0)).
Qed.

Lemma handle_regions_enabled c (s : fstate) (m : icmd) :
  regions (fst (handle c s m)) = regions s /\ enabled (fst (handle c s m)) = enabled s.
Proof.
  unfold handle.
  repeat match goal with |- context [if ?b then _ else _] => destruct b end; try (cbn; auto; fail).
  - unfold handle_G0. apply plm_regions_enabled.
  - unfold handle_G2. destruct (match word "R" (cwords m) with Some _ => _ | None => _ end) as [i j].
    destruct (nonzero i || nonzero j); [apply plm_regions_enabled | cbn; auto].
  - unfold handle_G10. destruct (has_label "P" (cwords m) || has_label "L" (cwords m)); [cbn; auto|].
    pose proof (recordRetraction_frame s (mkRetr false true true n0 n0 (ctext m))) as F.
    destruct (recordRetraction s _) as [s1 cmds]. cbn [fst] in *. destruct F as (_ & _ & _ & F1 & F2 & _). auto.
  - unfold handle_G11. pose proof (recoverRetractionIfNeeded_frame s (ctext m) true) as F.
    destruct (recoverRetractionIfNeeded s (ctext m) true) as [s1 cmds]. cbn [fst] in *. destruct F as (_ & _ & _ & F1 & F2 & _). auto.
  - unfold processExtendedGcode. destruct (negb (String.eqb (ccode m) "") && excluding s); [|cbn; auto].
    destruct (assoc (ccode m) (ext c)) as [mode|]; [|cbn; auto].
    cbn [fst]. unfold processExtendedGcodeEntry. destruct mode; cbn; auto.
    destruct (assoc (ccode m) (pending s)); cbn; auto.
Qed.

(** C02, main form: if no tested point of the program ever lies inside an enabled region
    (judged with the regions and the position the filter tracks), every command is forwarded verbatim *)
Fixpoint never_hits (c : cfg) (s : fstate) (p : list icmd) : Prop :=
  match p with
  | [] => True
  | m :: t => cmd_hits s m = false /\ never_hits c (fst (handle c s m)) t
  end.

Lemma never_hits_never_excluding c p : forall s : fstate, excluding s = false -> never_hits c s p -> never_excluding c s p.
Proof.
  induction p as [|m t IH]; intros s X NH; cbn; [exact I|]. destruct NH as (H & NH).
  assert (X' : excluding (fst (handle c s m)) = false).
  { destruct (excluding (fst (handle c s m))) eqn:E; [|reflexivity].
    pose proof (handle_opens_only_on_hit c s m X E). congruence. }
  split; [exact X' | apply IH; assumption].
Qed.

Theorem transparent_when_never_hit c (p : list icmd) (s : fstate) : quiet s -> never_hits c s p ->
  Forall2 verbatim p (snd (run_handle c s p)).
Proof. intros Q NH. apply program_transparent; [exact Q|]. apply never_hits_never_excluding; [exact (proj1 Q) | exact NH]. Qed.

Lemma cmd_hits_noregions (s : fstate) m : regions s = [] -> cmd_hits s m = false.
Proof. intros R. unfold cmd_hits. destruct (cmd_points s m); [|reflexivity]. rewrite R. apply track_points_noregions. Qed.
Lemma cmd_hits_disabled (s : fstate) m : enabled s = false -> cmd_hits s m = false.
Proof. intros R. unfold cmd_hits. destruct (cmd_points s m); [|reflexivity]. rewrite R. apply track_points_disabled. Qed.

Corollary transparent_without_regions c (p : list icmd) : forall s : fstate, quiet s -> regions s = [] ->
  Forall2 verbatim p (snd (run_handle c s p)).
Proof.
  intros s Q R. apply transparent_when_never_hit; [exact Q|]. revert s Q R.
  induction p as [|m t IH]; intros s Q R; cbn; [exact I|]. split; [apply cmd_hits_noregions; exact R|].
  pose proof (handle_regions_enabled c s m) as (F1 & _).
  assert (X' : excluding (fst (handle c s m)) = false).
  { destruct (excluding (fst (handle c s m))) eqn:E; [|reflexivity].
    pose proof (handle_opens_only_on_hit c s m (proj1 Q) E) as H. rewrite cmd_hits_noregions in H by exact R. discriminate. }
  apply IH; [apply (handle_transparent c s m Q X') | congruence].
Qed.

Corollary transparent_while_disabled c (p : list icmd) : forall s : fstate, quiet s -> enabled s = false ->
  Forall2 verbatim p (snd (run_handle c s p)).
Proof.
  intros s Q R. apply transparent_when_never_hit; [exact Q|]. revert s Q R.
  induction p as [|m t IH]; intros s Q R; cbn; [exact I|]. split; [apply cmd_hits_disabled; exact R|].
  pose proof (handle_regions_enabled c s m) as (_ & F2).
  assert (X' : excluding (fst (handle c s m)) = false).
  { destruct (excluding (fst (handle c s m))) eqn:E; [|reflexivity].
    pose proof (handle_opens_only_on_hit c s m (proj1 Q) E) as H. rewrite cmd_hits_disabled in H by exact R. discriminate. }
  apply IH; [apply (handle_transparent c s m Q X') | congruence].
Qed.

Lemma init_quiet rs : quiet (init_state rs).
Proof. split; cbn; auto. Qed.

End TR.
