(** Classification of what the filter emits, by episode phase (C01, C06, C15):
    opening  : enter script, then at most a retraction;  lastPosition := position before the move
    inside   : nothing, or a retraction (G92 E / G1 E- / G10), or an untouched pass-through command
    closing  : exactly the exit sequence
    outside  : see Proofs/Transparent.v *)
From Coq Require Import String Ascii List Bool.
From ER Require Import Base.Num Model.Geometry Model.Axis Model.Filter Proofs.FilterLemmas Proofs.Deferred.
Import ListNotations.

Section OUT.
Context {T : Type} {N : Num T}.
Notation fstate := (fstate T).
Notation icmd := (icmd T).
Notation ocmd := (ocmd T).

Definition is_retract_out (o : ocmd) : Prop :=
  match o with SetE _ | ExtrudeTo _ _ | FwCmd false _ => True | _ => False end.

Lemma retr_cmds_retract (r : retr T) (p : pos T) : Forall is_retract_out (retr_cmds r false p).
Proof. unfold retr_cmds. destruct (fw r); repeat constructor. Qed.

Lemma recordRetraction_excluding (s : fstate) rt : excluding s = true ->
  Forall is_retract_out (snd (recordRetraction s rt)).
Proof.
  intros X. unfold recordRetraction. destruct (lastRetraction s) as [lr|]; rewrite ?X; cbn.
  - destruct (recoverExcluded lr); cbn; [constructor|].
    destruct (allowCombine lr); cbn; rewrite ?X; [apply retr_cmds_retract | constructor].
  - apply retr_cmds_retract.
Qed.

Lemma recoverIfNeeded_excluding (s : fstate) cmd b : excluding s = true -> snd (recoverRetractionIfNeeded s cmd b) = [].
Proof. intros X. unfold recoverRetractionIfNeeded. destruct (lastRetraction s); rewrite X; reflexivity. Qed.

Lemma processNonMove_excluding (s : fstate) cmd d : excluding s = true ->
  Forall is_retract_out (snd (processNonMove s cmd d)).
Proof.
  intros X. unfold processNonMove. destruct (nltb d n0).
  - pose proof (recordRetraction_excluding s (mkRetr false true false (nopp d) (feedRate s) cmd) X) as R.
    pose proof (recordRetraction_frame s (mkRetr false true false (nopp d) (feedRate s) cmd)) as F.
    destruct (recordRetraction s _) as [s1 cmds]. cbn [fst snd] in *. destruct F as (_ & F & _). rewrite F, X. cbn.
    rewrite andb_false_r. exact R.
  - destruct (nltb n0 d); [rewrite recoverIfNeeded_excluding by exact X; constructor|]. rewrite X. cbn. constructor.
Qed.

Lemma Forall_to_result (P : ocmd -> Prop) l :
  Forall P l -> match to_result l with Replace l' => Forall P l' | _ => True end.
Proof. destruct l; cbn; auto. Qed.

(** *** processLinearMoves, phase by phase *)
Lemma plm_inside c (s : fstate) cmd e f z pts : excluding s = true ->
  excluding (fst (processLinearMoves c s cmd e f z pts)) = true ->
  match snd (processLinearMoves c s cmd e f z pts) with Replace l => Forall is_retract_out l | _ => True end.
Proof.
  intros X. unfold processLinearMoves.
  set (eA' := match e with Some v => set_logical (pe (position s)) v | None => pe (position s) end).
  set (zA' := match z with Some v => set_logical (pz (position s)) v | None => pz (position s) end).
  set (dE := match e with Some _ => nsub (cur eA') (cur (pe (position s))) | None => n0 end).
  set (s0 := match f with Some v => upd_feed s (nmul v (frMult s)) | None => s end).
  assert (X0 : excluding s0 = true) by (unfold s0; destruct f; exact X).
  set (s1 := upd_pos s0 (upd_Z (upd_E (position s) eA') zA')).
  destruct (is_some z || existsb (fun q => is_some (fst q) || is_some (snd q)) pts); cbn [negb].
  - destruct (track_points (regions s1) (enabled s1) (px (position s)) (py (position s)) pts) as [[x' y'] hit].
    set (s1' := upd_pos s1 (upd_XY (position s1) x' y')).
    assert (X1 : excluding s1' = true) by exact X0.
    destruct hit.
    + unfold processExcludedMove. rewrite X1. cbn [negb].
      destruct (nltb dE n0).
      * pose proof (processNonMove_excluding s1' cmd dE X1) as R.
        destruct (processNonMove s1' cmd dE) as [s2 more]. cbn [fst snd app] in *.
        intros _. destruct (excluding s2 && negb true); cbn [snd]; apply Forall_to_result; exact R.
      * cbn. intros _. exact I.
    + rewrite X1. destruct (exit_shape c s1' X1) as (r & _ & _ & E & _).
      destruct (exitExcludedRegion c s1') as [s2 cmds]. cbn [fst snd] in *. congruence.
  - pose proof (processNonMove_excluding s1 cmd dE X0) as R.
    destruct (processNonMove s1 cmd dE) as [s2 cmds]. cbn [fst snd] in *. intros _. apply Forall_to_result; exact R.
Qed.

Lemma plm_closing c (s : fstate) cmd e f z pts : excluding s = true ->
  excluding (fst (processLinearMoves c s cmd e f z pts)) = false ->
  exists s1 : fstate, excluding s1 = true /\ pending s1 = pending s /\ lastPosition s1 = lastPosition s /\
    position s1 = plm_pos (position s) e z pts /\
    snd (processLinearMoves c s cmd e f z pts) = to_result (exit_sequence c s1) /\
    fst (processLinearMoves c s cmd e f z pts) = fst (exitExcludedRegion c s1).
Proof.
  intros X. pose proof (plm_position c s cmd e f z pts) as PP. revert PP. unfold processLinearMoves, plm_pos.
  set (eA' := match e with Some v => set_logical (pe (position s)) v | None => pe (position s) end).
  set (zA' := match z with Some v => set_logical (pz (position s)) v | None => pz (position s) end).
  set (dE := match e with Some _ => nsub (cur eA') (cur (pe (position s))) | None => n0 end).
  set (s0 := match f with Some v => upd_feed s (nmul v (frMult s)) | None => s end).
  assert (X0 : excluding s0 = true /\ pending s0 = pending s /\ lastPosition s0 = lastPosition s) by (unfold s0; destruct f; auto).
  destruct X0 as (X0 & P0 & L0).
  set (s1 := upd_pos s0 (upd_Z (upd_E (position s) eA') zA')).
  destruct (is_some z || existsb (fun q => is_some (fst q) || is_some (snd q)) pts); cbn [negb].
  - pose proof (track_points_axes (regions s1) (enabled s1) [] false (px (position s)) (py (position s)) pts) as TA.
    destruct (track_points (regions s1) (enabled s1) (px (position s)) (py (position s)) pts) as [[x' y'] hit].
    destruct (track_points [] false (px (position s)) (py (position s)) pts) as [[x2 y2] hit2].
    cbn [fst] in TA. injection TA as -> ->.
    set (s1' := upd_pos s1 (upd_XY (position s1) x2 y2)).
    assert (X1 : excluding s1' = true) by exact X0.
    destruct hit.
    + pose proof (processExcludedMove_frame c s1' cmd dE) as F.
      destruct (processExcludedMove c s1' cmd dE) as [s2 cmds]. cbn [fst] in F. destruct F as (_ & _ & _ & _ & F).
      cbn [fst snd]. intros _ H. exfalso. destruct (excluding s2 && negb (excluding s1')); cbn in H; congruence.
    + rewrite X1. intros PP _. exists s1'. unfold exit_sequence.
      destruct (exitExcludedRegion c s1') as [s2 cmds]. cbn [fst snd] in *.
      split; [exact X1|]. split; [exact P0|]. split; [exact L0|]. split; [reflexivity|]. split; reflexivity.
  - pose proof (processNonMove_frame s1 cmd dE) as F. destruct (processNonMove s1 cmd dE) as [s2 cmds]. cbn [fst] in *.
    destruct F as (_ & F & _). intros _ H. exfalso. rewrite F in H. cbn in H. congruence.
Qed.

Lemma plm_opening c (s : fstate) cmd e f z pts : excluding s = false ->
  excluding (fst (processLinearMoves c s cmd e f z pts)) = true ->
  exists rest, snd (processLinearMoves c s cmd e f z pts) = to_result (map Script (enterS c) ++ rest) /\
    Forall is_retract_out rest /\
    lastPosition (fst (processLinearMoves c s cmd e f z pts)) = position s /\
    pending (fst (processLinearMoves c s cmd e f z pts)) = pending s.
Proof.
  intros X. unfold processLinearMoves.
  set (eA' := match e with Some v => set_logical (pe (position s)) v | None => pe (position s) end).
  set (zA' := match z with Some v => set_logical (pz (position s)) v | None => pz (position s) end).
  set (dE := match e with Some _ => nsub (cur eA') (cur (pe (position s))) | None => n0 end).
  set (s0 := match f with Some v => upd_feed s (nmul v (frMult s)) | None => s end).
  assert (X0 : excluding s0 = false /\ pending s0 = pending s) by (unfold s0; destruct f; auto).
  destruct X0 as (X0 & P0).
  set (s1 := upd_pos s0 (upd_Z (upd_E (position s) eA') zA')).
  destruct (is_some z || existsb (fun q => is_some (fst q) || is_some (snd q)) pts); cbn [negb].
  - destruct (track_points (regions s1) (enabled s1) (px (position s)) (py (position s)) pts) as [[x' y'] hit].
    set (s1' := upd_pos s1 (upd_XY (position s1) x' y')).
    assert (X1 : excluding s1' = false) by exact X0.
    destruct hit.
    + unfold processExcludedMove. rewrite X1. cbn [negb]. unfold enterExcludedRegion. rewrite X1.
      set (s1e := upd_lastpos (upd_excl s1' true) (position s1')).
      destruct (nltb dE n0).
      * pose proof (processNonMove_excluding s1e cmd dE eq_refl) as R.
        pose proof (processNonMove_frame s1e cmd dE) as F.
        destruct (processNonMove s1e cmd dE) as [s2 more]. cbn [fst snd] in *. destruct F as (_ & F & FP & _).
        rewrite F. cbn. intros _. exists more. repeat split; [exact R | rewrite FP; exact P0].
      * cbn. intros _. exists []. rewrite app_nil_r. repeat split; [constructor | exact P0].
    + rewrite X1. destruct (negb (neqb dE n0)).
      * match goal with |- context [recoverRetractionIfNeeded ?sp cmd false] =>
          pose proof (recoverRetractionIfNeeded_frame sp cmd false) as F; destruct (recoverRetractionIfNeeded sp cmd false) as [s2 cmds] end.
        cbn [fst] in *. destruct F as (_ & F & _). cbn. rewrite F. cbn. rewrite X0. discriminate.
      * cbn. rewrite X0. discriminate.
  - pose proof (processNonMove_frame s1 cmd dE) as F. destruct (processNonMove s1 cmd dE) as [s2 cmds]. cbn [fst] in *.
    destruct F as (_ & F & _). rewrite F. cbn. rewrite X0. discriminate.
Qed.


(** *** the dispatcher *)
Definition linear (m : icmd) : bool :=
  let g := ccode m in String.eqb g "G0" || String.eqb g "G1" || String.eqb g "G2" || String.eqb g "G3".

(** commands other than G0-G3 never open or close an episode, and leave pending alone unless deferred *)
Lemma handle_nonlinear c (s : fstate) (m : icmd) : linear m = false ->
  excluding (fst (handle c s m)) = excluding s /\ lastPosition (fst (handle c s m)) = lastPosition s.
Proof.
  unfold linear, handle. intros L.
  apply orb_false_iff in L. destruct L as (L & L3). apply orb_false_iff in L. destruct L as (L & L2).
  apply orb_false_iff in L. destruct L as (L0 & L1). rewrite L0, L1, L2, L3. cbn [orb].
  repeat match goal with |- context [if ?b then _ else _] => destruct b end; try (cbn; auto; fail).
  - unfold handle_G10. destruct (has_label "P" (cwords m) || has_label "L" (cwords m)); [cbn; auto|].
    pose proof (recordRetraction_frame s (mkRetr false true true n0 n0 (ctext m))) as F.
    destruct (recordRetraction s _) as [s1 cmds]. cbn [fst] in *. destruct F as (_ & F1 & _ & _ & _ & F2 & _). auto.
  - unfold handle_G11. pose proof (recoverRetractionIfNeeded_frame s (ctext m) true) as F.
    destruct (recoverRetractionIfNeeded s (ctext m) true) as [s1 cmds]. cbn [fst] in *. destruct F as (_ & F1 & _ & _ & _ & F2 & _). auto.
  - unfold processExtendedGcode. destruct (negb (String.eqb (ccode m) "") && excluding s); [|cbn; auto].
    destruct (assoc (ccode m) (ext c)) as [mode|]; [|cbn; auto].
    cbn [fst]. unfold processExtendedGcodeEntry. destruct mode; cbn; auto.
    destruct (assoc (ccode m) (pending s)); cbn; auto.
Qed.

Lemma handle_nonlinear_inside c (s : fstate) (m : icmd) : linear m = false -> excluding s = true ->
  match snd (handle c s m) with Replace l => Forall is_retract_out l | _ => True end.
Proof.
  unfold linear, handle. intros L X.
  apply orb_false_iff in L. destruct L as (L & L3). apply orb_false_iff in L. destruct L as (L & L2).
  apply orb_false_iff in L. destruct L as (L0 & L1). rewrite L0, L1, L2, L3. cbn [orb].
  repeat match goal with |- context [if ?b then _ else _] => destruct b end; try (cbn; auto; fail).
  - unfold handle_G10. destruct (has_label "P" (cwords m) || has_label "L" (cwords m)); [cbn; auto|].
    pose proof (recordRetraction_excluding s (mkRetr false true true n0 n0 (ctext m)) X) as R.
    destruct (recordRetraction s _) as [s1 cmds]. cbn [fst snd] in *. apply Forall_to_result; exact R.
  - unfold handle_G11. pose proof (recoverIfNeeded_excluding s (ctext m) true X) as R.
    destruct (recoverRetractionIfNeeded s (ctext m) true) as [s1 cmds]. cbn [fst snd] in *. subst cmds. exact I.
  - unfold processExtendedGcode. destruct (negb (String.eqb (ccode m) "") && excluding s); [|cbn; auto].
    destruct (assoc (ccode m) (ext c)) as [mode|]; cbn; auto.
Qed.

Lemma linear_cases (m : icmd) : linear m = true ->
  (String.eqb (ccode m) "G0" || String.eqb (ccode m) "G1" = true) \/
  (String.eqb (ccode m) "G0" || String.eqb (ccode m) "G1" = false /\ String.eqb (ccode m) "G2" || String.eqb (ccode m) "G3" = true).
Proof.
  unfold linear. destruct (String.eqb (ccode m) "G0"), (String.eqb (ccode m) "G1"), (String.eqb (ccode m) "G2"), (String.eqb (ccode m) "G3"); cbn; auto; discriminate.
Qed.

Theorem handle_inside c (s : fstate) (m : icmd) : excluding s = true -> excluding (fst (handle c s m)) = true ->
  match snd (handle c s m) with Replace l => Forall is_retract_out l | _ => True end.
Proof.
  intros X X'. destruct (linear m) eqn:L; [|apply handle_nonlinear_inside; assumption].
  revert X'. unfold handle. destruct (linear_cases m L) as [E|(E0 & E)]; rewrite ?E0, E.
  - unfold handle_G0. apply plm_inside; exact X.
  - unfold handle_G2. destruct (match word "R" (cwords m) with Some _ => _ | None => _ end) as [i j].
    destruct (nonzero i || nonzero j); [apply plm_inside; exact X | cbn; auto].
Qed.

Theorem handle_opening c (s : fstate) (m : icmd) : excluding s = false -> excluding (fst (handle c s m)) = true ->
  exists rest, snd (handle c s m) = to_result (map Script (enterS c) ++ rest) /\ Forall is_retract_out rest /\
    lastPosition (fst (handle c s m)) = position s /\ pending (fst (handle c s m)) = pending s.
Proof.
  intros X X'. destruct (linear m) eqn:L.
  2:{ pose proof (handle_nonlinear c s m L) as (F & _). congruence. }
  revert X'. unfold handle. destruct (linear_cases m L) as [E|(E0 & E)]; rewrite ?E0, E.
  - unfold handle_G0. apply plm_opening; exact X.
  - unfold handle_G2. destruct (match word "R" (cwords m) with Some _ => _ | None => _ end) as [i j].
    destruct (nonzero i || nonzero j); [apply plm_opening; exact X | cbn; congruence].
Qed.

Theorem handle_closing c (s : fstate) (m : icmd) : excluding s = true -> excluding (fst (handle c s m)) = false ->
  exists s1 : fstate, excluding s1 = true /\ pending s1 = pending s /\ lastPosition s1 = lastPosition s /\
    snd (handle c s m) = to_result (exit_sequence c s1) /\ fst (handle c s m) = fst (exitExcludedRegion c s1).
Proof.
  intros X X'. destruct (linear m) eqn:L.
  2:{ pose proof (handle_nonlinear c s m L) as (F & _). congruence. }
  revert X'. unfold handle. destruct (linear_cases m L) as [E|(E0 & E)]; rewrite ?E0, E.
  - unfold handle_G0. intros X'. destruct (plm_closing c s (ctext m) _ _ _ _ X X') as (s1 & A & B & C & _ & D & F).
    exists s1. auto.
  - unfold handle_G2. destruct (match word "R" (cwords m) with Some _ => _ | None => _ end) as [i j].
    destruct (nonzero i || nonzero j); [|cbn; congruence].
    intros X'. destruct (plm_closing c s (ctext m) _ _ _ _ X X') as (s1 & A & B & C & _ & D & F).
    exists s1. auto.
Qed.

(** *** what happens to the deferred commands while an episode stays open (C06) *)
Definition handled_code (g : string) : bool :=
  existsb (String.eqb g) ["G0"; "G1"; "G2"; "G3"; "G10"; "G11"; "G20"; "G21"; "G28"; "G90"; "G91"; "G92"; "M206"]%string.
(** the mode under which a command is deferred, if any *)
Definition deferred_mode (c : cfg) (m : icmd) : option xmode :=
  if handled_code (ccode m) || String.eqb (ccode m) "" then None else assoc (ccode m) (ext c).

Lemma code_cases (g : string) :
  g = "G0"%string \/ g = "G1"%string \/ g = "G2"%string \/ g = "G3"%string \/ g = "G10"%string \/ g = "G11"%string \/
  g = "G20"%string \/ g = "G21"%string \/ g = "G28"%string \/ g = "G90"%string \/ g = "G91"%string \/ g = "G92"%string \/
  g = "M206"%string \/ handled_code g = false.
Proof.
  unfold handled_code. cbn [existsb].
  repeat match goal with |- context [String.eqb g ?k] => destruct (String.eqb_spec g k); [tauto|] end.
  cbn. tauto.
Qed.

Ltac by_code m :=
  destruct (code_cases (ccode m)) as [E|[E|[E|[E|[E|[E|[E|[E|[E|[E|[E|[E|[E|E]]]]]]]]]]]]];
  [rewrite E; cbn [String.eqb Ascii.eqb Bool.eqb orb andb negb existsb] .. | ].

(** *** tracking does not depend on the exclusion state (C14, C01, C03):
    the tracked position after a command is a function of the tracked position before it only *)
Theorem handle_position_indep c (s s2 : fstate) (m : icmd) : position s = position s2 ->
  position (fst (handle c s m)) = position (fst (handle c s2 m)).
Proof.
  intros P. unfold handle. by_code m.
  - unfold handle_G0. rewrite !plm_position, P. reflexivity.
  - unfold handle_G0. rewrite !plm_position, P. reflexivity.
  - unfold handle_G2. rewrite P. destruct (match word "R" (cwords m) with Some _ => _ | None => _ end) as [i j].
    destruct (nonzero i || nonzero j); [rewrite !plm_position, P; reflexivity | exact P].
  - unfold handle_G2. rewrite P. destruct (match word "R" (cwords m) with Some _ => _ | None => _ end) as [i j].
    destruct (nonzero i || nonzero j); [rewrite !plm_position, P; reflexivity | exact P].
  - unfold handle_G10. destruct (has_label "P" (cwords m) || has_label "L" (cwords m)); [exact P|].
    pose proof (recordRetraction_frame s (mkRetr false true true n0 n0 (ctext m))) as F.
    pose proof (recordRetraction_frame s2 (mkRetr false true true n0 n0 (ctext m))) as F2.
    destruct (recordRetraction s _) as [s1 cmds]. destruct (recordRetraction s2 _) as [s1' cmds']. cbn [fst] in *.
    destruct F as (F & _). destruct F2 as (F2 & _). congruence.
  - unfold handle_G11. pose proof (recoverRetractionIfNeeded_frame s (ctext m) true) as F.
    pose proof (recoverRetractionIfNeeded_frame s2 (ctext m) true) as F2.
    destruct (recoverRetractionIfNeeded s (ctext m) true) as [s1 cmds]. destruct (recoverRetractionIfNeeded s2 (ctext m) true) as [s1' cmds']. cbn [fst] in *.
    destruct F as (F & _). destruct F2 as (F2 & _). congruence.
  - cbn. rewrite P. reflexivity.
  - cbn. rewrite P. reflexivity.
  - unfold handle_G28. cbn. rewrite P. reflexivity.
  - cbn. rewrite P. reflexivity.
  - cbn. rewrite P. reflexivity.
  - cbn. rewrite P. reflexivity.
  - cbn. rewrite P. reflexivity.
  - pose proof E as E'. unfold handled_code in E'. cbn [existsb] in E'.
    repeat (apply orb_false_iff in E'; destruct E' as (?E1 & E')).
    repeat match goal with H : String.eqb (ccode m) _ = false |- _ => rewrite H; clear H end. cbn [orb].
    assert (Q : forall st : fstate, position (fst (processExtendedGcode c st m)) = position st).
    { intros st. unfold processExtendedGcode. destruct (negb (String.eqb (ccode m) "") && excluding st); [|reflexivity].
      destruct (assoc (ccode m) (ext c)) as [mode|]; [|reflexivity]. cbn [fst]. unfold processExtendedGcodeEntry.
      destruct mode; cbn; try reflexivity. destruct (assoc (ccode m) (pending st)); reflexivity. }
    rewrite !Q. exact P.
Qed.

(** nothing deferred survives an episode; nothing is deferred outside one (C06 no-leak) *)
Definition no_leak (s : fstate) : Prop := excluding s = false -> pending s = [].


Lemma plm_pending_outside c (s : fstate) cmd e f z pts : excluding s = false ->
  pending (fst (processLinearMoves c s cmd e f z pts)) = pending s.
Proof.
  intros X. unfold processLinearMoves.
  set (eA' := match e with Some v => set_logical (pe (position s)) v | None => pe (position s) end).
  set (zA' := match z with Some v => set_logical (pz (position s)) v | None => pz (position s) end).
  set (dE := match e with Some _ => nsub (cur eA') (cur (pe (position s))) | None => n0 end).
  set (s0 := match f with Some v => upd_feed s (nmul v (frMult s)) | None => s end).
  assert (X0 : excluding s0 = false /\ pending s0 = pending s) by (unfold s0; destruct f; auto).
  destruct X0 as (X0 & P0).
  set (s1 := upd_pos s0 (upd_Z (upd_E (position s) eA') zA')).
  destruct (is_some z || existsb (fun q => is_some (fst q) || is_some (snd q)) pts); cbn [negb].
  - destruct (track_points (regions s1) (enabled s1) (px (position s)) (py (position s)) pts) as [[x' y'] hit].
    set (s1' := upd_pos s1 (upd_XY (position s1) x' y')).
    assert (X1 : excluding s1' = false) by exact X0.
    destruct hit.
    + pose proof (processExcludedMove_frame c s1' cmd dE) as F.
      destruct (processExcludedMove c s1' cmd dE) as [s2 cmds]. cbn [fst] in *. destruct F as (_ & F & _).
      destruct (excluding s2 && negb (excluding s1')); cbn; rewrite F; exact P0.
    + rewrite X1. destruct (negb (neqb dE n0)).
      * match goal with |- context [recoverRetractionIfNeeded ?sp cmd false] =>
          pose proof (recoverRetractionIfNeeded_frame sp cmd false) as F; destruct (recoverRetractionIfNeeded sp cmd false) as [s2 cmds] end.
        cbn [fst] in *. destruct F as (_ & _ & F & _). cbn. rewrite F. exact P0.
      * cbn. exact P0.
  - pose proof (processNonMove_frame s1 cmd dE) as F. destruct (processNonMove s1 cmd dE) as [s2 cmds]. cbn [fst] in *.
    destruct F as (_ & _ & F & _). rewrite F. exact P0.
Qed.

Lemma handle_pending_outside c (s : fstate) (m : icmd) : excluding s = false -> pending (fst (handle c s m)) = pending s.
Proof.
  intros X. unfold handle.
  repeat match goal with |- context [if ?b then _ else _] => destruct b end; try (cbn; auto; fail).
  - unfold handle_G0. apply plm_pending_outside; exact X.
  - unfold handle_G2. destruct (match word "R" (cwords m) with Some _ => _ | None => _ end) as [i j].
    destruct (nonzero i || nonzero j); [apply plm_pending_outside; exact X | reflexivity].
  - unfold handle_G10. destruct (has_label "P" (cwords m) || has_label "L" (cwords m)); [cbn; auto|].
    pose proof (recordRetraction_frame s (mkRetr false true true n0 n0 (ctext m))) as F.
    destruct (recordRetraction s _) as [s1 cmds]. cbn [fst] in *. destruct F as (_ & _ & F & _). exact F.
  - unfold handle_G11. pose proof (recoverRetractionIfNeeded_frame s (ctext m) true) as F.
    destruct (recoverRetractionIfNeeded s (ctext m) true) as [s1 cmds]. cbn [fst] in *. destruct F as (_ & _ & F & _). exact F.
  - unfold processExtendedGcode. rewrite X, andb_false_r. reflexivity.
Qed.

Theorem handle_no_leak c (s : fstate) (m : icmd) : no_leak s -> no_leak (fst (handle c s m)).
Proof.
  intros NL X'. destruct (excluding s) eqn:X.
  - destruct (handle_closing c s m X X') as (s1 & A & _ & _ & _ & F). rewrite F.
    destruct (exit_shape c s1 A) as (r & _ & _ & _ & P & _). exact P.
  - rewrite handle_pending_outside by exact X. apply NL. exact X.
Qed.

Theorem handle_at_no_leak c (s : fstate) st ms : no_leak s -> no_leak (fst (fst (handle_at c s st ms))).
Proof.
  unfold handle_at. destruct st; [auto|].
  set (stepf := fun (acc : fstate * bool * list ocmd) (a : ataction) =>
      let '(s0, _, sent) := acc in
      match a with
      | AtEnable => (enableExclusion s0, true, sent)
      | AtDisable => let '(s1, cmds) := disableExclusion c s0 in (s1, true, sent ++ cmds)
      end).
  assert (G : forall ms (acc : fstate * bool * list ocmd), no_leak (fst (fst acc)) -> no_leak (fst (fst (fold_left stepf ms acc)))).
  { induction ms0 as [|a t IH]; intros acc H; cbn; [exact H|]. apply IH.
    destruct acc as [[s0 h] sent]. cbn [fst] in *. unfold stepf. destruct a.
    - cbn. unfold enableExclusion. destruct (enabled s0); exact H.
    - unfold disableExclusion. destruct (enabled s0); cbn; [|exact H].
      destruct (excluding s0) eqn:X0.
      + assert (X1 : excluding (upd_enabled s0 false) = true) by exact X0.
        destruct (exit_shape c (upd_enabled s0 false) X1) as (r & _ & _ & _ & P & _).
        destruct (exitExcludedRegion c (upd_enabled s0 false)) as [s2 cmds]. cbn [fst] in *. intros _. exact P.
      + cbn. exact H. }
  intros H. apply (G ms (s, false, [])). exact H.
Qed.


Lemma plm_pending_inside c (s : fstate) cmd e f z pts : excluding s = true ->
  excluding (fst (processLinearMoves c s cmd e f z pts)) = true ->
  pending (fst (processLinearMoves c s cmd e f z pts)) = pending s.
Proof.
  intros X. unfold processLinearMoves.
  set (eA' := match e with Some v => set_logical (pe (position s)) v | None => pe (position s) end).
  set (zA' := match z with Some v => set_logical (pz (position s)) v | None => pz (position s) end).
  set (dE := match e with Some _ => nsub (cur eA') (cur (pe (position s))) | None => n0 end).
  set (s0 := match f with Some v => upd_feed s (nmul v (frMult s)) | None => s end).
  assert (X0 : excluding s0 = true /\ pending s0 = pending s) by (unfold s0; destruct f; auto).
  destruct X0 as (X0 & P0).
  set (s1 := upd_pos s0 (upd_Z (upd_E (position s) eA') zA')).
  destruct (is_some z || existsb (fun q => is_some (fst q) || is_some (snd q)) pts); cbn [negb].
  - destruct (track_points (regions s1) (enabled s1) (px (position s)) (py (position s)) pts) as [[x' y'] hit].
    set (s1' := upd_pos s1 (upd_XY (position s1) x' y')).
    assert (X1 : excluding s1' = true) by exact X0.
    destruct hit.
    + pose proof (processExcludedMove_frame c s1' cmd dE) as F.
      destruct (processExcludedMove c s1' cmd dE) as [s2 cmds]. cbn [fst] in *. destruct F as (_ & F & _).
      intros _. destruct (excluding s2 && negb (excluding s1')); cbn; rewrite F; exact P0.
    + rewrite X1. destruct (exit_shape c s1' X1) as (r & _ & _ & E & _).
      destruct (exitExcludedRegion c s1') as [s2 cmds]. cbn [fst] in *. congruence.
  - pose proof (processNonMove_frame s1 cmd dE) as F. destruct (processNonMove s1 cmd dE) as [s2 cmds]. cbn [fst] in *.
    destruct F as (_ & _ & F & _). intros _. rewrite F. exact P0.
Qed.

Theorem handle_pending_inside c (s : fstate) (m : icmd) : excluding s = true -> excluding (fst (handle c s m)) = true ->
  pending (fst (handle c s m)) = match deferred_mode c m with Some mode => entry (pending s) mode m | None => pending s end /\
  (forall mode, deferred_mode c m = Some mode -> snd (handle c s m) = Suppress).
Proof.
  intros X. unfold deferred_mode, handle. by_code m.
  - unfold handle_G0. intros X'. split; [apply plm_pending_inside; assumption | discriminate].
  - unfold handle_G0. intros X'. split; [apply plm_pending_inside; assumption | discriminate].
  - unfold handle_G2. destruct (match word "R" (cwords m) with Some _ => _ | None => _ end) as [i j].
    destruct (nonzero i || nonzero j); [|cbn; intros _; split; [reflexivity | discriminate]].
    intros X'. split; [apply plm_pending_inside; assumption | discriminate].
  - unfold handle_G2. destruct (match word "R" (cwords m) with Some _ => _ | None => _ end) as [i j].
    destruct (nonzero i || nonzero j); [|cbn; intros _; split; [reflexivity | discriminate]].
    intros X'. split; [apply plm_pending_inside; assumption | discriminate].
  - unfold handle_G10. intros _. split; [|discriminate]. destruct (has_label "P" (cwords m) || has_label "L" (cwords m)); [reflexivity|].
    pose proof (recordRetraction_frame s (mkRetr false true true n0 n0 (ctext m))) as F.
    destruct (recordRetraction s _) as [s1 cmds]. cbn [fst] in *. destruct F as (_ & _ & F & _). exact F.
  - unfold handle_G11. intros _. split; [|discriminate]. pose proof (recoverRetractionIfNeeded_frame s (ctext m) true) as F.
    destruct (recoverRetractionIfNeeded s (ctext m) true) as [s1 cmds]. cbn [fst] in *. destruct F as (_ & _ & F & _). exact F.
  - cbn. intros _. split; [reflexivity | discriminate].
  - cbn. intros _. split; [reflexivity | discriminate].
  - cbn. intros _. split; [reflexivity | discriminate].
  - cbn. intros _. split; [reflexivity | discriminate].
  - cbn. intros _. split; [reflexivity | discriminate].
  - cbn. intros _. split; [reflexivity | discriminate].
  - cbn. intros _. split; [reflexivity | discriminate].
  - pose proof E as E'. unfold handled_code in E'. cbn [existsb] in E'.
    repeat (apply orb_false_iff in E'; destruct E' as (?E1 & E')).
    repeat match goal with H : String.eqb (ccode m) _ = false |- _ => rewrite H; clear H end. cbn [orb]. rewrite E. cbn [orb].
    unfold processExtendedGcode. rewrite X, andb_true_r.
    destruct (String.eqb (ccode m) "") eqn:Eempty; cbn [negb orb].
    + intros _. split; [reflexivity | discriminate].
    + destruct (assoc (ccode m) (ext c)) as [mode|]; cbn [fst snd]; intros _; [|split; [reflexivity | discriminate]].
      split; [apply entry_pending | intros; reflexivity].
Qed.

End OUT.
