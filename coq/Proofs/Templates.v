(** C07 -- the fixed templates of synthesised commands: whatever text the correspondence accepts as the rendering of a
    synthesised command (every hook result is compared on every run) has exactly one expected code and exactly the
    expected, pairwise distinct parameter letters, each carrying a number. *)
From Coq Require Import QArith String Ascii List Bool.
From ER Require Import Base.Num Model.Geometry Model.Axis Model.Filter Model.Cases Model.Run.
Import ListNotations.
Local Open Scope string_scope.

Definition template (o : ocmd Q) : option (string * list string) :=
  match o with
  | SetE _ => Some ("G92", ["E"])
  | MoveZ _ _ => Some ("G0", ["F"; "Z"])
  | MoveXY _ _ _ => Some ("G0", ["F"; "X"; "Y"])
  | ExtrudeTo _ _ => Some ("G1", ["F"; "E"])
  | _ => None
  end.

Lemma words_match_letters a b : words_match a b = true ->
  map fst b = map fst a /\ Forall2 (fun x y => match snd x with MNum _ => exists v, snd y = MNum v | _ => True end) a b.
Proof.
  revert b. induction a as [|[k v] ta IH]; intros [|[k' v'] tb] H; cbn in H; try discriminate; [split; constructor|].
  apply andb_true_iff in H. destruct H as (H & HT). apply andb_true_iff in H. destruct H as (HK & HV).
  apply String.eqb_eq in HK. subst k'. destruct (IH tb HT) as (A & B). cbn. split; [f_equal; exact A|].
  constructor; [|exact B]. cbn. destruct v; [exact I | | exact I]. destruct v'; try discriminate. eauto.
Qed.

Theorem template_shape o e code letters : template o = Some (code, letters) -> ocmd_match o e = true ->
  ecode e = code /\ map fst (ewords e) = letters /\ NoDup letters /\
  Forall (fun w => exists v, snd w = MNum v) (ewords e).
Proof.
  intros T M. destruct o; cbn in T; try discriminate; injection T as <- <-; cbn [ocmd_match] in M;
    apply andb_true_iff in M; destruct M as (C & W); apply String.eqb_eq in C;
    destruct (words_match_letters _ _ W) as (L & F2); (split; [exact C|]); (split; [exact L|]); split.
  all: try (repeat constructor; cbn; intuition discriminate).
  all: revert F2; generalize (ewords e); intros ws F2;
       repeat match goal with
              | H : Forall2 _ (_ :: _) _ |- _ => inversion H; subst; clear H
              | H : Forall2 _ [] _ |- _ => inversion H; subst; clear H
              end; repeat constructor; cbn in *; assumption.
Qed.
