(** C16 -- arc sampling: theorems about the planArc / computeArcCenterOffsets definitions GENERATED from /repo. *)
From Coq Require Import Reals ZArith Lra Lia Psatz List Bool.
From ER Require Import Base.GenPrelude Gen.GenArc.
Import ListNotations.
Open Scope R_scope.

(** *** the closed form the generated code is shown to compute *)
(** signed sweep, as the code normalises it *)
Definition arc_sweep (posX posY endX endY i j : R) (clockwise : bool) : R :=
  let rtX := endX - (posX + i) in let rtY := endY - (posY + j) in
  let a0 := atan2 (- i * rtY + j * rtX) (- i * rtX - j * rtY) in
  let a1 := if Rltb a0 0 then a0 + 2 * PI else a0 in
  let a2 := if clockwise then a1 - 2 * PI else a1 in
  if Reqb a2 0 && Reqb posX endX && Reqb posY endY then 2 * PI else a2.

Definition arc_segments (posX posY endX endY i j : R) (clockwise : bool) : Z :=
  Z.max 1 (Rceil (Rabs (arc_sweep posX posY endX endY i j clockwise) * hypot i j / 1)).

(** the k-th tested point: on the circle around (posX+i, posY+j) through the start point, k equal angular steps on *)
Definition arc_point (posX posY endX endY i j : R) (clockwise : bool) (k : nat) : R * R :=
  let n := arc_segments posX posY endX endY i j clockwise in
  let a := atan2 (- j) (- i) + INR k * (arc_sweep posX posY endX endY i j clockwise / IZR n) in
  (posX + i + cos a * hypot i j, posY + j + sin a * hypot i j).

Definition flat (l : list (R * R)) : list R := flat_map (fun p => [fst p; snd p]) l.

Definition arc_spec (posX posY endX endY i j : R) (clockwise : bool) : list R :=
  flat (map (arc_point posX posY endX endY i j clockwise)
            (seq 1 (Z.to_nat (arc_segments posX posY endX endY i j clockwise - 1)))) ++ [endX; endY].

(** the loop *)
Definition arc_body (cx cy rad inc : R) : R * list R -> R * list R :=
  fun '(angle, rval) => let angle := angle + inc in
                        let rval := rval ++ [cx + cos angle * rad; cy + sin angle * rad] in (angle, rval).

Lemma iter_arc (cx cy rad inc : R) : forall n a l,
  Nat.iter n (arc_body cx cy rad inc) (a, l)
  = (a + INR n * inc,
     l ++ flat (map (fun k => (cx + cos (a + INR k * inc) * rad, cy + sin (a + INR k * inc) * rad)) (seq 1 n))).
Proof.
  induction n as [|n IH]; intros a l.
  - cbn. rewrite app_nil_r. f_equal. lra.
  - change (Nat.iter (S n) (arc_body cx cy rad inc) (a, l)) with (arc_body cx cy rad inc (Nat.iter n (arc_body cx cy rad inc) (a, l))).
    rewrite IH. unfold arc_body. cbv zeta. rewrite seq_S, map_app. unfold flat at 2. rewrite flat_map_app. fold flat.
    cbn [map flat_map app fst snd]. rewrite S_INR. f_equal; [lra|]. rewrite <- !app_assoc. f_equal. f_equal.
    replace (a + INR n * inc + inc) with (a + (INR n + 1) * inc) by lra.
    rewrite Nat.add_1_l, S_INR. reflexivity.
Qed.

(** the generated planArc computes exactly the closed form *)
Theorem planArc_spec posX posY endX endY i j cw :
  planArc posX posY endX endY i j cw = arc_spec posX posY endX endY i j cw.
Proof.
  unfold planArc. cbv zeta. unfold Rgtb, Rgeb. rewrite for_range_iter.
  (* the sweep the generated code computes is [arc_sweep]: same branches, the full-circle test compared by its truth condition
     (so the order of its conjuncts and the side on which a comparison is written do not matter) *)
  match goal with |- context [Z.max 1 (Rceil (Rabs ?s * _ / _))] => set (sw := s) end.
  assert (SW : sw = arc_sweep posX posY endX endY i j cw).
  { unfold sw, arc_sweep. cbv zeta.
    first [ reflexivity
          | match goal with |- (if ?g then _ else _) = (if ?g' then _ else _) =>
              replace g with g' by (apply Bool.eq_true_iff_eq; rewrite ?andb_true_iff; tauto) end; reflexivity ]. }
  clearbody sw. subst sw.
  unfold arc_spec, arc_point, arc_segments.
  set (n := Z.max 1 _).
  match goal with |- context [Nat.iter ?m ?f (?a, ?l)] =>
    change (Nat.iter m f (a, l)) with (Nat.iter m (arc_body (posX + i) (posY + j) (hypot i j) (arc_sweep posX posY endX endY i j cw / IZR n)) (a, l));
    rewrite (iter_arc (posX + i) (posY + j) (hypot i j) (arc_sweep posX posY endX endY i j cw / IZR n) m a l) end.
  cbn [app]. reflexivity.
Qed.

(** *** consequences *)
Lemma arc_segments_ge1 posX posY endX endY i j cw : (1 <= arc_segments posX posY endX endY i j cw)%Z.
Proof. unfold arc_segments. apply Z.le_max_l. Qed.

(** the list of tested points ends exactly at the commanded end point *)
Theorem planArc_endpoint posX posY endX endY i j cw :
  exists l, planArc posX posY endX endY i j cw = l ++ [endX; endY].
Proof. rewrite planArc_spec. unfold arc_spec. eexists. reflexivity. Qed.

(** every intermediate tested point lies on the circle given by start point and centre *)
Theorem arc_point_on_circle posX posY endX endY i j cw k :
  let '(px, py) := arc_point posX posY endX endY i j cw k in
  (px - (posX + i)) * (px - (posX + i)) + (py - (posY + j)) * (py - (posY + j)) = hypot i j * hypot i j.
Proof.
  unfold arc_point. cbv zeta.
  set (a := atan2 (- j) (- i) + _). pose proof (sin2_cos2 a) as SC. unfold Rsqr in SC.
  replace (posX + i + cos a * hypot i j - (posX + i)) with (cos a * hypot i j) by lra.
  replace (posY + j + sin a * hypot i j - (posY + j)) with (sin a * hypot i j) by lra.
  nra.
Qed.

(** the start point is the point of that circle at angle atan2(-j,-i): the samples continue from it *)
Theorem arc_start_point posX posY i j : (i <> 0 \/ j <> 0) ->
  posX = posX + i + cos (atan2 (- j) (- i)) * hypot i j /\ posY = posY + j + sin (atan2 (- j) (- i)) * hypot i j.
Proof.
  intros H. assert (H' : - i <> 0 \/ - j <> 0) by (destruct H; [left|right]; lra).
  destruct (atan2_cos_sin (- i) (- j) H') as (A & B).
  assert (E : hypot (- i) (- j) = hypot i j) by (unfold hypot; f_equal; ring). rewrite E in A, B. lra.
Qed.

(** the sweep: counter-clockwise arcs turn by an angle in [0, 2pi], clockwise arcs by one in [-2pi, 0) *)
Theorem arc_sweep_range posX posY endX endY i j cw :
  let d := arc_sweep posX posY endX endY i j cw in
  (cw = false -> 0 <= d <= 2 * PI) /\ (cw = true -> - (2 * PI) <= d < 0).
Proof.
  unfold arc_sweep. cbv zeta. pose proof PI_RGT_0 as P.
  set (a0 := atan2 _ _). pose proof (atan2_range (- i * (endY - (posY + j)) + j * (endX - (posX + i))) (- i * (endX - (posX + i)) - j * (endY - (posY + j)))) as R0.
  fold a0 in R0.
  assert (A1 : 0 <= (if Rltb a0 0 then a0 + 2 * PI else a0) < 2 * PI \/ (if Rltb a0 0 then a0 + 2 * PI else a0) = PI /\ False \/ 0 <= (if Rltb a0 0 then a0 + 2 * PI else a0) <= PI).
  { destruct (Rltb a0 0) eqn:L; [apply Rltb_true in L; left; lra | apply Rltb_false in L; right; right; lra]. }
  assert (B : 0 <= (if Rltb a0 0 then a0 + 2 * PI else a0) < 2 * PI) by (destruct A1 as [A1|[[_ []]|A1]]; lra).
  clear A1. set (a1 := if Rltb a0 0 then a0 + 2 * PI else a0) in *.
  split; intros ->.
  - destruct (Reqb a1 0 && Reqb posX endX && Reqb posY endY); lra.
  - destruct (Reqb (a1 - 2 * PI) 0 && Reqb posX endX && Reqb posY endY) eqn:Z.
    + apply andb_true_iff in Z. destruct Z as (Z & _). apply andb_true_iff in Z. destruct Z as (Z & _). apply Reqb_true in Z. lra.
    + lra.
Qed.

(** number of segments: at least one, and at least the arc length (so that one step is at most one unit of arc) *)
Theorem arc_segments_bound posX posY endX endY i j cw :
  Rabs (arc_sweep posX posY endX endY i j cw) * hypot i j <= IZR (arc_segments posX posY endX endY i j cw).
Proof.
  unfold arc_segments. set (L := Rabs _ * hypot i j).
  destruct (Rceil_spec (L / 1)) as (_ & H). replace (L / 1) with L in * by field.
  apply Rle_trans with (IZR (Rceil L)); [exact H|]. apply IZR_le. apply Z.le_max_r.
Qed.

(** consecutive tested points (the start point being number 0) are at most one length unit apart *)
Theorem arc_spacing posX posY endX endY i j cw k :
  let '(ax, ay) := arc_point posX posY endX endY i j cw k in
  let '(bx, by_) := arc_point posX posY endX endY i j cw (S k) in
  hypot (ax - bx) (ay - by_) <= 1.
Proof.
  unfold arc_point. cbv zeta.
  set (d := arc_sweep posX posY endX endY i j cw). set (n := arc_segments posX posY endX endY i j cw).
  set (t0 := atan2 (- j) (- i)). set (rho := hypot i j).
  pose proof (hypot_nonneg i j) as RP. fold rho in RP.
  pose proof (arc_segments_bound posX posY endX endY i j cw) as NB. fold d n rho in NB.
  pose proof (arc_segments_ge1 posX posY endX endY i j cw) as N1. fold n in N1.
  assert (NP : 1 <= IZR n) by (apply IZR_le in N1; exact N1).
  set (a := t0 + INR k * (d / IZR n)). set (b := t0 + INR (S k) * (d / IZR n)).
  replace (posX + i + cos a * rho - (posX + i + cos b * rho)) with (rho * cos a - rho * cos b) by lra.
  replace (posY + j + sin a * rho - (posY + j + sin b * rho)) with (rho * sin a - rho * sin b) by lra.
  apply Rle_trans with (rho * Rabs (a - b)); [apply chord_le_arc; exact RP|].
  assert (AB : a - b = - (d / IZR n)) by (unfold a, b; rewrite S_INR; lra).
  rewrite AB, Rabs_Ropp. unfold Rdiv. rewrite Rabs_mult, (Rabs_right (/ IZR n)) by (left; apply Rinv_0_lt_compat; lra).
  apply Rmult_le_reg_r with (IZR n); [lra|].
  rewrite Rmult_1_l. replace (rho * (Rabs d * / IZR n) * IZR n) with (Rabs d * rho) by (field; lra). exact NB.
Qed.

(** equal angles: the k-th point sits k steps of sweep / segments after the start direction *)
Theorem arc_point_angle posX posY endX endY i j cw k :
  arc_point posX posY endX endY i j cw k =
  (posX + i + cos (atan2 (- j) (- i) + INR k * (arc_sweep posX posY endX endY i j cw / IZR (arc_segments posX posY endX endY i j cw))) * hypot i j,
   posY + j + sin (atan2 (- j) (- i) + INR k * (arc_sweep posX posY endX endY i j cw / IZR (arc_segments posX posY endX endY i j cw))) * hypot i j).
Proof. reflexivity. Qed.

(** *** the radius form (computeArcCenterOffsets) *)
(** The guards of the generated code are resolved by their truth conditions, not by their shape: whichever way the source spells
    "radius is not 0 and the end points differ" / "half the chord is at most |R|" (nested ifs, guard clauses with early returns, De Morgan
    forms), the outermost remaining [if] is shown to take one of its branches from the hypotheses in the context. *)
Ltac guard_prop := rewrite ?andb_true_iff, ?orb_true_iff, ?negb_true_iff, ?andb_false_iff, ?orb_false_iff, ?negb_false_iff,
  ?Reqb_true, ?Reqb_false, ?Rleb_true, ?Rleb_false, ?Rltb_true, ?Rltb_false, ?Rgeb_true.
Ltac resolve_if tac :=
  match goal with |- context [if ?c then _ else _] =>
    let G := fresh "G" in
    first [ assert (G : c = true) by (repeat guard_prop; tac) | assert (G : c = false) by (repeat guard_prop; tac) ];
    rewrite G; clear G
  end.
(** axis-aligned chord (deltaX * deltaY = 0) and R at least half the chord: the centre is at distance |R| from both
    end points *)
Theorem radius_centre_axis_aligned posX posY endX endY radius cw :
  radius <> 0 -> (posX <> endX \/ posY <> endY) -> (endX - posX) * (endY - posY) = 0 ->
  hypot (endX - posX) (endY - posY) / 2 <= Rabs radius ->
  let '(i, j) := computeArcCenterOffsets posX posY endX endY radius cw in
  i * i + j * j = radius * radius /\
  (posX + i - endX) * (posX + i - endX) + (posY + j - endY) * (posY + j - endY) = radius * radius.
Proof.
  intros HR HP HA HH. unfold computeArcCenterOffsets. cbv zeta.
  replace (IZR 2) with 2 by reflexivity.
  resolve_if ltac:(tauto). resolve_if ltac:(lra). cbv iota.
  set (dx := endX - posX) in *. set (dy := endY - posY) in *. set (d := hypot dx dy) in *.
  assert (DP : 0 < d) by (apply hypot_pos; unfold dx, dy; destruct HP; [left|right]; lra).
  pose proof (hypot_sqr dx dy) as DS. fold d in DS.
  assert (RR : radius * radius = Rabs radius * Rabs radius) by (unfold Rabs; destruct (Rcase_abs radius); ring).
  assert (HN : 0 <= radius * radius - d / 2 * (d / 2)) by (rewrite RR; assert (0 <= d / 2) by lra; nra).
  pose proof (sqrt_sqrt _ HN) as SQ. set (h := sqrt (radius * radius - d / 2 * (d / 2))) in *.
  set (e := IZR (if xorb cw (Rltb radius (IZR 0)) then (- (1))%Z else 1%Z)).
  assert (E2 : e * e = 1) by (unfold e; destruct (xorb cw (Rltb radius (IZR 0))); cbn; lra).
  replace ((posX + endX) / 2 + e * h * (- dy / d) - posX) with (dx / 2 + e * h * (- dy / d)) by (unfold dx; field; lra).
  replace ((posY + endY) / 2 + e * h * (- dx / d) - posY) with (dy / 2 + e * h * (- dx / d)) by (unfold dy; field; lra).
  replace (posX + (dx / 2 + e * h * (- dy / d)) - endX) with (- dx / 2 + e * h * (- dy / d)) by (unfold dx; field; lra).
  replace (posY + (dy / 2 + e * h * (- dx / d)) - endY) with (- dy / 2 + e * h * (- dx / d)) by (unfold dy; field; lra).
  assert (Q : forall u v, (u + e * h * (- dy / d)) * (u + e * h * (- dy / d)) + (v + e * h * (- dx / d)) * (v + e * h * (- dx / d))
              = u * u + v * v + h * h - 2 * e * h * (u * dy + v * dx) / d).
  { intros u v. replace (h * h) with ((e * e) * (h * h) * ((dx * dx + dy * dy) / (d * d))) by (rewrite E2, <- DS; field; lra). field. lra. }
  split; rewrite Q.
  - replace (dx / 2 * dy + dy / 2 * dx) with (dx * dy) by field. rewrite HA. replace (dx / 2 * (dx / 2) + dy / 2 * (dy / 2)) with (d * d / 4) by (rewrite DS; field). lra.
  - replace (- dx / 2 * dy + - dy / 2 * dx) with (- (dx * dy)) by field. rewrite HA. replace (- dx / 2 * (- dx / 2) + - dy / 2 * (- dy / 2)) with (d * d / 4) by (rewrite DS; field). lra.
Qed.

(** for a chord that is not axis-aligned the property fails (finding D7): start (0,0), end (3,4), R = 6.5, counter-clockwise --
    the generated code puts the centre at (-3.3, -1.6), at distance sqrt(13.45) instead of 6.5 from the start point *)
Theorem radius_centre_refuted :
  exists posX posY endX endY radius cw,
    radius <> 0 /\ hypot (endX - posX) (endY - posY) / 2 <= Rabs radius /\
    let '(i, j) := computeArcCenterOffsets posX posY endX endY radius cw in i * i + j * j <> radius * radius.
Proof.
  exists 0, 0, 3, 4, (13 / 2), false.
  assert (H5 : hypot (3 - 0) (4 - 0) = 5).
  { unfold hypot. replace ((3 - 0) * (3 - 0) + (4 - 0) * (4 - 0)) with (5 * 5) by lra. apply sqrt_square. lra. }
  split; [lra|]. split; [rewrite H5, Rabs_right by lra; lra|].
  unfold computeArcCenterOffsets. cbv zeta. rewrite H5. replace (IZR 2) with 2 by reflexivity.
  assert (A : Rabs (13 / 2) = 13 / 2) by (apply Rabs_right; lra). rewrite A.
  resolve_if ltac:(intuition lra). resolve_if ltac:(lra). cbv iota.
  assert (X : Rltb (13 / 2) (IZR 0) = false) by (apply Rltb_false; replace (IZR 0) with 0 by reflexivity; lra). rewrite X. cbn [xorb].
  assert (SQ : sqrt (13 / 2 * (13 / 2) - 5 / 2 * (5 / 2)) = 6).
  { replace (13 / 2 * (13 / 2) - 5 / 2 * (5 / 2)) with (6 * 6) by lra. apply sqrt_square. lra. }
  rewrite SQ. replace (IZR 1) with 1 by reflexivity. intros H. lra.
Qed.
