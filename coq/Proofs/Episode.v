(** C06 at the level of a whole episode: what has been deferred when it ends, and what is emitted. *)
From Coq Require Import String Ascii List Bool.
From ER Require Import Base.Num Model.Geometry Model.Axis Model.Filter Proofs.FilterLemmas Proofs.Deferred Proofs.Outputs.
Import ListNotations.

Section EP.
Context {T : Type} {N : Num T}.
Notation fstate := (fstate T).
Notation icmd := (icmd T).

Fixpoint run_state (c : cfg) (s : fstate) (ms : list icmd) : fstate :=
  match ms with [] => s | m :: t => run_state c (fst (handle c s m)) t end.
(** every command of [ms] leaves the episode open *)
Fixpoint inside_run (c : cfg) (s : fstate) (ms : list icmd) : Prop :=
  match ms with
  | [] => True
  | m :: t => excluding (fst (handle c s m)) = true /\ inside_run c (fst (handle c s m)) t
  end.
(** the configured (deferred) commands among [ms], each with its code's mode *)
Definition seen_of (c : cfg) (ms : list icmd) : list (xmode * icmd) :=
  flat_map (fun m => match deferred_mode c m with Some mode => [(mode, m)] | None => [] end) ms.
Definition modef (c : cfg) (g : string) : xmode := match assoc g (ext c) with Some x => x | None => XExclude end.

Lemma seen_consistent c ms : consistent (modef c) (seen_of c ms).
Proof.
  intros [mode m] H. unfold seen_of in H. apply in_flat_map in H. destruct H as (m' & _ & H).
  unfold deferred_mode in H. destruct (handled_code (ccode m') || String.eqb (ccode m') ""); [destruct H|].
  destruct (assoc (ccode m') (ext c)) as [x|] eqn:A; [|destruct H].
  destruct H as [H|[]]. injection H as <- <-. cbn. unfold modef. rewrite A. reflexivity.
Qed.

Lemma episode_pending_gen c ms : forall s : fstate, excluding s = true -> inside_run c s ms ->
  pending (run_state c s ms) = fold_left (fun P x => entry P (fst x) (snd x)) (seen_of c ms) (pending s) /\
  excluding (run_state c s ms) = true.
Proof.
  induction ms as [|m t IH]; intros s X IR; cbn; [auto|].
  destruct IR as (X' & IR). destruct (handle_pending_inside c s m X X') as (P & _).
  destruct (IH _ X' IR) as (IH1 & IH2). split; [|exact IH2].
  rewrite IH1, P. change (seen_of c (m :: t)) with ((match deferred_mode c m with Some mode => [(mode, m)] | None => [] end) ++ seen_of c t).
  rewrite fold_left_app. destruct (deferred_mode c m); reflexivity.
Qed.

(** An episode, whole: it opens on [m0] from a state with nothing pending, stays open over [ms];
    then whatever closes it emits: one command per deferred code (declarative reading
    [spec_entry]), the exit script, `G92 E`, and the re-positioning moves -- and nothing stays pending. *)
Theorem episode_flush c (s : fstate) (m0 : icmd) (ms : list icmd) :
  excluding s = false -> no_leak s ->
  excluding (fst (handle c s m0)) = true -> inside_run c (fst (handle c s m0)) ms ->
  let s1 := run_state c (fst (handle c s m0)) ms in
  (forall g, assoc g (pending s1) = spec_entry (modef c g) (of_code g (seen_of c ms))) /\
  NoDup (map fst (pending s1)) /\
  exists resync,
    exit_sequence c s1 = pending_cmds (pending s1) ++ map Script (exitS c) ++ SetE (n2l (pe (position s1))) :: resync /\
    (forall o, In o resync -> match o with MoveZ _ _ | MoveXY _ _ _ => True | _ => False end) /\
    pending (fst (exitExcludedRegion c s1)) = [] /\ excluding (fst (exitExcludedRegion c s1)) = false.
Proof.
  intros X NL X' IR s1.
  destruct (handle_opening c s m0 X X') as (rest & _ & _ & _ & P0).
  destruct (episode_pending_gen c ms _ X' IR) as (P & XE). fold s1 in P, XE.
  rewrite P0, (NL X) in P. change (fold_left _ (seen_of c ms) []) with (pend_after (seen_of c ms)) in P.
  split; [|split].
  - intros g. rewrite P. apply pend_spec. apply seen_consistent.
  - rewrite P. apply pend_nodup.
  - destruct (exit_shape c s1 XE) as (r & A & B & C & D & _). exists r. auto.
Qed.

End EP.
