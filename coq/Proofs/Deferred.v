(** C06 -- deferred G-codes: the pending list maintained by processExtendedGcodeEntry refines a
    declarative reading of exclude / first / last / merge over the commands seen in an episode. *)
From Coq Require Import String Ascii List Bool.
From ER Require Import Base.Num Model.Geometry Model.Axis Model.Filter.
Import ListNotations.

Section DEF.
Context {T : Type} {N : Num T}.
Notation fstate := (fstate T).
Notation icmd := (icmd T).
Notation pentry := (pentry T).
Notation witem := (witem T).

(** association-list facts *)
Lemma assoc_app {A} k (l l' : list (string * A)) :
  assoc k (l ++ l') = match assoc k l with Some v => Some v | None => assoc k l' end.
Proof. induction l as [|[k' v] t IH]; cbn; [reflexivity|]. destruct (String.eqb k k'); auto. Qed.
Lemma assoc_remove_same {A} k (l : list (string * A)) : assoc k (remove_key k l) = None.
Proof. induction l as [|[k' v] t IH]; cbn; [reflexivity|]. destruct (String.eqb k k') eqn:E; cbn; rewrite ?E; auto. Qed.
Lemma assoc_remove_other {A} k k' (l : list (string * A)) : String.eqb k k' = false -> assoc k (remove_key k' l) = assoc k l.
Proof.
  intros H. induction l as [|[k2 v] t IH]; cbn; [reflexivity|].
  destruct (String.eqb k' k2) eqn:E; cbn.
  - apply String.eqb_eq in E. subst k2. rewrite H. exact IH.
  - destruct (String.eqb k k2); auto.
Qed.
Lemma in_remove_key {A} k k' (v : A) l : In (k, v) (remove_key k' l) -> In (k, v) l /\ String.eqb k' k = false.
Proof.
  induction l as [|[k2 v2] t IH]; cbn; [tauto|].
  destruct (String.eqb k' k2) eqn:E; cbn.
  - intros H. destruct (IH H). auto.
  - intros [H|H]; [injection H as -> ->; auto | destruct (IH H); auto].
Qed.
Lemma keys_remove {A} k (l : list (string * A)) : NoDup (map fst l) -> NoDup (map fst (remove_key k l)) /\ ~ In k (map fst (remove_key k l)).
Proof.
  induction l as [|[k2 v] t IH]; cbn; intros ND; [split; [constructor|tauto]|].
  inversion ND as [|? ? NI ND']; subst. destruct (IH ND') as (A1 & A2).
  destruct (String.eqb k k2) eqn:E; cbn; [auto|].
  split.
  - constructor; [|exact A1]. intros HI. apply NI. apply in_map_iff in HI. destruct HI as ([k3 v3] & E3 & HI). cbn in E3. subst k3.
    apply in_remove_key in HI. apply in_map_iff. exists (k2, v3). tauto.
  - intros [H|H]; [subst; rewrite String.eqb_refl in E; discriminate | tauto].
Qed.
Lemma assoc_none_notin {A} k (l : list (string * A)) : assoc k l = None -> ~ In k (map fst l).
Proof.
  induction l as [|[k2 v2] t IH]; cbn; [tauto|].
  destruct (String.eqb k k2) eqn:E; [discriminate|]. intros H [H1|H1]; [subst; rewrite String.eqb_refl in E; discriminate | exact (IH H H1)].
Qed.
Lemma nodup_snoc (k : string) (l : list string) : NoDup l -> ~ In k l -> NoDup (l ++ [k]).
Proof.
  intros ND NI. pose proof (Add_app k l []) as A. rewrite app_nil_r in A.
  apply (NoDup_Add A). auto.
Qed.

(** *** one deferred command *)
Definition entry (P : list (string * pentry)) (mode : xmode) (m : icmd) : list (string * pentry) :=
  pending (processExtendedGcodeEntry (mkSt init_pos n0 n1 true true None init_pos P []) mode m).

Lemma entry_pending (s : fstate) mode m : pending (processExtendedGcodeEntry s mode m) = entry (pending s) mode m.
Proof. unfold entry, processExtendedGcodeEntry. destruct mode; cbn; try reflexivity. destruct (assoc (ccode m) (pending s)); reflexivity. Qed.

Definition merge_args (old : list witem) (ws : list witem) : list witem :=
  fold_left (fun acc w => if String.eqb (fst w) "" then acc else dict_set (fst w) (snd w) acc) ws old.

Lemma entry_exclude P m : entry P XExclude m = P.
Proof. reflexivity. Qed.
Lemma entry_first P m : entry P XFirst m =
  match assoc (ccode m) P with Some _ => P | None => P ++ [(ccode m, PRaw (ctext m))] end.
Proof. unfold entry. cbn. destruct (assoc (ccode m) P); reflexivity. Qed.
Lemma entry_last P m : entry P XLast m = remove_key (ccode m) P ++ [(ccode m, PRaw (ctext m))].
Proof. reflexivity. Qed.
Lemma entry_merge P m : entry P XMerge m =
  remove_key (ccode m) P ++ [(ccode m, PArgs (merge_args (match assoc (ccode m) P with Some (PArgs a) => a | _ => [] end) (cwords m)))].
Proof. reflexivity. Qed.

(** each code keeps at most one pending entry *)
Lemma entry_nodup P mode m : NoDup (map fst P) -> NoDup (map fst (entry P mode m)).
Proof.
  intros ND. destruct mode.
  - exact ND.
  - rewrite entry_first. destruct (assoc (ccode m) P) eqn:A; [exact ND|].
    rewrite map_app. cbn. apply nodup_snoc; [exact ND | apply assoc_none_notin; exact A].
  - rewrite entry_last, map_app. cbn. destruct (keys_remove (ccode m) P ND). apply nodup_snoc; assumption.
  - rewrite entry_merge, map_app. cbn. destruct (keys_remove (ccode m) P ND). apply nodup_snoc; assumption.
Qed.

(** entries of other codes are untouched *)
Lemma entry_other P mode m g : String.eqb g (ccode m) = false -> assoc g (entry P mode m) = assoc g P.
Proof.
  intros H. destruct mode.
  - reflexivity.
  - rewrite entry_first. destruct (assoc (ccode m) P); [reflexivity|]. rewrite assoc_app. cbn. rewrite H. destruct (assoc g P); reflexivity.
  - rewrite entry_last, assoc_app, assoc_remove_other by exact H. cbn. rewrite H. destruct (assoc g P); reflexivity.
  - rewrite entry_merge, assoc_app, assoc_remove_other by exact H. cbn. rewrite H. destruct (assoc g P); reflexivity.
Qed.

(** *** a whole episode: [seen] = the configured commands met so far, each with its code's mode *)
Definition pend_after (seen : list (xmode * icmd)) : list (string * pentry) :=
  fold_left (fun P x => entry P (fst x) (snd x)) seen [].

Lemma pend_after_snoc seen mode m : pend_after (seen ++ [(mode, m)]) = entry (pend_after seen) mode m.
Proof. unfold pend_after. rewrite fold_left_app. reflexivity. Qed.

Theorem pend_nodup seen : NoDup (map fst (pend_after seen)).
Proof.
  induction seen as [|[mode m] t IH] using rev_ind; [constructor|].
  rewrite pend_after_snoc. apply entry_nodup. exact IH.
Qed.

(** the commands of one code, in order *)
Definition of_code (g : string) (seen : list (xmode * icmd)) : list icmd :=
  map snd (filter (fun x => String.eqb g (ccode (snd x))) seen).
Lemma of_code_snoc g seen mode m :
  of_code g (seen ++ [(mode, m)]) = of_code g seen ++ (if String.eqb g (ccode m) then [m] else []).
Proof. unfold of_code. rewrite filter_app, map_app. cbn. destruct (String.eqb g (ccode m)); reflexivity. Qed.

(** every code has one configured mode *)
Definition consistent (modef : string -> xmode) (seen : list (xmode * icmd)) : Prop :=
  forall x, In x seen -> fst x = modef (ccode (snd x)).

(** declarative reading of the modes over the commands [cs] of one code *)
Definition spec_entry (mode : xmode) (cs : list icmd) : option pentry :=
  match cs with
  | [] => None
  | c :: _ =>
      match mode with
      | XExclude => None
      | XFirst => Some (PRaw (ctext c))
      | XLast => Some (PRaw (ctext (last cs c)))
      | XMerge => Some (PArgs (merge_args [] (concat (map (fun m => cwords m) cs))))
      end
  end.

Lemma merge_args_app old a b : merge_args old (a ++ b) = merge_args (merge_args old a) b.
Proof. unfold merge_args. apply fold_left_app. Qed.

Lemma last_snoc {A} (l : list A) (x d : A) : last (l ++ [x]) d = x.
Proof. induction l as [|a t IH]; cbn; [reflexivity|]. destruct (t ++ [x]) eqn:E; [destruct t; discriminate|]. exact IH. Qed.

Theorem pend_spec modef seen : consistent modef seen ->
  forall g, assoc g (pend_after seen) = spec_entry (modef g) (of_code g seen).
Proof.
  induction seen as [|[mode m] t IH] using rev_ind; intros C g; [reflexivity|].
  assert (Ct : consistent modef t) by (intros x Hx; apply C; apply in_or_app; auto).
  assert (Cm : mode = modef (ccode m)) by (apply (C (mode, m)); apply in_or_app; right; left; reflexivity).
  rewrite pend_after_snoc, of_code_snoc. specialize (IH Ct).
  destruct (String.eqb g (ccode m)) eqn:E.
  2:{ rewrite app_nil_r, entry_other by exact E. apply IH. }
  apply String.eqb_eq in E. subst g. rewrite <- Cm. specialize (IH (ccode m)). rewrite <- Cm in IH.
  destruct mode.
  - (* exclude *) rewrite entry_exclude, IH. destruct (of_code (ccode m) t); reflexivity.
  - (* first *) rewrite entry_first. destruct (assoc (ccode m) (pend_after t)) eqn:A.
    + rewrite A, IH. destruct (of_code (ccode m) t) eqn:O; [discriminate|reflexivity].
    + rewrite assoc_app, A. cbn. rewrite String.eqb_refl.
      rewrite IH in A. destruct (of_code (ccode m) t) eqn:O; [reflexivity|discriminate].
  - (* last *) rewrite entry_last, assoc_app, assoc_remove_same. cbn. rewrite String.eqb_refl.
    destruct (of_code (ccode m) t) as [|c cs] eqn:O; [reflexivity|].
    cbn [app spec_entry]. f_equal. f_equal. f_equal.
    change (c :: cs ++ [m]) with ((c :: cs) ++ [m]). rewrite last_snoc. reflexivity.
  - (* merge *) rewrite entry_merge, assoc_app, assoc_remove_same. cbn. rewrite String.eqb_refl.
    rewrite IH. destruct (of_code (ccode m) t) as [|c cs] eqn:O.
    + cbn. rewrite app_nil_r. reflexivity.
    + cbn [app spec_entry]. f_equal. f_equal.
      change (c :: cs ++ [m]) with ((c :: cs) ++ [m]).
      rewrite map_app, concat_app, merge_args_app. cbn. rewrite app_nil_r. reflexivity.
Qed.

(** what is emitted for the deferred commands when the episode ends *)
Lemma pending_cmds_length (P : list (string * pentry)) : length (pending_cmds P) = length P.
Proof. unfold pending_cmds. apply map_length. Qed.

End DEF.
