(** C07 -- whole generated commands: reading the parameter text of a generated command back with the tokenizer
    (Model/Words.v, the model of GcodeParser.parameterItems, itself compared with the RS274 reading under C19) yields
    exactly the letters that were rendered, each with exactly its number text, and no free-text remainder; and the
    argument list of a merged deferred command has pairwise distinct, non-empty labels. *)
From Coq Require Import QArith ZArith NArith String Ascii List Bool Lia.
From ER Require Import Base.Num Model.Lexer Model.Words Model.Format Model.Axis Model.Filter Proofs.LexerProps Proofs.WordsProps Proofs.FormatProps Proofs.Deferred.
Import ListNotations.
Local Open Scope string_scope.

(** *** numbers followed by something *)
Definition fnum_ok (x : fnum) : Prop := let '(_, ds, _) := x in all_digits ds.

Lemma stops_nil_or_blank r : r = "" \/ (exists t, r = String " " t) -> stops r.
Proof. intros [->|(t & ->)]; cbn; auto. Qed.

Theorem layout_reads_with_rest neg ds k r : all_digits ds -> stops r ->
  number (layout neg ds k ++ r) = Some (layout neg ds k, r).
Proof.
  intros D St.
  destruct ds as [|d0 ds'] eqn:Eds.
  { unfold layout. fold (sign_text neg).
    pose proof (number_reads_decimal (sign_text neg) "0" "0" r (sign_ok neg)) as H.
    rewrite !append_assoc. cbn [append] in *. apply H; try discriminate; try exact St; intros c [<-|[]]; reflexivity. }
  rewrite <- Eds in *. assert (NE : ds <> "") by (rewrite Eds; discriminate).
  assert (NA : forall x, ds ++ x <> "") by (intros x; destruct ds; [congruence | discriminate]).
  assert (P : forall pz, number ((sign_text neg ++ positional ds k pz) ++ r) = Some (sign_text neg ++ positional ds k pz, r)).
  { intros pz. unfold positional.
    destruct (k <=? 0)%Z eqn:K0.
    - change ("0." ++ zeros (Z.to_nat (- k)) ++ ds) with ("0" ++ String "." (zeros (Z.to_nat (- k)) ++ ds)).
      pose proof (number_reads_decimal (sign_text neg) "0" (zeros (Z.to_nat (- k)) ++ ds) r (sign_ok neg)) as H.
      rewrite ?append_assoc. cbn [append] in *. rewrite ?append_assoc in H. rewrite ?append_assoc. apply H.
      + intros c [<-|[]]. reflexivity.
      + apply all_digits_app; [apply all_digits_zeros | exact D].
      + discriminate.
      + destruct (zeros (Z.to_nat (- k))); cbn; [exact NE | discriminate].
      + exact St.
    - destruct (k <? Z.of_nat (String.length ds))%Z eqn:K1.
      + pose proof (number_reads_decimal (sign_text neg) (take (Z.to_nat k) ds) (dropn (Z.to_nat k) ds) r (sign_ok neg)) as H.
        rewrite ?append_assoc. cbn [append] in *. rewrite ?append_assoc in H. cbn [append] in H. rewrite ?append_assoc. apply H.
        * apply all_digits_take; exact D.
        * apply all_digits_dropn; exact D.
        * apply take_nonempty; [lia | exact NE].
        * apply dropn_nonempty. lia.
        * exact St.
      + destruct pz.
        * pose proof (number_reads_decimal (sign_text neg) (ds ++ zeros (Z.to_nat k - String.length ds)) "0" r (sign_ok neg)) as H.
          rewrite !append_assoc in *. cbn [append] in *. apply H.
          -- apply all_digits_app; [exact D | apply all_digits_zeros].
          -- intros c [<-|[]]. reflexivity.
          -- rewrite ?append_assoc; apply NA.
          -- discriminate.
          -- exact St.
        * pose proof (number_reads_integer (sign_text neg) (ds ++ zeros (Z.to_nat k - String.length ds)) r (sign_ok neg)) as H.
          rewrite !append_nil_r in *. rewrite !append_assoc in *. apply H.
          -- apply all_digits_app; [exact D | apply all_digits_zeros].
          -- rewrite ?append_assoc; apply NA.
          -- exact St. }
  unfold layout. fold (sign_text neg). rewrite Eds. rewrite <- Eds.
  destruct ((-4 <? k) && (k <=? 16))%Z; apply P.
Qed.

(** a text on which [number] succeeds does not start with a blank *)
Lemma number_no_leading_blank s n r : number s = Some (n, r) -> span is_sp s = ("", s).
Proof.
  destruct s as [|c t]; [reflexivity|]. cbn [span]. destruct (is_sp c) eqn:E; [|reflexivity].
  unfold is_sp in E. apply Ascii.eqb_eq in E. subst c. intros H. exfalso. revert H.
  unfold number. cbn. discriminate.
Qed.

Lemma length_append a b : String.length (a ++ b) = (String.length a + String.length b)%nat.
Proof. induction a as [|c a IH]; cbn; [reflexivity | rewrite IH; reflexivity]. Qed.

Lemma alpha_not_sp c : Words.is_alpha c = true -> is_sp c = false.
Proof.
  intros H. unfold is_sp. destruct (Ascii.eqb_spec c " ") as [->|]; [|reflexivity]. discriminate.
Qed.

(** *** the parameter text of a generated command reads back as the words it was rendered from *)
Definition words_ok (ws : list (ascii * fnum)) : Prop := Forall (fun w => Words.is_alpha (fst w) = true /\ fnum_ok (snd w)) ws.
Definition read_back (ws : list (ascii * fnum)) : list (ascii * option string) :=
  map (fun w => (upper (fst w), Some (render_num (snd w)))) ws.

Lemma render_words_stops ws : render_words ws = "" \/ exists t, render_words ws = String " " t.
Proof. destruct ws as [|[c x] t]; [left; reflexivity | right; cbn; eauto]. Qed.

Lemma items_loop_render ws : words_ok ws -> forall fuel off, (String.length (render_words ws) < fuel)%nat ->
  items_loop fuel (render_words ws) off None = (read_back ws, None).
Proof.
  induction ws as [|[c x] t IH]; intros OK fuel off Hf.
  - destruct fuel as [|f]; [cbn in Hf; lia|]. reflexivity.
  - inversion OK as [|? ? (Hc & Hx) OKt]; subst. cbn [fst snd] in *.
    destruct fuel as [|f]; [cbn in Hf; lia|].
    destruct x as [[neg ds] k]. cbn [fnum_ok] in Hx.
    assert (Hn : number (layout neg ds k ++ render_words t) = Some (layout neg ds k, render_words t))
      by (apply layout_reads_with_rest; [exact Hx | apply stops_nil_or_blank, render_words_stops]).
    cbn [render_words render_num]. change (" " ++ String c (layout neg ds k) ++ render_words t)
      with (String " " (String c (layout neg ds k ++ render_words t))).
    cbn [items_loop]. cbn [span]. change (is_sp " ") with true. cbv iota.
    rewrite (alpha_not_sp c Hc). cbn [String.length]. rewrite Hc.
    rewrite (number_no_leading_blank _ _ _ Hn). rewrite Hn.
    rewrite IH; [reflexivity | exact OKt |].
    cbn [render_words render_num] in Hf. change (" " ++ String c (layout neg ds k) ++ render_words t)
      with (String " " (String c (layout neg ds k ++ render_words t))) in Hf. cbn [String.length] in Hf.
    rewrite length_append in Hf. lia.
Qed.

Theorem generated_words_read_back ws : words_ok ws -> items (render_words ws) = (read_back ws, None).
Proof.
  intros OK. unfold items. rewrite (items_loop_render ws OK); [reflexivity | lia].
Qed.

(** *** merged deferred commands: labels are distinct and non-empty *)
Section Merge.
Context {T : Type} {N : Num T}.

Lemma dict_set_keys k v (l : list (witem T)) : NoDup (map fst l) -> NoDup (map fst (dict_set k v l)) /\
  (forall k', In k' (map fst (dict_set k v l)) <-> k' = k \/ In k' (map fst l)).
Proof.
  induction l as [|[k1 v1] t IH]; intros ND.
  - cbn. split; [constructor; [tauto|constructor] | intros k'; split; intros [H|H]; auto; contradiction].
  - inversion ND as [|? ? NI ND']; subst. cbn [dict_set]. destruct (String.eqb_spec k k1) as [->|NE].
    + cbn. split; [exact ND | intros k'; split; [intros [H|H]; auto | intros [H|[H|H]]; auto]].
    + destruct (IH ND') as (A & B). cbn [map fst]. split.
      * constructor; [|exact A]. rewrite B. intros [H|H]; [congruence | tauto].
      * intros k'. cbn. rewrite B. split; [intros [H|[H|H]]; auto | intros [H|[H|H]]; auto].
Qed.

Definition merge_step (acc : list (witem T)) (w : witem T) : list (witem T) :=
  if String.eqb (fst w) "" then acc else dict_set (fst w) (snd w) acc.

Lemma merge_fold_labels ws (old : list (witem T)) :
  NoDup (map fst old) -> ~ In "" (map fst old) ->
  NoDup (map fst (fold_left merge_step ws old)) /\ ~ In "" (map fst (fold_left merge_step ws old)).
Proof.
  revert old. induction ws as [|w ws IH]; intros old ND NI; [cbn; auto|].
  cbn [fold_left]. apply IH; unfold merge_step; destruct (String.eqb_spec (fst w) "") as [E|E]; auto.
  - apply dict_set_keys; exact ND.
  - destruct (dict_set_keys (fst w) (snd w) old ND) as (_ & B). rewrite B. intros [H|H]; [congruence | tauto].
Qed.

(** every merged command that can ever be pending: its labels are pairwise distinct and none is empty *)
Theorem merged_labels_distinct modef (seen : list (xmode * icmd T)) g args : consistent modef seen ->
  assoc g (pend_after seen) = Some (PArgs args) -> NoDup (map fst args) /\ ~ In "" (map fst args).
Proof.
  intros C A. rewrite (pend_spec modef seen C) in A. unfold spec_entry in A.
  destruct (of_code g seen) as [|c0 cs]; [discriminate|]. destruct (modef g); try discriminate.
  injection A as <-. apply (merge_fold_labels _ []); [constructor | intros []].
Qed.
End Merge.
