(** C09 (arc arithmetic): the GENERATED planArc / computeArcCenterOffsets never divide by zero and never take the
    square root of a negative number -- for all inputs. *)
From Coq Require Import Reals ZArith Lra Lia Psatz Bool.
From ER Require Import Base.GenPrelude Gen.GenArc.
Open Scope R_scope.

Lemma IZR_ge1_neq0 z : (1 <= z)%Z -> IZR z <> 0.
Proof. intros H. apply not_0_IZR. lia. Qed.

Theorem planArc_always_safe posX posY endX endY i j cw : planArc_safe posX posY endX endY i j cw.
Proof.
  unfold planArc_safe. cbv zeta.
  repeat match goal with |- context [if ?b then _ else _] => destruct b end;
  (split; [apply IZR_ge1_neq0; lia | apply IZR_ge1_neq0; apply Z.le_max_l]).
Qed.

Lemma hypot_pos_neq x y : x <> 0 \/ y <> 0 -> hypot x y <> 0.
Proof. intros H. pose proof (hypot_pos x y H). lra. Qed.

(** The guards are taken by their truth conditions (nested ifs, guard clauses with early returns and De Morgan forms of the same tests all
    lead to the same facts): on every path that reaches a division or the square root, the end points differ and -- for the root -- half
    the chord is at most |R|. *)
Ltac guard_prop_all := rewrite ?andb_true_iff, ?orb_true_iff, ?negb_true_iff, ?andb_false_iff, ?orb_false_iff, ?negb_false_iff,
  ?Reqb_true, ?Reqb_false, ?Rleb_true, ?Rleb_false, ?Rltb_true, ?Rltb_false, ?Rgeb_true in *.

Theorem computeArcCenterOffsets_always_safe posX posY endX endY radius cw :
  computeArcCenterOffsets_safe posX posY endX endY radius cw.
Proof.
  unfold computeArcCenterOffsets_safe. cbv zeta.
  assert (T : IZR 2 <> 0) by (apply IZR_ge1_neq0; lia).
  repeat match goal with |- context [if ?c then _ else _] => let G := fresh "G" in destruct c eqn:G; try exact I end;
  repeat guard_prop_all;
  (assert (NE : posX <> endX \/ posY <> endY) by tauto);
  (assert (NZ : endX - posX <> 0 \/ endY - posY <> 0) by (destruct NE as [NE|NE]; [left|right]; intros E; apply NE; lra));
  (assert (D : hypot (endX - posX) (endY - posY) <> 0) by (apply hypot_pos_neq; exact NZ));
  repeat split; try exact T; try exact D; try exact I.
  all: assert (H : hypot (endX - posX) (endY - posY) / IZR 2 <= Rabs radius) by tauto.
  all: pose proof (hypot_nonneg (endX - posX) (endY - posY)) as HP.
  all: assert (H0 : 0 <= hypot (endX - posX) (endY - posY) / IZR 2) by (unfold Rdiv; apply Rmult_le_pos; [exact HP | left; apply Rinv_0_lt_compat; lra]).
  all: assert (RR : radius * radius = Rabs radius * Rabs radius) by (unfold Rabs; destruct (Rcase_abs radius); ring).
  all: rewrite RR; nra.
Qed.
