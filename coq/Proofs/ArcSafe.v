(** C09 (arc arithmetic): the GENERATED planArc / computeArcCenterOffsets never divide by zero and never take the
    square root of a negative number -- for all inputs. *)
From Coq Require Import Reals ZArith Lra Lia Psatz Bool.
From ER Require Import Base.GenPrelude Gen.GenArc.
Open Scope R_scope.

Lemma IZR_ge1_neq0 z : (1 <= z)%Z -> IZR z <> 0.
Proof. intros H. apply not_0_IZR. lia. Qed.

Theorem planArc_always_safe posX posY endX endY i j cw : planArc_safe posX posY endX endY i j cw.
Proof.
  unfold planArc_safe. cbv zeta.
  repeat match goal with |- context [if ?b then _ else _] => destruct b end;
  (split; [apply IZR_ge1_neq0; lia | apply IZR_ge1_neq0; apply Z.le_max_l]).
Qed.

Lemma hypot_pos_neq x y : x <> 0 \/ y <> 0 -> hypot x y <> 0.
Proof. intros H. pose proof (hypot_pos x y H). lra. Qed.

Theorem computeArcCenterOffsets_always_safe posX posY endX endY radius cw :
  computeArcCenterOffsets_safe posX posY endX endY radius cw.
Proof.
  unfold computeArcCenterOffsets_safe. cbv zeta.
  destruct (negb (Reqb radius 0) && (negb (Reqb posX endX) || negb (Reqb posY endY))) eqn:G; [|exact I].
  apply andb_true_iff in G. destruct G as (_ & G). apply orb_true_iff in G.
  assert (NZ : endX - posX <> 0 \/ endY - posY <> 0).
  { destruct G as [G|G]; apply negb_true_iff in G; apply Reqb_false in G; [left|right]; lra. }
  assert (D : hypot (endX - posX) (endY - posY) <> 0) by (apply hypot_pos_neq; exact NZ).
  assert (T : IZR 2 <> 0) by (apply IZR_ge1_neq0; lia).
  repeat split; try exact T.
  destruct (Rleb (hypot (endX - posX) (endY - posY) / IZR 2) (Rabs radius)) eqn:H; [|exact I].
  apply Rleb_true in H.
  repeat split; try exact D.
  pose proof (hypot_nonneg (endX - posX) (endY - posY)) as HP.
  assert (H0 : 0 <= hypot (endX - posX) (endY - posY) / IZR 2) by (unfold Rdiv; apply Rmult_le_pos; [exact HP | left; apply Rinv_0_lt_compat; lra]).
  assert (RR : radius * radius = Rabs radius * Rabs radius) by (unfold Rabs; destruct (Rcase_abs radius); ring).
  rewrite RR. nra.
Qed.
