(** C05 -- retraction bookkeeping: never doubled, recovered exactly once before printing resumes. *)
From Coq Require Import String Ascii List Bool.
From ER Require Import Base.Num Model.Geometry Model.Axis Model.Filter Proofs.FilterLemmas Proofs.Outputs.
Import ListNotations.

Section RET.
Context {T : Type} {N : Num T}.
Notation fstate := (fstate T).
Notation icmd := (icmd T).

(** a recovery skipped inside a region is owed afterwards *)
Lemma recovery_inside_is_owed (s : fstate) cmd lr : excluding s = true -> lastRetraction s = Some lr ->
  snd (recoverRetractionIfNeeded s cmd true) = [] /\
  exists lr', lastRetraction (fst (recoverRetractionIfNeeded s cmd true)) = Some lr' /\ recoverExcluded lr' = true /\
              amount lr' = amount lr /\ fw lr' = fw lr /\ rorig lr' = rorig lr.
Proof.
  intros X L. unfold recoverRetractionIfNeeded. rewrite L, X. cbn. split; [reflexivity|].
  eexists. split; [reflexivity|]. cbn. auto.
Qed.

(** outside, an owed recovery is emitted in front of the triggering command -- once: afterwards nothing is owed *)
Lemma owed_recovery_emitted_once (s : fstate) cmd b lr : excluding s = false -> lastRetraction s = Some lr -> recoverExcluded lr = true ->
  snd (recoverRetractionIfNeeded s cmd b) = retr_cmds (mkRetr true false (fw lr) (amount lr) (rfeed lr) (rorig lr)) true (position s) ++ [Orig cmd] /\
  lastRetraction (fst (recoverRetractionIfNeeded s cmd b)) = None.
Proof.
  intros X L O. unfold recoverRetractionIfNeeded, recoverRetraction. rewrite L, X. cbn. rewrite O. auto.
Qed.

(** the recovery restores exactly the retracted amount and, for firmware retraction, is a G11 with the
    original command's parameters *)
Lemma recovery_commands (r : retr T) (p : pos T) :
  retr_cmds r true p =
  if fw r then [FwCmd true (fw_params (rorig r))]
  else [SetE (n2l (set_cur (pe p) (nadd (cur (pe p)) (nmul (amount r) (nopp n1)))));
        ExtrudeTo (ndiv (rfeed r) (um (pe p)))
                  (n2l (set_cur (set_cur (pe p) (nadd (cur (pe p)) (nmul (amount r) (nopp n1))))
                                (nsub (nadd (cur (pe p)) (nmul (amount r) (nopp n1))) (nmul (amount r) (nopp n1)))))].
Proof. unfold retr_cmds. destruct (fw r); reflexivity. Qed.

(** while excluding, once the filament is retracted further retractions are not executed again:
    with a recovery owed, or after a skipped recovery / extrusion (allowCombine = false), nothing is emitted *)
Lemma no_double_retraction (s : fstate) rt lr : excluding s = true -> lastRetraction s = Some lr ->
  (recoverExcluded lr = true \/ allowCombine lr = false) -> snd (recordRetraction s rt) = [].
Proof.
  intros X L H. unfold recordRetraction. rewrite L. destruct (recoverExcluded lr) eqn:O; [reflexivity|].
  destruct H as [H|H]; [discriminate|]. rewrite H, X. reflexivity.
Qed.

(** a dropped retraction (recovery owed) clears the debt: the filament simply stays retracted *)
Lemma dropped_retraction_clears_debt (s : fstate) rt lr : lastRetraction s = Some lr -> recoverExcluded lr = true ->
  snd (recordRetraction s rt) = [] /\
  exists lr', lastRetraction (fst (recordRetraction s rt)) = Some lr' /\ recoverExcluded lr' = false /\ amount lr' = amount lr.
Proof.
  intros L O. unfold recordRetraction. rewrite L, O. cbn. split; [reflexivity|]. eexists. split; [reflexivity|]. auto.
Qed.

(** the first retraction inside a region is executed (so the nozzle does not ooze while skipping) *)
Lemma first_retraction_inside_executed (s : fstate) rt : excluding s = true -> lastRetraction s = None ->
  snd (recordRetraction s rt) = retr_cmds rt false (position s) /\ lastRetraction (fst (recordRetraction s rt)) = Some rt.
Proof. intros X L. unfold recordRetraction. rewrite L, X. auto. Qed.

(** firmware retraction: the generated command carries the parameters of the original one *)
Example fw_params_examples :
  fw_params "G10 S1" = "S1"%string /\ fw_params "G10" = ""%string /\ fw_params " G10 S1" = "S1"%string /\
  fw_params "G11.1  S0 " = "S0 "%string /\ fw_params "g10 s1" = "s1"%string.
Proof. repeat split; reflexivity. Qed.

End RET.
