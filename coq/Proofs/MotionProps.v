(** Consequences of the simulation invariant used by C01 / C03: when an episode closes, where
    forwarded moves end, and at which height the re-positioning travel happens. *)
From Coq Require Import Reals Lra String Ascii List Bool.
From ER Require Import Base.Num Model.Geometry Model.Axis Model.Filter Spec.Printer
  Proofs.FilterLemmas Proofs.Transparent Proofs.Deferred Proofs.Outputs Proofs.Track Proofs.FSync Proofs.Sync.
Import ListNotations.
Open Scope R_scope.

(** a command that moves the tool: an arc, or a G0/G1 with an X, Y or Z word *)
Definition is_move (m : icmdR) : bool :=
  linear m && (is_arc m || is_some (word "X" (cwords m)) || is_some (word "Y" (cwords m)) || is_some (word "Z" (cwords m))).

Lemma plm_not_hit c (s : fstateR) cmd e f z pts :
  is_some z || existsb (fun q : option R * option R => is_some (fst q) || is_some (snd q)) pts = true ->
  snd (track_points (regions s) (enabled s) (px (position s)) (py (position s)) pts) = false ->
  excluding (fst (processLinearMoves c s cmd e f z pts)) = false.
Proof.
  intros M NH. unfold processLinearMoves.
  set (eA' := match e with Some v => set_logical (pe (position s)) v | None => pe (position s) end).
  set (zA' := match z with Some v => set_logical (pz (position s)) v | None => pz (position s) end).
  set (dE := match e with Some _ => nsub (cur eA') (cur (pe (position s))) | None => n0 end).
  set (s0 := match f with Some v => upd_feed s (nmul v (frMult s)) | None => s end).
  assert (R0 : regions s0 = regions s /\ enabled s0 = enabled s) by (unfold s0; destruct f; auto).
  destruct R0 as (R0 & E0).
  set (s1 := upd_pos s0 (upd_Z (upd_E (position s) eA') zA')).
  rewrite M. cbn [negb]. change (regions s1) with (regions s0). change (enabled s1) with (enabled s0). rewrite R0, E0.
  destruct (track_points (regions s) (enabled s) (px (position s)) (py (position s)) pts) as [[x' y'] hit]. cbn [snd] in NH. subst hit.
  set (s1' := upd_pos s1 (upd_XY (position s1) x' y')).
  destruct (excluding s1') eqn:X1.
  - destruct (exit_shape c s1' X1) as (r & _ & _ & E & _). destruct (exitExcludedRegion c s1') as [s2 cmds]. exact E.
  - destruct (negb (neqb dE n0)).
    + match goal with |- context [recoverRetractionIfNeeded ?sp cmd false] =>
        pose proof (recoverRetractionIfNeeded_frame sp cmd false) as F; destruct (recoverRetractionIfNeeded sp cmd false) as [s2 cmds] end.
      cbn [fst] in *. destruct F as (_ & F & _). cbn. rewrite F. exact X1.
    + exact X1.
Qed.

(** a move whose tested points are all outside every enabled region leaves no episode open (C03) *)
Theorem move_outside_closes c (s : fstateR) (m : icmdR) : is_move m = true ->
  (is_arc m = true -> arc_nondegenerate m = true) -> cmd_hits s m = false -> excluding (fst (handle c s m)) = false.
Proof.
  unfold is_move, cmd_hits, cmd_points, handle, is_arc, arc_nondegenerate. intros IM ND.
  apply andb_true_iff in IM. destruct IM as (L & IM).
  destruct (linear_cases m L) as [E|(E0 & E)]; rewrite ?E0, E in *.
  - unfold handle_G0. intros NH. apply plm_not_hit; [|exact NH].
    cbn [existsb fst snd]. unfold is_arc in IM.
    assert (A : String.eqb (ccode m) "G2" || String.eqb (ccode m) "G3" = false).
    { destruct (String.eqb_spec (ccode m) "G0") as [e|]; [rewrite e; reflexivity|].
      destruct (String.eqb_spec (ccode m) "G1") as [e|]; [rewrite e; reflexivity|]. cbn in E. discriminate. }
    rewrite A in IM. cbn [orb] in IM.
    destruct (word "X" (cwords m)), (word "Y" (cwords m)), (word "Z" (cwords m)); cbn in *; try reflexivity; discriminate.
  - unfold handle_G2. specialize (ND eq_refl).
    set (ij := match word "R" (cwords m) with
               | Some _ => match carc_ij m with Some ij => ij | None => (n0, n0) end
               | None => (dflt (word "I" (cwords m)) n0, dflt (word "J" (cwords m)) n0) end).
    assert (NZ : nonzero (fst ij) || nonzero (snd ij) = true).
    { unfold ij. destruct (word "R" (cwords m)); [|exact ND]. destruct (carc_ij m) as [[i j]|]; [exact ND | discriminate]. }
    destruct ij as [i j]. cbn [fst snd] in NZ. rewrite NZ. intros NH. apply plm_not_hit; [reflexivity | exact NH].
Qed.

(** the scan reports a hit whenever its final point lies inside a region *)
Lemma track_points_final rs (x y : axis R) pts : pts <> [] ->
  snd (track_points rs true x y pts) = false ->
  let '(x', y', _) := track_points rs true x y pts in any_contains rs (cur x') (cur y') = false.
Proof.
  revert x y. induction pts as [|[ox oy] t IH]; intros x y NE H; [congruence|].
  cbn [track_points] in *.
  set (x1 := match ox with Some v => set_logical x v | None => x end) in *.
  set (y1 := match oy with Some v => set_logical y v | None => y end) in *.
  destruct t as [|p t'].
  - cbn in *. rewrite orb_false_r in H. exact H.
  - specialize (IH x1 y1 ltac:(discriminate)).
    destruct (track_points rs true x1 y1 (p :: t')) as [[x2 y2] h2]. cbn [snd] in *.
    apply orb_false_iff in H. destruct H as (_ & H). apply IH. exact H.
Qed.

(** the exit sequence, spelled out, and the height of its X/Y travel (C03) *)
Lemma exit_resync c (s : fstateR) : excluding s = true ->
  let p := position s in let lp := lastPosition s in let f := feedRate s / frMult s in
  let mz := MoveZ f (exitCoordinate (pz p) (pz lp)) in
  exit_sequence c s = pending_cmds (pending s) ++ map Script (exitS c) ++ [SetE (n2l (pe p))]
       ++ (if Rltb (cur (pz lp)) (cur (pz p)) then [mz] else [])
       ++ [MoveXY f (exitCoordinate (px p) (px lp)) (exitCoordinate (py p) (py lp))]
       ++ (if Rltb (cur (pz p)) (cur (pz lp)) then [mz] else []).
Proof. intros X. unfold exit_sequence, exitExcludedRegion. rewrite X. reflexivity. Qed.

Theorem exit_travel_height g m c0 (s1 : fstateR) (F U' : printerR) : excluding s1 = true -> Track s1 U' ->
  qabs F = qabs U' -> qum F = qum U' -> qz F = cur (pz (lastPosition s1)) ->
  let before_xy := pending_cmds (pending s1) ++ map Script (exitS c0) ++ [SetE (n2l (pe (position s1)))]
       ++ (if Rltb (cur (pz (lastPosition s1))) (cur (pz (position s1)))
           then [MoveZ (feedRate s1 / frMult s1) (exitCoordinate (pz (position s1)) (pz (lastPosition s1)))] else []) in
  qz (run_outs g m F before_xy) = Rmax (qz F) (qz U').
Proof.
  intros X [Hum Hea Hx Hy Hz He Hfm] FA FU LZ. cbn zeta.
  unfold run_outs. rewrite !fold_left_app.
  set (F1 := fold_left (exec_out g m) [SetE (n2l (pe (position s1)))]
              (fold_left (exec_out g m) (map Script (exitS c0)) (fold_left (exec_out g m) (pending_cmds (pending s1)) F))).
  assert (Q : same_xyz_frame F F1).
  { unfold F1. rewrite <- !fold_left_app. apply (run_quiet g m). rewrite !Forall_app. repeat split.
    - unfold pending_cmds. apply Forall_forall. intros o Ho. apply in_map_iff in Ho. destruct Ho as ([k [t|a]] & <- & _); exact I.
    - apply Forall_forall. intros o Ho. apply in_map_iff in Ho. destruct Ho as (t & <- & _). exact I.
    - repeat constructor. }
  destruct Q as (_ & _ & Qz & Qa & _ & Qu). clearbody F1.
  destruct Hz as (Z1 & Z2 & Z3 & Z4 & Z5).
  destruct (Rltb (cur (pz (lastPosition s1))) (cur (pz (position s1)))) eqn:UP; cbn [fold_left exec_out].
  - apply Rltb_true in UP. unfold exec_move, tgt. cbn [word last_num String.eqb Ascii.eqb Bool.eqb qz].
    rewrite Qa, Qu, Qz, FA, FU, LZ. unfold exitCoordinate, n2l. rewrite Z2, Z3, Z4, Z5. numR.
    rewrite Rmax_right by lra. destruct (qabs U'); rewrite <- Z1; field; assumption.
  - apply Rltb_false in UP. rewrite Qz. rewrite Rmax_left by lra. reflexivity.
Qed.

Lemma plm_hit_excludes c (s : fstateR) cmd e f z pts :
  is_some z || existsb (fun q : option R * option R => is_some (fst q) || is_some (snd q)) pts = true ->
  snd (track_points (regions s) (enabled s) (px (position s)) (py (position s)) pts) = true ->
  excluding (fst (processLinearMoves c s cmd e f z pts)) = true.
Proof.
  intros M NH. unfold processLinearMoves.
  set (eA' := match e with Some v => set_logical (pe (position s)) v | None => pe (position s) end).
  set (zA' := match z with Some v => set_logical (pz (position s)) v | None => pz (position s) end).
  set (dE := match e with Some _ => nsub (cur eA') (cur (pe (position s))) | None => n0 end).
  set (s0 := match f with Some v => upd_feed s (nmul v (frMult s)) | None => s end).
  assert (R0 : regions s0 = regions s /\ enabled s0 = enabled s) by (unfold s0; destruct f; auto).
  destruct R0 as (R0 & E0).
  set (s1 := upd_pos s0 (upd_Z (upd_E (position s) eA') zA')).
  rewrite M. cbn [negb]. change (regions s1) with (regions s0). change (enabled s1) with (enabled s0). rewrite R0, E0.
  destruct (track_points (regions s) (enabled s) (px (position s)) (py (position s)) pts) as [[x' y'] hit]. cbn [snd] in NH. subst hit.
  set (s1' := upd_pos s1 (upd_XY (position s1) x' y')).
  pose proof (processExcludedMove_frame c s1' cmd dE) as F.
  destruct (processExcludedMove c s1' cmd dE) as [s2 cmds]. cbn [fst] in *. destruct F as (_ & _ & _ & _ & F).
  destruct (excluding s2 && negb (excluding s1')); cbn; exact F.
Qed.

(** where the tracked X/Y end after a scan that stayed clear: outside every region *)
Lemma plm_clear_destination c (s : fstateR) cmd e f z pts : pts <> [] -> enabled s = true ->
  is_some z || existsb (fun q : option R * option R => is_some (fst q) || is_some (snd q)) pts = true ->
  snd (track_points (regions s) (enabled s) (px (position s)) (py (position s)) pts) = false ->
  let p' := position (fst (processLinearMoves c s cmd e f z pts)) in
  any_contains (regions s) (cur (px p')) (cur (py p')) = false.
Proof.
  intros NE En M NH. cbn zeta. rewrite plm_position. unfold plm_pos. rewrite M.
  pose proof (track_points_axes (regions s) (enabled s) [] false (px (position s)) (py (position s)) pts) as TA.
  rewrite En in *. pose proof (track_points_final (regions s) (px (position s)) (py (position s)) pts NE NH) as TF.
  destruct (track_points (regions s) true (px (position s)) (py (position s)) pts) as [[x' y'] hit].
  destruct (track_points [] false (px (position s)) (py (position s)) pts) as [[x2 y2] hit2].
  cbn [fst] in TA. injection TA as <- <-. cbn [px py]. exact TF.
Qed.

(** C01 (a): while exclusion is enabled, a move that leaves no episode open ends -- in the file's own
    coordinates, hence on the printer -- outside every currently defined region *)
Theorem forwarded_move_ends_outside c (s : fstateR) (U : printerR) (m : icmdR) :
  Track s U -> wf_cmd c U m -> is_move m = true -> enabled s = true ->
  excluding (fst (handle c s m)) = false ->
  let U' := exec_cmd (g90e c) U (ccode m) (cwords m) in
  any_contains (regions s) (qx U') (qy U') = false.
Proof.
  intros TR WF IM En X'. pose proof (track_step c s U m TR WF) as [_ _ (TX & _) (TY & _) _ _ _]. cbn zeta.
  rewrite <- TX, <- TY. clear TX TY. revert X'.
  unfold is_move in IM. apply andb_true_iff in IM. destruct IM as (L & IM).
  destruct WF as (_ & _ & WFA & _).
  unfold handle. destruct (linear_cases m L) as [E|(E0 & E)]; rewrite ?E0, E.
  - unfold handle_G0. intros X'.
    assert (M : is_some (word "Z" (cwords m)) || existsb (fun q : option R * option R => is_some (fst q) || is_some (snd q)) [(word "X" (cwords m), word "Y" (cwords m))] = true).
    { cbn [existsb fst snd]. unfold is_arc in IM.
      assert (A : String.eqb (ccode m) "G2" || String.eqb (ccode m) "G3" = false).
      { destruct (String.eqb_spec (ccode m) "G0") as [e|]; [rewrite e; reflexivity|].
        destruct (String.eqb_spec (ccode m) "G1") as [e|]; [rewrite e; reflexivity|]. cbn in E. discriminate. }
      rewrite A in IM. cbn [orb] in IM.
      destruct (word "X" (cwords m)), (word "Y" (cwords m)), (word "Z" (cwords m)); cbn in *; try reflexivity; discriminate. }
    apply plm_clear_destination; [discriminate | exact En | exact M |].
    destruct (snd (track_points (regions s) (enabled s) (px (position s)) (py (position s)) [(word "X" (cwords m), word "Y" (cwords m))])) eqn:H; [|reflexivity].
    pose proof (plm_hit_excludes c s (ctext m) (word "E" (cwords m)) (word "F" (cwords m)) _ _ M H). congruence.
  - unfold handle_G2. destruct (WFA E) as (_ & ND). unfold arc_nondegenerate in ND.
    set (ij := match word "R" (cwords m) with
               | Some _ => match carc_ij m with Some ij => ij | None => (n0, n0) end
               | None => (dflt (word "I" (cwords m)) n0, dflt (word "J" (cwords m)) n0) end).
    assert (NZ : nonzero (fst ij) || nonzero (snd ij) = true).
    { unfold ij. destruct (word "R" (cwords m)); [|exact ND]. destruct (carc_ij m) as [[i j]|]; [exact ND | discriminate]. }
    destruct ij as [i j]. cbn [fst snd] in NZ. rewrite NZ. intros X'.
    apply plm_clear_destination; [destruct (map _ (carc_mid m)); discriminate | exact En | reflexivity |].
    match goal with |- snd (track_points ?a ?b ?cc ?d ?pts) = false => destruct (snd (track_points a b cc d pts)) eqn:H; [|reflexivity] end.
    match type of X' with excluding (fst (processLinearMoves _ _ _ ?e ?f ?z ?pts)) = _ =>
      pose proof (plm_hit_excludes c s (ctext m) e f z pts eq_refl H) end. congruence.
Qed.

(** *** C04: a move forwarded outside every region finds the printer exactly where the file is,
    extruder coordinate included, so it pushes exactly the filament the file specifies *)
Lemma plm_move_pre_agree c (s : fstateR) (U : printerR) cmd e f z pts : Track s U ->
  is_some z || existsb (fun q : option R * option R => is_some (fst q) || is_some (snd q)) pts = true ->
  excluding s = false -> excluding (fst (processLinearMoves c s cmd e f z pts)) = false ->
  exists pre, snd (processLinearMoves c s cmd e f z pts) = Replace (pre ++ [Orig cmd]) /\
    forall g m0 (F : printerR), agree F U -> agree (run_outs g m0 F pre) U.
Proof.
  intros [Hum Hea Hx Hy Hz He Hfm] M X. unfold processLinearMoves.
  set (eA' := match e with Some v => set_logical (pe (position s)) v | None => pe (position s) end).
  set (zA' := match z with Some v => set_logical (pz (position s)) v | None => pz (position s) end).
  set (dE := match e with Some _ => nsub (cur eA') (cur (pe (position s))) | None => n0 end).
  set (s0 := match f with Some v => upd_feed s (nmul v (frMult s)) | None => s end).
  assert (X0 : excluding s0 = false) by (unfold s0; destruct f; exact X).
  set (s1 := upd_pos s0 (upd_Z (upd_E (position s) eA') zA')).
  assert (TRr : forall l : list (ocmd R), to_result (l ++ [Orig cmd]) = Replace (l ++ [Orig cmd])) by (intros [|a l]; reflexivity).
  rewrite M. cbn [negb].
  destruct (track_points (regions s1) (enabled s1) (px (position s)) (py (position s)) pts) as [[x' y'] hit].
  set (s1' := upd_pos s1 (upd_XY (position s1) x' y')).
  assert (X1 : excluding s1' = false) by exact X0.
  destruct hit.
  - pose proof (processExcludedMove_frame c s1' cmd dE) as F.
    destruct (processExcludedMove c s1' cmd dE) as [s2 cmds]. cbn [fst] in F. destruct F as (_ & _ & _ & _ & F).
    cbn [fst snd]. intros H. exfalso. destruct (excluding s2 && negb (excluding s1')); cbn in H; congruence.
  - rewrite X1. destruct (negb (neqb dE n0)).
    + set (sp := upd_pos s1' (upd_E (position s1') (set_cur eA' (cur (pe (position s)))))).
      destruct (recoverIfNeeded_outside_e sp cmd false X1) as (pre & A & PRE).
      destruct (recoverRetractionIfNeeded sp cmd false) as [s2 cmds]. cbn [fst snd] in *. intros _. exists pre. subst cmds.
      split; [apply TRr|]. intros g m0 F [AX AY AZ AE AA AEA AU].
      destruct PRE as [->|(lr & ->)]; [constructor; assumption|].
      assert (T : axis_tracks (pe (position sp)) (qe U) true (qum F)).
      { unfold sp. cbn [position upd_pos upd_E pe]. destruct He as (E1 & E2 & E3 & E4 & E5).
        unfold axis_tracks, set_cur, eA'. rewrite AU. destruct e; cbn; auto. }
      destruct (retr_cmds_exec g m0 F lr true (position sp) (qe U) ltac:(congruence) ltac:(congruence) T) as ((S1 & S2 & S3 & S4 & S5 & S6) & S7).
      constructor; try congruence. rewrite S7. destruct (fw lr); congruence.
    + cbn [fst snd]. intros _. exists []. split; [reflexivity|]. intros g m0 F AG. exact AG.
Qed.

Theorem forwarded_move_same_start c (s : fstateR) (F U : printerR) (m : icmdR) :
  Track s U -> FSync s F U -> wf_cmd c U m -> is_move m = true ->
  excluding s = false -> excluding (fst (handle c s m)) = false ->
  exists Fp, agree Fp U /\
    run_outs (g90e c) m F (outs m (snd (handle c s m))) = exec_cmd (g90e c) Fp (ccode m) (cwords m).
Proof.
  intros TR FS WF IM X. pose proof FS as [FA FE FU FO FI]. destruct (FO X) as (OX & OY & OZ & OE).
  assert (AG : agree F U) by (constructor; assumption).
  unfold is_move in IM. apply andb_true_iff in IM. destruct IM as (L & IM).
  destruct WF as (_ & _ & WFA & _).
  unfold handle. destruct (linear_cases m L) as [E|(E0 & E)]; rewrite ?E0, E.
  - unfold handle_G0. intros X'.
    assert (M : is_some (word "Z" (cwords m)) || existsb (fun q : option R * option R => is_some (fst q) || is_some (snd q)) [(word "X" (cwords m), word "Y" (cwords m))] = true).
    { cbn [existsb fst snd]. unfold is_arc in IM.
      assert (A : String.eqb (ccode m) "G2" || String.eqb (ccode m) "G3" = false).
      { destruct (String.eqb_spec (ccode m) "G0") as [e|]; [rewrite e; reflexivity|].
        destruct (String.eqb_spec (ccode m) "G1") as [e|]; [rewrite e; reflexivity|]. cbn in E. discriminate. }
      rewrite A in IM. cbn [orb] in IM.
      destruct (word "X" (cwords m)), (word "Y" (cwords m)), (word "Z" (cwords m)); cbn in *; try reflexivity; discriminate. }
    destruct (plm_move_pre_agree c s U (ctext m) _ _ _ _ TR M X X') as (pre & R & PA).
    rewrite R. cbn [outs]. exists (run_outs (g90e c) m F pre). split; [apply PA; exact AG|].
    unfold run_outs. rewrite fold_left_app. reflexivity.
  - unfold handle_G2. destruct (WFA E) as (_ & ND). unfold arc_nondegenerate in ND.
    set (ij := match word "R" (cwords m) with
               | Some _ => match carc_ij m with Some ij => ij | None => (n0, n0) end
               | None => (dflt (word "I" (cwords m)) n0, dflt (word "J" (cwords m)) n0) end).
    assert (NZ : nonzero (fst ij) || nonzero (snd ij) = true).
    { unfold ij. destruct (word "R" (cwords m)); [|exact ND]. destruct (carc_ij m) as [[i j]|]; [exact ND | discriminate]. }
    destruct ij as [i j]. cbn [fst snd] in NZ. rewrite NZ. intros X'.
    match type of X' with excluding (fst (processLinearMoves _ _ _ ?e ?f ?z ?pts)) = _ =>
      destruct (plm_move_pre_agree c s U (ctext m) e f z pts TR eq_refl X X') as (pre & R & PA) end.
    rewrite R. cbn [outs]. exists (run_outs (g90e c) m F pre). split; [apply PA; exact AG|].
    unfold run_outs. rewrite fold_left_app. reflexivity.
Qed.
