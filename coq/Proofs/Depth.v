(** C05 -- the quantitative retraction-depth invariant over whole programs (E-only dialect, matched equal-length
    retract / recover cycles of length L):   depth(printer) = depth(file) + (L if a recovery is owed else 0).
    Hence the printer is never retracted deeper than L (the deepest retraction the file requested), never shallower
    than the file assumes, and every forwarded printing move that extrudes starts with both depths equal to 0 -- an owed
    recovery is executed first, once. *)
From Coq Require Import Reals Lra String Ascii List Bool.
From ER Require Import Base.Num Model.Geometry Model.Axis Model.Filter Spec.Printer
  Proofs.FilterLemmas Proofs.Transparent Proofs.Deferred Proofs.Outputs Proofs.Track Proofs.FSync Proofs.Sync.
Import ListNotations.
Open Scope R_scope.

(** *** the printer side *)
Lemma nmax0_pos x : 0 <= x -> @nmax R RNum 0 x = x.
Proof. intros H. unfold nmax. numR. destruct (Rleb 0 x) eqn:E; [reflexivity|]. apply Rleb_false in E. lra. Qed.
Lemma nmax0_neg x : x <= 0 -> @nmax R RNum 0 x = 0.
Proof. intros H. unfold nmax. numR. destruct (Rleb 0 x) eqn:E; [|reflexivity]. apply Rleb_true in E. lra. Qed.

Definition dE (U : printerR) (ws : list (witem R)) : R :=
  match word "E" ws with Some v => (if qeabs U then v * qum U else qe U + v * qum U) - qe U | None => 0 end.

Lemma exec_move_dep (P : printerR) ws : qdep (exec_move P ws) = match word "E" ws with Some _ => @nmax R RNum 0 (qdep P - dE P ws) | None => qdep P end.
Proof. unfold exec_move, dE, push. destruct (word "E" ws); cbn; numR; reflexivity. Qed.
Lemma exec_move_fw (P : printerR) ws : qfw (exec_move P ws) = qfw P.
Proof. unfold exec_move, push. destruct (word "E" ws); reflexivity. Qed.

(** commands other than G0-G3 / G10 / G11 leave depth and firmware-retraction flag alone *)
Lemma exec_other_dep g (P : printerR) code ws :
  (String.eqb code "G0" || String.eqb code "G1" || String.eqb code "G2" || String.eqb code "G3") = false ->
  code <> "G10"%string -> code <> "G11"%string ->
  qdep (exec_cmd g P code ws) = qdep P /\ qfw (exec_cmd g P code ws) = qfw P.
Proof.
  intros L N10 N11. unfold exec_cmd. rewrite L.
  destruct (String.eqb_spec code "G10"); [contradiction|]. destruct (String.eqb_spec code "G11"); [contradiction|].
  repeat match goal with |- context [if ?b then _ else _] => destruct b end; cbn; auto;
  destruct (word "E" ws); cbn; auto.
Qed.

Definition dep_quiet (o : ocmd R) : Prop :=
  match o with SetE _ | MoveZ _ _ | MoveXY _ _ _ | Script _ | Deferred _ | Merged _ _ => True | _ => False end.
Lemma exec_dep_quiet g m (P : printerR) o : dep_quiet o -> qdep (exec_out g m P o) = qdep P /\ qfw (exec_out g m P o) = qfw P.
Proof. destruct o; cbn; try tauto; intros _; auto. Qed.
Lemma run_dep_quiet g m l : forall P : printerR, Forall dep_quiet l -> qdep (run_outs g m P l) = qdep P /\ qfw (run_outs g m P l) = qfw P.
Proof.
  unfold run_outs. induction l as [|o t IH]; intros P H; cbn [fold_left]; [auto|]. inversion H as [|? ? H2 H3]; subst.
  destruct (IH (exec_out g m P o) H3) as (A & B). destruct (exec_dep_quiet g m P o H2) as (C & D). split; congruence.
Qed.

(** the generated E-only retraction / recovery, executed: the filament moves by exactly [amount], and the extruder
    coordinate ends at the tracked one *)
Lemma retr_exec g m (r : retr R) (recover : bool) (p : pos R) (P : printerR) :
  fw r = false -> qeabs P = true -> qum P <> 0 -> um (pe p) = qum P -> off (pe p) = 0 -> hoff (pe p) = 0 ->
  let P' := run_outs g m P (retr_cmds r recover p) in
  qdep P' = @nmax R RNum 0 (qdep P + (if recover then - amount r else amount r)) /\ qe P' = cur (pe p) /\ qfw P' = qfw P /\
  same_xyz_frame P P'.
Proof.
  intros Fw EA UM Um Of Ho. unfold retr_cmds. rewrite Fw. cbn [run_outs fold_left exec_out].
  unfold exec_move, set_e, push, word. cbn [last_num String.eqb Ascii.eqb Bool.eqb qx qy qz qe qabs qeabs qum qdep qfw tgt].
  rewrite EA. unfold n2l, set_cur. cbn [cur off hoff um absm]. rewrite Of, Ho, Um. numR.
  repeat split; try reflexivity; try (cbn; congruence).
  - f_equal. destruct recover; field; exact UM.
  - destruct recover; field; exact UM.
Qed.

(** *** the invariant *)
Definition DepR (L : R) (lr : option (retr R)) (dF : R) (fF : bool) (dU : R) (fU : bool) : Prop :=
  fF = false /\ fU = false /\
  match lr with
  | None => dU = 0 /\ dF = 0
  | Some r => fw r = false /\ amount r = L /\ dF = L /\ dU = (if recoverExcluded r then 0 else L)
  end.
Definition Dep (L : R) (s : fstateR) (F U : printerR) : Prop := DepR L (lastRetraction s) (qdep F) (qfw F) (qdep U) (qfw U).

(** the extruder axis as the filter tracks it, seen from a printer in the same frame *)
Definition etrack (a : axis R) (P : printerR) : Prop := um a = qum P /\ off a = 0 /\ hoff a = 0 /\ qeabs P = true /\ qum P <> 0.

(** the original command, executed by a printer whose extruder coordinate is the file's: same filament delta *)
Lemma orig_dep g (m : icmdR) (P U : printerR) t : linear m = true -> qe P = qe U -> qeabs P = qeabs U -> qum P = qum U ->
  qdep (exec_out g m P (Orig t)) = (match word "E" (cwords m) with Some _ => @nmax R RNum 0 (qdep P - dE U (cwords m)) | None => qdep P end) /\
  qfw (exec_out g m P (Orig t)) = qfw P.
Proof.
  intros L E A M. cbn [exec_out]. rewrite (exec_linear g P m L), exec_move_dep, exec_move_fw. split; [|reflexivity].
  unfold dE. rewrite E, A, M. reflexivity.
Qed.

(** *** retraction bookkeeping against the invariant *)
(** a retraction of length L by the file, which is not retracted *)
Lemma dep_record g (m : icmdR) L (s : fstateR) (F U : printerR) (rt : retr R) (dU' : R) :
  0 < L -> linear m = true -> Dep L s F U -> qdep U = 0 ->
  amount rt = L -> fw rt = false -> recoverExcluded rt = false -> etrack (pe (position s)) F ->
  (excluding s = false -> qe F = qe U /\ qeabs F = qeabs U /\ qum F = qum U) ->
  dE U (cwords m) = - L -> word "E" (cwords m) <> None -> dU' = L ->
  let r := recordRetraction s rt in
  DepR L (lastRetraction (fst r)) (qdep (run_outs g m F (snd r))) (qfw (run_outs g m F (snd r))) dU' false.
Proof.
  intros HL Lin (FF & FU & D) U0 Am Fw Ow (E1 & E2 & E3 & E4 & E5) OUT DE WE ->. unfold recordRetraction.
  destruct (lastRetraction s) as [lr|] eqn:LR.
  - destruct D as (D1 & D2 & D3 & D4). destruct (recoverExcluded lr) eqn:O.
    + cbn [fst snd lastRetraction upd_retr run_outs fold_left]. unfold DepR. cbn [fw amount recoverExcluded]. auto 10.
    + exfalso. lra.
  - destruct D as (D1 & D2). cbn [fst snd lastRetraction upd_retr]. unfold DepR. rewrite Fw, Am, Ow.
    destruct (excluding s) eqn:X.
    + destruct (retr_exec g m rt false (position s) F Fw E4 E5 E1 E2 E3) as (A & _ & B & _).
      rewrite A, B, D2, Am. rewrite nmax0_pos by lra. repeat split; auto; lra.
    + destruct (OUT eq_refl) as (O1 & O2 & O3). cbn [run_outs fold_left].
      destruct (orig_dep g m F U (rorig rt) Lin O1 O2 O3) as (A & B). rewrite A, B.
      destruct (word "E" (cwords m)); [|congruence]. rewrite DE, D2. rewrite nmax0_pos by lra. repeat split; auto; lra.
Qed.

(** a recovery of length L by the file, which is retracted (E-only command) *)
Lemma dep_recover_cmd g (m : icmdR) L (s : fstateR) (F U : printerR) cmd (dU' : R) :
  0 < L -> linear m = true -> Dep L s F U -> qdep U = L ->
  (excluding s = false -> qe F = qe U /\ qeabs F = qeabs U /\ qum F = qum U) ->
  dE U (cwords m) = L -> word "E" (cwords m) <> None -> dU' = 0 ->
  let r := recoverRetractionIfNeeded s cmd true in
  DepR L (lastRetraction (fst r)) (qdep (run_outs g m F (snd r))) (qfw (run_outs g m F (snd r))) dU' false.
Proof.
  intros HL Lin (FF & FU & D) UL OUT DE WE ->. unfold recoverRetractionIfNeeded, recoverRetraction.
  destruct (lastRetraction s) as [lr|] eqn:LR; [|exfalso; destruct D; lra].
  destruct D as (D1 & D2 & D3 & D4). destruct (recoverExcluded lr) eqn:O; [exfalso; lra|].
  destruct (excluding s) eqn:X.
  - cbn [fst snd lastRetraction upd_retr run_outs fold_left]. unfold DepR. cbn [fw amount recoverExcluded]. auto 10.
  - cbn [fst snd lastRetraction upd_retr recoverExcluded]. cbn [app run_outs fold_left].
    destruct (OUT eq_refl) as (O1 & O2 & O3).
    destruct (orig_dep g m F U cmd Lin O1 O2 O3) as (A & B). unfold DepR. rewrite A, B.
    destruct (word "E" (cwords m)); [|congruence]. rewrite DE, D3. rewrite nmax0_pos by lra. repeat split; auto; lra.
Qed.

(** a printing move outside every region: an owed recovery is executed first, then the move *)
Lemma dep_print_outside g (m : icmdR) L (s : fstateR) (F U : printerR) cmd :
  0 < L -> linear m = true -> Dep L s F U -> qdep U = 0 -> excluding s = false ->
  etrack (pe (position s)) F -> cur (pe (position s)) = qe U -> qeabs F = qeabs U -> qum F = qum U ->
  (lastRetraction s = None -> qe F = qe U) ->
  0 < dE U (cwords m) ->
  let r := recoverRetractionIfNeeded s cmd false in
  DepR L (lastRetraction (fst r)) (qdep (run_outs g m F (snd r))) (qfw (run_outs g m F (snd r))) 0 false /\
  (* the move itself starts with the printer as deep as the file: not retracted *)
  exists pre, snd r = pre ++ [Orig cmd] /\ qdep (run_outs g m F pre) = 0.
Proof.
  intros HL Lin (FF & FU & D) U0 X (E1 & E2 & E3 & E4 & E5) CE EA UM QE DE. unfold recoverRetractionIfNeeded, recoverRetraction.
  assert (WE : word "E" (cwords m) <> None) by (unfold dE in DE; destruct (word "E" (cwords m)); [discriminate | lra]).
  destruct (lastRetraction s) as [lr|] eqn:LR.
  - destruct D as (D1 & D2 & D3 & D4). destruct (recoverExcluded lr) eqn:O; [|exfalso; lra].
    rewrite X. cbn [fst snd lastRetraction upd_retr recoverExcluded fw amount rfeed rorig position].
    set (lr1 := mkRetr true false (fw lr) (amount lr) (rfeed lr) (rorig lr)).
    destruct (retr_exec g m lr1 true (position s) F D1 E4 E5 E1 E2 E3) as (A & B & C & (_ & _ & _ & _ & S5 & S6)).
    cbn [amount lr1] in A. rewrite D2, D3 in A. replace (L + - L) with 0 in A by lra. rewrite nmax0_pos in A by lra.
    split.
    + unfold run_outs in *. rewrite fold_left_app. cbn [fold_left].
      set (F1 := fold_left (exec_out g m) (retr_cmds lr1 true (position s)) F) in *.
      destruct (orig_dep g m F1 U cmd Lin) as (P1 & P2); [congruence | congruence | congruence|].
      unfold DepR. rewrite P1, P2. destruct (word "E" (cwords m)); [|congruence]. rewrite A. rewrite nmax0_neg by lra. repeat split; auto; congruence.
    + eexists. split; [reflexivity | exact A].
  - destruct D as (D1 & D2). rewrite X. cbn [fst snd lastRetraction run_outs fold_left]. split.
    + destruct (orig_dep g m F U cmd Lin (QE eq_refl) EA UM) as (P1 & P2). unfold DepR. rewrite P1, P2, LR.
      destruct (word "E" (cwords m)); [|congruence]. rewrite D2. rewrite nmax0_neg by lra. auto.
    + exists []. split; [reflexivity | exact D2].
Qed.

(** *** processLinearMoves *)
Definition dwf_move (L : R) (U : printerR) (ws : list (witem R)) (mv : bool) : Prop :=
  let d := dE U ws in
  if mv then 0 <= d /\ (0 < d -> qdep U = 0)
  else d = 0 \/ (d = - L /\ qdep U = 0) \/ (d = L /\ qdep U = L).

Lemma DepR_U L lr dF fF dU dU' fU : dU' = dU -> DepR L lr dF fF dU fU -> DepR L lr dF fF dU' fU.
Proof. intros ->. auto. Qed.

Lemma dep_nonneg L (s : fstateR) (F U : printerR) : 0 < L -> Dep L s F U -> 0 <= qdep U /\ 0 <= qdep F.
Proof.
  intros HL (_ & _ & D). destruct (lastRetraction s) as [lr|].
  - destruct D as (_ & _ & D3 & D4). destruct (recoverExcluded lr); lra.
  - destruct D; lra.
Qed.

Lemma exit_dep_quiet c (s : fstateR) : excluding s = true -> Forall dep_quiet (exit_sequence c s).
Proof.
  intros X. destruct (exit_shape c s X) as (rs & E & RS & _). rewrite E.
  apply Forall_app. split; [|apply Forall_app; split].
  - unfold pending_cmds. apply Forall_forall. intros o Ho. apply in_map_iff in Ho. destruct Ho as ([k [t|a]] & <- & _); exact I.
  - apply Forall_forall. intros o Ho. apply in_map_iff in Ho. destruct Ho as (t & <- & _). exact I.
  - constructor; [exact I|]. apply Forall_forall. intros o Ho. specialize (RS o Ho). destruct o; try contradiction; exact I.
Qed.

Lemma dep_plm c L (s : fstateR) (F U : printerR) (m : icmdR) f z pts :
  0 < L -> linear m = true -> Track s U -> FSync s F U -> Dep L s F U ->
  dwf_move L U (cwords m) (is_some z || existsb (fun p => is_some (fst p) || is_some (snd p)) pts) ->
  let r := processLinearMoves c s (ctext m) (word "E" (cwords m)) f z pts in
  Dep L (fst r) (run_outs (g90e c) m F (outs m (snd r))) (exec_move U (cwords m)).
Proof.
  intros HL Lin [Hum Hea Hx Hy Hz He Hfm] [FA FE FU FO FI] D W. unfold dwf_move in W. cbv zeta in W.
  pose proof (dep_nonneg L s F U HL D) as (NU & NF).
  set (ws := cwords m) in *. set (e := word "E" ws) in *.
  pose proof (tgt_tracks (pe (position s)) (qe U) true (qum U) e He) as He'.
  set (eA' := match e with Some v => set_logical (pe (position s)) v | None => pe (position s) end) in *.
  assert (DE : (match e with Some _ => cur eA' - cur (pe (position s)) | None => 0 end) = dE U ws).
  { unfold dE. fold e. destruct He as (C & _), He' as (C' & _). rewrite Hea. destruct e as [v|]; [|reflexivity].
    rewrite C', C. unfold tgt. numR. reflexivity. }
  assert (QFU : qfw U = false) by (destruct D as (_ & Q & _); exact Q).
  unfold Dep. rewrite exec_move_dep, exec_move_fw. fold e. unfold Dep in D. rewrite QFU in D |- *.
  unfold processLinearMoves. fold ws e eA'.
  set (zA' := match z with Some v => set_logical (pz (position s)) v | None => pz (position s) end).
  set (mv := is_some z || existsb (fun p => is_some (fst p) || is_some (snd p)) pts) in *.
  set (s0 := match f with Some v => upd_feed s (v * frMult s)%num | None => s end).
  assert (S0 : lastRetraction s0 = lastRetraction s /\ excluding s0 = excluding s /\ position s0 = position s)
    by (unfold s0; destruct f; auto).
  destruct S0 as (S0r & S0x & S0p).
  set (s1 := upd_pos s0 (upd_Z (upd_E (position s) eA') zA')).
  assert (ET : forall (P : printerR), qeabs P = true -> qum P = qum U -> etrack eA' P).
  { intros P PA PU. destruct He' as (_ & O & H & _ & M). unfold etrack. rewrite PU. auto. }
  assert (deltaE_eq : (match e with Some _ => (cur eA' - cur (pe (position s)))%num | None => n0 end) = dE U ws) by (numR; exact DE).
  rewrite deltaE_eq. remember (dE U ws) as d eqn:Dd in *.
  assert (FEA : qeabs F = true) by congruence.
  destruct mv eqn:MV; cbn [negb].
  - (* a move *)
    destruct W as (W0 & W1).
    assert (DU : (match e with Some _ => @nmax R RNum 0 (qdep U - d) | None => qdep U end) = qdep U).
    { destruct e; [|reflexivity]. destruct (Rle_lt_or_eq_dec 0 d W0) as [P|P].
      - rewrite (W1 P). apply nmax0_neg. lra.
      - rewrite <- P. replace (qdep U - 0) with (qdep U) by lra. apply nmax0_pos. exact NU. }
    rewrite DU.
    destruct (track_points (regions s1) (enabled s1) (px (position s)) (py (position s)) pts) as [[x' y'] hit].
    set (s1' := upd_pos s1 (upd_XY (position s1) x' y')).
    assert (S1 : lastRetraction s1' = lastRetraction s /\ excluding s1' = excluding s) by (split; [exact S0r | exact S0x]).
    destruct S1 as (S1r & S1x).
    destruct hit.
    + (* ends inside: entered or stays; d >= 0 so no retraction *)
      unfold processExcludedMove, enterExcludedRegion. numR.
      assert (ND : Rltb d 0 = false) by (apply Rltb_false; exact W0). 
      destruct (excluding s1') eqn:X1; cbn [negb]; rewrite ND; cbn [fst snd andb excluding upd_excl upd_lastpos].
      * rewrite outs_to_result. cbn [run_outs fold_left]. rewrite andb_false_r. rewrite S1r. exact D.
      * rewrite outs_to_result.
        assert (Q : Forall dep_quiet (map Script (enterS c))).
        { apply Forall_forall. intros o Ho. apply in_map_iff in Ho. destruct Ho as (t & <- & _). exact I. }
        destruct (run_dep_quiet (g90e c) m _ F Q) as (A & B). rewrite A, B. cbn [andb negb lastRetraction upd_lastpos upd_excl]. rewrite S1r. exact D.
    + destruct (excluding s1') eqn:X1.
      * (* leaves the region: the exit sequence does not move the filament *)
        pose proof (exit_dep_quiet c s1' X1) as Q. unfold exit_sequence in Q.
        assert (LR : lastRetraction (fst (exitExcludedRegion c s1')) = lastRetraction s).
        { unfold exitExcludedRegion. rewrite X1. cbn. exact S1r. }
        destruct (exitExcludedRegion c s1') as [s2 cmds]. cbn [fst snd] in *. rewrite outs_to_result.
        destruct (run_dep_quiet (g90e c) m cmds F Q) as (A & B). rewrite A, B, LR. exact D.
      * numR. destruct (Reqb d 0) eqn:DZ; cbn [negb].
        -- cbn [fst snd outs to_result run_outs fold_left]. apply Reqb_true in DZ.
           destruct (FO ltac:(congruence)) as (_ & _ & _ & QE).
           destruct (orig_dep (g90e c) m F U (ctext m) Lin QE ltac:(congruence) FU) as (A & B). rewrite A, B. fold ws e. rewrite <- Dd.
           rewrite S1r.
           assert (DF : (match e with Some _ => @nmax R RNum 0 (qdep F - d) | None => qdep F end) = qdep F).
           { destruct e; [|reflexivity]. rewrite DZ. replace (qdep F - 0) with (qdep F) by lra. apply nmax0_pos. exact NF. }
           rewrite DF. exact D.
        -- apply Reqb_false in DZ. assert (DP : 0 < d) by lra.
           set (sp := upd_pos s1' (upd_E (position s1') (set_cur eA' (cur (pe (position s)))))).
           assert (SPr : lastRetraction sp = lastRetraction s) by exact S1r.
           assert (SPx : excluding sp = false) by exact X1.
           assert (Dsp : Dep L sp F U) by (unfold Dep; rewrite SPr, QFU; exact D).
           assert (ETsp : etrack (pe (position sp)) F).
           { destruct (ET F FEA FU) as (E1 & E2 & E3 & E4 & E5). unfold etrack. cbn. auto. }
           assert (CE : cur (pe (position sp)) = qe U) by (cbn; destruct He as (C & _); exact C).
           assert (QE : lastRetraction sp = None -> qe F = qe U) by (intros _; destruct (FO ltac:(congruence)) as (_ & _ & _ & Q); exact Q).
           assert (DP' : 0 < dE U (cwords m)) by (fold ws; rewrite <- Dd; exact DP).
           destruct (dep_print_outside (g90e c) m L sp F U (ctext m) HL Lin Dsp (W1 DP) SPx ETsp CE ltac:(congruence) FU QE DP') as (G & _).
           destruct (recoverRetractionIfNeeded sp (ctext m) false) as [s2 cmds]. cbn [fst snd] in *. rewrite outs_to_result.
           cbn [lastRetraction upd_pos]. rewrite (W1 DP). exact G.
  - (* an E-only command *)
    assert (S1r : lastRetraction s1 = lastRetraction s) by exact S0r.
    assert (S1x : excluding s1 = excluding s) by exact S0x.
    assert (Ds1 : Dep L s1 F U) by (unfold Dep; rewrite S1r, QFU; exact D).
    assert (OUT : excluding s1 = false -> qe F = qe U /\ qeabs F = qeabs U /\ qum F = qum U).
    { intros X. destruct (FO ltac:(congruence)) as (_ & _ & _ & Q). auto. }
    destruct W as [W|[(W & UZ)|(W & UL)]].
    + (* no filament movement *)
      assert (ND : Rltb d 0 = false) by (apply Rltb_false; lra). assert (NP : Rltb 0 d = false) by (apply Rltb_false; lra).
      assert (DU : (match e with Some _ => @nmax R RNum 0 (qdep U - d) | None => qdep U end) = qdep U).
      { destruct e; [|reflexivity]. rewrite W. replace (qdep U - 0) with (qdep U) by lra. apply nmax0_pos. exact NU. }
      rewrite DU. unfold processNonMove. numR. rewrite ND, NP. destruct (excluding s1) eqn:X1; cbn [negb fst snd]; rewrite outs_to_result; cbn [run_outs fold_left]; rewrite S1r; [exact D|].
      destruct (OUT eq_refl) as (Q1 & Q2 & Q3).
      destruct (orig_dep (g90e c) m F U (ctext m) Lin Q1 Q2 Q3) as (A & B). rewrite A, B. fold ws e. rewrite <- Dd.
      assert (DF : (match e with Some _ => @nmax R RNum 0 (qdep F - d) | None => qdep F end) = qdep F).
      { destruct e; [|reflexivity]. rewrite W. replace (qdep F - 0) with (qdep F) by lra. apply nmax0_pos. exact NF. }
      rewrite DF. exact D.
    + (* the file retracts by L *)
      assert (ND : Rltb d 0 = true) by (apply Rltb_true; lra).
      assert (WE : word "E" (cwords m) <> None).
      { fold ws e. rewrite Dd in W. unfold dE in W. fold e in W. destruct e; [discriminate | lra]. }
      assert (DU : (match e with Some _ => @nmax R RNum 0 (qdep U - d) | None => qdep U end) = L).
      { fold ws e in WE. destruct e; [|congruence]. rewrite W, UZ. replace (0 - - L) with L by lra. apply nmax0_pos. lra. }
      rewrite DU. unfold processNonMove. numR. rewrite ND.
      set (rt := mkRetr false true false (- d) (feedRate s1) (ctext m)).
      assert (ETs1 : etrack (pe (position s1)) F) by (cbn; apply ET; [exact FEA | exact FU]).
      assert (W' : dE U (cwords m) = - L) by (fold ws; rewrite <- Dd; exact W).
      pose proof (dep_record (g90e c) m L s1 F U rt L HL Lin Ds1 UZ ltac:(cbn; lra) eq_refl eq_refl ETs1 OUT W' WE eq_refl) as G.
      pose proof (recordRetraction_frame s1 rt) as FR.
      destruct (recordRetraction s1 rt) as [s2 cmds]. cbn [fst snd] in *. destruct FR as (_ & FRx & _).
      destruct (match lastRetraction s1 with Some lr => recoverExcluded lr | None => false end && negb (excluding s2)); cbn [fst snd]; rewrite outs_to_result.
      * unfold run_outs in *. rewrite fold_left_app. cbn [fold_left exec_out set_e qdep qfw]. exact G.
      * exact G.
    + (* the file recovers by L *)
      assert (ND : Rltb d 0 = false) by (apply Rltb_false; lra). assert (NP : Rltb 0 d = true) by (apply Rltb_true; lra).
      assert (WE : word "E" (cwords m) <> None).
      { fold ws e. rewrite Dd in W. unfold dE in W. fold e in W. destruct e; [discriminate | lra]. }
      assert (DU : (match e with Some _ => @nmax R RNum 0 (qdep U - d) | None => qdep U end) = 0).
      { fold ws e in WE. destruct e; [|congruence]. rewrite W, UL. replace (L - L) with 0 by lra. apply nmax0_pos. lra. }
      rewrite DU. unfold processNonMove. numR. rewrite ND, NP.
      assert (W' : dE U (cwords m) = L) by (fold ws; rewrite <- Dd; exact W).
      pose proof (dep_recover_cmd (g90e c) m L s1 F U (ctext m) 0 HL Lin Ds1 UL OUT W' WE eq_refl) as G.
      destruct (recoverRetractionIfNeeded s1 (ctext m) true) as [s2 cmds]. cbn [fst snd] in *. rewrite outs_to_result. exact G.
Qed.

(** *** one command *)
Definition moving (m : icmdR) : bool :=
  if is_arc m then true
  else is_some (word "Z" (cwords m)) || ((is_some (word "X" (cwords m)) || is_some (word "Y" (cwords m))) || false).

(** the E-only dialect with matched cycles of length L, judged on the file's own printer: no G10/G11; a command that
    moves the tool never pulls filament back and extrudes only when the file is not retracted; an E-only command leaves
    the filament alone, or retracts by L (file not retracted), or recovers by L (file retracted) *)
Definition dwf (L : R) (U : printerR) (m : icmdR) : Prop :=
  ccode m <> "G10"%string /\ ccode m <> "G11"%string /\ (linear m = true -> dwf_move L U (cwords m) (moving m)).

Lemma handle_other_retr c (s : fstateR) (m : icmdR) : linear m = false -> ccode m <> "G10"%string -> ccode m <> "G11"%string ->
  lastRetraction (fst (handle c s m)) = lastRetraction s /\ (snd (handle c s m) = Unchanged \/ snd (handle c s m) = Suppress).
Proof.
  unfold linear, handle. intros L N10 N11.
  apply orb_false_iff in L. destruct L as (L & L3). apply orb_false_iff in L. destruct L as (L & L2).
  apply orb_false_iff in L. destruct L as (L0 & L1). rewrite L0, L1, L2, L3. cbn [orb].
  destruct (String.eqb_spec (ccode m) "G10"); [contradiction|]. destruct (String.eqb_spec (ccode m) "G11"); [contradiction|].
  repeat match goal with |- context [if ?b then _ else _] => destruct b end; try (cbn; auto; fail).
  unfold processExtendedGcode. destruct (negb (String.eqb (ccode m) "") && excluding s); [|cbn; auto].
  destruct (assoc (ccode m) (ext c)) as [mode|]; [|cbn; auto].
  cbn [fst snd]. split; [|auto]. unfold processExtendedGcodeEntry. destruct mode; cbn; auto.
  destruct (assoc (ccode m) (pending s)); cbn; auto.
Qed.

Lemma dep_handle c L (s : fstateR) (F U : printerR) (m : icmdR) :
  0 < L -> Track s U -> FSync s F U -> Dep L s F U -> wf_cmd c U m -> dwf L U m ->
  Dep L (fst (handle c s m)) (run_outs (g90e c) m F (outs m (snd (handle c s m)))) (exec_cmd (g90e c) U (ccode m) (cwords m)).
Proof.
  intros HL TR FS D WF (N10 & N11 & W).
  destruct (linear m) eqn:Lin.
  - specialize (W eq_refl). rewrite (exec_linear _ U m Lin). unfold handle.
    destruct (linear_cases m Lin) as [E|(E0 & E)]; rewrite ?E0, E.
    + assert (NA : is_arc m = false).
      { unfold is_arc. apply orb_true_iff in E. destruct E as [E|E]; apply String.eqb_eq in E; rewrite E; reflexivity. }
      unfold moving in W. rewrite NA in W. unfold handle_G0. apply dep_plm; try assumption.
    + assert (IA : is_arc m = true) by exact E.
      unfold moving in W. rewrite IA in W. unfold handle_G2.
      destruct (match word "R" (cwords m) with Some _ => _ | None => _ end) as [i j] eqn:IJ.
      destruct (nonzero i || nonzero j) eqn:NZ.
      * apply dep_plm; try assumption.
      * exfalso. destruct WF as (_ & _ & WA & _). destruct (WA IA) as (_ & ND). unfold arc_nondegenerate in ND.
        destruct (word "R" (cwords m)); [destruct (carc_ij m) as [[i' j']|]|]; injection IJ as <- <-; try congruence.
        numR. congruence.
  - destruct (handle_other_retr c s m Lin N10 N11) as (LR & OUT).
    assert (LN : (String.eqb (ccode m) "G0" || String.eqb (ccode m) "G1" || String.eqb (ccode m) "G2" || String.eqb (ccode m) "G3") = false) by exact Lin.
    destruct (exec_other_dep (g90e c) U (ccode m) (cwords m) LN N10 N11) as (U1 & U2).
    unfold Dep. rewrite LR, U1, U2. destruct OUT as [O|O]; rewrite O; cbn [outs run_outs fold_left exec_out]; [|exact D].
    destruct (exec_other_dep (g90e c) F (ccode m) (cwords m) LN N10 N11) as (F1 & F2). rewrite F1, F2. exact D.
Qed.

(** a forwarded printing move that extrudes starts with the printer exactly as deep as the file (not retracted):
    whatever was owed has been recovered by the commands in front of it *)
Lemma plm_print_level c L (s : fstateR) (F U : printerR) (m : icmdR) f z pts :
  0 < L -> linear m = true -> Track s U -> FSync s F U -> Dep L s F U ->
  is_some z || existsb (fun p => is_some (fst p) || is_some (snd p)) pts = true ->
  0 < dE U (cwords m) -> qdep U = 0 -> excluding s = false ->
  let r := processLinearMoves c s (ctext m) (word "E" (cwords m)) f z pts in
  excluding (fst r) = false ->
  exists pre, outs m (snd r) = pre ++ [Orig (ctext m)] /\ qdep (run_outs (g90e c) m F pre) = 0.
Proof.
  intros HL Lin [Hum Hea Hx Hy Hz He Hfm] [FA FE FU FO FI] D MV DP UZ X.
  set (ws := cwords m) in *. set (e := word "E" ws) in *.
  pose proof (tgt_tracks (pe (position s)) (qe U) true (qum U) e He) as He'.
  set (eA' := match e with Some v => set_logical (pe (position s)) v | None => pe (position s) end) in *.
  assert (DE : (match e with Some _ => (cur eA' - cur (pe (position s)))%num | None => n0 end) = dE U ws).
  { unfold dE. fold e. destruct He as (C & _), He' as (C' & _). rewrite Hea. destruct e as [v|]; [|reflexivity].
    rewrite C', C. unfold tgt. numR. reflexivity. }
  unfold processLinearMoves. fold ws e eA'. rewrite MV. cbn [negb]. rewrite DE.
  set (zA' := match z with Some v => set_logical (pz (position s)) v | None => pz (position s) end).
  set (s0 := match f with Some v => upd_feed s (v * frMult s)%num | None => s end).
  assert (S0 : lastRetraction s0 = lastRetraction s /\ excluding s0 = excluding s /\ position s0 = position s)
    by (unfold s0; destruct f; auto).
  destruct S0 as (S0r & S0x & S0p).
  set (s1 := upd_pos s0 (upd_Z (upd_E (position s) eA') zA')).
  destruct (track_points (regions s1) (enabled s1) (px (position s)) (py (position s)) pts) as [[x' y'] hit].
  set (s1' := upd_pos s1 (upd_XY (position s1) x' y')).
  assert (S1r : lastRetraction s1' = lastRetraction s) by exact S0r.
  assert (S1x : excluding s1' = false) by (unfold s1', s1; cbn; congruence).
  destruct hit.
  - pose proof (processExcludedMove_frame c s1' (ctext m) (dE U ws)) as PF.
    destruct (processExcludedMove c s1' (ctext m) (dE U ws)) as [s2 cmds]. cbn [fst snd] in *.
    destruct PF as (_ & _ & _ & _ & PX). rewrite PX. cbn [andb]. rewrite S1x. cbn [negb excluding upd_lastpos]. rewrite PX. discriminate.
  - rewrite S1x. numR.
    assert (DZ : Reqb (dE U ws) 0 = false) by (apply Reqb_false; lra). rewrite DZ. cbn [negb].
    set (sp := upd_pos s1' (upd_E (position s1') (set_cur eA' (cur (pe (position s)))))).
    assert (Dsp : Dep L sp F U) by (unfold Dep; change (lastRetraction sp) with (lastRetraction s1'); rewrite S1r; exact D).
    assert (ETsp : etrack (pe (position sp)) F).
    { destruct He' as (_ & O & H & _ & M). unfold etrack. cbn. repeat split; try assumption; congruence. }
    assert (CE : cur (pe (position sp)) = qe U) by (cbn; destruct He as (C & _); exact C).
    assert (QE : lastRetraction sp = None -> qe F = qe U) by (intros _; destruct (FO X) as (_ & _ & _ & Q); exact Q).
    destruct (dep_print_outside (g90e c) m L sp F U (ctext m) HL Lin Dsp UZ S1x ETsp CE ltac:(congruence) FU QE DP) as (_ & pre & P1 & P2).
    destruct (recoverRetractionIfNeeded sp (ctext m) false) as [s2 cmds]. cbn [fst snd] in *. intros _.
    rewrite outs_to_result. exists pre. split; assumption.
Qed.

(** *** whole histories *)
Lemma disable_dep c L (s : fstateR) (F U : printerR) m0 : Dep L s F U ->
  let '(s1, cmds) := disableExclusion c s in Dep L s1 (run_outs (g90e c) m0 F cmds) U.
Proof.
  intros D. unfold disableExclusion. destruct (enabled s); [|exact D].
  cbn [excluding upd_enabled]. destruct (excluding s) eqn:X; [|exact D].
  set (s1 := upd_enabled s false). assert (X1 : excluding s1 = true) by exact X.
  pose proof (exit_dep_quiet c s1 X1) as Q. unfold exit_sequence in Q.
  assert (LR : lastRetraction (fst (exitExcludedRegion c s1)) = lastRetraction s) by (unfold exitExcludedRegion; rewrite X1; reflexivity).
  destruct (exitExcludedRegion c s1) as [s2 cmds]. cbn [fst snd] in *.
  destruct (run_dep_quiet (g90e c) m0 cmds F Q) as (A & B). unfold Dep. rewrite A, B, LR. exact D.
Qed.

Fixpoint dwf_hist (L : R) (c : cfg) (x : sim) (h : list hev) : Prop :=
  match h with
  | [] => True
  | ev :: t => match ev with HCmd m => dwf L (sm_U x) m | _ => True end /\ dwf_hist L c (hstep c x ev) t
  end.

Definition DepX (L : R) (x : sim) : Prop := Dep L (sm_s x) (sm_F x) (sm_U x).

Lemma dep_step c L (x : sim) (ev : hev) : 0 < L -> Sync x -> DepX L x ->
  match ev with HCmd m => wf_cmd c (sm_U x) m /\ no_home_inside (sm_s x) m | _ => True end ->
  match ev with HCmd m => dwf L (sm_U x) m | _ => True end ->
  DepX L (hstep c x ev).
Proof.
  intros HL (TR & FS) D WF DW. destruct ev as [m|g|st ms]; cbn [hstep]; unfold DepX; cbn [sm_s sm_F sm_U].
  - destruct WF as (W & _). apply dep_handle; assumption.
  - destruct (add_region (regions (sm_s x)) g); exact D.
  - unfold handle_at. destruct st; [exact D|].
    set (m0 := mkCmd "" "" [] None []).
    set (stepf := fun (acc : fstateR * bool * list (ocmd R)) (a : ataction) =>
      let '(s0, _, sent) := acc in
      match a with
      | AtEnable => (enableExclusion s0, true, sent)
      | AtDisable => let '(s1, cmds) := disableExclusion c s0 in (s1, true, sent ++ cmds)
      end).
    assert (G : forall ms (acc : fstateR * bool * list (ocmd R)),
              Dep L (fst (fst acc)) (run_outs (g90e c) m0 (sm_F x) (snd acc)) (sm_U x) ->
              let r := fold_left stepf ms acc in Dep L (fst (fst r)) (run_outs (g90e c) m0 (sm_F x) (snd r)) (sm_U x)).
    { induction ms0 as [|a t IH]; intros acc H; cbn; [exact H|]. apply IH.
      destruct acc as [[s0 hd] sent]. cbn [fst snd] in *. unfold stepf. destruct a.
      - cbn [fst snd]. unfold enableExclusion. destruct (enabled s0); exact H.
      - pose proof (disable_dep c L s0 _ (sm_U x) m0 H) as DD.
        destruct (disableExclusion c s0) as [s1 cmds]. cbn [fst snd]. unfold run_outs in *. rewrite fold_left_app. exact DD. }
    specialize (G ms (sm_s x, false, []) D).
    destruct (fold_left stepf ms (sm_s x, false, [])) as [[s' hd] sent]. cbn [fst snd] in *. exact G.
Qed.

Theorem depth_run c L (h : list hev) : 0 < L -> forall x, Sync x -> DepX L x -> wf_hist c x h -> dwf_hist L c x h ->
  Sync (hrun c x h) /\ DepX L (hrun c x h).
Proof.
  intros HL. induction h as [|ev t IH]; intros x S D W DW; cbn; [auto|].
  destruct W as (W1 & W2), DW as (DW1 & DW2).
  apply IH; [apply sync_step; assumption | apply dep_step; assumption | exact W2 | exact DW2].
Qed.

Lemma dep_init L rs : DepX L (mkSim (init_state rs) init_printer init_printer).
Proof. unfold DepX, Dep, DepR. cbn. numR. auto. Qed.

(** reading the invariant: the printer is exactly as deep as the file plus what is owed *)
Lemma dep_reading L (s : fstateR) (F U : printerR) : 0 < L -> Dep L s F U ->
  qdep U <= qdep F <= L /\ (qdep U = 0 \/ qdep U = L) /\
  qdep F = qdep U + (match lastRetraction s with Some lr => if recoverExcluded lr then L else 0 | None => 0 end).
Proof.
  intros HL (_ & _ & D). destruct (lastRetraction s) as [lr|].
  - destruct D as (_ & _ & D3 & D4). destruct (recoverExcluded lr); rewrite D3, D4; repeat split; try lra; auto.
  - destruct D as (D1 & D2). rewrite D1, D2. repeat split; try lra; auto.
Qed.

Lemma handle_print_level c L (s : fstateR) (F U : printerR) (m : icmdR) :
  0 < L -> Track s U -> FSync s F U -> Dep L s F U -> wf_cmd c U m -> dwf L U m ->
  linear m = true -> moving m = true -> 0 < dE U (cwords m) ->
  excluding s = false -> excluding (fst (handle c s m)) = false ->
  exists pre, outs m (snd (handle c s m)) = pre ++ [Orig (ctext m)] /\ qdep (run_outs (g90e c) m F pre) = 0 /\ qdep U = 0.
Proof.
  intros HL TR FS D WF (_ & _ & W) Lin MV DP X. specialize (W Lin). unfold dwf_move in W. rewrite MV in W. destruct W as (_ & W1).
  pose proof (W1 DP) as UZ. unfold handle.
  destruct (linear_cases m Lin) as [E|(E0 & E)]; rewrite ?E0, E.
  - assert (NA : is_arc m = false).
    { unfold is_arc. apply orb_true_iff in E. destruct E as [E|E]; apply String.eqb_eq in E; rewrite E; reflexivity. }
    unfold moving in MV. rewrite NA in MV. unfold handle_G0. intros X'.
    destruct (plm_print_level c L s F U m (word "F" (cwords m)) (word "Z" (cwords m)) [(word "X" (cwords m), word "Y" (cwords m))]
                HL Lin TR FS D MV DP UZ X X') as (pre & P1 & P2). exists pre. auto.
  - unfold handle_G2. destruct (match word "R" (cwords m) with Some _ => _ | None => _ end) as [i j] eqn:IJ.
    destruct (nonzero i || nonzero j) eqn:NZ.
    + intros X'. match goal with |- context [processLinearMoves c s (ctext m) _ ?f ?z ?pts] =>
        destruct (plm_print_level c L s F U m f z pts HL Lin TR FS D eq_refl DP UZ X X') as (pre & P1 & P2) end.
      exists pre. auto.
    + intros _. exfalso. assert (IA : is_arc m = true) by exact E.
      destruct WF as (_ & _ & WA & _). destruct (WA IA) as (_ & ND). unfold arc_nondegenerate in ND.
      destruct (word "R" (cwords m)); [destruct (carc_ij m) as [[i' j']|]|]; injection IJ as <- <-; try congruence.
      numR. congruence.
Qed.

(** *** non-vacuity: a concrete program with a retract / travel / recover cycle meets the premises (L = 4, any regions) *)
Local Open Scope string_scope.
Definition g1 (t : string) (ws : list (witem R)) : hev := HCmd (mkCmd t "G1" ws None []).
Definition ex_hist : list hev :=
  [ g1 "G1 X5 Y5 E1" [("X", MNum 5); ("Y", MNum 5); ("E", MNum 1)];
    g1 "G1 E-3" [("E", MNum (-3))];
    g1 "G1 X15 Y15" [("X", MNum 15); ("Y", MNum 15)];
    g1 "G1 E1" [("E", MNum 1)];
    g1 "G1 X30 Y30 E2" [("X", MNum 30); ("Y", MNum 30); ("E", MNum 2)] ].
Definition ex_cfg : cfg := mkCfg false [] [] [].

Record ust (P : printerR) (e d : R) : Prop := mkUst { u_e : qe P = e; u_d : qdep P = d; u_a : qeabs P = true; u_m : qum P = 1 }.
Lemma g1_E g (P : printerR) e d ws v : ust P e d -> word "E" ws = Some v -> ust (exec_cmd g P "G1" ws) v (@nmax R RNum 0 (d - (v - e))).
Proof.
  intros [A B C D] W. change (exec_cmd g P "G1" ws) with (exec_move P ws).
  destruct (exec_move_fields P ws) as (_ & _ & _ & E1 & _ & E2 & E3 & _).
  constructor; [rewrite E1, W, C, D; unfold tgt; numR; lra | rewrite exec_move_dep, W; unfold dE; rewrite W, A, B, C, D; f_equal; lra | congruence | congruence].
Qed.
Lemma g1_noE g (P : printerR) e d ws : ust P e d -> word "E" ws = None -> ust (exec_cmd g P "G1" ws) e d.
Proof.
  intros [A B C D] W. change (exec_cmd g P "G1" ws) with (exec_move P ws).
  destruct (exec_move_fields P ws) as (_ & _ & _ & E1 & _ & E2 & E3 & _).
  constructor; [rewrite E1, W; exact A | rewrite exec_move_dep, W; exact B | congruence | congruence].
Qed.
Lemma dE_ust (P : printerR) e d ws : ust P e d -> dE P ws = match word "E" ws with Some v => v - e | None => 0 end.
Proof. intros [A B C D]. unfold dE. destruct (word "E" ws); [|reflexivity]. rewrite A, C, D. lra. Qed.

Example depth_premises_satisfiable (rs : list (region R)) :
  let x0 := mkSim (init_state rs) init_printer init_printer in
  wf_hist ex_cfg x0 ex_hist /\ dwf_hist 4 ex_cfg x0 ex_hist.
Proof.
  cbn zeta. split.
  - unfold ex_hist, g1. cbn [wf_hist]. unfold wf_cmd, no_home_inside, is_arc. cbn [ccode cwords String.eqb Ascii.eqb Bool.eqb orb g90e ex_cfg].
    repeat split; try discriminate; try (intros; discriminate).
  - unfold ex_hist, g1. cbn [dwf_hist hstep sm_U]. unfold dwf, linear, moving, is_arc, dwf_move.
    cbn [ccode cwords String.eqb Ascii.eqb Bool.eqb orb is_some].
    assert (U0 : ust init_printer 0 0) by (constructor; reflexivity).
    set (w1 := [("X", MNum 5); ("Y", MNum 5); ("E", MNum 1)] : list (witem R)).
    set (w2 := [("E", MNum (-3))] : list (witem R)).
    set (w3 := [("X", MNum 15); ("Y", MNum 15)] : list (witem R)).
    set (w4 := [("E", MNum 1)] : list (witem R)).
    set (w5 := [("X", MNum 30); ("Y", MNum 30); ("E", MNum 2)] : list (witem R)).
    pose proof (g1_E (g90e ex_cfg) _ _ _ w1 1 U0 eq_refl) as U1. rewrite nmax0_neg in U1 by lra.
    pose proof (g1_E (g90e ex_cfg) _ _ _ w2 (-3) U1 eq_refl) as U2. replace (0 - (-3 - 1)) with 4 in U2 by lra. rewrite nmax0_pos in U2 by lra.
    pose proof (g1_noE (g90e ex_cfg) _ _ _ w3 U2 eq_refl) as U3.
    pose proof (g1_E (g90e ex_cfg) _ _ _ w4 1 U3 eq_refl) as U4. replace (4 - (1 - -3)) with 0 in U4 by lra. rewrite nmax0_pos in U4 by lra.
    rewrite (dE_ust _ _ _ w1 U0), (dE_ust _ _ _ w2 U1), (dE_ust _ _ _ w3 U2), (dE_ust _ _ _ w4 U3), (dE_ust _ _ _ w5 U4).
    rewrite (u_d _ _ _ U0), (u_d _ _ _ U1), (u_d _ _ _ U2), (u_d _ _ _ U3), (u_d _ _ _ U4).
    cbn [word last_num w1 w2 w3 w4 w5 String.eqb Ascii.eqb Bool.eqb is_some orb].
    repeat split; try discriminate; intros; try lra.
Qed.
