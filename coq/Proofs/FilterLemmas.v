(** Structural lemmas about the filter model, for every number instance. *)
From Coq Require Import String Ascii List Bool.
From ER Require Import Base.Num Model.Geometry Model.Axis Model.Filter.
Import ListNotations.

Section FL.
Context {T : Type} {N : Num T}.
Notation fstate := (fstate T).
Notation icmd := (icmd T).
Notation ocmd := (ocmd T).

Ltac caseif :=
  match goal with
  | |- context [if ?b then _ else _] => let E := fresh "E" in destruct b eqn:E
  end.

(** ** result shapes (C09) *)
Lemma to_result_shape (l : list ocmd) : match to_result l with Replace l' => l' = l /\ l <> [] | Suppress => l = [] | Unchanged => False end.
Proof. destruct l; cbn; auto. split; auto. discriminate. Qed.

(** ** what each helper does to position / excluding / pending *)
Definition same_frame (s s' : fstate) : Prop :=
  position s' = position s /\ excluding s' = excluding s /\ pending s' = pending s /\
  enabled s' = enabled s /\ regions s' = regions s /\ lastPosition s' = lastPosition s /\
  feedRate s' = feedRate s /\ frMult s' = frMult s.

Lemma same_frame_refl s : same_frame s s. Proof. repeat split. Qed.
Lemma same_frame_trans a b c : same_frame a b -> same_frame b c -> same_frame a c.
Proof. unfold same_frame. intuition congruence. Qed.

Lemma upd_retr_frame s r : same_frame s (upd_retr s r). Proof. repeat split. Qed.

Lemma recordRetraction_frame s rt : same_frame s (fst (recordRetraction s rt)).
Proof.
  unfold recordRetraction. destruct (lastRetraction s) as [lr|]; cbn; [|apply upd_retr_frame].
  repeat caseif; cbn; try apply upd_retr_frame; apply same_frame_refl.
Qed.

Lemma recoverRetractionIfNeeded_frame s cmd b : same_frame s (fst (recoverRetractionIfNeeded s cmd b)).
Proof.
  unfold recoverRetractionIfNeeded, recoverRetraction. destruct (lastRetraction s) as [lr|]; cbn; [|apply same_frame_refl].
  caseif; cbn; repeat split.
Qed.

Lemma processNonMove_frame s cmd d : same_frame s (fst (processNonMove s cmd d)).
Proof.
  unfold processNonMove. caseif.
  - destruct (recordRetraction s _) as [s1 cmds] eqn:R.
    assert (F : same_frame s s1) by (pose proof (recordRetraction_frame s (mkRetr false true false (nopp d) (feedRate s) cmd)) as F; rewrite R in F; exact F).
    caseif; exact F.
  - caseif; [apply recoverRetractionIfNeeded_frame|]. caseif; apply same_frame_refl.
Qed.

(** ** the exit sequence (C03 / C06 / C14 / C15) *)
Definition exit_sequence (c : cfg) (s : fstate) : list ocmd := snd (exitExcludedRegion c s).

Lemma exit_shape c s : excluding s = true ->
  exists resync,
    exit_sequence c s = pending_cmds (pending s) ++ map Script (exitS c) ++ SetE (n2l (pe (position s))) :: resync /\
    (forall o, In o resync -> match o with MoveZ _ _ | MoveXY _ _ _ => True | _ => False end) /\
    excluding (fst (exitExcludedRegion c s)) = false /\
    pending (fst (exitExcludedRegion c s)) = [] /\
    position (fst (exitExcludedRegion c s)) = position s /\
    lastRetraction (fst (exitExcludedRegion c s)) = lastRetraction s /\
    enabled (fst (exitExcludedRegion c s)) = enabled s /\
    regions (fst (exitExcludedRegion c s)) = regions s.
Proof.
  intros H. unfold exit_sequence, exitExcludedRegion. rewrite H. cbn [negb fst snd].
  match goal with |- context [[SetE ?e] ++ ?r] => exists r end.
  split; [reflexivity|]. split.
  - intros o Ho.
    repeat match type of Ho with context [if ?b then _ else _] => destruct b end;
    cbn in Ho; intuition (subst; auto).
  - cbn. repeat split.
Qed.

Lemma exit_not_excluding c s : excluding s = false -> exitExcludedRegion c s = (s, []).
Proof. intros H. unfold exitExcludedRegion. rewrite H. reflexivity. Qed.

(** disabling exclusion mid-episode emits exactly the exit sequence (C14) *)
Lemma disable_is_exit c s : enabled s = true -> excluding s = true ->
  snd (disableExclusion c s) = exit_sequence c s /\ excluding (fst (disableExclusion c s)) = false /\
  enabled (fst (disableExclusion c s)) = false.
Proof.
  intros He Hx. unfold disableExclusion, exit_sequence. rewrite He. cbn [upd_enabled excluding]. rewrite Hx.
  unfold exitExcludedRegion. cbn. rewrite Hx. cbn. auto.
Qed.

Lemma disable_not_excluding c s : excluding s = false -> snd (disableExclusion c s) = [] /\ excluding (fst (disableExclusion c s)) = false.
Proof.
  intros Hx. unfold disableExclusion. destruct (enabled s); cbn; [|auto]. rewrite Hx. auto.
Qed.

(** @-commands that match no action, or arrive while streaming, change nothing (C14) *)
Lemma at_streaming c s ms : handle_at c s true ms = (s, false, []).
Proof. reflexivity. Qed.
Lemma at_nomatch c s : handle_at c s false [] = (s, false, []).
Proof. reflexivity. Qed.

(** ** tracking (C14 / C01 / C03): the tested-point scan updates X/Y whether or not exclusion is enabled *)
Lemma track_points_axes rs en rs' en' x y pts :
  fst (track_points rs en x y pts) = fst (track_points rs' en' x y pts).
Proof.
  revert x y. induction pts as [|[ox oy] t IH]; intros x y; cbn; [reflexivity|].
  specialize (IH (match ox with Some v => set_logical x v | None => x end) (match oy with Some v => set_logical y v | None => y end)).
  destruct (track_points rs en _ _ t) as [[a b] h]. destruct (track_points rs' en' _ _ t) as [[a' b'] h']. cbn in *. exact IH.
Qed.

Lemma track_points_disabled rs x y pts : snd (track_points rs false x y pts) = false.
Proof.
  revert x y. induction pts as [|[ox oy] t IH]; intros x y; cbn; [reflexivity|].
  specialize (IH (match ox with Some v => set_logical x v | None => x end) (match oy with Some v => set_logical y v | None => y end)).
  destruct (track_points rs false _ _ t) as [[a b] h]. cbn in *. exact IH.
Qed.

Lemma track_points_noregions en x y pts : snd (track_points [] en x y pts) = false.
Proof.
  revert x y. induction pts as [|[ox oy] t IH]; intros x y; cbn; [reflexivity|].
  specialize (IH (match ox with Some v => set_logical x v | None => x end) (match oy with Some v => set_logical y v | None => y end)).
  destruct (track_points [] en _ _ t) as [[a b] h]. cbn in *. rewrite andb_false_r. exact IH.
Qed.


(** ** processLinearMoves: where the tracked position ends up, independent of the exclusion state *)
Definition plm_pos (p : pos T) (e z : option T) (pts : list (option T * option T)) : pos T :=
  let eA' := match e with Some v => set_logical (pe p) v | None => pe p end in
  let zA' := match z with Some v => set_logical (pz p) v | None => pz p end in
  let isMove := is_some z || existsb (fun q => is_some (fst q) || is_some (snd q)) pts in
  if isMove then let '(x', y', _) := track_points [] false (px p) (py p) pts in mkPos x' y' zA' eA'
  else mkPos (px p) (py p) zA' eA'.

Lemma enter_frame c (s : fstate) : position (fst (enterExcludedRegion c s)) = position s /\
  pending (fst (enterExcludedRegion c s)) = pending s /\ enabled (fst (enterExcludedRegion c s)) = enabled s /\
  regions (fst (enterExcludedRegion c s)) = regions s /\ lastRetraction (fst (enterExcludedRegion c s)) = lastRetraction s /\
  excluding (fst (enterExcludedRegion c s)) = true.
Proof. unfold enterExcludedRegion. destruct (excluding s) eqn:E; cbn; auto 10. Qed.

Lemma processExcludedMove_frame c (s : fstate) cmd d :
  let s' := fst (processExcludedMove c s cmd d) in
  position s' = position s /\ pending s' = pending s /\ enabled s' = enabled s /\ regions s' = regions s /\ excluding s' = true.
Proof.
  unfold processExcludedMove.
  assert (P : let s1 := fst (if negb (excluding s) then enterExcludedRegion c s else (s, [])) in
      position s1 = position s /\ pending s1 = pending s /\ enabled s1 = enabled s /\ regions s1 = regions s /\ excluding s1 = true).
  { destruct (excluding s) eqn:E; cbn [negb fst]; [auto|]. pose proof (enter_frame c s). intuition. }
  destruct (if negb (excluding s) then enterExcludedRegion c s else (s, [])) as [s1 cmds]. cbn [fst] in P.
  destruct (nltb d n0).
  - destruct (processNonMove s1 cmd d) as [s2 more] eqn:R.
    pose proof (processNonMove_frame s1 cmd d) as F. rewrite R in F. cbn [fst] in *. unfold same_frame in F.
    intuition congruence.
  - cbn [fst]. exact P.
Qed.

Lemma plm_position c (s : fstate) cmd e f z pts :
  position (fst (processLinearMoves c s cmd e f z pts)) = plm_pos (position s) e z pts.
Proof.
  unfold processLinearMoves, plm_pos.
  set (eA' := match e with Some v => set_logical (pe (position s)) v | None => pe (position s) end).
  set (zA' := match z with Some v => set_logical (pz (position s)) v | None => pz (position s) end).
  set (dE := match e with Some _ => nsub (cur eA') (cur (pe (position s))) | None => n0 end).
  set (s0 := match f with Some v => upd_feed s (nmul v (frMult s)) | None => s end).
  assert (R0 : regions s0 = regions s /\ enabled s0 = enabled s /\ excluding s0 = excluding s) by (unfold s0; destruct f; auto).
  set (s1 := upd_pos s0 (upd_Z (upd_E (position s) eA') zA')).
  destruct (is_some z || existsb (fun q => is_some (fst q) || is_some (snd q)) pts) eqn:M; cbn [negb].
  - pose proof (track_points_axes (regions s1) (enabled s1) [] false (px (position s)) (py (position s)) pts) as TA.
    destruct (track_points (regions s1) (enabled s1) (px (position s)) (py (position s)) pts) as [[x' y'] hit].
    destruct (track_points [] false (px (position s)) (py (position s)) pts) as [[x2 y2] hit2].
    cbn [fst] in TA. injection TA as -> ->.
    destruct hit.
    + destruct (processExcludedMove c _ cmd dE) as [s2 cmds] eqn:R.
      pose proof (processExcludedMove_frame c (upd_pos s1 (upd_XY (position s1) x2 y2)) cmd dE) as F. rewrite R in F. cbn [fst] in F.
      destruct F as (F & _). cbn [fst]. destruct (excluding s2 && negb _); cbn; rewrite F; reflexivity.
    + destruct (excluding (upd_pos s1 (upd_XY (position s1) x2 y2))) eqn:X.
      * destruct (exit_shape c _ X) as (r & _ & _ & _ & _ & P & _).
        destruct (exitExcludedRegion c _) as [s2 cmds]. cbn [fst] in *. rewrite P. reflexivity.
      * destruct (negb (neqb dE n0)).
        -- destruct (recoverRetractionIfNeeded _ cmd false) as [s2 cmds] eqn:R.
           match type of R with recoverRetractionIfNeeded ?sp _ _ = _ => pose proof (recoverRetractionIfNeeded_frame sp cmd false) as F end.
           rewrite R in F. destruct F as (F & _). cbn [fst] in *. rewrite F. reflexivity.
        -- reflexivity.
  - destruct (processNonMove s1 cmd dE) as [s2 cmds] eqn:R.
    pose proof (processNonMove_frame s1 cmd dE) as F. rewrite R in F. destruct F as (F & _). cbn [fst] in *. rewrite F.
    apply orb_false_iff in M. destruct M as (Mz & _). destruct z; [discriminate|]. reflexivity.
Qed.


End FL.
