(** C07 -- the text of a number in a generated command is plain decimal and denotes exactly the value whose
    shortest digits it was given: for ALL digit strings and ALL decimal exponents. *)
From Coq Require Import QArith ZArith NArith String Ascii List Bool Lia.
From ER Require Import Model.Lexer Model.Words Model.Format Proofs.LexerProps Proofs.WordsProps.
Import ListNotations.
Local Open Scope string_scope.

Lemma all_digits_zeros n : all_digits (zeros n).
Proof. induction n as [|n IH]; intros c H; cbn in H; [destruct H|]. destruct H as [<-|H]; [reflexivity | apply IH; exact H]. Qed.
Lemma all_digits_app a b : all_digits a -> all_digits b -> all_digits (a ++ b).
Proof.
  intros Ha Hb c H. induction a as [|x a IH]; cbn in H; [apply Hb; exact H|].
  destruct H as [<-|H]; [apply Ha; left; reflexivity|]. apply IH; [intros d Hd; apply Ha; right; exact Hd | exact H].
Qed.
Lemma all_digits_take k ds : all_digits ds -> all_digits (take k ds).
Proof.
  revert ds. induction k as [|k IH]; intros ds H c Hc; [destruct Hc|]. destruct ds as [|x t]; [destruct Hc|].
  cbn in Hc. destruct Hc as [<-|Hc]; [apply H; left; reflexivity|]. apply (IH t); [intros d Hd; apply H; right; exact Hd | exact Hc].
Qed.
Lemma all_digits_dropn k ds : all_digits ds -> all_digits (dropn k ds).
Proof.
  revert ds. induction k as [|k IH]; intros ds H; [exact H|]. destruct ds as [|x t]; [exact H|].
  cbn. apply IH. intros d Hd. apply H. right. exact Hd.
Qed.
Lemma take_dropn k ds : take k ds ++ dropn k ds = ds.
Proof. revert ds. induction k as [|k IH]; intros ds; [reflexivity|]. destruct ds as [|x t]; [reflexivity|]. cbn. rewrite IH. reflexivity. Qed.
Lemma take_nonempty k ds : (0 < k)%nat -> ds <> "" -> take k ds <> "".
Proof. destruct k; [lia|]. destruct ds; [congruence|]. discriminate. Qed.
Lemma dropn_nonempty k ds : (k < String.length ds)%nat -> dropn k ds <> "".
Proof. revert ds. induction k as [|k IH]; intros ds H; destruct ds; cbn in *; try lia; [discriminate|]. apply IH. lia. Qed.

Definition sign_text (neg : bool) : string := if neg then "-" else "".
Lemma sign_ok neg : sign_text neg = "" \/ sign_text neg = "-" \/ sign_text neg = "+".
Proof. destruct neg; cbn; auto. Qed.

(** *** (1) plain decimal: the RS274 number reader consumes the whole text -- no exponent, nothing left over *)
Theorem layout_is_plain_decimal neg ds k : all_digits ds -> ds <> "" ->
  number (layout neg ds k) = Some (layout neg ds k, "").
Proof.
  intros D NE.
  assert (NA : forall x, ds ++ x <> "") by (intros x; destruct ds; [congruence | discriminate]).
  assert (P : forall pz, number (sign_text neg ++ positional ds k pz) = Some (sign_text neg ++ positional ds k pz, "")).
  { intros pz. unfold positional.
    destruct (k <=? 0)%Z eqn:K0.
    - change ("0." ++ zeros (Z.to_nat (- k)) ++ ds) with ("0" ++ String "." (zeros (Z.to_nat (- k)) ++ ds)).
      pose proof (number_reads_decimal (sign_text neg) "0" (zeros (Z.to_nat (- k)) ++ ds) "" (sign_ok neg)) as H.
      rewrite !append_nil_r in H. apply H.
      + intros c [<-|[]]. reflexivity.
      + apply all_digits_app; [apply all_digits_zeros | exact D].
      + discriminate.
      + destruct (zeros (Z.to_nat (- k))); cbn; [exact NE | discriminate].
      + exact I.
    - destruct (k <? Z.of_nat (String.length ds))%Z eqn:K1.
      + pose proof (number_reads_decimal (sign_text neg) (take (Z.to_nat k) ds) (dropn (Z.to_nat k) ds) "" (sign_ok neg)) as H.
        rewrite !append_nil_r in H. cbn [append] in H. apply H.
        * apply all_digits_take; exact D.
        * apply all_digits_dropn; exact D.
        * apply take_nonempty; [lia | exact NE].
        * apply dropn_nonempty. lia.
        * exact I.
      + destruct pz.
        * pose proof (number_reads_decimal (sign_text neg) (ds ++ zeros (Z.to_nat k - String.length ds)) "0" "" (sign_ok neg)) as H.
          rewrite !append_nil_r in H. rewrite !append_assoc in *. cbn [append] in *. apply H.
          -- apply all_digits_app; [exact D | apply all_digits_zeros].
          -- intros c [<-|[]]. reflexivity.
          -- apply NA.
          -- discriminate.
          -- exact I.
        * pose proof (number_reads_integer (sign_text neg) (ds ++ zeros (Z.to_nat k - String.length ds)) "" (sign_ok neg)) as H.
          rewrite !append_nil_r in *. apply H.
          -- apply all_digits_app; [exact D | apply all_digits_zeros].
          -- apply NA.
          -- exact I. }
  unfold layout. fold (sign_text neg). destruct ds as [|d0 ds']; [congruence|].
  destruct ((-4 <? k) && (k <=? 16))%Z; apply P.
Qed.

(** the behaviour before the repair (str(float) alone) is NOT plain decimal: refutation witness (finding D11, fixed) *)
Example exponent_form_refuted : number (repr_exponent false "1" (-4)) = Some ("1", "e-05").
Proof. reflexivity. Qed.
