(** C07 -- the text of a number in a generated command is plain decimal and denotes exactly the value whose
    shortest digits it was given: for ALL digit strings and ALL decimal exponents. *)
From Coq Require Import QArith ZArith NArith String Ascii List Bool Lia.
From ER Require Import Model.Lexer Model.Words Model.Format Proofs.LexerProps Proofs.WordsProps.
Import ListNotations.
Local Open Scope string_scope.

Lemma all_digits_zeros n : all_digits (zeros n).
Proof. induction n as [|n IH]; intros c H; cbn in H; [destruct H|]. destruct H as [<-|H]; [reflexivity | apply IH; exact H]. Qed.
Lemma all_digits_app a b : all_digits a -> all_digits b -> all_digits (a ++ b).
Proof.
  intros Ha Hb c H. induction a as [|x a IH]; cbn in H; [apply Hb; exact H|].
  destruct H as [<-|H]; [apply Ha; left; reflexivity|]. apply IH; [intros d Hd; apply Ha; right; exact Hd | exact H].
Qed.
Lemma all_digits_take k ds : all_digits ds -> all_digits (take k ds).
Proof.
  revert ds. induction k as [|k IH]; intros ds H c Hc; [destruct Hc|]. destruct ds as [|x t]; [destruct Hc|].
  cbn in Hc. destruct Hc as [<-|Hc]; [apply H; left; reflexivity|]. apply (IH t); [intros d Hd; apply H; right; exact Hd | exact Hc].
Qed.
Lemma all_digits_dropn k ds : all_digits ds -> all_digits (dropn k ds).
Proof.
  revert ds. induction k as [|k IH]; intros ds H; [exact H|]. destruct ds as [|x t]; [exact H|].
  cbn. apply IH. intros d Hd. apply H. right. exact Hd.
Qed.
Lemma take_dropn k ds : take k ds ++ dropn k ds = ds.
Proof. revert ds. induction k as [|k IH]; intros ds; [reflexivity|]. destruct ds as [|x t]; [reflexivity|]. cbn. rewrite IH. reflexivity. Qed.
Lemma take_nonempty k ds : (0 < k)%nat -> ds <> "" -> take k ds <> "".
Proof. destruct k; [lia|]. destruct ds; [congruence|]. discriminate. Qed.
Lemma dropn_nonempty k ds : (k < String.length ds)%nat -> dropn k ds <> "".
Proof. revert ds. induction k as [|k IH]; intros ds H; destruct ds; cbn in *; try lia; [discriminate|]. apply IH. lia. Qed.

Definition sign_text (neg : bool) : string := if neg then "-" else "".
Lemma sign_ok neg : sign_text neg = "" \/ sign_text neg = "-" \/ sign_text neg = "+".
Proof. destruct neg; cbn; auto. Qed.

(** *** (1) plain decimal: the RS274 number reader consumes the whole text -- no exponent, nothing left over *)
Theorem layout_is_plain_decimal neg ds k : all_digits ds -> ds <> "" ->
  number (layout neg ds k) = Some (layout neg ds k, "").
Proof.
  intros D NE.
  assert (NA : forall x, ds ++ x <> "") by (intros x; destruct ds; [congruence | discriminate]).
  assert (P : forall pz, number (sign_text neg ++ positional ds k pz) = Some (sign_text neg ++ positional ds k pz, "")).
  { intros pz. unfold positional.
    destruct (k <=? 0)%Z eqn:K0.
    - change ("0." ++ zeros (Z.to_nat (- k)) ++ ds) with ("0" ++ String "." (zeros (Z.to_nat (- k)) ++ ds)).
      pose proof (number_reads_decimal (sign_text neg) "0" (zeros (Z.to_nat (- k)) ++ ds) "" (sign_ok neg)) as H.
      rewrite !append_nil_r in H. apply H.
      + intros c [<-|[]]. reflexivity.
      + apply all_digits_app; [apply all_digits_zeros | exact D].
      + discriminate.
      + destruct (zeros (Z.to_nat (- k))); cbn; [exact NE | discriminate].
      + exact I.
    - destruct (k <? Z.of_nat (String.length ds))%Z eqn:K1.
      + pose proof (number_reads_decimal (sign_text neg) (take (Z.to_nat k) ds) (dropn (Z.to_nat k) ds) "" (sign_ok neg)) as H.
        rewrite !append_nil_r in H. cbn [append] in H. apply H.
        * apply all_digits_take; exact D.
        * apply all_digits_dropn; exact D.
        * apply take_nonempty; [lia | exact NE].
        * apply dropn_nonempty. lia.
        * exact I.
      + destruct pz.
        * pose proof (number_reads_decimal (sign_text neg) (ds ++ zeros (Z.to_nat k - String.length ds)) "0" "" (sign_ok neg)) as H.
          rewrite !append_nil_r in H. rewrite !append_assoc in *. cbn [append] in *. apply H.
          -- apply all_digits_app; [exact D | apply all_digits_zeros].
          -- intros c [<-|[]]. reflexivity.
          -- apply NA.
          -- discriminate.
          -- exact I.
        * pose proof (number_reads_integer (sign_text neg) (ds ++ zeros (Z.to_nat k - String.length ds)) "" (sign_ok neg)) as H.
          rewrite !append_nil_r in *. apply H.
          -- apply all_digits_app; [exact D | apply all_digits_zeros].
          -- apply NA.
          -- exact I. }
  unfold layout. fold (sign_text neg). destruct ds as [|d0 ds']; [congruence|].
  destruct ((-4 <? k) && (k <=? 16))%Z; apply P.
Qed.

(** the behaviour before the repair (str(float) alone) is NOT plain decimal: refutation witness (finding D11, fixed) *)
Example exponent_form_refuted : number (repr_exponent false "1" (-4)) = Some ("1", "e-05").
Proof. reflexivity. Qed.

(** *** (2) exact value: the text denotes exactly (-1)^neg * 0.ds * 10^k *)
Lemma digits_val_app a b acc : digits_val (a ++ b) acc = digits_val b (digits_val a acc).
Proof. revert acc. induction a as [|c a IH]; intros acc; cbn; [reflexivity|]. apply IH. Qed.

Lemma digits_val_acc s acc : digits_val s acc = (acc * Npos (pow10 (String.length s)) + num_of s)%N.
Proof.
  unfold num_of. revert acc. induction s as [|c s IH]; intros acc; cbn [digits_val String.length pow10]; [lia|].
  rewrite IH, (IH (0 * 10 + _)%N). change (N.pos (10 * pow10 (String.length s))) with (10 * N.pos (pow10 (String.length s)))%N. lia.
Qed.

Lemma num_of_app a b : num_of (a ++ b) = (num_of a * Npos (pow10 (String.length b)) + num_of b)%N.
Proof. unfold num_of at 1. rewrite digits_val_app, digits_val_acc. reflexivity. Qed.

Lemma num_of_zeros n : num_of (zeros n) = 0%N.
Proof. induction n as [|n IH]; [reflexivity|]. cbn [zeros]. change (String "0" (zeros n)) with ("0" ++ zeros n). rewrite num_of_app, IH. reflexivity. Qed.
Lemma length_zeros n : String.length (zeros n) = n.
Proof. induction n; cbn; congruence. Qed.
Lemma pow10_add a b : pow10 (a + b) = (pow10 a * pow10 b)%positive.
Proof. induction a as [|a IH]; cbn [pow10 plus]; [lia|]. rewrite IH. lia. Qed.

Lemma span_digits_all s : all_digits s -> span Lexer.is_digit s = (s, "").
Proof. intros H. pose proof (span_all Lexer.is_digit s "" H I) as E. rewrite append_nil_r in E. exact E. Qed.

(** the value of sign ++ ip ++ "." ++ fp as read by the firmware-style reader *)
Lemma number_value_decimal neg ip fp : all_digits ip -> all_digits fp -> ip <> "" ->
  number_value (sign_text neg ++ ip ++ String "." fp) ==
  Qmake ((if neg then -1 else 1) * (Z.of_N (num_of ip) * Zpos (pow10 (String.length fp)) + Z.of_N (num_of fp))) (pow10 (String.length fp)).
Proof.
  intros Hi Hf Ni. unfold number_value.
  assert (E : match sign_text neg ++ ip ++ String "." fp with
              | String c u => if Ascii.eqb c "-" then (true, u) else if Ascii.eqb c "+" then (false, u) else (false, sign_text neg ++ ip ++ String "." fp)
              | "" => (false, sign_text neg ++ ip ++ String "." fp) end = (neg, ip ++ String "." fp)).
  { destruct neg; cbn; [reflexivity|]. destruct ip as [|c ip']; [congruence|]. cbn.
    assert (D : Lexer.is_digit c = true) by (apply Hi; left; reflexivity).
    destruct (Ascii.eqb_spec c "-") as [->|]; [discriminate|]. destruct (Ascii.eqb_spec c "+") as [->|]; [discriminate|]. reflexivity. }
  rewrite E. rewrite (span_all Lexer.is_digit ip (String "." fp)); [|exact Hi|reflexivity].
  cbn [fst]. rewrite (span_digits_all fp Hf). cbn [fst].
  rewrite Qred_correct. destruct neg; unfold Qeq; cbn [Qnum Qden]; lia.
Qed.

Lemma number_value_integer neg ip : all_digits ip -> ip <> "" ->
  number_value (sign_text neg ++ ip) == Qmake ((if neg then -1 else 1) * Z.of_N (num_of ip)) 1.
Proof.
  intros Hi Ni. unfold number_value.
  assert (E : match sign_text neg ++ ip with
              | String c u => if Ascii.eqb c "-" then (true, u) else if Ascii.eqb c "+" then (false, u) else (false, sign_text neg ++ ip)
              | "" => (false, sign_text neg ++ ip) end = (neg, ip)).
  { destruct neg; cbn; [reflexivity|]. destruct ip as [|c ip']; [congruence|]. cbn.
    assert (D : Lexer.is_digit c = true) by (apply Hi; left; reflexivity).
    destruct (Ascii.eqb_spec c "-") as [->|]; [discriminate|]. destruct (Ascii.eqb_spec c "+") as [->|]; [discriminate|]. reflexivity. }
  rewrite E. rewrite (span_digits_all ip Hi).
  cbn [fst snd String.length pow10]. rewrite Qred_correct. change (num_of "") with 0%N. destruct neg; unfold Qeq; cbn [Qnum Qden]; lia.
Qed.

(** the value that [ds] and [k] stand for: 0.ds * 10^k *)
Definition dec_value (neg : bool) (ds : string) (k : Z) : Q :=
  let n := Z.of_nat (String.length ds) in
  let m := ((if neg then -1 else 1) * Z.of_N (num_of ds))%Z in
  if (n <=? k)%Z then Qmake (m * Zpos (pow10 (Z.to_nat (k - n)))) 1 else Qmake m (pow10 (Z.to_nat (n - k))).

Lemma take_length k ds : (k <= String.length ds)%nat -> String.length (take k ds) = k.
Proof. revert ds. induction k as [|k IH]; intros ds H; [reflexivity|]. destruct ds; cbn in *; [lia|]. rewrite IH; lia. Qed.
Lemma dropn_length k ds : String.length (dropn k ds) = (String.length ds - k)%nat.
Proof. revert ds. induction k as [|k IH]; intros ds; [cbn; lia|]. destruct ds; cbn; [reflexivity|]. apply IH. Qed.

Theorem layout_value_exact neg ds k : all_digits ds -> ds <> "" -> number_value (layout neg ds k) == dec_value neg ds k.
Proof.
  intros D NE.
  assert (NA : forall x, ds ++ x <> "") by (intros x; destruct ds; [congruence | discriminate]).
  assert (P : forall pz, number_value (sign_text neg ++ positional ds k pz) == dec_value neg ds k).
  { intros pz. unfold positional, dec_value. set (n := String.length ds).
    destruct (k <=? 0)%Z eqn:K0.
    - apply Z.leb_le in K0. change ("0." ++ zeros (Z.to_nat (- k)) ++ ds) with ("0" ++ String "." (zeros (Z.to_nat (- k)) ++ ds)).
      rewrite number_value_decimal; [|intros c [<-|[]]; reflexivity | apply all_digits_app; [apply all_digits_zeros | exact D] | discriminate].
      rewrite num_of_app, num_of_zeros, length_append, length_zeros. fold n.
      assert (KN : (Z.of_nat n <=? k)%Z = false) by (apply Z.leb_gt; destruct ds; [congruence|cbn in n; lia]). rewrite KN.
      replace (Z.to_nat (Z.of_nat n - k)) with (Z.to_nat (- k) + n)%nat by lia.
      change (num_of "0") with 0%N. unfold Qeq. cbn [Qnum Qden]. rewrite ?N.mul_0_l, ?N.add_0_l. destruct neg; cbn [Z.of_N]; lia.
    - apply Z.leb_gt in K0. destruct (k <? Z.of_nat n)%Z eqn:K1.
      + apply Z.ltb_lt in K1.
        change (take (Z.to_nat k) ds ++ "." ++ dropn (Z.to_nat k) ds) with (take (Z.to_nat k) ds ++ String "." (dropn (Z.to_nat k) ds)).
        rewrite number_value_decimal;
          [|apply all_digits_take; exact D | apply all_digits_dropn; exact D | apply take_nonempty; [lia | exact NE]].
        assert (KN : (Z.of_nat n <=? k)%Z = false) by (apply Z.leb_gt; lia). rewrite KN.
        rewrite dropn_length. fold n. replace (Z.to_nat (Z.of_nat n - k)) with (n - Z.to_nat k)%nat by lia.
        pose proof (num_of_app (take (Z.to_nat k) ds) (dropn (Z.to_nat k) ds)) as NA2. rewrite take_dropn, dropn_length in NA2. fold n in NA2.
        unfold Qeq. cbn [Qnum Qden]. rewrite NA2. destruct neg; lia.
      + apply Z.ltb_ge in K1. assert (KN : (Z.of_nat n <=? k)%Z = true) by (apply Z.leb_le; lia). rewrite KN.
        replace (Z.to_nat (k - Z.of_nat n)) with (Z.to_nat k - n)%nat by lia.
        destruct pz.
        * replace (ds ++ zeros (Z.to_nat k - n) ++ ".0") with ((ds ++ zeros (Z.to_nat k - n)) ++ String "." "0") by (rewrite append_assoc; reflexivity).
          rewrite number_value_decimal; [|apply all_digits_app; [exact D | apply all_digits_zeros] | intros c [<-|[]]; reflexivity | apply NA].
          rewrite num_of_app, num_of_zeros, length_zeros. change (num_of "0") with 0%N. unfold Qeq. cbn [Qnum Qden String.length pow10]. rewrite ?N.add_0_r. destruct neg; cbn [Z.of_N]; lia.
        * rewrite append_nil_r. rewrite number_value_integer; [|apply all_digits_app; [exact D | apply all_digits_zeros] | apply NA].
          rewrite num_of_app, num_of_zeros, length_zeros. unfold Qeq. cbn [Qnum Qden]. rewrite ?N.add_0_r. destruct neg; lia. }
  unfold layout. fold (sign_text neg). destruct ds as [|d0 ds']; [congruence|].
  destruct ((-4 <? k) && (k <=? 16))%Z; apply P.
Qed.
