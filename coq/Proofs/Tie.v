(** Tie between Tier H (hand-written, parametric) and Tier G (generated from /repo): on the R
    instance the hand-written geometry and axis conversions ARE the generated functions. *)
From Coq Require Import Reals Lra Bool String.
From ER Require Import Base.GenPrelude Gen.GenRegions Gen.GenAxis Model.Geometry.
Open Scope R_scope.

Definition rectR (a b c d : R) : RectR := {| x1 := a; y1 := b; x2 := c; y2 := d |}.
Definition circR (a b c : R) : CircR := {| cx := a; cy := b; r := c |}.

(** robust against harmless rewrites of the source (reordered conjuncts, `a >= b` written `b <= a`): both sides are
    conjunctions of comparisons over the same atoms; equality of the booleans is proved through their truth conditions *)
Ltac tie :=
  cbn; numR;
  unfold rect_containsRegion_rect, rect_containsRegion_circ, circ_containsRegion_rect;
  unfold rect_containsPoint, circ_containsPoint, rectR, circR;
  cbn [x1 y1 x2 y2 cx cy r];
  apply Bool.eq_true_iff_eq; rewrite ?andb_true_iff, ?Rgeb_true, ?Rleb_true; intuition lra.

Lemma tie_rect_point i a b c d x y :
  contains_point (Rect i a b c d) x y = rect_containsPoint (rectR a b c d) x y.
Proof. tie. Qed.
Lemma tie_circ_point i a b c x y :
  contains_point (Circ i a b c) x y = circ_containsPoint (circR a b c) x y.
Proof. tie. Qed.

Lemma tie_rect_rect i a b c d i' a' b' c' d' :
  contains_region (Rect i a b c d) (Rect i' a' b' c' d') = rect_containsRegion_rect (rectR a b c d) (rectR a' b' c' d').
Proof. tie. Qed.
Lemma tie_rect_circ i a b c d i' a' b' c' :
  contains_region (Rect i a b c d) (Circ i' a' b' c') = rect_containsRegion_circ (rectR a b c d) (circR a' b' c').
Proof. tie. Qed.
Lemma tie_circ_rect i a b c i' a' b' c' d' :
  contains_region (Circ i a b c) (Rect i' a' b' c' d') = circ_containsRegion_rect (circR a b c) (rectR a' b' c' d').
Proof. tie. Qed.
Lemma tie_circ_circ i a b c i' a' b' c' :
  contains_region (Circ i a b c) (Circ i' a' b' c') = circ_containsRegion_circ (circR a b c) (circR a' b' c').
Proof.
  cbn. numR. unfold circ_containsRegion_circ, circR. cbn [cx cy r].
  destruct (Rleb (hypot (a - a') (b - b')) (c - c')) eqn:E; symmetry.
  - apply Rleb_true in E. apply Rleb_true. lra.
  - apply Rleb_false in E. apply Rleb_false. lra.
Qed.
