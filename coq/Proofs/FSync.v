(** Physical synchronisation (Sync (ii)-(iv)): the printer executing the FILTERED stream (F) against the
    printer executing the unfiltered file (U).
      frames  : F's positioning modes and units always equal U's
      outside : F stands where U stands, with the same extruder coordinate
      inside  : F stands where it stood before the episode opened (lastPosition) *)
From Coq Require Import Reals Lra String Ascii List Bool.
From ER Require Import Base.Num Model.Geometry Model.Axis Model.Filter Spec.Printer
  Proofs.FilterLemmas Proofs.Transparent Proofs.Deferred Proofs.Outputs Proofs.Track.
Import ListNotations.
Open Scope R_scope.

Record FSync (s : fstateR) (F U : printerR) : Prop := mkFSync {
  f_abs : qabs F = qabs U; f_eabs : qeabs F = qeabs U; f_um : qum F = qum U;
  f_out : excluding s = false -> qx F = qx U /\ qy F = qy U /\ qz F = qz U /\ qe F = qe U;
  f_in : excluding s = true ->
         qx F = cur (px (lastPosition s)) /\ qy F = cur (py (lastPosition s)) /\ qz F = cur (pz (lastPosition s))
}.

Definition run_outs (g90e : bool) (m : icmdR) (F : printerR) (l : list (ocmd R)) : printerR :=
  fold_left (exec_out g90e m) l F.

(** same position / frame, possibly different extruder state *)
Definition same_xyz_frame (P Q : printerR) : Prop :=
  qx Q = qx P /\ qy Q = qy P /\ qz Q = qz P /\ qabs Q = qabs P /\ qeabs Q = qeabs P /\ qum Q = qum P.
Lemma sxf_refl P : same_xyz_frame P P. Proof. repeat split. Qed.
Lemma sxf_trans P Q R : same_xyz_frame P Q -> same_xyz_frame Q R -> same_xyz_frame P R.
Proof. unfold same_xyz_frame. intuition congruence. Qed.

Definition quiet_out (o : ocmd R) : Prop :=
  match o with SetE _ | ExtrudeTo _ _ | FwCmd _ _ | Script _ | Deferred _ | Merged _ _ => True | _ => False end.

Lemma exec_quiet g m P o : quiet_out o -> same_xyz_frame P (exec_out g m P o).
Proof.
  destruct o; cbn; try tauto; intros _; try apply sxf_refl; unfold same_xyz_frame, exec_move, push; cbn; auto 10.
Qed.
Lemma run_quiet g m l : forall P, Forall quiet_out l -> same_xyz_frame P (run_outs g m P l).
Proof.
  induction l as [|o t IH]; intros P H; cbn; [apply sxf_refl|]. inversion H; subst.
  apply (sxf_trans P (exec_out g m P o)); [apply exec_quiet; assumption | apply IH; assumption].
Qed.
Lemma retract_is_quiet o : is_retract_out o -> quiet_out o.
Proof. destruct o; cbn; auto. Qed.

(** the frame a command leaves behind depends only on the frame it finds *)
Lemma exec_cmd_frame g (P Q : printerR) code ws : qabs P = qabs Q -> qeabs P = qeabs Q -> qum P = qum Q ->
  qabs (exec_cmd g P code ws) = qabs (exec_cmd g Q code ws) /\
  qeabs (exec_cmd g P code ws) = qeabs (exec_cmd g Q code ws) /\
  qum (exec_cmd g P code ws) = qum (exec_cmd g Q code ws).
Proof.
  intros A B C. unfold exec_cmd.
  repeat match goal with |- context [if ?b then _ else _] => destruct b end; cbn; auto.
  - destruct (exec_move_fields P ws) as (_ & _ & _ & _ & X & Y & Z & _).
    destruct (exec_move_fields Q ws) as (_ & _ & _ & _ & X' & Y' & Z' & _). rewrite X, Y, Z, X', Y', Z'. auto.
  - destruct (word "E" ws); cbn; auto.
Qed.

(** a command executed on two printers that agree on position, frame and extruder coordinate *)
Lemma exec_cmd_agree g (P Q : printerR) code ws :
  qx P = qx Q -> qy P = qy Q -> qz P = qz Q -> qe P = qe Q -> qabs P = qabs Q -> qeabs P = qeabs Q -> qum P = qum Q ->
  qx (exec_cmd g P code ws) = qx (exec_cmd g Q code ws) /\ qy (exec_cmd g P code ws) = qy (exec_cmd g Q code ws) /\
  qz (exec_cmd g P code ws) = qz (exec_cmd g Q code ws) /\ qe (exec_cmd g P code ws) = qe (exec_cmd g Q code ws).
Proof.
  intros A B C D E F G. unfold exec_cmd.
  repeat match goal with |- context [if ?b then _ else _] => destruct b end; cbn; auto.
  - destruct (exec_move_fields P ws) as (X1 & X2 & X3 & X4 & _).
    destruct (exec_move_fields Q ws) as (Y1 & Y2 & Y3 & Y4 & _). rewrite X1, X2, X3, X4, Y1, Y2, Y3, Y4, A, B, C, D, E, F, G. auto.
  - destruct (word "E" ws); cbn; rewrite ?G; auto.
Qed.

(** *** shape of what is emitted while no episode is open before or after the command *)
Lemma retr_cmds_quiet (r : retr R) rec (p : pos R) : Forall quiet_out (retr_cmds r rec p).
Proof. unfold retr_cmds. destruct (fw r); repeat constructor. Qed.

Lemma R_lt_irrefl0 : (@nltb R RNum n0 n0) = false.
Proof. numR. apply Rltb_false. lra. Qed.
Lemma R_eq0 : (@neqb R RNum n0 n0) = true.
Proof. numR. apply Reqb_true. reflexivity. Qed.

Lemma recordRetraction_outside (s : fstateR) rt : excluding s = false ->
  (snd (recordRetraction s rt) = [Orig (rorig rt)] /\
   match lastRetraction s with Some lr => recoverExcluded lr | None => false end = false) \/
  (snd (recordRetraction s rt) = [] /\ exists lr, lastRetraction s = Some lr /\ recoverExcluded lr = true).
Proof.
  intros X. unfold recordRetraction. destruct (lastRetraction s) as [lr|]; rewrite ?X; cbn; [|auto].
  destruct (recoverExcluded lr) eqn:O; cbn; [right; split; [reflexivity | exists lr; auto]|].
  destruct (allowCombine lr); cbn; rewrite ?X; auto.
Qed.

Lemma recoverIfNeeded_outside (s : fstateR) cmd b : excluding s = false ->
  exists pre, snd (recoverRetractionIfNeeded s cmd b) = pre ++ [Orig cmd] /\ Forall quiet_out pre.
Proof.
  intros X. unfold recoverRetractionIfNeeded, recoverRetraction. destruct (lastRetraction s) as [lr|]; rewrite X; cbn.
  - destruct (recoverExcluded lr); [|exists []; split; [reflexivity|constructor]].
    eexists. split; [reflexivity | apply retr_cmds_quiet].
  - exists []. split; [reflexivity | constructor].
Qed.

Definition all_none (pts : list (option R * option R)) : Prop := Forall (fun p => fst p = None /\ snd p = None) pts.

Lemma existsb_false_all_none pts : existsb (fun q : option R * option R => is_some (fst q) || is_some (snd q)) pts = false -> all_none pts.
Proof.
  induction pts as [|[a b] t IH]; cbn; intros H; [constructor|].
  apply orb_false_iff in H. destruct H as (H & H'). apply orb_false_iff in H. destruct H as (Ha & Hb).
  constructor; [|apply IH; exact H']. destruct a, b; cbn in *; try discriminate. auto.
Qed.

Lemma plm_outside_shape c (s : fstateR) cmd e f z pts :
  excluding s = false ->
  excluding (fst (processLinearMoves c s cmd e f z pts)) = false ->
  (exists pre, snd (processLinearMoves c s cmd e f z pts) = Replace (pre ++ [Orig cmd]) /\ Forall quiet_out pre /\ (e = None -> pre = [])) \/
  (snd (processLinearMoves c s cmd e f z pts) = Replace [SetE (n2l (pe (position (fst (processLinearMoves c s cmd e f z pts)))))] /\
   z = None /\ all_none pts).
Proof.
  intros X. pose proof (plm_position c s cmd e f z pts) as PP. revert PP. unfold processLinearMoves, plm_pos.
  set (eA' := match e with Some v => set_logical (pe (position s)) v | None => pe (position s) end).
  set (zA' := match z with Some v => set_logical (pz (position s)) v | None => pz (position s) end).
  set (dE := match e with Some _ => nsub (cur eA') (cur (pe (position s))) | None => n0 end).
  set (s0 := match f with Some v => upd_feed s (nmul v (frMult s)) | None => s end).
  assert (X0 : excluding s0 = false) by (unfold s0; destruct f; exact X).
  set (s1 := upd_pos s0 (upd_Z (upd_E (position s) eA') zA')).
  assert (X1s : excluding s1 = false) by exact X0.
  assert (DE : e = None -> nltb dE n0 = false /\ nltb n0 dE = false /\ neqb dE n0 = true).
  { intros ->. unfold dE. split; [apply R_lt_irrefl0 | split; [apply R_lt_irrefl0 | apply R_eq0]]. }
  assert (TR : forall l : list (ocmd R), to_result (l ++ [Orig cmd]) = Replace (l ++ [Orig cmd])) by (intros [|a l]; reflexivity).
  destruct (is_some z || existsb (fun q => is_some (fst q) || is_some (snd q)) pts) eqn:M; cbn [negb].
  - destruct (track_points (regions s1) (enabled s1) (px (position s)) (py (position s)) pts) as [[x' y'] hit].
    set (s1' := upd_pos s1 (upd_XY (position s1) x' y')).
    assert (X1 : excluding s1' = false) by exact X0.
    destruct hit.
    + pose proof (processExcludedMove_frame c s1' cmd dE) as F.
      destruct (processExcludedMove c s1' cmd dE) as [s2 cmds]. cbn [fst] in F. destruct F as (_ & _ & _ & _ & F).
      cbn [fst snd]. intros _ H. exfalso. destruct (excluding s2 && negb (excluding s1')); cbn in H; congruence.
    + rewrite X1. destruct (negb (neqb dE n0)) eqn:NE.
      * match goal with |- context [recoverRetractionIfNeeded ?sp cmd false] =>
          destruct (recoverIfNeeded_outside sp cmd false X1) as (pre & A & Q);
          destruct (recoverRetractionIfNeeded sp cmd false) as [s2 cmds] end.
        cbn [fst snd] in *. intros _ _. left. exists pre. subst cmds. split; [apply TR|]. split; [exact Q|].
        intros He. destruct (DE He) as (_ & _ & D3). rewrite D3 in NE. discriminate.
      * cbn [fst snd]. intros _ _. left. exists []. split; [reflexivity|]. split; [constructor | reflexivity].
  - apply orb_false_iff in M. destruct M as (Mz & Mp).
    unfold processNonMove. destruct (nltb dE n0) eqn:LT.
    + set (rt := mkRetr false true false (nopp dE) (feedRate s1) cmd).
      pose proof (recordRetraction_frame s1 rt) as F.
      destruct (recordRetraction_outside s1 rt X1s) as [A|(A & lr & L & O)].
      * destruct A as (A & NO). rewrite NO.
        destruct (recordRetraction s1 rt) as [s2 cmds]. cbn [fst snd] in *. subst cmds.
        cbn [andb fst snd]. intros _ _. left. exists []. cbn. split; [reflexivity|]. split; [constructor|].
        intros He. destruct (DE He) as (D1 & _). rewrite D1 in LT. discriminate.
      * rewrite L, O. destruct (recordRetraction s1 rt) as [s2 cmds]. cbn [fst snd] in *. subst cmds.
        destruct F as (_ & F & _). rewrite F, X1s. cbn [negb andb app fst snd to_result]. intros _ _. right.
        split; [reflexivity|]. split; [destruct z; [discriminate|reflexivity] | apply existsb_false_all_none; exact Mp].
    + destruct (nltb n0 dE) eqn:GT.
      * destruct (recoverIfNeeded_outside s1 cmd true X1s) as (pre & A & Q).
        destruct (recoverRetractionIfNeeded s1 cmd true) as [s2 cmds]. cbn [fst snd] in *. intros _ _. left. exists pre. subst cmds.
        split; [apply TR|]. split; [exact Q|]. intros He. destruct (DE He) as (_ & D2 & _). rewrite D2 in GT. discriminate.
      * rewrite X1s. cbn [negb fst snd]. intros _ _. left. exists []. split; [reflexivity|]. split; [constructor | reflexivity].
Qed.

(** *** auxiliary facts about the dispatcher *)
Ltac by_code m :=
  destruct (code_cases (ccode m)) as [E|[E|[E|[E|[E|[E|[E|[E|[E|[E|[E|[E|[E|E]]]]]]]]]]]]];
  [rewrite E; cbn [String.eqb Ascii.eqb Bool.eqb orb andb negb existsb] .. | ].

Ltac other_code m E :=
  let E' := fresh "E'" in
  pose proof E as E'; unfold handled_code in E'; cbn [existsb] in E';
  repeat (apply orb_false_iff in E'; destruct E' as (?E1 & E'));
  repeat match goal with H : String.eqb (ccode m) _ = false |- _ => rewrite H; clear H end; cbn [orb].

(** `Unchanged` is answered to G0-G3 only for an arc without usable centre *)
Lemma unchanged_linear c (s : fstateR) (m : icmdR) : snd (handle c s m) = Unchanged -> linear m = true ->
  is_arc m = true /\ arc_nondegenerate m = false.
Proof.
  unfold handle, linear, is_arc, arc_nondegenerate. intros H L. revert H.
  destruct (linear_cases m L) as [E|(E0 & E)]; rewrite ?E0, E.
  - unfold handle_G0, processLinearMoves.
    repeat match goal with |- context [let '(_, _) := ?x in _] => destruct x end.
    cbn [snd]. intros H. pose proof (to_result_shape l) as T. rewrite H in T. destruct T.
  - unfold handle_G2. intros H. split; [reflexivity|].
    destruct (word "R" (cwords m)).
    + destruct (carc_ij m) as [[i j]|]; [|reflexivity]. destruct (nonzero i || nonzero j); [|reflexivity].
      exfalso. unfold processLinearMoves in H.
      repeat match type of H with context [let '(_, _) := ?x in _] => destruct x end.
      cbn [snd] in H. pose proof (to_result_shape l) as T. rewrite H in T. destruct T.
    + destruct (nonzero (dflt (word "I" (cwords m)) n0) || nonzero (dflt (word "J" (cwords m)) n0)); [|reflexivity].
      exfalso. unfold processLinearMoves in H.
      repeat match type of H with context [let '(_, _) := ?x in _] => destruct x end.
      cbn [snd] in H. pose proof (to_result_shape l) as T. rewrite H in T. destruct T.
Qed.

(** commands other than G0-G3 and G28 do not move the tool; they never touch the extruder coordinate
    except G92 E *)
Lemma exec_nonlinear_xyz g (P : printerR) (m : icmdR) : linear m = false -> ccode m <> "G28"%string ->
  qx (exec_cmd g P (ccode m) (cwords m)) = qx P /\ qy (exec_cmd g P (ccode m) (cwords m)) = qy P /\
  qz (exec_cmd g P (ccode m) (cwords m)) = qz P.
Proof.
  unfold linear, exec_cmd. intros L N28. rewrite L.
  destruct (String.eqb_spec (ccode m) "G28"); [contradiction|].
  repeat match goal with |- context [if ?b then _ else _] => destruct b end; cbn; auto.
  destruct (word "E" (cwords m)); cbn; auto.
Qed.

(** a command answered with anything but `Unchanged` leaves the file's frame alone and, unless it is
    G0-G3, the file's position and extruder coordinate too *)
Lemma changed_frame c (s : fstateR) (m : icmdR) g (U : printerR) : snd (handle c s m) <> Unchanged ->
  qabs (exec_cmd g U (ccode m) (cwords m)) = qabs U /\ qeabs (exec_cmd g U (ccode m) (cwords m)) = qeabs U /\
  qum (exec_cmd g U (ccode m) (cwords m)) = qum U /\
  (linear m = false -> qx (exec_cmd g U (ccode m) (cwords m)) = qx U /\ qy (exec_cmd g U (ccode m) (cwords m)) = qy U /\
                       qz (exec_cmd g U (ccode m) (cwords m)) = qz U /\ qe (exec_cmd g U (ccode m) (cwords m)) = qe U).
Proof.
  unfold handle, exec_cmd, linear. by_code m; intros H; try (exfalso; apply H; reflexivity).
  - destruct (exec_move_fields U (cwords m)) as (_ & _ & _ & _ & A & B & C & _). rewrite A, B, C. split; [|split; [|split]]; try reflexivity. discriminate.
  - destruct (exec_move_fields U (cwords m)) as (_ & _ & _ & _ & A & B & C & _). rewrite A, B, C. split; [|split; [|split]]; try reflexivity. discriminate.
  - destruct (exec_move_fields U (cwords m)) as (_ & _ & _ & _ & A & B & C & _). rewrite A, B, C. split; [|split; [|split]]; try reflexivity. discriminate.
  - destruct (exec_move_fields U (cwords m)) as (_ & _ & _ & _ & A & B & C & _). rewrite A, B, C. split; [|split; [|split]]; try reflexivity. discriminate.
  - unfold handle_G10 in H. destruct (has_label "P" (cwords m) || has_label "L" (cwords m)); [exfalso; apply H; reflexivity|]. cbn. auto 10.
  - cbn. auto 10.
  - revert H. other_code m E. intros H. cbn. auto 10.
Qed.

Lemma n2l_mul (a : axis R) c m : m <> 0 -> axis_tracks a c true m -> n2l a * m = c.
Proof. intros Hm (A & B & C & D & E). unfold n2l. numR. rewrite A, B, C, E. field. exact Hm. Qed.

(** the generated retraction / recovery commands leave the extruder coordinate where the filter tracks it *)
Lemma retr_cmds_exec g m (F : printerR) (r : retr R) rec (p : pos R) c : qum F <> 0 -> qeabs F = true ->
  axis_tracks (pe p) c true (qum F) ->
  let F' := run_outs g m F (retr_cmds r rec p) in
  same_xyz_frame F F' /\ qe F' = (if fw r then qe F else c).
Proof.
  intros Hm Ha T. unfold retr_cmds. destruct (fw r).
  - cbn. split; [repeat split|reflexivity].
  - cbn [run_outs fold_left exec_out]. split.
    + unfold same_xyz_frame, exec_move, set_e, push. cbn. auto 10.
    + unfold exec_move. cbn [word last_num String.eqb Ascii.eqb Bool.eqb set_e qeabs qum qe]. rewrite Ha. unfold push. cbn [qe].
      destruct T as (A & B & C & D & E). unfold n2l, set_cur. cbn. numR. rewrite A, B, C, E.
      destruct rec; field; exact Hm.
Qed.

(** executing the exit sequence takes a printer standing at lastPosition to the tracked position *)
Lemma exit_exec g m c0 (s1 : fstateR) (F U' : printerR) : excluding s1 = true -> Track s1 U' ->
  qabs F = qabs U' -> qeabs F = qeabs U' -> qum F = qum U' ->
  qx F = cur (px (lastPosition s1)) -> qy F = cur (py (lastPosition s1)) -> qz F = cur (pz (lastPosition s1)) ->
  let F' := run_outs g m F (exit_sequence c0 s1) in
  qx F' = qx U' /\ qy F' = qy U' /\ qz F' = qz U' /\ qe F' = qe U' /\ qabs F' = qabs F /\ qeabs F' = qeabs F /\ qum F' = qum F.
Proof.
  intros X [Hum Hea Hx Hy Hz He Hfm] FA FE FU LX LY LZ.
  unfold exit_sequence, exitExcludedRegion. rewrite X. cbn [negb snd].
  unfold run_outs. rewrite !fold_left_app.
  set (F1 := fold_left (exec_out g m) (map Script (exitS c0)) (fold_left (exec_out g m) (pending_cmds (pending s1)) F)).
  assert (Q1 : same_xyz_frame F F1 /\ qe F1 = qe F).
  { unfold F1. assert (G : forall l P, Forall (fun o => match o with Script _ | Deferred _ | Merged _ _ => True | _ => False end) l ->
        same_xyz_frame P (fold_left (exec_out g m) l P) /\ qe (fold_left (exec_out g m) l P) = qe P).
    { induction l as [|o t IH]; intros P HF; cbn; [split; [apply sxf_refl|reflexivity]|].
      inversion HF; subst. destruct o; try contradiction; cbn; apply IH; assumption. }
    destruct (G (pending_cmds (pending s1)) F) as (A1 & A2).
    { unfold pending_cmds. apply Forall_forall. intros o Ho. apply in_map_iff in Ho. destruct Ho as ([k [t|a]] & <- & _); exact I. }
    destruct (G (map Script (exitS c0)) (fold_left (exec_out g m) (pending_cmds (pending s1)) F)) as (B1 & B2).
    { apply Forall_forall. intros o Ho. apply in_map_iff in Ho. destruct Ho as (t & <- & _). exact I. }
    split; [eapply sxf_trans; eassumption | congruence]. }
  destruct Q1 as ((Qx & Qy & Qz & Qa & Qe & Qu) & _).
  clearbody F1.
  destruct Hx as (X1 & X2 & X3 & X4 & X5), Hy as (Y1 & Y2 & Y3 & Y4 & Y5), Hz as (Z1 & Z2 & Z3 & Z4 & Z5), He as (E1 & E2 & E3 & E4 & E5).
  assert (UM : qum F1 <> 0) by congruence.
  unfold exitCoordinate, n2l. rewrite X2, X3, X4, X5, Y2, Y3, Y4, Y5, Z2, Z3, Z4, Z5, E2, E3, E5.
  cbn [fold_left exec_out app]. numR.
  destruct (Rltb (cur (pz (lastPosition s1))) (cur (pz (position s1)))) eqn:UP;
  destruct (Rltb (cur (pz (position s1))) (cur (pz (lastPosition s1)))) eqn:DOWN;
  cbn [fold_left exec_out app]; unfold exec_move, set_e, tgt;
  cbn [word last_num String.eqb Ascii.eqb Bool.eqb qx qy qz qe qabs qeabs qum qdep qfw];
  rewrite ?Qx, ?Qy, ?Qz, ?Qa, ?Qe, ?Qu, ?FA, ?FE, ?FU, ?LX, ?LY, ?LZ, <- ?X1, <- ?Y1, <- ?Z1, <- ?E1;
  try (apply Rltb_true in UP); try (apply Rltb_true in DOWN); try (apply Rltb_false in UP); try (apply Rltb_false in DOWN);
  destruct (qabs U'); numR; repeat split; try reflexivity; try (field; assumption); try lra.
Qed.

Lemma plm_lastpos_inside c (s : fstateR) cmd e f z pts : excluding s = true ->
  excluding (fst (processLinearMoves c s cmd e f z pts)) = true ->
  lastPosition (fst (processLinearMoves c s cmd e f z pts)) = lastPosition s.
Proof.
  intros X. unfold processLinearMoves.
  set (eA' := match e with Some v => set_logical (pe (position s)) v | None => pe (position s) end).
  set (zA' := match z with Some v => set_logical (pz (position s)) v | None => pz (position s) end).
  set (dE := match e with Some _ => nsub (cur eA') (cur (pe (position s))) | None => n0 end).
  set (s0 := match f with Some v => upd_feed s (nmul v (frMult s)) | None => s end).
  assert (X0 : excluding s0 = true /\ lastPosition s0 = lastPosition s) by (unfold s0; destruct f; auto).
  destruct X0 as (X0 & L0).
  set (s1 := upd_pos s0 (upd_Z (upd_E (position s) eA') zA')).
  destruct (is_some z || existsb (fun q => is_some (fst q) || is_some (snd q)) pts); cbn [negb].
  - destruct (track_points (regions s1) (enabled s1) (px (position s)) (py (position s)) pts) as [[x' y'] hit].
    set (s1' := upd_pos s1 (upd_XY (position s1) x' y')).
    assert (X1 : excluding s1' = true) by exact X0.
    destruct hit.
    + unfold processExcludedMove. rewrite X1. cbn [negb].
      destruct (nltb dE n0).
      * pose proof (processNonMove_frame s1' cmd dE) as F. destruct (processNonMove s1' cmd dE) as [s2 more]. cbn [fst] in *.
        destruct F as (_ & _ & _ & _ & _ & F & _). rewrite andb_false_r. intros _. rewrite F. exact L0.
      * cbn [fst]. rewrite andb_false_r. intros _. exact L0.
    + rewrite X1. destruct (exit_shape c s1' X1) as (r & _ & _ & E & _).
      destruct (exitExcludedRegion c s1') as [s2 cmds]. cbn [fst] in *. congruence.
  - pose proof (processNonMove_frame s1 cmd dE) as F. destruct (processNonMove s1 cmd dE) as [s2 cmds]. cbn [fst] in *.
    destruct F as (_ & _ & _ & _ & _ & F & _). intros _. rewrite F. exact L0.
Qed.

Lemma handle_lastpos_inside c (s : fstateR) (m : icmdR) : excluding s = true -> excluding (fst (handle c s m)) = true ->
  lastPosition (fst (handle c s m)) = lastPosition s.
Proof.
  intros X X'. destruct (linear m) eqn:L; [|apply (handle_nonlinear c s m L)].
  revert X'. unfold handle. destruct (linear_cases m L) as [E|(E0 & E)]; rewrite ?E0, E.
  - unfold handle_G0. apply plm_lastpos_inside; exact X.
  - unfold handle_G2. destruct (match word "R" (cwords m) with Some _ => _ | None => _ end) as [i j].
    destruct (nonzero i || nonzero j); [apply plm_lastpos_inside; exact X | reflexivity].
Qed.

(** what a command of the file does to the reference printer when it is G0-G3 *)
Lemma exec_linear g (P : printerR) (m : icmdR) : linear m = true -> exec_cmd g P (ccode m) (cwords m) = exec_move P (cwords m).
Proof. unfold linear, exec_cmd. intros ->. reflexivity. Qed.

(** no homing while an episode is open (finding D14) *)
Definition no_home_inside (s : fstateR) (m : icmdR) : Prop := excluding s = true -> ccode m <> "G28"%string.

Lemma outs_to_result (m : icmdR) l : outs m (to_result l) = l.
Proof. destruct l; reflexivity. Qed.

Lemma Track_ext (a b : fstateR) (U : printerR) : position a = position b -> frMult a = frMult b -> Track b U -> Track a U.
Proof. intros P Fm [A B C D E F G]. constructor; rewrite ?P, ?Fm; assumption. Qed.

Lemma opening_is_linear c (s : fstateR) (m : icmdR) : excluding (fst (handle c s m)) <> excluding s -> linear m = true.
Proof. intros H. destruct (linear m) eqn:L; [reflexivity|]. exfalso. apply H. apply (handle_nonlinear c s m L). Qed.

(** *** phase: inside -> inside *)
Lemma fsync_inside c (s : fstateR) (F U : printerR) (m : icmdR) :
  Track s U -> FSync s F U -> wf_cmd c U m -> no_home_inside s m ->
  excluding s = true -> excluding (fst (handle c s m)) = true ->
  FSync (fst (handle c s m)) (run_outs (g90e c) m F (outs m (snd (handle c s m)))) (exec_cmd (g90e c) U (ccode m) (cwords m)).
Proof.
  intros TR [FA FE FU FO FI] WF NH X X'.
  pose proof (handle_lastpos_inside c s m X X') as LP.
  pose proof (handle_inside c s m X X') as HI.
  destruct (FI X) as (IX & IY & IZ).
  destruct (snd (handle c s m)) as [| |l] eqn:R.
  - (* Unchanged: a pass-through command, executed by both printers *)
    assert (L : linear m = false).
    { destruct (linear m) eqn:L; [|reflexivity]. destruct (unchanged_linear c s m R L) as (A & ND).
      destruct WF as (_ & _ & W & _). destruct (W A) as (_ & W2). congruence. }
    cbn [outs run_outs fold_left exec_out].
    destruct (exec_nonlinear_xyz (g90e c) F m L (NH X)) as (A1 & A2 & A3).
    destruct (exec_cmd_frame (g90e c) F U (ccode m) (cwords m) FA FE FU) as (B1 & B2 & B3).
    constructor; try assumption; [intros H; congruence|]. intros _. rewrite LP, A1, A2, A3. auto.
  - (* Suppress *)
    assert (NU : snd (handle c s m) <> Unchanged) by (rewrite R; discriminate).
    destruct (changed_frame c s m (g90e c) U NU) as (B1 & B2 & B3 & _).
    cbn [outs run_outs fold_left]. constructor; try congruence. intros _. rewrite LP. auto.
  - (* a retraction *)
    assert (NU : snd (handle c s m) <> Unchanged) by (rewrite R; discriminate).
    destruct (changed_frame c s m (g90e c) U NU) as (B1 & B2 & B3 & _).
    cbn [outs].
    assert (Q : Forall quiet_out l) by (eapply Forall_impl; [intros o; apply retract_is_quiet | exact HI]).
    destruct (run_quiet (g90e c) m l F Q) as (A1 & A2 & A3 & A4 & A5 & A6).
    constructor; try congruence. intros _. rewrite LP, A1, A2, A3. auto.
Qed.

(** *** phase: outside -> inside (the episode opens) *)
Lemma fsync_opening c (s : fstateR) (F U : printerR) (m : icmdR) :
  Track s U -> FSync s F U -> excluding s = false -> excluding (fst (handle c s m)) = true ->
  FSync (fst (handle c s m)) (run_outs (g90e c) m F (outs m (snd (handle c s m)))) (exec_cmd (g90e c) U (ccode m) (cwords m)).
Proof.
  intros [Hum Hea Hx Hy Hz He Hfm] [FA FE FU FO FI] X X'.
  assert (L : linear m = true) by (apply (opening_is_linear c s); congruence).
  destruct (handle_opening c s m X X') as (rest & R & RQ & LP & _).
  rewrite R, outs_to_result, (exec_linear _ U m L).
  destruct (exec_move_fields U (cwords m)) as (_ & _ & _ & _ & B1 & B2 & B3 & _).
  assert (Q : Forall quiet_out (map Script (enterS c) ++ rest)).
  { apply Forall_app. split.
    - apply Forall_forall. intros o Ho. apply in_map_iff in Ho. destruct Ho as (t & <- & _). exact I.
    - eapply Forall_impl; [intros o; apply retract_is_quiet | exact RQ]. }
  destruct (run_quiet (g90e c) m _ F Q) as (A1 & A2 & A3 & A4 & A5 & A6).
  destruct (FO X) as (OX & OY & OZ & _).
  constructor; try congruence. intros _. rewrite LP, A1, A2, A3, OX, OY, OZ.
  destruct Hx as (X1 & _), Hy as (Y1 & _), Hz as (Z1 & _). auto.
Qed.

(** *** phase: inside -> outside (the episode closes) *)
Lemma fsync_closing c (s : fstateR) (F U : printerR) (m : icmdR) :
  Track s U -> FSync s F U -> wf_cmd c U m -> excluding s = true -> excluding (fst (handle c s m)) = false ->
  FSync (fst (handle c s m)) (run_outs (g90e c) m F (outs m (snd (handle c s m)))) (exec_cmd (g90e c) U (ccode m) (cwords m)).
Proof.
  intros TR [FA FE FU FO FI] WF X X'.
  pose proof (track_step c s U m TR WF) as TR'.
  assert (L : linear m = true) by (apply (opening_is_linear c s); congruence).
  destruct (handle_closing c s m X X') as (s1 & X1 & _ & L1 & R & S').
  destruct (exit_shape c s1 X1) as (rs & _ & _ & _ & _ & P1 & _).
  assert (FM : frMult (fst (exitExcludedRegion c s1)) = frMult s1) by (unfold exitExcludedRegion; rewrite X1; reflexivity).
  assert (TR1 : Track s1 (exec_cmd (g90e c) U (ccode m) (cwords m))).
  { apply (Track_ext s1 (fst (handle c s m))); [rewrite S'; symmetry; exact P1 | rewrite S'; symmetry; exact FM | exact TR']. }
  rewrite R, outs_to_result.
  destruct (FI X) as (IX & IY & IZ). rewrite <- L1 in IX, IY, IZ.
  assert (FR : qabs (exec_cmd (g90e c) U (ccode m) (cwords m)) = qabs U /\ qeabs (exec_cmd (g90e c) U (ccode m) (cwords m)) = qeabs U /\
               qum (exec_cmd (g90e c) U (ccode m) (cwords m)) = qum U).
  { rewrite (exec_linear _ U m L). destruct (exec_move_fields U (cwords m)) as (_ & _ & _ & _ & B1 & B2 & B3 & _). auto. }
  destruct FR as (B1 & B2 & B3).
  destruct (exit_exec (g90e c) m c s1 F _ X1 TR1 ltac:(congruence) ltac:(congruence) ltac:(congruence) IX IY IZ)
    as (A1 & A2 & A3 & A4 & A5 & A6 & A7).
  constructor; [congruence | congruence | congruence | intros _; auto | intros H; congruence].
Qed.

(** *** phase: outside -> outside *)
Record agree (P Q : printerR) : Prop := mkAgree {
  a_x : qx P = qx Q; a_y : qy P = qy Q; a_z : qz P = qz Q; a_e : qe P = qe Q;
  a_abs : qabs P = qabs Q; a_eabs : qeabs P = qeabs Q; a_um : qum P = qum Q }.

Lemma recoverIfNeeded_outside_e (s : fstateR) cmd b : excluding s = false ->
  exists pre, snd (recoverRetractionIfNeeded s cmd b) = pre ++ [Orig cmd] /\
              (pre = [] \/ exists lr, pre = retr_cmds lr true (position s)).
Proof.
  intros X. unfold recoverRetractionIfNeeded, recoverRetraction. destruct (lastRetraction s) as [lr|]; rewrite X; cbn.
  - destruct (recoverExcluded lr); [|exists []; auto].
    eexists. split; [reflexivity|]. right. eexists. reflexivity.
  - exists []. auto.
Qed.

(** generated commands that leave the extruder coordinate where it was, then the original command *)
Lemma sync_pre_orig g (m : icmdR) t (F U : printerR) pre : agree F U -> qeabs U = true ->
  same_xyz_frame F (run_outs g m F pre) ->
  (qe (run_outs g m F pre) = qe F \/ (linear m = true /\ word "E" (cwords m) <> None)) ->
  agree (run_outs g m F (pre ++ [Orig t])) (exec_cmd g U (ccode m) (cwords m)).
Proof.
  intros [AX AY AZ AE AA AEA AU] EA (S1 & S2 & S3 & S4 & S5 & S6) HE.
  unfold run_outs in *. rewrite fold_left_app. cbn [fold_left exec_out].
  set (Fp := fold_left (exec_out g m) pre F) in *.
  destruct HE as [HE|(L & WE)].
  - destruct (exec_cmd_agree g Fp U (ccode m) (cwords m)) as (B1 & B2 & B3 & B4); try congruence.
    destruct (exec_cmd_frame g Fp U (ccode m) (cwords m)) as (C1 & C2 & C3); try congruence.
    constructor; assumption.
  - rewrite !(exec_linear _ _ m L).
    destruct (exec_move_fields Fp (cwords m)) as (X1 & X2 & X3 & X4 & X5 & X6 & X7 & _).
    destruct (exec_move_fields U (cwords m)) as (Y1 & Y2 & Y3 & Y4 & Y5 & Y6 & Y7 & _).
    constructor; rewrite ?X1, ?X2, ?X3, ?X4, ?X5, ?X6, ?X7, ?Y1, ?Y2, ?Y3, ?Y4, ?Y5, ?Y6, ?Y7, ?S1, ?S2, ?S3, ?S4, ?S5, ?S6; try congruence.
    destruct (word "E" (cwords m)) as [v|]; [|congruence]. unfold tgt. rewrite AEA, EA, AU. reflexivity.
Qed.

Lemma agree_fsync (s : fstateR) (F U : printerR) : excluding s = false -> agree F U -> FSync s F U.
Proof. intros X [A B C D E G H]. constructor; auto. intros Y. congruence. Qed.

Lemma plm_outside_sync c (s : fstateR) (F U : printerR) (m : icmdR) z pts :
  Track s U -> FSync s F U -> linear m = true ->
  Track (fst (processLinearMoves c s (ctext m) (word "E" (cwords m)) (word "F" (cwords m)) z pts)) (exec_move U (cwords m)) ->
  (z = None -> all_none pts -> word "X" (cwords m) = None /\ word "Y" (cwords m) = None /\ word "Z" (cwords m) = None) ->
  excluding s = false ->
  excluding (fst (processLinearMoves c s (ctext m) (word "E" (cwords m)) (word "F" (cwords m)) z pts)) = false ->
  FSync (fst (processLinearMoves c s (ctext m) (word "E" (cwords m)) (word "F" (cwords m)) z pts))
        (run_outs (g90e c) m F (outs m (snd (processLinearMoves c s (ctext m) (word "E" (cwords m)) (word "F" (cwords m)) z pts))))
        (exec_cmd (g90e c) U (ccode m) (cwords m)).
Proof.
  intros TR FS L TR' NOXYZ X X'. pose proof TR as [Hum Hea Hx Hy Hz He Hfm]. pose proof FS as [FA FE FU FO FI].
  destruct (FO X) as (OX & OY & OZ & OE).
  assert (AG : agree F U) by (constructor; assumption).
  apply agree_fsync; [exact X'|].
  destruct (plm_outside_shape c s (ctext m) _ _ z pts X X') as [(pre & R & Q & PE)|(R & ZN & AN)]; rewrite R; cbn [outs].
  - apply sync_pre_orig; [exact AG | exact Hea | apply run_quiet; exact Q |].
    destruct (word "E" (cwords m)) eqn:WE; [right; split; [exact L | discriminate] | left; rewrite (PE eq_refl); reflexivity].
  - (* the retraction was dropped: only G92 E is sent *)
    rewrite (exec_linear _ U m L). destruct TR' as [Hum' Hea' Hx' Hy' Hz' He' Hfm'].
    destruct (exec_move_fields U (cwords m)) as (Y1 & Y2 & Y3 & Y4 & Y5 & Y6 & Y7 & _).
    destruct (NOXYZ ZN AN) as (WX & WY & WZ). rewrite WX, WY, WZ in *. cbn [tgt] in Y1, Y2, Y3.
    cbn [run_outs fold_left exec_out]. unfold set_e.
    constructor; cbn [qx qy qz qe qabs qeabs qum]; try congruence.
    rewrite Y7 in He'. rewrite FU. apply (n2l_mul _ _ _ Hum He').
Qed.

Lemma sync_orig_only g (m : icmdR) t (F U : printerR) : agree F U -> qeabs U = true ->
  agree (run_outs g m F [Orig t]) (exec_cmd g U (ccode m) (cwords m)).
Proof.
  intros AG EA. apply (sync_pre_orig g m t F U [] AG EA); [apply sxf_refl | left; reflexivity].
Qed.

Lemma fsync_outside c (s : fstateR) (F U : printerR) (m : icmdR) :
  Track s U -> FSync s F U -> wf_cmd c U m -> excluding s = false -> excluding (fst (handle c s m)) = false ->
  FSync (fst (handle c s m)) (run_outs (g90e c) m F (outs m (snd (handle c s m)))) (exec_cmd (g90e c) U (ccode m) (cwords m)).
Proof.
  intros TR FS WF X X'. pose proof (track_step c s U m TR WF) as TR'.
  pose proof TR as [Hum Hea Hx Hy Hz He Hfm]. pose proof FS as [FA FE FU FO FI].
  destruct (FO X) as (OX & OY & OZ & OE).
  assert (AG : agree F U) by (constructor; assumption).
  destruct (linear m) eqn:L.
  - (* G0-G3 *)
    rewrite (exec_linear _ U m L) in TR'. revert X' TR'. unfold handle.
    destruct (linear_cases m L) as [E|(E0 & E)]; rewrite ?E0, E.
    + unfold handle_G0. intros X' TR'. apply plm_outside_sync; try assumption.
      intros ZN AN. inversion AN as [|? ? (A1 & A2) _]; subst. cbn in A1, A2. auto.
    + unfold handle_G2.
      destruct (match word "R" (cwords m) with Some _ => _ | None => _ end) as [i j].
      destruct (nonzero i || nonzero j).
      * intros X' TR'. apply plm_outside_sync; try assumption. discriminate.
      * cbn [fst snd outs]. intros _ _. apply agree_fsync; [exact X|]. apply sync_orig_only; assumption.
  - (* other commands *)
    apply agree_fsync; [exact X'|]. clear X' TR'. unfold handle. by_code m;
      try (exfalso; unfold linear in L; rewrite E in L; cbn in L; discriminate).
    + (* G10 *) unfold handle_G10. destruct (has_label "P" (cwords m) || has_label "L" (cwords m)) eqn:PL.
      { cbn [snd outs]. rewrite <- E. apply sync_orig_only; assumption. }
      destruct (recordRetraction_outside s (mkRetr false true true n0 n0 (ctext m)) X) as [(A & _)|(A & _)];
        destruct (recordRetraction s _) as [s1 cmds]; cbn [fst snd] in *; subst cmds; cbn [to_result outs].
      * rewrite <- E. apply sync_orig_only; assumption.
      * cbn [run_outs fold_left]. unfold exec_cmd. cbn [String.eqb Ascii.eqb Bool.eqb orb]. rewrite PL.
        destruct AG. constructor; cbn; assumption.
    + (* G11 *) unfold handle_G11.
      destruct (recoverIfNeeded_outside_e s (ctext m) true X) as (pre & A & PRE).
      destruct (recoverRetractionIfNeeded s (ctext m) true) as [s1 cmds]. cbn [fst snd] in *. subst cmds.
      assert (TRr : forall l : list (ocmd R), to_result (l ++ [Orig (ctext m)]) = Replace (l ++ [Orig (ctext m)])) by (intros [|a l]; reflexivity).
      rewrite TRr. cbn [outs]. rewrite <- E.
      destruct PRE as [->|(lr & ->)]; [apply sync_orig_only; assumption|].
      assert (T : axis_tracks (pe (position s)) (qe U) true (qum F)) by (rewrite FU; exact He).
      destruct (retr_cmds_exec (g90e c) m F lr true (position s) (qe U) ltac:(congruence) ltac:(congruence) T) as (S1 & S2).
      apply sync_pre_orig; [exact AG | exact Hea | exact S1 |]. left. rewrite S2. destruct (fw lr); congruence.
    + (* G20 *) cbn [snd outs]. rewrite <- E. apply sync_orig_only; assumption.
    + cbn [snd outs]. rewrite <- E. apply sync_orig_only; assumption.
    + cbn [snd outs]. rewrite <- E. apply sync_orig_only; assumption.
    + cbn [snd outs]. rewrite <- E. apply sync_orig_only; assumption.
    + cbn [snd outs]. rewrite <- E. apply sync_orig_only; assumption.
    + cbn [snd outs]. rewrite <- E. apply sync_orig_only; assumption.
    + cbn [snd outs]. rewrite <- E. apply sync_orig_only; assumption.
    + (* codes without a handler *)
      other_code m E. unfold processExtendedGcode. rewrite X, andb_false_r. cbn [snd outs].
      apply sync_orig_only; assumption.
Qed.

(** *** the step theorem *)
Theorem fsync_step c (s : fstateR) (F U : printerR) (m : icmdR) :
  Track s U -> FSync s F U -> wf_cmd c U m -> no_home_inside s m ->
  FSync (fst (handle c s m)) (run_outs (g90e c) m F (outs m (snd (handle c s m)))) (exec_cmd (g90e c) U (ccode m) (cwords m)).
Proof.
  intros TR FS WF NH.
  destruct (excluding s) eqn:X; destruct (excluding (fst (handle c s m))) eqn:X'.
  - apply fsync_inside; assumption.
  - apply fsync_closing; assumption.
  - apply fsync_opening; assumption.
  - apply fsync_outside; assumption.
Qed.
