(** Reference printer: the stated assumption about how a Marlin-style firmware executes the dialect
    the properties talk about (positions in native mm).  Independent of the filter model: it reads a
    command's code and words only.  Python twin: harness/refprinter.py. *)
From Coq Require Import String Ascii List Bool.
From ER Require Import Base.Num Model.Geometry Model.Axis Model.Filter.
Import ListNotations.
Local Open Scope string_scope.
Local Open Scope list_scope.
Local Open Scope num_scope.

Section Printer.
Context {T : Type} {N : Num T}.

Record printer := mkP {
  qx : T; qy : T; qz : T;          (* native position *)
  qe : T;                          (* extruder coordinate (native; G92 E sets it) *)
  qabs : bool; qeabs : bool;       (* positioning mode of X/Y/Z and of E *)
  qum : T;                         (* unit multiplier *)
  qdep : T;                        (* retraction depth: filament high-water mark minus filament position *)
  qfw : bool                       (* firmware-retracted *)
}.

Definition nmax (a b : T) : T := if a <=? b then b else a.

Definition tgt (ab : bool) (um cur : T) (w : option T) : T :=
  match w with
  | Some v => if ab then v * um else cur + v * um
  | None => cur
  end.
(** extruder move to native coordinate e': pushes e' - e of filament *)
Definition push (P : printer) (e' : T) : printer :=
  mkP (qx P) (qy P) (qz P) e' (qabs P) (qeabs P) (qum P) (nmax n0 (qdep P - (e' - qe P))) (qfw P).

Definition exec_move (P : printer) (ws : list (witem T)) : printer :=
  let P1 := mkP (tgt (qabs P) (qum P) (qx P) (word "X" ws)) (tgt (qabs P) (qum P) (qy P) (word "Y" ws))
                (tgt (qabs P) (qum P) (qz P) (word "Z" ws)) (qe P) (qabs P) (qeabs P) (qum P) (qdep P) (qfw P) in
  match word "E" ws with
  | Some v => push P1 (if qeabs P then v * qum P else qe P + v * qum P)
  | None => P1
  end.

Definition set_e (P : printer) (e : T) : printer :=
  mkP (qx P) (qy P) (qz P) e (qabs P) (qeabs P) (qum P) (qdep P) (qfw P).

(** one command, given by its (normalised) code and words; [g90e] = G90/G91 also switch the extruder *)
Definition exec_cmd (g90e : bool) (P : printer) (g : string) (ws : list (witem T)) : printer :=
  if String.eqb g "G0" || String.eqb g "G1" || String.eqb g "G2" || String.eqb g "G3" then exec_move P ws
  else if String.eqb g "G92" then
    (* in the verified dialect G92 carries E only; X/Y/Z re-basing is outside it (finding D18) *)
    match word "E" ws with Some v => set_e P (v * qum P) | None => P end
  else if String.eqb g "G28" then
    let hx := has_label "X" ws in let hy := has_label "Y" ws in let hz := has_label "Z" ws in
    let all := negb (hx || hy || hz) in
    mkP (if hx || all then n0 else qx P) (if hy || all then n0 else qy P) (if hz || all then n0 else qz P)
        (qe P) (qabs P) (qeabs P) (qum P) (qdep P) (qfw P)
  else if String.eqb g "G90" then mkP (qx P) (qy P) (qz P) (qe P) true (if g90e then true else qeabs P) (qum P) (qdep P) (qfw P)
  else if String.eqb g "G91" then mkP (qx P) (qy P) (qz P) (qe P) false (if g90e then false else qeabs P) (qum P) (qdep P) (qfw P)
  else if String.eqb g "G20" then mkP (qx P) (qy P) (qz P) (qe P) (qabs P) (qeabs P) inch (qdep P) (qfw P)
  else if String.eqb g "G21" then mkP (qx P) (qy P) (qz P) (qe P) (qabs P) (qeabs P) n1 (qdep P) (qfw P)
  else if String.eqb g "G10" then
    (if has_label "P" ws || has_label "L" ws then P
     else mkP (qx P) (qy P) (qz P) (qe P) (qabs P) (qeabs P) (qum P) (qdep P) true)
  else if String.eqb g "G11" then mkP (qx P) (qy P) (qz P) (qe P) (qabs P) (qeabs P) (qum P) (qdep P) false
  else P.

(** what reaches the printer, executed.  [m] is the command being processed: every [Orig] the filter emits
    is that command (Proofs/Outputs.v); scripts and deferred codes are assumed not to move the tool. *)
Definition exec_out (g90e : bool) (m : icmd T) (P : printer) (o : ocmd T) : printer :=
  match o with
  | Orig _ => exec_cmd g90e P (ccode m) (cwords m)
  | SetE e => set_e P (e * qum P)
  | MoveZ _ z => exec_move P [("Z", MNum z)]
  | MoveXY _ x y => exec_move P [("X", MNum x); ("Y", MNum y)]
  | ExtrudeTo _ e => exec_move P [("E", MNum e)]
  | FwCmd rec _ => mkP (qx P) (qy P) (qz P) (qe P) (qabs P) (qeabs P) (qum P) (qdep P) (negb rec)
  | Script _ | Deferred _ | Merged _ _ => P
  end.

Definition outs (m : icmd T) (r : result T) : list (ocmd T) :=
  match r with Unchanged => [Orig (ctext m)] | Suppress => [] | Replace l => l end.

Definition init_printer : printer := mkP n0 n0 n0 n0 true true n1 n0 false.

End Printer.
Arguments printer T : clear implicits.
