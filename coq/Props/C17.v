(** C17 -- Region geometry is sound.  Property theorems only; proofs live in Proofs/. *)
From Coq Require Import Reals Bool.
From ER Require Import Base.GenPrelude Gen.GenRegions Model.Geometry Proofs.RegionsGen Proofs.Tie Proofs.Regions.
Open Scope R_scope.

(** (a) generated [containsPoint] is membership in the closed rectangle / closed disc *)
Theorem C17_rect_point : forall q x y, rect_containsPoint q x y = true <-> (x1 q <= x <= x2 q /\ y1 q <= y <= y2 q).
Proof. exact rect_point_spec. Qed.
Theorem C17_circle_point : forall c x y, circ_containsPoint c x y = true <-> hypot (x - cx c) (y - cy c) <= r c.
Proof. exact circ_point_dist. Qed.
(** (b) a rectangle behaves identically however its corners are ordered *)
Theorem C17_corner_order : forall i (a b c d x y : R),
  contains_point (mk_rect i a b c d) x y = contains_point (mk_rect i c d a b) x y /\
  contains_point (mk_rect i a b c d) x y = contains_point (mk_rect i c b a d) x y /\
  contains_point (mk_rect i a b c d) x y = contains_point (mk_rect i a d c b) x y.
Proof. exact corner_order. Qed.
(** (c) containment reports are sound, all four type combinations (generated code) *)
Theorem C17_rect_rect : forall o i, rect_containsRegion_rect o i = true -> forall x y, rect_containsPoint i x y = true -> rect_containsPoint o x y = true.
Proof. exact rect_rect_sound. Qed.
Theorem C17_rect_circ : forall o i, rect_containsRegion_circ o i = true -> forall x y, circ_containsPoint i x y = true -> rect_containsPoint o x y = true.
Proof. exact rect_circ_sound. Qed.
Theorem C17_circ_rect : forall o i, circ_containsRegion_rect o i = true -> forall x y, rect_containsPoint i x y = true -> circ_containsPoint o x y = true.
Proof. exact circ_rect_sound. Qed.
Theorem C17_circ_circ : forall o i, circ_containsRegion_circ o i = true -> forall x y, circ_containsPoint i x y = true -> circ_containsPoint o x y = true.
Proof. exact circ_circ_sound. Qed.
(** the same on the executable model's R instance (tie) *)
Theorem C17_containsRegion_sound : forall o i : region R, contains_region o i = true -> forall x y, contains_point i x y = true -> contains_point o x y = true.
Proof. exact contains_region_sound. Qed.

Print Assumptions C17_rect_point.
Print Assumptions C17_circle_point.
Print Assumptions C17_corner_order.
Print Assumptions C17_rect_rect.
Print Assumptions C17_rect_circ.
Print Assumptions C17_circ_rect.
Print Assumptions C17_circ_circ.
Print Assumptions C17_containsRegion_sound.
