(** C08 -- Exclusion decisions are invariant under re-encoding of the same tool path. *)
From Coq Require Import Reals String List Bool.
From ER Require Import Base.Num Model.Geometry Model.Axis Model.Filter Spec.Printer
  Proofs.Transparent Proofs.Track Proofs.Reencode Proofs.Sync Proofs.Depth Base.GenPrelude Gen.GenAxis Proofs.TieAxis.
Import ListNotations.
Open Scope R_scope.

(** the decision for a linear move is a function of the regions and of the file's NATIVE destination only
    (whatever units, positioning mode or offsets were used to write it) *)
Theorem C08_decision_is_native : forall c (s : fstate R) (U : printer R) (m : icmd R), Track s U -> wf_cmd c U m -> is_G01 m = true ->
  cmd_hits s m = enabled s && any_contains (regions s) (qx (exec_cmd (g90e c) U (ccode m) (cwords m))) (qy (exec_cmd (g90e c) U (ccode m) (cwords m))).
Proof. exact decision_is_native. Qed.

(** hence: inches instead of millimetres, relative instead of absolute coordinates -- any two encodings that the
    reference printer maps to the same native destination are decided alike *)
Theorem C08_same_path_same_decision : forall c1 c2 (s1 s2 : fstate R) (U1 U2 : printer R) (m1 m2 : icmd R),
  Track s1 U1 -> Track s2 U2 -> wf_cmd c1 U1 m1 -> wf_cmd c2 U2 m2 -> is_G01 m1 = true -> is_G01 m2 = true ->
  regions s1 = regions s2 -> enabled s1 = enabled s2 ->
  qx (exec_cmd (g90e c1) U1 (ccode m1) (cwords m1)) = qx (exec_cmd (g90e c2) U2 (ccode m2) (cwords m2)) ->
  qy (exec_cmd (g90e c1) U1 (ccode m1) (cwords m1)) = qy (exec_cmd (g90e c2) U2 (ccode m2) (cwords m2)) ->
  cmd_hits s1 m1 = cmd_hits s2 m2.
Proof. exact same_destination_same_decision. Qed.

(** translating the path and the regions by the same vector does not change membership *)
Theorem C08_translation : forall vx vy (rs : list (region R)) x y,
  any_contains (map (translate vx vy) rs) (x + vx) (y + vy) = any_contains rs x y.
Proof. exact translation_invariant. Qed.

(** and where the printer physically ends up is the file's native position in every encoding (simulation invariant) *)
Theorem C08_physical_position : forall c rs (h : list hev), wf_hist c (mkSim (init_state rs) init_printer init_printer) h ->
  let x := hrun c (mkSim (init_state rs) init_printer init_printer) h in
  excluding (sm_s x) = false -> qx (sm_F x) = qx (sm_U x) /\ qy (sm_F x) = qy (sm_U x) /\ qz (sm_F x) = qz (sm_U x).
Proof.
  intros c rs h W x X. destruct (sync_outside c rs h W) as (_ & _ & _ & H). destruct (H X) as (A & B & C & _). auto.
Qed.

(** the G92 X/Y/Z re-basing is outside these theorems' dialect ([wf_cmd]): finding D18 (refuted on the implementation
    by the oracle of this check, pinned by the test_setLogicalOffsetPosition tests) *)

(** non-vacuity: the dialect predicates of the theorems above are met by a concrete program (print, retract, travel into
    and out of the region area, recover, print) for any region set *)
Theorem C08_premises_satisfiable : forall rs : list (region R),
  wf_hist ex_cfg (mkSim (init_state rs) init_printer init_printer) ex_hist.
Proof. intros rs. exact (proj1 (depth_premises_satisfiable rs)). Qed.


(** the axis arithmetic these theorems speak about is the code's: every conversion and every state-changing method of AxisPosition, as
    GENERATED from /repo on this run, computes what the model's axis operations compute (for all axis states and arguments, over the reals) *)
Theorem C08_axis_model_is_the_code : forall (a : axis R) (v : R) (b : bool),
  l2n a v = axis_logicalToNative (axisR a) v /\ n2l a = axis_nativeToLogical (axisR a) /\
  axisR (set_logical a v) = axis_setLogicalPosition (axisR a) v /\
  axisR (set_offset_pos a v) = axis_setLogicalOffsetPosition (axisR a) v /\
  axisR (set_home_offset a v) = axis_setHomeOffset (axisR a) v /\
  axisR (set_home a) = axis_setHome (axisR a) /\
  axisR (set_um a v) = axis_setUnitMultiplier (axisR a) v /\
  axisR (set_absm a b) = axis_setAbsoluteMode (axisR a) b.
Proof. exact axis_model_is_the_code. Qed.

Print Assumptions C08_decision_is_native.
Print Assumptions C08_same_path_same_decision.
Print Assumptions C08_translation.
Print Assumptions C08_physical_position.
Print Assumptions C08_premises_satisfiable.
Print Assumptions C08_axis_model_is_the_code.
