(** C19 -- Parameter extraction matches the RS274 / Marlin reading.
    PARTIAL: proved for all inputs: the number reader (sign, digits, optional fraction; a trailing point and an
    exponent letter are not part of the number) and that the handlers act on the LAST value given for each letter.
    The statement "for every word list and every legal spelling the tokenizer yields exactly the word list" is decided on
    the implementation and on the model by the exhaustive + random `words` stream of this check; its Coq proof over the
    fuelled loop is not finished (DESIGN.md, C19). *)
From Coq Require Import QArith NArith String Ascii List Bool.
From ER Require Import Base.Num Model.Lexer Model.Words Model.Geometry Model.Axis Model.Filter Proofs.WordsProps.
Import ListNotations.
Local Open Scope string_scope.

Theorem C19_last_wins : forall (T : Type) l (before after : list (witem T)) v,
  no_num l after -> word l (before ++ (l, MNum v) :: after) = Some v.
Proof. exact @word_last_wins. Qed.
Theorem C19_absent : forall (T : Type) l (ws : list (witem T)), no_num l ws -> word l ws = None.
Proof. exact @word_absent. Qed.
Theorem C19_valueless_ignored : forall (T : Type) l (a b : list (witem T)) k, word l (a ++ (k, MNone) :: b) = word l (a ++ b).
Proof. exact @word_ignores_valueless. Qed.

Theorem C19_partial_number_decimal : forall sg ip fp r,
  (sg = "" \/ sg = "-" \/ sg = "+") -> all_digits ip -> all_digits fp -> ip <> "" -> fp <> "" -> stops r ->
  number (sg ++ ip ++ String "." fp ++ r) = Some (sg ++ ip ++ String "." fp, r).
Proof. exact number_reads_decimal. Qed.
Theorem C19_partial_number_integer : forall sg ip r,
  (sg = "" \/ sg = "-" \/ sg = "+") -> all_digits ip -> ip <> "" -> stops r -> number (sg ++ ip ++ r) = Some (sg ++ ip, r).
Proof. exact number_reads_integer. Qed.
Theorem C19_partial_trailing_point : forall sg ip r,
  (sg = "" \/ sg = "-" \/ sg = "+") -> all_digits ip -> ip <> "" ->
  (match r with "" => True | String c _ => Lexer.is_digit c = false end) ->
  number (sg ++ ip ++ String "." r) = Some (sg ++ ip, String "." r).
Proof. exact number_trailing_point. Qed.

Print Assumptions C19_last_wins.
Print Assumptions C19_absent.
Print Assumptions C19_valueless_ignored.
Print Assumptions C19_partial_number_decimal.
Print Assumptions C19_partial_number_integer.
Print Assumptions C19_partial_trailing_point.
