(** C19 -- Parameter extraction matches the RS274 / Marlin reading.
    Proved for ALL word lists and ALL legal spellings without exponent (blanks before the letter and between letter and
    number, either letter case, optional sign, integer / decimal / leading-point / trailing-point numbers, valueless flags,
    repeated letters, words glued together such as "X1Y2" or "X1E5"): the tokenizer (Model/Words.v, the model of
    GcodeParser.parameterItems, tied to the code by the exhaustive `words` stream) yields exactly the reference letter /
    number-text pairs in order, each number text denotes exactly the value of its digits, and the handlers act on the LAST
    value given for each letter (valueless occurrences give no value, wherever they stand).
    Modelled, not proved: Python's `re` engine and float() (the model's tokenizer is compared with them on every run). *)
From Coq Require Import QArith NArith String Ascii List Bool.
From ER Require Import Base.Num Model.Lexer Model.Words Model.Geometry Model.Axis Model.Filter Proofs.WordsProps Proofs.Spelling.
Import ListNotations.
Local Open Scope string_scope.

(** the tokenizer against the reference reading: every word list, every legal spelling *)
Theorem C19_tokenizer_all_spellings : forall ws trail, Forall word_ok ws -> fst (items (spell ws trail)) = reference ws.
Proof. exact tokenizer_reads_all_spellings. Qed.
(** each number text denotes exactly the reference value *)
Theorem C19_spelling_value : forall x txt v, num_ok x -> read_text x = Some txt -> read_value x = Some v -> number_value txt == v.
Proof. exact spelling_value. Qed.
(** non-vacuity: a concrete mixed spelling meets the premises and reads as expected *)
Theorem C19_witness :
  let ws := [mkW 2 "x" 0 (NDec SMinus "1" "5"); mkW 0 "Y" 0 (NDec SNone "" "5"); mkW 1 "e" 0 (NTrail SNone "5"); mkW 1 "z" 0 NFlag; mkW 1 "S" 0 NFlag] in
  spell ws 2 = "  x-1.5Y.5 e5. z S  " /\ fst (items (spell ws 2)) = [("X"%char, Some "-1.5"); ("Y"%char, Some ".5"); ("E"%char, Some "5"); ("Z"%char, None); ("S"%char, None)].
Proof. exact spelling_witness. Qed.

Theorem C19_last_wins : forall (T : Type) l (before after : list (witem T)) v,
  no_num l after -> word l (before ++ (l, MNum v) :: after) = Some v.
Proof. exact @word_last_wins. Qed.
Theorem C19_absent : forall (T : Type) l (ws : list (witem T)), no_num l ws -> word l ws = None.
Proof. exact @word_absent. Qed.
Theorem C19_valueless_ignored : forall (T : Type) l (a b : list (witem T)) k, word l (a ++ (k, MNone) :: b) = word l (a ++ b).
Proof. exact @word_ignores_valueless. Qed.

Theorem C19_number_decimal : forall sg ip fp r,
  (sg = "" \/ sg = "-" \/ sg = "+") -> all_digits ip -> all_digits fp -> ip <> "" -> fp <> "" -> stops r ->
  number (sg ++ ip ++ String "." fp ++ r) = Some (sg ++ ip ++ String "." fp, r).
Proof. exact number_reads_decimal. Qed.
Theorem C19_number_integer : forall sg ip r,
  (sg = "" \/ sg = "-" \/ sg = "+") -> all_digits ip -> ip <> "" -> stops r -> number (sg ++ ip ++ r) = Some (sg ++ ip, r).
Proof. exact number_reads_integer. Qed.
Theorem C19_trailing_point : forall sg ip r,
  (sg = "" \/ sg = "-" \/ sg = "+") -> all_digits ip -> ip <> "" ->
  (match r with "" => True | String c _ => Lexer.is_digit c = false end) ->
  number (sg ++ ip ++ String "." r) = Some (sg ++ ip, String "." r).
Proof. exact number_trailing_point. Qed.

Print Assumptions C19_tokenizer_all_spellings.
Print Assumptions C19_spelling_value.
Print Assumptions C19_witness.
Print Assumptions C19_last_wins.
Print Assumptions C19_absent.
Print Assumptions C19_valueless_ignored.
Print Assumptions C19_number_decimal.
Print Assumptions C19_number_integer.
Print Assumptions C19_trailing_point.
