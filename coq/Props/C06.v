(** C06 -- Deferred G-codes and enter/exit scripts: exactly once per exclusion episode. *)
From Coq Require Import QArith String List Bool Sorted.
From ER Require Import Base.Num Model.Geometry Model.Axis Model.Filter Proofs.FilterLemmas Proofs.Deferred Proofs.Outputs Proofs.Episode Proofs.DeferOrder.
Import ListNotations.

(** per code: the pending entry after any sequence of configured commands is the declarative reading
    (nothing for `exclude`, first text, last text, or the merged letter -> latest value map), one entry per code *)
Theorem C06_modes : forall (T : Type) (N : Num T) modef (seen : list (xmode * icmd T)), consistent modef seen ->
  NoDup (map fst (pend_after seen)) /\ forall g, assoc g (pend_after seen) = spec_entry (modef g) (of_code g seen).
Proof. intros T N modef seen C. split; [apply pend_nodup | apply pend_spec; exact C]. Qed.

(** a whole episode, whichever way it ends (the closing command, a disable @-command and the script hook
    all emit [exit_sequence]): deferred commands, then the exit script, then G92 E and the re-positioning
    moves; afterwards nothing is pending *)
Theorem C06_flush : forall (T : Type) (N : Num T) c (s : fstate T) (m0 : icmd T) (ms : list (icmd T)),
  excluding s = false -> no_leak s ->
  excluding (fst (handle c s m0)) = true -> inside_run c (fst (handle c s m0)) ms ->
  let s1 := run_state c (fst (handle c s m0)) ms in
  (forall g, assoc g (pending s1) = spec_entry (modef c g) (of_code g (seen_of c ms))) /\
  NoDup (map fst (pending s1)) /\
  exists resync,
    exit_sequence c s1 = pending_cmds (pending s1) ++ map Script (exitS c) ++ SetE (n2l (pe (position s1))) :: resync /\
    (forall o, In o resync -> match o with MoveZ _ _ | MoveXY _ _ _ => True | _ => False end) /\
    pending (fst (exitExcludedRegion c s1)) = [] /\ excluding (fst (exitExcludedRegion c s1)) = false.
Proof. exact @episode_flush. Qed.

(** order across codes: the pending list (hence the flushed commands, [pending_cmds] being a map) is ordered by the
    retained occurrence of each code -- the first one for `first` codes, the last one for `last` / `merge` codes *)
Theorem C06_order : forall (T : Type) (N : Num T) modef (seen : list (xmode * icmd T)), consistent modef seen ->
  StronglySorted (before modef seen) (map fst (pend_after seen)).
Proof. exact @pending_order. Qed.
Theorem C06_episode_order : forall (T : Type) (N : Num T) c (s : fstate T) (m0 : icmd T) (ms : list (icmd T)),
  excluding s = false -> no_leak s ->
  excluding (fst (handle c s m0)) = true -> inside_run c (fst (handle c s m0)) ms ->
  let s1 := run_state c (fst (handle c s m0)) ms in
  StronglySorted (before (modef c) (seen_of c ms)) (map fst (pending s1)) /\
  map fst (pending s1) = map fst (pend_after (seen_of c ms)).
Proof. exact @episode_order. Qed.

(** a configured code met inside an episode is withheld *)
Theorem C06_withheld : forall (T : Type) (N : Num T) c (s : fstate T) (m : icmd T) mode,
  excluding s = true -> excluding (fst (handle c s m)) = true -> deferred_mode c m = Some mode -> snd (handle c s m) = Suppress.
Proof. intros T N c s m mode X X' D. exact (proj2 (handle_pending_inside c s m X X') mode D). Qed.

(** the enter script is emitted exactly by the command that opens an episode ... *)
Theorem C06_enter_at_open : forall (T : Type) (N : Num T) c (s : fstate T) (m : icmd T),
  excluding s = false -> excluding (fst (handle c s m)) = true ->
  exists rest, snd (handle c s m) = to_result (map Script (enterS c) ++ rest) /\ Forall is_retract_out rest.
Proof. intros T N c s m X X'. destruct (handle_opening c s m X X') as (r & A & B & _). exists r. auto. Qed.
(** ... and by no command inside it (only retractions are generated there) *)
Theorem C06_no_script_inside : forall (T : Type) (N : Num T) c (s : fstate T) (m : icmd T),
  excluding s = true -> excluding (fst (handle c s m)) = true ->
  match snd (handle c s m) with Replace l => Forall is_retract_out l | _ => True end.
Proof. exact @handle_inside. Qed.
(** the closing command emits exactly the exit sequence *)
Theorem C06_exit_at_close : forall (T : Type) (N : Num T) c (s : fstate T) (m : icmd T),
  excluding s = true -> excluding (fst (handle c s m)) = false ->
  exists s1 : fstate T, excluding s1 = true /\ pending s1 = pending s /\ snd (handle c s m) = to_result (exit_sequence c s1).
Proof. intros T N c s m X X'. destruct (handle_closing c s m X X') as (s1 & A & B & _ & D & _). exists s1. auto. Qed.

(** nothing deferred leaks out of an episode (and so into a later one) *)
Theorem C06_no_leak : forall (T : Type) (N : Num T) c (s : fstate T) (m : icmd T), no_leak s -> no_leak (fst (handle c s m)).
Proof. exact @handle_no_leak. Qed.
Theorem C06_no_leak_at : forall (T : Type) (N : Num T) c (s : fstate T) st ms, no_leak s -> no_leak (fst (fst (handle_at c s st ms))).
Proof. exact @handle_at_no_leak. Qed.

(** Non-vacuity (Q instance): an episode opened by a move into a region, three deferred commands inside it. *)
Open Scope string_scope.
Definition ex6_cmd (t g : string) (ws : list (string * Q)) : icmd Q :=
  mkCmd t g (map (fun w => (fst w, MNum (snd w))) ws) None [].
Definition ex6_cfg : cfg := mkCfg false ["M117 in"] ["M117 out"] [("M204", XMerge); ("M117", XLast); ("G4", XExclude); ("M73", XFirst)].
Definition ex6_state : fstate Q := fst (handle ex6_cfg (init_state [Rect "a" (10#1) (10#1) (20#1) (20#1)]) (ex6_cmd "G1 X5 Y5 E1" "G1" [("X", 5#1); ("Y", 5#1); ("E", 1#1)])).
Definition ex6_open : icmd Q := ex6_cmd "G1 X15 Y15 E2" "G1" [("X", 15#1); ("Y", 15#1); ("E", 2#1)].
Definition ex6_inside : list (icmd Q) :=
  [ ex6_cmd "M204 S500" "M204" [("S", 500#1)]; mkCmd "M117 a" "M117" [("A", MNone); ("", MStr "a")] None [];
    ex6_cmd "G1 X16 Y16 E3" "G1" [("X", 16#1); ("Y", 16#1); ("E", 3#1)]; ex6_cmd "M204 P7" "M204" [("P", 7#1)]; ex6_cmd "M73 P5" "M73" [("P", 5#1)] ].
Example C06_nonvacuous :
  excluding ex6_state = false /\ no_leak ex6_state /\ excluding (fst (handle ex6_cfg ex6_state ex6_open)) = true /\
  inside_run ex6_cfg (fst (handle ex6_cfg ex6_state ex6_open)) ex6_inside /\
  map fst (pending (run_state ex6_cfg (fst (handle ex6_cfg ex6_state ex6_open)) ex6_inside)) = ["M117"; "M204"; "M73"].
Proof. vm_compute. repeat split; intros; reflexivity. Qed.

Print Assumptions C06_modes.
Print Assumptions C06_flush.
Print Assumptions C06_order.
Print Assumptions C06_episode_order.
Print Assumptions C06_withheld.
Print Assumptions C06_enter_at_open.
Print Assumptions C06_no_script_inside.
Print Assumptions C06_exit_at_close.
Print Assumptions C06_no_leak.
Print Assumptions C06_no_leak_at.
