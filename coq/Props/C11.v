(** C11 -- Filtering is gated by the print lifecycle. *)
From Coq Require Import String List Bool.
From ER Require Import Base.Num Model.Geometry Model.Axis Model.Filter Model.Plugin Proofs.PluginProps.
Import ListNotations.

(** a print is active exactly when the last start/end event of the history is print-started
    (pause, resume and all other events, hook invocations, settings updates and API requests are neutral) *)
Theorem C11_active_spec : forall (T : Type) (N : Num T) (h : list (pevent T)) (p : plugin T),
  active (fst (prun p h)) = active_spec (active p) h.
Proof. exact @active_follows_spec. Qed.

(** while no print is active the gcode and @-command hooks leave everything untouched and untracked and
    the script hook contributes nothing *)
Theorem C11_inert : forall (T : Type) (N : Num T) (p : plugin T), active p = false ->
  (forall m hg, pstep p (HookGcode m hg) = (p, PGcode Unchanged, [])) /\
  (forall st ms, pstep p (HookAt st ms) = (p, PSent [], [])) /\
  (forall b, pstep p (HookScript b) = (p, PNone, [])).
Proof. exact @inert_when_inactive. Qed.

(** selecting a file removes all regions; the end of a print removes them exactly when the setting is on *)
Theorem C11_regions : forall (T : Type) (N : Num T) (p : plugin T),
  regions (pst (fst (fst (pstep p EvFileSelected)))) = [] /\
  regions (pst (fst (fst (pstep p EvPrintEnd)))) = (if clearAfter p then [] else regions (pst p)) /\
  regions (pst (fst (fst (pstep p EvPrintStarted)))) = regions (pst p) /\
  regions (pst (fst (fst (pstep p EvOther)))) = regions (pst p).
Proof. exact @regions_lifecycle. Qed.

Print Assumptions C11_active_spec.
Print Assumptions C11_inert.
Print Assumptions C11_regions.
