(** C07 -- Commands synthesised by the filter are well-formed plain-decimal G-code.
    Proved for ALL digit strings and ALL decimal exponents: the text produced for a number is plain decimal -- the
    firmware-style (RS274) number reader consumes it completely (no exponent, no 'inf'/'nan', nothing left over) -- and it
    denotes exactly (-1)^neg * 0.ds * 10^k.  Whole commands: the parameter text of ANY rendered word list reads back
    (tokenizer of Model/Words.v) as exactly those letters with exactly those number texts and no remainder, and the
    argument list of every merged deferred command that can be pending has pairwise distinct non-empty labels.
    Fixed templates (G92 E / G0 F Z / G0 F X Y / G1 F E): any text the correspondence accepts as their rendering has that one
    code and exactly those pairwise distinct letters, each with a number (C07_template_shape); G10 / G11 carry the original
    command's parameters verbatim (C05).  The oracle of this check reads every generated command of the real handlers with an
    independent RS274 reader. *)
From Coq Require Import QArith ZArith String Ascii List Bool.
From ER Require Import Base.Num Model.Lexer Model.Words Model.Format Model.Axis Model.Filter Proofs.WordsProps Proofs.FormatProps Proofs.Deferred Proofs.CommandShape Model.Cases Model.Run Proofs.Templates.
Import ListNotations.
Local Open Scope string_scope.

Theorem C07_number_plain_decimal : forall neg ds k, all_digits ds -> ds <> "" ->
  number (layout neg ds k) = Some (layout neg ds k, "").
Proof. exact layout_is_plain_decimal. Qed.

(** ... and its value, as the firmware-style reader computes it, is exactly the value the digits stand for *)
Theorem C07_number_exact : forall neg ds k, all_digits ds -> ds <> "" -> number_value (layout neg ds k) == dec_value neg ds k.
Proof. exact layout_value_exact. Qed.

(** whole commands: the rendered words read back as themselves -- letter by letter, text by text, nothing left over *)
Theorem C07_words_read_back : forall ws, words_ok ws -> items (render_words ws) = (read_back ws, None).
Proof. exact generated_words_read_back. Qed.

(** merged deferred commands: distinct, non-empty parameter labels, after any sequence of deferred commands *)
Theorem C07_merged_labels_distinct : forall (T : Type) (N : Num T) modef (seen : list (xmode * icmd T)) g args,
  consistent modef seen -> assoc g (pend_after seen) = Some (PArgs args) -> NoDup (map fst args) /\ ~ In "" (map fst args).
Proof. exact @merged_labels_distinct. Qed.

(** the fixed templates: one code, the expected pairwise distinct letters, a number each *)
Theorem C07_template_shape : forall o e code letters, template o = Some (code, letters) -> ocmd_match o e = true ->
  ecode e = code /\ map fst (ewords e) = letters /\ NoDup letters /\ Forall (fun w => exists v, snd w = MNum v) (ewords e).
Proof. exact template_shape. Qed.

(** zero is rendered "0.0" / "-0.0" *)
Theorem C07_zero : layout false "" 0 = "0.0" /\ layout true "" 0 = "-0.0".
Proof. split; reflexivity. Qed.

(** witness that the formatting before the repair (str(float) alone) violated the property: 1e-05 is read as 1 followed
    by an extruder word E-05 (finding D11, repaired by commit 8967cf6) *)
Theorem C07_exponent_form_refuted : number (repr_exponent false "1" (-4)) = Some ("1", "e-05").
Proof. exact exponent_form_refuted. Qed.

Print Assumptions C07_number_plain_decimal.
Print Assumptions C07_number_exact.
Print Assumptions C07_words_read_back.
Print Assumptions C07_merged_labels_distinct.
Print Assumptions C07_template_shape.
Print Assumptions C07_zero.
Print Assumptions C07_exponent_form_refuted.
