(** C07 -- Commands synthesised by the filter are well-formed plain-decimal G-code.
    PARTIAL: proved for ALL digit strings and ALL decimal exponents: the text produced for a number is plain decimal --
    the firmware-style (RS274) number reader consumes it completely, so it contains no exponent, no 'inf'/'nan' and
    nothing else after the digits.  That the text denotes exactly the tracked value, and the one-code / distinct-letter
    shape of whole commands, are decided on the implementation by the oracle of this check (independent reader, exact
    comparison) and on the model by the character-for-character correspondence; their Coq proofs are not finished. *)
From Coq Require Import ZArith String Ascii List Bool.
From ER Require Import Model.Lexer Model.Words Model.Format Proofs.WordsProps Proofs.FormatProps.
Import ListNotations.
Local Open Scope string_scope.

Theorem C07_partial_number_plain_decimal : forall neg ds k, all_digits ds -> ds <> "" ->
  number (layout neg ds k) = Some (layout neg ds k, "").
Proof. exact layout_is_plain_decimal. Qed.

(** zero is rendered "0.0" / "-0.0" *)
Theorem C07_zero : layout false "" 0 = "0.0" /\ layout true "" 0 = "-0.0".
Proof. split; reflexivity. Qed.

(** witness that the formatting before the repair (str(float) alone) violated the property: 1e-05 is read as 1 followed
    by an extruder word E-05 (finding D11, repaired by commit 8967cf6) *)
Theorem C07_exponent_form_refuted : number (repr_exponent false "1" (-4)) = Some ("1", "e-05").
Proof. exact exponent_form_refuted. Qed.

Print Assumptions C07_partial_number_plain_decimal.
Print Assumptions C07_zero.
Print Assumptions C07_exponent_form_refuted.
