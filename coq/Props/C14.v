(** C14 -- @-commands switch exclusion off and on correctly. *)
From Coq Require Import QArith String List Bool.
From ER Require Import Base.Num Model.Geometry Model.Axis Model.Filter Proofs.FilterLemmas Proofs.Transparent Proofs.Deferred Proofs.Outputs.
Import ListNotations.

(** while disabled nothing is suppressed or rewritten and no episode opens *)
Theorem C14_disabled_forwards : forall (T : Type) (N : Num T) (c : cfg) (p : list (icmd T)) (s : fstate T),
  quiet s -> enabled s = false -> Forall2 verbatim p (snd (run_handle c s p)).
Proof. exact @transparent_while_disabled. Qed.
Theorem C14_disabled_never_opens : forall (T : Type) (N : Num T) (c : cfg) (s : fstate T) (m : icmd T),
  excluding s = false -> enabled s = false -> excluding (fst (handle c s m)) = false.
Proof.
  intros T N c s m X D. destruct (excluding (fst (handle c s m))) eqn:E; [|reflexivity].
  pose proof (handle_opens_only_on_hit c s m X E) as H. rewrite cmd_hits_disabled in H by exact D. discriminate.
Qed.

(** a disable that arrives mid-episode emits exactly what leaving the region would, and closes the episode *)
Theorem C14_disable_closes : forall (T : Type) (N : Num T) (c : cfg) (s : fstate T),
  enabled s = true -> excluding s = true ->
  snd (disableExclusion c s) = exit_sequence c s /\ excluding (fst (disableExclusion c s)) = false /\ enabled (fst (disableExclusion c s)) = false.
Proof. exact @disable_is_exit. Qed.
Theorem C14_disable_outside : forall (T : Type) (N : Num T) (c : cfg) (s : fstate T),
  excluding s = false -> snd (disableExclusion c s) = [] /\ excluding (fst (disableExclusion c s)) = false.
Proof. exact @disable_not_excluding. Qed.

(** the tool position keeps being tracked: the tracked position after a command does not depend on whether
    exclusion is enabled, an episode is open, or a retraction is outstanding *)
Theorem C14_tracking : forall (T : Type) (N : Num T) (c : cfg) (s s2 : fstate T) (m : icmd T),
  position s = position s2 -> position (fst (handle c s m)) = position (fst (handle c s2 m)).
Proof. exact @handle_position_indep. Qed.

(** @-commands matching no configured action, or arriving while streaming to SD, change nothing *)
Theorem C14_nop : forall (T : Type) (N : Num T) (c : cfg) (s : fstate T) ms,
  handle_at c s true ms = (s, false, []) /\ handle_at c s false [] = (s, false, []).
Proof. intros. split; reflexivity. Qed.

Print Assumptions C14_disabled_forwards.
Print Assumptions C14_disabled_never_opens.
Print Assumptions C14_disable_closes.
Print Assumptions C14_disable_outside.
Print Assumptions C14_tracking.
Print Assumptions C14_nop.
