(** C13 -- Region registry integrity and client notification. *)
From Coq Require Import String List Bool.
From ER Require Import Base.Num Model.Geometry Model.Axis Model.Filter Model.Plugin Proofs.PluginProps.
Import ListNotations.

(** for every step (event, hook invocation, request): ids stay unique; if the region list changed there is
    exactly one notification and it carries the new list; there is never more than one notification and it
    always carries the current list; a response other than 200 (rejected, unknown id, wrong type, anonymous)
    leaves the whole plugin untouched and notifies nothing *)
Theorem C13_registry_step : forall (T : Type) (N : Num T) (p : plugin T) (ev : pevent T), NoDup (ids (regions (pst p))) ->
  let '(p', r, n) := pstep p ev in
  NoDup (ids (regions (pst p'))) /\
  (regions (pst p') <> regions (pst p) -> n = [regions (pst p')]) /\
  (n = [] \/ n = [regions (pst p')]) /\
  (match r with PHttp c => c <> 200 -> p' = p /\ n = [] | _ => True end).
Proof. exact @registry_step. Qed.

(** over any history starting from the empty registry *)
Theorem C13_ids_unique : forall (T : Type) (N : Num T) (h : list (pevent T)) (p : plugin T),
  NoDup (ids (regions (pst p))) -> NoDup (ids (regions (pst (fst (prun p h))))).
Proof.
  intros T N h. induction h as [|ev t IH]; intros p ND; cbn; [exact ND|].
  pose proof (registry_step p ev ND) as R. destruct (pstep p ev) as [[p1 r] n]. destruct R as (R & _).
  specialize (IH p1 R). destruct (prun p1 t) as [p2 rs]. exact IH.
Qed.

(** GET returns the current list, in order *)
Theorem C13_get : forall (T : Type) (N : Num T) (p : plugin T), snd (fst (pstep p ApiGet)) = PList (regions (pst p)).
Proof. exact @get_returns_list. Qed.

Print Assumptions C13_registry_step.
Print Assumptions C13_ids_unique.
Print Assumptions C13_get.
