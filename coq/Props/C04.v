(** C04 -- Extruder coordinate and extruded amounts are preserved outside regions. *)
From Coq Require Import Reals String List Bool.
From ER Require Import Base.Num Model.Geometry Model.Axis Model.Filter Spec.Printer
  Proofs.FilterLemmas Proofs.Transparent Proofs.Deferred Proofs.Outputs Proofs.Track Proofs.FSync Proofs.Sync Proofs.MotionProps Proofs.Depth.
Import ListNotations.
Open Scope R_scope.

(** whenever no episode is open, the printer's extruder coordinate is the one the file assumes
    (absolute extrusion; G92 E anywhere; mm or inches; any region set, region additions, @-commands) *)
Theorem C04_e_preserved : forall c rs (h : list hev), wf_hist c (mkSim (init_state rs) init_printer init_printer) h ->
  let x := hrun c (mkSim (init_state rs) init_printer init_printer) h in
  excluding (sm_s x) = false -> qe (sm_F x) = qe (sm_U x) /\ qeabs (sm_F x) = qeabs (sm_U x) /\ qum (sm_F x) = qum (sm_U x).
Proof.
  intros c rs h W x X. destruct (sync_outside c rs h W) as (_ & A & B & C). destruct (C X) as (_ & _ & _ & D). auto.
Qed.

(** a move forwarded outside every region is executed by a printer that agrees with the file's printer in
    position, extruder coordinate, modes and units: it pushes exactly the filament the file specifies *)
Theorem C04_forwarded_move_pushes_file_amount : forall c (s : fstate R) (F U : printer R) (m : icmd R),
  Track s U -> FSync s F U -> wf_cmd c U m -> is_move m = true ->
  excluding s = false -> excluding (fst (handle c s m)) = false ->
  exists Fp, agree Fp U /\
    run_outs (g90e c) m F (outs m (snd (handle c s m))) = exec_cmd (g90e c) Fp (ccode m) (cwords m).
Proof. exact forwarded_move_same_start. Qed.

(** a suppressed command reaches the printer not at all: no filament is pushed *)
Theorem C04_suppressed_pushes_nothing : forall g (m : icmd R) (F : printer R), run_outs g m F (outs m Suppress) = F.
Proof. reflexivity. Qed.

(** non-vacuity: the dialect predicates of the theorems above are met by a concrete program (print, retract, travel into
    and out of the region area, recover, print) for any region set *)
Theorem C04_premises_satisfiable : forall rs : list (region R),
  wf_hist ex_cfg (mkSim (init_state rs) init_printer init_printer) ex_hist.
Proof. intros rs. exact (proj1 (depth_premises_satisfiable rs)). Qed.


Print Assumptions C04_e_preserved.
Print Assumptions C04_forwarded_move_pushes_file_amount.
Print Assumptions C04_suppressed_pushes_nothing.
Print Assumptions C04_premises_satisfiable.
