(** C05 -- Retractions are never doubled and are recovered before printing resumes.
    Proved over whole histories (commands, region additions, @-commands; any region set; mm or inches; relative or
    absolute positioning) in the E-only dialect with matched retract / recover cycles of one length L:
      depth(printer) = depth(file) + (L if a recovery is owed, else 0),
    hence  depth(file) <= depth(printer) <= L  (never shallower than the file assumes, never deeper than the deepest
    retraction the file requested), and a forwarded printing move that extrudes starts with the printer exactly as deep
    as the file (0): the commands in front of it have recovered what was owed.  The state-machine facts (owed, once,
    never doubled, firmware parameters carried) are proved for every state and every number instance.
    Firmware dialect (G10 / G11), same histories:  retracted(printer) = retracted(file) || owed,  owed only while the file
    is not retracted -- so G10 / G11 reach the printer with the file's parity, and a forwarded extruding move finds the
    printer un-retracted, the owed G11 (carrying the original parameters) standing in front of it. *)
From Coq Require Import Reals String List Bool.
From ER Require Import Base.Num Model.Geometry Model.Axis Model.Filter Proofs.FilterLemmas Proofs.Outputs Proofs.Retract Spec.Printer Proofs.Track Proofs.FSync Proofs.Sync Proofs.Depth Proofs.FwParity.
Import ListNotations.

(** the depth invariant over every well-formed history *)
Theorem C05_depth_invariant : forall c L rs (h : list hev), (0 < L)%R ->
  let x0 := mkSim (init_state rs) init_printer init_printer in
  wf_hist c x0 h -> dwf_hist L c x0 h ->
  let x := hrun c x0 h in
  (qdep (sm_U x) <= qdep (sm_F x) <= L)%R /\ (qdep (sm_U x) = 0 \/ qdep (sm_U x) = L)%R /\
  qdep (sm_F x) = (qdep (sm_U x) + match lastRetraction (sm_s x) with Some lr => if recoverExcluded lr then L else 0 | None => 0 end)%R.
Proof.
  intros c L rs h HL x0 W DW x. destruct (depth_run c L h HL x0 (sync_init rs) (dep_init L rs) W DW) as (_ & D).
  exact (dep_reading L _ _ _ HL D).
Qed.

(** a forwarded printing move that extrudes: the commands emitted in front of it bring the printer to the file's depth *)
Theorem C05_print_move_level : forall c L (s : fstate R) (F U : printer R) (m : icmd R),
  (0 < L)%R -> Track s U -> FSync s F U -> Dep L s F U -> wf_cmd c U m -> dwf L U m ->
  linear m = true -> moving m = true -> (0 < dE U (cwords m))%R ->
  excluding s = false -> excluding (fst (handle c s m)) = false ->
  exists pre, outs m (snd (handle c s m)) = (pre ++ [Orig (ctext m)])%list /\ qdep (run_outs (g90e c) m F pre) = 0%R /\ qdep U = 0%R.
Proof. exact handle_print_level. Qed.

(** the invariant is kept by every single step (this is what a changed handler has to re-establish) *)
Theorem C05_depth_step : forall c L (x : sim) (ev : hev), (0 < L)%R -> Sync x -> DepX L x ->
  match ev with HCmd m => wf_cmd c (sm_U x) m /\ no_home_inside (sm_s x) m | _ => True end ->
  match ev with HCmd m => dwf L (sm_U x) m | _ => True end -> DepX L (hstep c x ev).
Proof. exact dep_step. Qed.

(** non-vacuity: print, retract 4, travel, recover 4, print -- meets the premises for any region set *)
Theorem C05_premises_satisfiable : forall rs : list (region R),
  let x0 := mkSim (init_state rs) init_printer init_printer in
  wf_hist ex_cfg x0 ex_hist /\ dwf_hist 4 ex_cfg x0 ex_hist.
Proof. exact depth_premises_satisfiable. Qed.

(** firmware retraction: parity invariant over every well-formed history *)
Theorem C05_fw_parity_invariant : forall c rs (h : list hev),
  let x0 := mkSim (init_state rs) init_printer init_printer in
  wf_hist c x0 h -> fwf_hist c x0 h ->
  let x := hrun c x0 h in
  qfw (sm_F x) = (qfw (sm_U x) || match lastRetraction (sm_s x) with Some lr => recoverExcluded lr | None => false end) /\
  (match lastRetraction (sm_s x) with Some lr => recoverExcluded lr | None => false end = true -> qfw (sm_U x) = false).
Proof.
  intros c rs h x0 W DW x. destruct (fw_run c h x0 (sync_init rs) (fw_init rs) W DW) as (_ & D). exact (fw_reading _ _ _ D).
Qed.
Theorem C05_fw_print_move_level : forall c (s : fstate R) (F U : printer R) (m : icmd R),
  Track s U -> Fwp s F U -> wf_cmd c U m -> fwf U m ->
  linear m = true -> moving m = true -> (0 < dE U (cwords m))%R ->
  excluding s = false -> excluding (fst (handle c s m)) = false ->
  exists pre, outs m (snd (handle c s m)) = (pre ++ [Orig (ctext m)])%list /\ qfw (run_outs (g90e c) m F pre) = false /\ qfw U = false.
Proof. exact fw_handle_print_level. Qed.
Theorem C05_fw_step : forall c (x : sim) (ev : hev), Sync x -> FwX x ->
  match ev with HCmd m => wf_cmd c (sm_U x) m /\ no_home_inside (sm_s x) m | _ => True end ->
  match ev with HCmd m => fwf (sm_U x) m | _ => True end -> FwX (hstep c x ev).
Proof. exact fw_step. Qed.
Theorem C05_fw_premises_satisfiable : forall rs : list (region R),
  let x0 := mkSim (init_state rs) init_printer init_printer in
  wf_hist ex_cfg x0 fw_ex_hist /\ fwf_hist ex_cfg x0 fw_ex_hist.
Proof. exact fw_premises_satisfiable. Qed.

Theorem C05_recovery_inside_is_owed : forall (T : Type) (N : Num T) (s : fstate T) cmd lr,
  excluding s = true -> lastRetraction s = Some lr ->
  snd (recoverRetractionIfNeeded s cmd true) = [] /\
  exists lr', lastRetraction (fst (recoverRetractionIfNeeded s cmd true)) = Some lr' /\ recoverExcluded lr' = true /\
              amount lr' = amount lr /\ fw lr' = fw lr /\ rorig lr' = rorig lr.
Proof. exact @recovery_inside_is_owed. Qed.

Theorem C05_owed_recovery_once : forall (T : Type) (N : Num T) (s : fstate T) cmd b lr,
  excluding s = false -> lastRetraction s = Some lr -> recoverExcluded lr = true ->
  snd (recoverRetractionIfNeeded s cmd b) = retr_cmds (mkRetr true false (fw lr) (amount lr) (rfeed lr) (rorig lr)) true (position s) ++ [Orig cmd] /\
  lastRetraction (fst (recoverRetractionIfNeeded s cmd b)) = None.
Proof. exact @owed_recovery_emitted_once. Qed.

Theorem C05_no_double_retraction : forall (T : Type) (N : Num T) (s : fstate T) rt lr,
  excluding s = true -> lastRetraction s = Some lr ->
  (recoverExcluded lr = true \/ allowCombine lr = false) -> snd (recordRetraction s rt) = [].
Proof. exact @no_double_retraction. Qed.

Theorem C05_dropped_retraction : forall (T : Type) (N : Num T) (s : fstate T) rt lr,
  lastRetraction s = Some lr -> recoverExcluded lr = true ->
  snd (recordRetraction s rt) = [] /\
  exists lr', lastRetraction (fst (recordRetraction s rt)) = Some lr' /\ recoverExcluded lr' = false /\ amount lr' = amount lr.
Proof. exact @dropped_retraction_clears_debt. Qed.

Theorem C05_first_retraction_inside : forall (T : Type) (N : Num T) (s : fstate T) rt,
  excluding s = true -> lastRetraction s = None ->
  snd (recordRetraction s rt) = retr_cmds rt false (position s) /\ lastRetraction (fst (recordRetraction s rt)) = Some rt.
Proof. exact @first_retraction_inside_executed. Qed.

Print Assumptions C05_depth_invariant.
Print Assumptions C05_print_move_level.
Print Assumptions C05_depth_step.
Print Assumptions C05_premises_satisfiable.
Print Assumptions C05_fw_parity_invariant.
Print Assumptions C05_fw_print_move_level.
Print Assumptions C05_fw_step.
Print Assumptions C05_fw_premises_satisfiable.
Print Assumptions C05_recovery_inside_is_owed.
Print Assumptions C05_owed_recovery_once.
Print Assumptions C05_no_double_retraction.
Print Assumptions C05_dropped_retraction.
Print Assumptions C05_first_retraction_inside.
