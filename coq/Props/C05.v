(** C05 -- Retractions are never doubled and are recovered before printing resumes.
    PARTIAL: the state-machine facts below are proved for all states; the quantitative depth statement
    (depth U <= depth F <= deepest requested, equality at every forwarded printing move) over whole programs with
    matched equal-length cycles is decided on the implementation by the reference-printer oracle of this check
    and on the model by the correspondence; its Coq proof over the full model is not finished (DESIGN.md, C05). *)
From Coq Require Import String List Bool.
From ER Require Import Base.Num Model.Geometry Model.Axis Model.Filter Proofs.FilterLemmas Proofs.Outputs Proofs.Retract.
Import ListNotations.

Theorem C05_partial_recovery_inside_is_owed : forall (T : Type) (N : Num T) (s : fstate T) cmd lr,
  excluding s = true -> lastRetraction s = Some lr ->
  snd (recoverRetractionIfNeeded s cmd true) = [] /\
  exists lr', lastRetraction (fst (recoverRetractionIfNeeded s cmd true)) = Some lr' /\ recoverExcluded lr' = true /\
              amount lr' = amount lr /\ fw lr' = fw lr /\ rorig lr' = rorig lr.
Proof. exact @recovery_inside_is_owed. Qed.

Theorem C05_partial_owed_recovery_once : forall (T : Type) (N : Num T) (s : fstate T) cmd b lr,
  excluding s = false -> lastRetraction s = Some lr -> recoverExcluded lr = true ->
  snd (recoverRetractionIfNeeded s cmd b) = retr_cmds (mkRetr true false (fw lr) (amount lr) (rfeed lr) (rorig lr)) true (position s) ++ [Orig cmd] /\
  lastRetraction (fst (recoverRetractionIfNeeded s cmd b)) = None.
Proof. exact @owed_recovery_emitted_once. Qed.

Theorem C05_partial_no_double_retraction : forall (T : Type) (N : Num T) (s : fstate T) rt lr,
  excluding s = true -> lastRetraction s = Some lr ->
  (recoverExcluded lr = true \/ allowCombine lr = false) -> snd (recordRetraction s rt) = [].
Proof. exact @no_double_retraction. Qed.

Theorem C05_partial_dropped_retraction : forall (T : Type) (N : Num T) (s : fstate T) rt lr,
  lastRetraction s = Some lr -> recoverExcluded lr = true ->
  snd (recordRetraction s rt) = [] /\
  exists lr', lastRetraction (fst (recordRetraction s rt)) = Some lr' /\ recoverExcluded lr' = false /\ amount lr' = amount lr.
Proof. exact @dropped_retraction_clears_debt. Qed.

Theorem C05_partial_first_retraction_inside : forall (T : Type) (N : Num T) (s : fstate T) rt,
  excluding s = true -> lastRetraction s = None ->
  snd (recordRetraction s rt) = retr_cmds rt false (position s) /\ lastRetraction (fst (recordRetraction s rt)) = Some rt.
Proof. exact @first_retraction_inside_executed. Qed.

Print Assumptions C05_partial_recovery_inside_is_owed.
Print Assumptions C05_partial_owed_recovery_once.
Print Assumptions C05_partial_no_double_retraction.
Print Assumptions C05_partial_dropped_retraction.
Print Assumptions C05_partial_first_retraction_inside.
