(** C20 -- Offline stream filtering equals live filtering and is isolated. *)
From Coq Require Import QArith String Ascii List Bool.
From ER Require Import Base.Num Model.Lexer Model.Words Model.Geometry Model.Axis Model.Filter Model.Stream Proofs.StreamProps.
Import ListNotations.

(** a command line: the processor answers exactly what the live handler answers for the normalised command -- the
    input line byte for byte when the handler leaves it unchanged, nothing when it suppresses it, and otherwise the
    handler's commands, each terminated by the file's line ending (current line's, else last seen, else LF) *)
Theorem C20_command_line : forall c st line ij mid matched m,
  to_icmd (fst (parse_line line)) ij mid = Some m ->
  let r := handle c (ss_state st) m in
  ss_state (fst (process_line c st line ij mid matched)) = fst r /\
  snd (process_line c st line ij mid matched) =
    match snd r with Unchanged => SKeep | Suppress => SDrop | Replace l => SLines l (chosen_eol st line) end.
Proof. exact stream_command. Qed.

Theorem C20_normalised_command : forall p ij mid m, to_icmd p ij mid = Some m ->
  exists k, g_code p = Some k /\ ccode m = gcode_of k /\ ctext m = stringify p true false None false false /\
            cwords m = witems_of (g_params p).
Proof. exact stream_normalised_command. Qed.

(** blank, whitespace-only, comment-only and text lines: untouched, nothing tracked *)
Theorem C20_other_lines : forall c st line ij mid matched,
  g_code (fst (parse_line line)) = None -> starts_at (text_of (fst (parse_line line))) = false ->
  snd (process_line c st line ij mid matched) = SKeep /\ ss_state (fst (process_line c st line ij mid matched)) = ss_state st.
Proof. exact stream_noncommand. Qed.

(** @-lines: exactly the live @-command handler; unmatched ones untouched *)
Theorem C20_at_lines : forall c st line ij mid matched,
  g_code (fst (parse_line line)) = None -> starts_at (text_of (fst (parse_line line))) = true ->
  let '(s', handled, sent) := handle_at c (ss_state st) false matched in
  ss_state (fst (process_line c st line ij mid matched)) = s' /\
  snd (process_line c st line ij mid matched) =
    (if handled then match sent with [] => SDrop | _ => SLines sent (chosen_eol st line) end else SKeep).
Proof. exact stream_atcommand. Qed.

Print Assumptions C20_command_line.
Print Assumptions C20_normalised_command.
Print Assumptions C20_other_lines.
Print Assumptions C20_at_lines.
