(** C12 -- Excluded area never shrinks during an active print unless explicitly allowed. *)
From Coq Require Import Reals String List Bool.
From ER Require Import Base.Num Model.Geometry Model.Axis Model.Filter Model.Plugin Proofs.Regions Proofs.Monotone.
Import ListNotations.

(** one request / hook invocation while a print is active and shrinking is not allowed: every excluded point
    stays excluded, the restriction stays in force, and a refused request changes nothing *)
Theorem C12_step : forall (p : plugin R) (ev : pevent R),
  active p = true -> mayShrink p = false -> keeps_print ev = true ->
  let p' := fst (fst (pstep p ev)) in
  covers (regions (pst p)) (regions (pst p')) /\ active p' = true /\ mayShrink p' = false /\
  (match snd (fst (pstep p ev)) with PHttp c => c <> 200%nat -> p' = p | _ => True end).
Proof. exact restricted_step_monotone. Qed.

(** any sequence of them *)
Theorem C12_monotone : forall (h : list (pevent R)) (p : plugin R),
  active p = true -> mayShrink p = false -> forallb keeps_print h = true ->
  forall x y : R, any_contains (regions (pst p)) x y = true -> any_contains (regions (pst (fst (prun p h)))) x y = true.
Proof. exact restricted_run_monotone. Qed.

(** the containment test the update relies on is sound (all four type combinations; generated code via the tie) *)
Theorem C12_containment_sound : forall o i : region R, contains_region o i = true ->
  forall x y, contains_point i x y = true -> contains_point o x y = true.
Proof. exact contains_region_sound. Qed.

Print Assumptions C12_step.
Print Assumptions C12_monotone.
Print Assumptions C12_containment_sound.
