(** C16 -- Arc moves are sampled faithfully.  All theorems are about the planArc / computeArcCenterOffsets definitions
    GENERATED from /repo on this run (Gen/GenArc.v), for all real inputs.
    Not yet proved in Coq (decided numerically by the oracle of this check on the implementation): that the end point
    itself sits at angle start + sweep when it lies on the circle, hence the step from the last sample to the end point and
    the `cover` consequence for the final segment. *)
From Coq Require Import Reals ZArith List Bool.
From ER Require Import Base.GenPrelude Gen.GenArc Proofs.ArcGen.
Import ListNotations.
Open Scope R_scope.

(** the generated code computes exactly the closed form: N-1 points at equal angular steps sweep/N from the start
    direction atan2(-j,-i) on the circle around (x+i, y+j) with radius hypot(i,j), followed by the commanded end point *)
Theorem C16_closed_form : forall posX posY endX endY i j cw,
  planArc posX posY endX endY i j cw = arc_spec posX posY endX endY i j cw.
Proof. exact planArc_spec. Qed.
Theorem C16_endpoint : forall posX posY endX endY i j cw, exists l, planArc posX posY endX endY i j cw = l ++ [endX; endY].
Proof. exact planArc_endpoint. Qed.
Theorem C16_on_circle : forall posX posY endX endY i j cw k,
  let '(px, py) := arc_point posX posY endX endY i j cw k in
  (px - (posX + i)) * (px - (posX + i)) + (py - (posY + j)) * (py - (posY + j)) = hypot i j * hypot i j.
Proof. exact arc_point_on_circle. Qed.
Theorem C16_start_point : forall posX posY i j, (i <> 0 \/ j <> 0) ->
  posX = posX + i + cos (atan2 (- j) (- i)) * hypot i j /\ posY = posY + j + sin (atan2 (- j) (- i)) * hypot i j.
Proof. exact arc_start_point. Qed.
(** direction and sweep: counter-clockwise in [0, 2pi], clockwise in [-2pi, 0) *)
Theorem C16_direction : forall posX posY endX endY i j cw,
  let d := arc_sweep posX posY endX endY i j cw in
  (cw = false -> 0 <= d <= 2 * PI) /\ (cw = true -> - (2 * PI) <= d < 0).
Proof. exact arc_sweep_range. Qed.
(** at least one segment, and at least as many as units of arc length *)
Theorem C16_segments : forall posX posY endX endY i j cw,
  (1 <= arc_segments posX posY endX endY i j cw)%Z /\
  Rabs (arc_sweep posX posY endX endY i j cw) * hypot i j <= IZR (arc_segments posX posY endX endY i j cw).
Proof. intros. split; [apply arc_segments_ge1 | apply arc_segments_bound]. Qed.
(** consecutive tested points (number 0 being the start point) are at most one length unit apart *)
Theorem C16_spacing : forall posX posY endX endY i j cw k,
  let '(ax, ay) := arc_point posX posY endX endY i j cw k in
  let '(bx, by_) := arc_point posX posY endX endY i j cw (S k) in
  hypot (ax - bx) (ay - by_) <= 1.
Proof. exact arc_spacing. Qed.

(** radius form: proved for axis-aligned chords ... *)
Theorem C16_radius_centre_partial : forall posX posY endX endY radius cw,
  radius <> 0 -> (posX <> endX \/ posY <> endY) -> (endX - posX) * (endY - posY) = 0 ->
  hypot (endX - posX) (endY - posY) / 2 <= Rabs radius ->
  let '(i, j) := computeArcCenterOffsets posX posY endX endY radius cw in
  i * i + j * j = radius * radius /\
  (posX + i - endX) * (posX + i - endX) + (posY + j - endY) * (posY + j - endY) = radius * radius.
Proof. exact radius_centre_axis_aligned. Qed.
(** ... and REFUTED otherwise (finding D7, pinned by test_computeArcCenterOffsets_positiveRadius) *)
Theorem C16_radius_centre_refuted :
  exists posX posY endX endY radius cw,
    radius <> 0 /\ hypot (endX - posX) (endY - posY) / 2 <= Rabs radius /\
    let '(i, j) := computeArcCenterOffsets posX posY endX endY radius cw in i * i + j * j <> radius * radius.
Proof. exact radius_centre_refuted. Qed.

Print Assumptions C16_closed_form.
Print Assumptions C16_endpoint.
Print Assumptions C16_on_circle.
Print Assumptions C16_start_point.
Print Assumptions C16_direction.
Print Assumptions C16_segments.
Print Assumptions C16_spacing.
Print Assumptions C16_radius_centre_partial.
Print Assumptions C16_radius_centre_refuted.
