(** C16 -- Arc moves are sampled faithfully.  All theorems are about the planArc / computeArcCenterOffsets definitions
    GENERATED from /repo on this run (Gen/GenArc.v), for all real inputs: closed form, points on the circle, start point,
    direction and sweep range, segment count, spacing <= 1 between consecutive samples, and -- when the commanded end point
    lies on the circle -- the end point IS the sample numbered N (angle start + sweep), so the final segment is no longer
    than the others, and every point of the arc is within one unit of a tested point (cover).  The radius form's centre is proved for axis-aligned chords and refuted otherwise (finding D7). *)
From Coq Require Import Reals ZArith List Bool.
From ER Require Import Base.Num Base.GenPrelude Gen.GenArc Proofs.ArcGen Proofs.ArcEnd.
Import ListNotations.
Open Scope R_scope.

(** the generated code computes exactly the closed form: N-1 points at equal angular steps sweep/N from the start
    direction atan2(-j,-i) on the circle around (x+i, y+j) with radius hypot(i,j), followed by the commanded end point *)
Theorem C16_closed_form : forall posX posY endX endY i j cw,
  planArc posX posY endX endY i j cw = arc_spec posX posY endX endY i j cw.
Proof. exact planArc_spec. Qed.
Theorem C16_endpoint : forall posX posY endX endY i j cw, exists l, planArc posX posY endX endY i j cw = l ++ [endX; endY].
Proof. exact planArc_endpoint. Qed.
Theorem C16_on_circle : forall posX posY endX endY i j cw k,
  let '(px, py) := arc_point posX posY endX endY i j cw k in
  (px - (posX + i)) * (px - (posX + i)) + (py - (posY + j)) * (py - (posY + j)) = hypot i j * hypot i j.
Proof. exact arc_point_on_circle. Qed.
Theorem C16_start_point : forall posX posY i j, (i <> 0 \/ j <> 0) ->
  posX = posX + i + cos (atan2 (- j) (- i)) * hypot i j /\ posY = posY + j + sin (atan2 (- j) (- i)) * hypot i j.
Proof. exact arc_start_point. Qed.
(** direction and sweep: counter-clockwise in [0, 2pi], clockwise in [-2pi, 0) *)
Theorem C16_direction : forall posX posY endX endY i j cw,
  let d := arc_sweep posX posY endX endY i j cw in
  (cw = false -> 0 <= d <= 2 * PI) /\ (cw = true -> - (2 * PI) <= d < 0).
Proof. exact arc_sweep_range. Qed.
(** at least one segment, and at least as many as units of arc length *)
Theorem C16_segments : forall posX posY endX endY i j cw,
  (1 <= arc_segments posX posY endX endY i j cw)%Z /\
  Rabs (arc_sweep posX posY endX endY i j cw) * hypot i j <= IZR (arc_segments posX posY endX endY i j cw).
Proof. intros. split; [apply arc_segments_ge1 | apply arc_segments_bound]. Qed.
(** consecutive tested points (number 0 being the start point) are at most one length unit apart *)
Theorem C16_spacing : forall posX posY endX endY i j cw k,
  let '(ax, ay) := arc_point posX posY endX endY i j cw k in
  let '(bx, by_) := arc_point posX posY endX endY i j cw (S k) in
  hypot (ax - bx) (ay - by_) <= 1.
Proof. exact arc_spacing. Qed.

(** the end point, when it lies on the circle, is the point at angle start + sweep, i.e. the sample numbered N *)
Theorem C16_end_on_circle : forall posX posY endX endY i j cw, (i <> 0 \/ j <> 0) ->
  hypot (endX - (posX + i)) (endY - (posY + j)) = hypot i j ->
  posX + i + cos (atan2 (- j) (- i) + arc_sweep posX posY endX endY i j cw) * hypot i j = endX /\
  posY + j + sin (atan2 (- j) (- i) + arc_sweep posX posY endX endY i j cw) * hypot i j = endY.
Proof. exact arc_end_on_circle. Qed.
Theorem C16_last_point : forall posX posY endX endY i j cw, (i <> 0 \/ j <> 0) ->
  hypot (endX - (posX + i)) (endY - (posY + j)) = hypot i j ->
  arc_point posX posY endX endY i j cw (Z.to_nat (arc_segments posX posY endX endY i j cw)) = (endX, endY).
Proof. exact arc_last_point. Qed.
(** ... so the step from the last intermediate sample to the commanded end point is at most one unit too *)
Theorem C16_final_spacing : forall posX posY endX endY i j cw, (i <> 0 \/ j <> 0) ->
  hypot (endX - (posX + i)) (endY - (posY + j)) = hypot i j ->
  let n := Z.to_nat (arc_segments posX posY endX endY i j cw) in
  let '(ax, ay) := arc_point posX posY endX endY i j cw (pred n) in
  hypot (ax - endX) (ay - endY) <= 1.
Proof. exact arc_final_spacing. Qed.

(** cover: every point of the arc (a fraction u of the sweep after the start) is within one unit of a tested point --
    so an arc reaching deeper than that into a region has a tested point inside it *)
Theorem C16_cover : forall posX posY endX endY i j cw u, 0 <= u <= 1 ->
  exists k : nat, (k <= Z.to_nat (arc_segments posX posY endX endY i j cw))%nat /\
    let '(px, py) := arc_at posX posY endX endY i j cw u in
    let '(sx, sy) := arc_point posX posY endX endY i j cw k in
    hypot (px - sx) (py - sy) <= 1.
Proof. exact arc_cover. Qed.

(** radius form: proved for axis-aligned chords ... *)
Theorem C16_radius_centre_partial : forall posX posY endX endY radius cw,
  radius <> 0 -> (posX <> endX \/ posY <> endY) -> (endX - posX) * (endY - posY) = 0 ->
  hypot (endX - posX) (endY - posY) / 2 <= Rabs radius ->
  let '(i, j) := computeArcCenterOffsets posX posY endX endY radius cw in
  i * i + j * j = radius * radius /\
  (posX + i - endX) * (posX + i - endX) + (posY + j - endY) * (posY + j - endY) = radius * radius.
Proof. exact radius_centre_axis_aligned. Qed.
(** ... and REFUTED otherwise (finding D7, pinned by test_computeArcCenterOffsets_positiveRadius) *)
Theorem C16_radius_centre_refuted :
  exists posX posY endX endY radius cw,
    radius <> 0 /\ hypot (endX - posX) (endY - posY) / 2 <= Rabs radius /\
    let '(i, j) := computeArcCenterOffsets posX posY endX endY radius cw in i * i + j * j <> radius * radius.
Proof. exact radius_centre_refuted. Qed.

Print Assumptions C16_closed_form.
Print Assumptions C16_endpoint.
Print Assumptions C16_on_circle.
Print Assumptions C16_start_point.
Print Assumptions C16_direction.
Print Assumptions C16_segments.
Print Assumptions C16_spacing.
Print Assumptions C16_end_on_circle.
Print Assumptions C16_last_point.
Print Assumptions C16_final_spacing.
Print Assumptions C16_cover.
Print Assumptions C16_radius_centre_partial.
Print Assumptions C16_radius_centre_refuted.
