(** C18 -- Parser is lossless and its normalisation is stable.
    For ALL strings: parsing consumes its input completely and the full texts reproduce it byte for byte; re-parsing the
    command string of any parsed G/M/T line yields the same code, sub-code, line number, parameters and command string.
    A numbered line rendered with line number and checksum parses back and validates against its own checksum.
    Modelled, not proved: Python's `re` engine (the scanner is compared with REGEX_GCODE_LINE exhaustively on every run). *)
From Coq Require Import NArith String Ascii List Bool.
From ER Require Import Model.Lexer Proofs.LexerProps Proofs.Reparse.
Import ListNotations.
Local Open Scope string_scope.

(** parsing a line: its full text (leading blanks, text, checksum, trailing blanks, comment, eol) followed by the
    unconsumed rest is the input, byte for byte -- for every string *)
Theorem C18_lossless : forall s, let '(p, rest) := parse_line s in full_text p ++ rest = s.
Proof. exact parse_line_lossless. Qed.

(** progress: a parse at a position before the end consumes at least one character; at the end, none *)
Theorem C18_progress : forall s, s <> "" -> String.length (snd (parse_line s)) < String.length s.
Proof. exact parse_line_progress. Qed.
Theorem C18_at_end : full_text (fst (parse_line "")) = "" /\ snd (parse_line "") = "".
Proof. exact parse_line_at_end. Qed.

(** parsing any text line by line consumes it completely and the concatenated full texts reproduce it *)
Theorem C18_lines_lossless : forall s, concat_str (map full_text (parse_lines s)) = s.
Proof. exact parse_lines_lossless. Qed.

(** stable normalisation: the command string of a parsed line parses to the same code, sub-code, line number and
    parameters, and normalises to itself *)
Theorem C18_reparse_stable : forall s k, g_code (fst (parse_line s)) = Some k ->
  let p := fst (parse_line s) in
  let p' := fst (parse_line (command_string p)) in
  (exists k', g_code p' = Some k' /\ gcode_of k' = gcode_of k /\ subcode_of k' = subcode_of k /\ lineno_of k' = lineno_of k) /\
  g_params p' = g_params p /\ command_string p' = command_string p.
Proof. exact reparse_stable. Qed.
(** a numbered line, rendered with line number and checksum, validates *)
Theorem C18_checksum_roundtrip : forall s k n, g_code (fst (parse_line s)) = Some k -> lineno_of k = Some n ->
  validate (fst (parse_line (rendered (fst (parse_line s))))) = None.
Proof. exact checksum_roundtrip. Qed.
(** str(int) / int(str) round trip used by the normalised code, sub-code and line number *)
Theorem C18_number_roundtrip : forall n, num_of (show_N n) = n.
Proof. exact num_of_show. Qed.

Print Assumptions C18_lossless.
Print Assumptions C18_reparse_stable.
Print Assumptions C18_checksum_roundtrip.
Print Assumptions C18_number_roundtrip.
Print Assumptions C18_progress.
Print Assumptions C18_at_end.
Print Assumptions C18_lines_lossless.
