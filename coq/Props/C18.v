(** C18 -- Parser is lossless and its normalisation is stable. *)
From Coq Require Import NArith String Ascii List Bool.
From ER Require Import Model.Lexer Proofs.LexerProps.
Import ListNotations.
Local Open Scope string_scope.

(** parsing a line: its full text (leading blanks, text, checksum, trailing blanks, comment, eol) followed by the
    unconsumed rest is the input, byte for byte -- for every string *)
Theorem C18_lossless : forall s, let '(p, rest) := parse_line s in full_text p ++ rest = s.
Proof. exact parse_line_lossless. Qed.

(** progress: a parse at a position before the end consumes at least one character; at the end, none *)
Theorem C18_progress : forall s, s <> "" -> String.length (snd (parse_line s)) < String.length s.
Proof. exact parse_line_progress. Qed.
Theorem C18_at_end : full_text (fst (parse_line "")) = "" /\ snd (parse_line "") = "".
Proof. exact parse_line_at_end. Qed.

(** parsing any text line by line consumes it completely and the concatenated full texts reproduce it *)
Theorem C18_lines_lossless : forall s, concat_str (map full_text (parse_lines s)) = s.
Proof. exact parse_lines_lossless. Qed.

Print Assumptions C18_lossless.
Print Assumptions C18_progress.
Print Assumptions C18_at_end.
Print Assumptions C18_lines_lossless.
