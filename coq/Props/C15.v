(** C15 -- A print that ends while excluding is cleaned up exactly once. *)
From Coq Require Import String List Bool.
From ER Require Import Base.Num Model.Geometry Model.Axis Model.Filter Model.Plugin Proofs.FilterLemmas Proofs.Outputs Proofs.PluginProps.
Import ListNotations.

(** the hook for gcode/afterPrintDone with a print active and an episode open returns the exit sequence
    (deferred commands, exit script, re-synchronisation) and leaves the filter not excluding with nothing
    pending; in every other case (no episode, no active print, any other script) it contributes nothing and
    changes nothing *)
Theorem C15_hook : forall (T : Type) (N : Num T) (p : plugin T) (b : bool),
  (b && active p && excluding (pst p) = true ->
     snd (fst (pstep p (HookScript b))) = PScript (exit_sequence (pcfg p) (pst p)) /\
     excluding (pst (fst (fst (pstep p (HookScript b))))) = false /\
     pending (pst (fst (fst (pstep p (HookScript b))))) = []) /\
  (b && active p && excluding (pst p) = false -> pstep p (HookScript b) = (p, PNone, [])).
Proof. exact @script_hook. Qed.

(** exactly once: invoked again right after it fired, it contributes nothing *)
Theorem C15_once : forall (T : Type) (N : Num T) (p : plugin T) (b b' : bool), b && active p && excluding (pst p) = true ->
  pstep (fst (fst (pstep p (HookScript b)))) (HookScript b') = (fst (fst (pstep p (HookScript b))), PNone, []).
Proof. exact @script_hook_once. Qed.

(** the shape of what is contributed *)
Theorem C15_sequence_shape : forall (T : Type) (N : Num T) c (s : fstate T), excluding s = true ->
  exists resync,
    exit_sequence c s = pending_cmds (pending s) ++ map Script (exitS c) ++ SetE (n2l (pe (position s))) :: resync /\
    (forall o, In o resync -> match o with MoveZ _ _ | MoveXY _ _ _ => True | _ => False end).
Proof. intros T N c s X. destruct (exit_shape c s X) as (r & A & B & _). exists r. auto. Qed.

Print Assumptions C15_hook.
Print Assumptions C15_once.
Print Assumptions C15_sequence_shape.
