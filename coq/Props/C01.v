(** C01 -- No motion into and no extrusion inside an excluded region. *)
From Coq Require Import Reals String List Bool.
From ER Require Import Base.Num Model.Geometry Model.Axis Model.Filter Spec.Printer
  Proofs.FilterLemmas Proofs.Transparent Proofs.Deferred Proofs.Outputs Proofs.Track Proofs.FSync Proofs.Sync Proofs.MotionProps Proofs.Depth.
Import ListNotations.
Open Scope R_scope.

(** (a) While exclusion is enabled, a move after which no episode is open ends -- in the file's own
    coordinates, which by the simulation invariant are the printer's -- outside every region defined
    at that moment; hence no forwarded command moves the tool into a region. *)
Theorem C01_forwarded_move_ends_outside : forall c (s : fstate R) (U : printer R) (m : icmd R),
  Track s U -> wf_cmd c U m -> is_move m = true -> enabled s = true ->
  excluding (fst (handle c s m)) = false ->
  any_contains (regions s) (qx (exec_cmd (g90e c) U (ccode m) (cwords m))) (qy (exec_cmd (g90e c) U (ccode m) (cwords m))) = false.
Proof. exact forwarded_move_ends_outside. Qed.

(** the simulation invariant holds along every history of commands, region additions and @-commands of
    the dialect: the filter tracks the file's position, and the printer fed with the filtered stream is
    in the file's frame; it stands where the file says outside an episode and does not move inside one *)
Theorem C01_invariant : forall c (h : list hev) (x : sim), Sync x -> wf_hist c x h -> Sync (hrun c x h).
Proof. exact sync_run. Qed.
Theorem C01_invariant_init : forall rs : list (region R), Sync (mkSim (init_state rs) init_printer init_printer).
Proof. exact sync_init. Qed.

(** (b) from the command that opens an episode until the one that closes it the printer does not move:
    it stands at the position recorded when the episode opened ... *)
Theorem C01_stands_still : forall c (s : fstate R) (F U : printer R) (m : icmd R),
  Track s U -> FSync s F U -> wf_cmd c U m -> no_home_inside s m ->
  excluding (fst (handle c s m)) = true ->
  let F' := run_outs (g90e c) m F (outs m (snd (handle c s m))) in
  qx F' = cur (px (lastPosition (fst (handle c s m)))) /\ qy F' = cur (py (lastPosition (fst (handle c s m)))) /\
  qz F' = cur (pz (lastPosition (fst (handle c s m)))) /\
  (excluding s = true -> qx F' = qx F /\ qy F' = qy F /\ qz F' = qz F).
Proof.
  intros c s F U m TR FS WF NH X'. cbn zeta.
  destruct (fsync_step c s F U m TR FS WF NH) as [_ _ _ _ FI]. destruct (FI X') as (A & B & C).
  repeat split; try assumption; destruct FS as [_ _ _ _ FI0]; destruct (FI0 H) as (A0 & B0 & C0);
    rewrite (handle_lastpos_inside c s m H X') in *; congruence.
Qed.
(** ... and all that reaches it is the enter script (only from the opening command), retractions
    (G92 E + G1 E-, or G10) and untouched pass-through commands *)
Theorem C01_only_retractions_inside : forall c (s : fstate R) (m : icmd R),
  excluding s = true -> excluding (fst (handle c s m)) = true ->
  match snd (handle c s m) with Replace l => Forall is_retract_out l | _ => True end.
Proof. exact (@handle_inside R RNum). Qed.
Theorem C01_opening_output : forall c (s : fstate R) (m : icmd R),
  excluding s = false -> excluding (fst (handle c s m)) = true ->
  exists rest, snd (handle c s m) = to_result (map Script (enterS c) ++ rest) /\ Forall is_retract_out rest.
Proof. intros c s m X X'. destruct (handle_opening c s m X X') as (r & A & B & _). exists r. auto. Qed.
(** `Unchanged` is never the answer to a G0/G1, and to a G2/G3 only when it has no usable centre (finding D21) *)
Theorem C01_moves_never_pass_through : forall c (s : fstate R) (m : icmd R),
  snd (handle c s m) = Unchanged -> linear m = true -> is_arc m = true /\ arc_nondegenerate m = false.
Proof. exact unchanged_linear. Qed.

(** non-vacuity: the dialect predicates of the theorems above are met by a concrete program (print, retract, travel into
    and out of the region area, recover, print) for any region set *)
Theorem C01_premises_satisfiable : forall rs : list (region R),
  wf_hist ex_cfg (mkSim (init_state rs) init_printer init_printer) ex_hist.
Proof. intros rs. exact (proj1 (depth_premises_satisfiable rs)). Qed.


Print Assumptions C01_forwarded_move_ends_outside.
Print Assumptions C01_invariant.
Print Assumptions C01_invariant_init.
Print Assumptions C01_stands_still.
Print Assumptions C01_only_retractions_inside.
Print Assumptions C01_opening_output.
Print Assumptions C01_moves_never_pass_through.
Print Assumptions C01_premises_satisfiable.
