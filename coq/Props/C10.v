(** C10 -- Every print starts from a clean tracking state. *)
From Coq Require Import String List Bool.
From ER Require Import Base.Num Model.Geometry Model.Axis Model.Filter Model.Plugin Proofs.PluginProps.
Import ListNotations.

(** the state after print-started is the freshly initialised one with the same regions and settings *)
Theorem C10_fresh_state : forall (T : Type) (N : Num T) (p : plugin T),
  let p' := fst (fst (pstep p EvPrintStarted)) in
  pst p' = init_state (regions (pst p)) /\ active p' = true /\ pcfg p' = pcfg p /\
  clearAfter p' = clearAfter p /\ mayShrink p' = mayShrink p.
Proof. exact @print_started_is_fresh. Qed.

(** hence, whatever happened before: from print-started on, every response (to any program, hook
    invocation, event or request) equals that of any other plugin with the same regions and settings --
    in particular of a freshly initialised one *)
Theorem C10_clean_start : forall (T : Type) (N : Num T) (p q : plugin T) (h : list (pevent T)),
  regions (pst p) = regions (pst q) -> pcfg p = pcfg q -> clearAfter p = clearAfter q -> mayShrink p = mayShrink q ->
  snd (prun p (EvPrintStarted :: h)) = snd (prun q (EvPrintStarted :: h)).
Proof. exact @clean_start. Qed.

Theorem C10_after_any_history : forall (T : Type) (N : Num T) (p0 : plugin T) (before h : list (pevent T)),
  let p := fst (prun p0 before) in
  let fresh := mkPlugin (init_state (regions (pst p))) (pcfg p) false (clearAfter p) (mayShrink p) in
  snd (prun p (EvPrintStarted :: h)) = snd (prun fresh (EvPrintStarted :: h)).
Proof. intros. apply clean_start; reflexivity. Qed.

Print Assumptions C10_fresh_state.
Print Assumptions C10_clean_start.
Print Assumptions C10_after_any_history.
