(** C09 -- Filtering is total and protocol-conformant. *)
From Coq Require Import Reals String List Bool.
From ER Require Import Base.GenPrelude Gen.GenArc Model.Geometry Model.Axis Model.Filter Proofs.ArcSafe Proofs.Total.
Import ListNotations.
Open Scope R_scope.

(** every answer is `leave unchanged', `suppress', or a NON-EMPTY list of commands -- for every number instance,
    configuration, state and command (any code, any word list: missing, repeated, valueless, any values) *)
Theorem C09_result_shape : forall (T : Type) (N : Num T) c (s : fstate T) (m : icmd T),
  match snd (handle c s m) with Replace l => l <> [] | _ => True end.
Proof. exact @result_shape. Qed.

(** every division performed by the handlers (logical <-> native conversion, feed rate conversion, relative exit
    offsets) is by a unit multiplier, and after homing these are never zero, whatever the program *)
Theorem C09_divisors_nonzero : forall c rs (p : list (icmd R)),
  units_ok (fold_left (fun s m => fst (handle c s m)) p (init_state rs)).
Proof. exact units_ok_reachable. Qed.
Theorem C09_divisors_step : forall c (s : fstate R) (m : icmd R), units_ok s -> units_ok (fst (handle c s m)).
Proof. exact handle_units. Qed.

(** the arc arithmetic GENERATED from /repo never divides by zero and never takes a negative square root:
    for all start points, end points, centre offsets / radii and directions (including degenerate arcs) *)
Theorem C09_planArc_safe : forall posX posY endX endY i j cw, planArc_safe posX posY endX endY i j cw.
Proof. exact planArc_always_safe. Qed.
Theorem C09_computeArcCenterOffsets_safe : forall posX posY endX endY radius cw,
  computeArcCenterOffsets_safe posX posY endX endY radius cw.
Proof. exact computeArcCenterOffsets_always_safe. Qed.

Print Assumptions C09_result_shape.
Print Assumptions C09_divisors_nonzero.
Print Assumptions C09_divisors_step.
Print Assumptions C09_planArc_safe.
Print Assumptions C09_computeArcCenterOffsets_safe.
