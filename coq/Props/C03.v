(** C03 -- Leaving a region re-synchronises the tool position. *)
From Coq Require Import Reals String List Bool.
From ER Require Import Base.Num Model.Geometry Model.Axis Model.Filter Spec.Printer
  Proofs.FilterLemmas Proofs.Transparent Proofs.Deferred Proofs.Outputs Proofs.Track Proofs.FSync Proofs.Sync Proofs.MotionProps Proofs.Depth Base.GenPrelude Gen.GenAxis Proofs.TieAxis.
Import ListNotations.
Open Scope R_scope.

(** a move whose tested points (destination, arc samples) all lie outside every enabled region leaves no episode open *)
Theorem C03_move_outside_closes : forall c (s : fstate R) (m : icmd R), is_move m = true ->
  (is_arc m = true -> arc_nondegenerate m = true) -> cmd_hits s m = false -> excluding (fst (handle c s m)) = false.
Proof. exact move_outside_closes. Qed.

(** and whenever no episode is open after a command, the printer's X, Y, Z (and E) equal the file's, in the
    file's positioning mode and units -- after any history of the dialect (absolute or relative
    positioning, mm or inches, entering moves that change Z or E, region additions, @-commands) *)
Theorem C03_resync : forall c rs (h : list hev), wf_hist c (mkSim (init_state rs) init_printer init_printer) h ->
  let x := hrun c (mkSim (init_state rs) init_printer init_printer) h in
  qabs (sm_F x) = qabs (sm_U x) /\ qeabs (sm_F x) = qeabs (sm_U x) /\ qum (sm_F x) = qum (sm_U x) /\
  (excluding (sm_s x) = false ->
   qx (sm_F x) = qx (sm_U x) /\ qy (sm_F x) = qy (sm_U x) /\ qz (sm_F x) = qz (sm_U x) /\ qe (sm_F x) = qe (sm_U x)).
Proof. exact sync_outside. Qed.

(** the filter's own idea of the position is the file's (tracking), whatever the exclusion state *)
Theorem C03_tracking : forall c (s : fstate R) (U : printer R) (m : icmd R), Track s U -> wf_cmd c U m ->
  Track (fst (handle c s m)) (exec_cmd (g90e c) U (ccode m) (cwords m)).
Proof. exact track_step. Qed.

(** the position remembered when an episode opens is the one before the entering move (also its Z) *)
Theorem C03_lastPosition : forall c (s : fstate R) (m : icmd R),
  excluding s = false -> excluding (fst (handle c s m)) = true -> lastPosition (fst (handle c s m)) = position s.
Proof. intros c s m X X'. destruct (handle_opening c s m X X') as (r & _ & _ & L & _). exact L. Qed.

(** the exit sequence: deferred commands, exit script, G92 E, Z raised first / lowered last around the X/Y travel *)
Theorem C03_exit_sequence : forall c (s : fstate R), excluding s = true ->
  let p := position s in let lp := lastPosition s in let f := feedRate s / frMult s in
  let mz := MoveZ f (exitCoordinate (pz p) (pz lp)) in
  exit_sequence c s = pending_cmds (pending s) ++ map Script (exitS c) ++ [SetE (n2l (pe p))]
       ++ (if Rltb (cur (pz lp)) (cur (pz p)) then [mz] else [])
       ++ [MoveXY f (exitCoordinate (px p) (px lp)) (exitCoordinate (py p) (py lp))]
       ++ (if Rltb (cur (pz p)) (cur (pz lp)) then [mz] else []).
Proof. exact exit_resync. Qed.
(** the X/Y travel happens at the higher of the printer's previous Z and the target Z *)
Theorem C03_travel_height : forall g m c0 (s1 : fstate R) (F U' : printer R), excluding s1 = true -> Track s1 U' ->
  qabs F = qabs U' -> qum F = qum U' -> qz F = cur (pz (lastPosition s1)) ->
  let before_xy := pending_cmds (pending s1) ++ map Script (exitS c0) ++ [SetE (n2l (pe (position s1)))]
       ++ (if Rltb (cur (pz (lastPosition s1))) (cur (pz (position s1)))
           then [MoveZ (feedRate s1 / frMult s1) (exitCoordinate (pz (position s1)) (pz (lastPosition s1)))] else []) in
  qz (run_outs g m F before_xy) = Rmax (qz F) (qz U').
Proof. exact exit_travel_height. Qed.

(** non-vacuity: the dialect predicates of the theorems above are met by a concrete program (print, retract, travel into
    and out of the region area, recover, print) for any region set *)
Theorem C03_premises_satisfiable : forall rs : list (region R),
  wf_hist ex_cfg (mkSim (init_state rs) init_printer init_printer) ex_hist.
Proof. intros rs. exact (proj1 (depth_premises_satisfiable rs)). Qed.


(** the axis arithmetic these theorems speak about is the code's: every conversion and every state-changing method of AxisPosition, as
    GENERATED from /repo on this run, computes what the model's axis operations compute (for all axis states and arguments, over the reals) *)
Theorem C03_axis_model_is_the_code : forall (a : axis R) (v : R) (b : bool),
  l2n a v = axis_logicalToNative (axisR a) v /\ n2l a = axis_nativeToLogical (axisR a) /\
  axisR (set_logical a v) = axis_setLogicalPosition (axisR a) v /\
  axisR (set_offset_pos a v) = axis_setLogicalOffsetPosition (axisR a) v /\
  axisR (set_home_offset a v) = axis_setHomeOffset (axisR a) v /\
  axisR (set_home a) = axis_setHome (axisR a) /\
  axisR (set_um a v) = axis_setUnitMultiplier (axisR a) v /\
  axisR (set_absm a b) = axis_setAbsoluteMode (axisR a) b.
Proof. exact axis_model_is_the_code. Qed.

Print Assumptions C03_move_outside_closes.
Print Assumptions C03_resync.
Print Assumptions C03_tracking.
Print Assumptions C03_lastPosition.
Print Assumptions C03_exit_sequence.
Print Assumptions C03_travel_height.
Print Assumptions C03_premises_satisfiable.
Print Assumptions C03_axis_model_is_the_code.
