(** C02 -- Transparency: a print that never touches a region is forwarded verbatim. *)
From Coq Require Import QArith String List Bool.
From ER Require Import Base.Num Model.Geometry Model.Axis Model.Filter Proofs.FilterLemmas Proofs.Transparent.
Import ListNotations.

(** For every number instance, configuration (both g90e values), region set, quiet start state and program over
    the full dialect: if no tested point (move destination / arc sample) of any command lies inside an
    enabled region, each command comes back `Unchanged` or as `Replace [itself]`, in order. *)
Theorem C02_transparent : forall (T : Type) (N : Num T) (c : cfg) (p : list (icmd T)) (s : fstate T),
  quiet s -> never_hits c s p -> Forall2 verbatim p (snd (run_handle c s p)).
Proof. exact @transparent_when_never_hit. Qed.

Theorem C02_no_regions : forall (T : Type) (N : Num T) (c : cfg) (p : list (icmd T)) (s : fstate T),
  quiet s -> regions s = [] -> Forall2 verbatim p (snd (run_handle c s p)).
Proof. exact @transparent_without_regions. Qed.

Theorem C02_disabled : forall (T : Type) (N : Num T) (c : cfg) (p : list (icmd T)) (s : fstate T),
  quiet s -> enabled s = false -> Forall2 verbatim p (snd (run_handle c s p)).
Proof. exact @transparent_while_disabled. Qed.

(** an episode can only open on a tested point inside an enabled region *)
Theorem C02_opens_only_on_hit : forall (T : Type) (N : Num T) (c : cfg) (s : fstate T) (m : icmd T),
  excluding s = false -> excluding (fst (handle c s m)) = true -> cmd_hits s m = true.
Proof. exact @handle_opens_only_on_hit. Qed.

(** Non-vacuity: a program with a retract / travel / recover cycle passing next to a region (Q instance). *)
Open Scope string_scope.
Definition ex_cmd (t g : string) (ws : list (string * Q)) : icmd Q :=
  mkCmd t g (map (fun w => (fst w, MNum (snd w))) ws) None [].
Definition ex_prog : list (icmd Q) :=
  [ ex_cmd "G28" "G28" [];
    ex_cmd "G1 X5 Y5 E1 F3000" "G1" [("X", 5#1); ("Y", 5#1); ("E", 1#1); ("F", 3000#1)];
    ex_cmd "G1 E0" "G1" [("E", 0#1)];
    ex_cmd "G0 X30 Y5" "G0" [("X", 30#1); ("Y", 5#1)];
    ex_cmd "G1 E1" "G1" [("E", 1#1)];
    ex_cmd "G10" "G10" [];
    ex_cmd "G1 X30 Y30" "G1" [("X", 30#1); ("Y", 30#1)];
    ex_cmd "G11" "G11" [];
    ex_cmd "M204 S500" "M204" [("S", 500#1)];
    ex_cmd "G1 X25 Y30 E2" "G1" [("X", 25#1); ("Y", 30#1); ("E", 2#1)] ].
Definition ex_cfg : cfg := mkCfg false [] [] [("M204", XMerge)].
Definition ex_state : fstate Q := init_state [Rect "a" (10#1) (10#1) (20#1) (20#1)].
Example C02_nonvacuous : quiet ex_state /\ never_hits ex_cfg ex_state ex_prog.
Proof. split; [apply init_quiet|]. vm_compute. repeat split. Qed.

Print Assumptions C02_transparent.
Print Assumptions C02_no_regions.
Print Assumptions C02_disabled.
Print Assumptions C02_opens_only_on_hit.
