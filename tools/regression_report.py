#!/usr/bin/env python3
"""regression_report.py LOG... : summarise lane logs of a full re-run of the kept seeded changes (lines `<name> <check> exit=<rc>`)
into /verif/seeded/REGRESSION.txt.  exit=1 = the check reported the change (VIOLATION), exit=0 = it did not."""
import sys, re, subprocess
rows = {}
for f in sys.argv[1:]:
    for l in open(f):
        m = re.match(r'^(C\d+-m\d+) (C\d+) exit=(\d+)', l)
        if m:
            rows[m.group(1)] = (m.group(2), int(m.group(3)))
key = lambda n: (int(n[1:3]), int(n.split('-m')[1]))
head = subprocess.run(['git', '-C', '/verif', 'log', '--oneline', '-1'], stdout=subprocess.PIPE, universal_newlines=True).stdout.strip()
repo = subprocess.run(['git', '-C', '/repo', 'log', '--oneline', '-1'], stdout=subprocess.PIPE, universal_newlines=True).stdout.strip()
out = ['Full re-run of the kept seeded changes: each patch applied to a scratch worktree of /repo, the quick check of the listed property run against it',
       '(default seed).  /verif at the time of writing: %s ; /repo: %s' % (head, repo),
       'reported = exit 1 with a VIOLATION line; MISSED = exit 0.', '']
miss = [n for n, (c, rc) in rows.items() if rc != 1]
out.append('%d changes run, %d reported, %d missed%s' % (len(rows), len(rows) - len(miss), len(miss), (': ' + ', '.join(sorted(miss, key=key))) if miss else ''))
out.append('')
for n in sorted(rows, key=key):
    c, rc = rows[n]
    out.append('%-8s %s  %s' % (n, c, 'reported' if rc == 1 else 'MISSED'))
open('/verif/seeded/REGRESSION.txt', 'w').write('\n'.join(out + sys.stdin.read().splitlines() if not sys.stdin.isatty() else out) + '\n')
print(out[4])
