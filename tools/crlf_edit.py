#!/usr/bin/env python3
"""crlf_edit.py FILE <<< JSON [[old,new],...] : exact, unique, CRLF-preserving replacement."""
import json, sys
path = sys.argv[1]
data = open(path, 'rb').read()
crlf = b'\r\n' in data
for old, new in json.load(sys.stdin):
    o = old.encode(); n = new.encode()
    if crlf:
        o = o.replace(b'\r\n', b'\n').replace(b'\n', b'\r\n'); n = n.replace(b'\r\n', b'\n').replace(b'\n', b'\r\n')
    if data.count(o) != 1:
        sys.exit('pattern occurs %d times: %r' % (data.count(o), old[:60]))
    data = data.replace(o, n)
open(path, 'wb').write(data)
