#!/venv/bin/python
"""Run /repo's pinned suite (guard OFF) and compare with /root/.vp/BASELINE.json stable_pass.
Exit 0 iff every stable_pass test still passes."""
import json, os, subprocess, sys, tempfile, xml.etree.ElementTree as ET
base = json.load(open('/root/.vp/BASELINE.json'))
env = dict(os.environ); env.pop('EXCLUDEREGION_VERIF', None)
with tempfile.TemporaryDirectory() as d:
    x = os.path.join(d, 'j.xml')
    subprocess.run(['/venv/bin/python', '-m', 'pytest', '-q', '-p', 'no:cacheprovider', '--timeout=900',
                    '--continue-on-collection-errors', '--junitxml=' + x], cwd='/repo', env=env,
                   stdout=subprocess.DEVNULL, stderr=subprocess.DEVNULL)
    passed = set()
    for tc in ET.parse(x).getroot().iter('testcase'):
        if not any(c.tag in ('failure', 'error', 'skipped') for c in tc):
            passed.add(tc.get('classname') + '::' + tc.get('name'))
missing = [t for t in base['stable_pass'] if t not in passed]
print('pinned: %d/%d stable tests pass' % (len(base['stable_pass']) - len(missing), len(base['stable_pass'])))
for t in missing: print('  NOT PASSING:', t)
sys.exit(1 if missing else 0)
