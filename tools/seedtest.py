#!/venv/bin/python
"""seedtest.py <seed_dir> <name> <prop> [checks...]
Confirm a seeded change (patch applies, pinned tests still pass, demo fails with it / passes without it) in a scratch
worktree, then run the given checks (default: the property's own) against /repo with the patch applied, undo it, and
record everything under /verif/seeded/<name>/ (patch.diff, demo.py, notes.md, meta.json)."""
import json, os, shutil, subprocess, sys, time

seed, name, prop = sys.argv[1], sys.argv[2], sys.argv[3]
checks = sys.argv[4:] or [prop]
V = os.environ.get('SEEDTEST_V', '/verif')       # where the checks run (a copy of /verif lets several seeds be tried at once)
patch = os.path.join(seed, 'patch.diff')
demo = os.path.join(seed, 'demo.py')


def sh(cmd, **kw):
    p = subprocess.run(cmd, shell=True, stdout=subprocess.PIPE, stderr=subprocess.STDOUT, universal_newlines=True, **kw)
    return p.returncode, p.stdout


meta = dict(name=name, property=prop, origin='independent sub-agent given only the property text and a scratch worktree', ran=[])
wt = '/tmp/seedwt_%s' % name
sh('git -C /repo worktree remove --force %s' % wt)
rc, out = sh('git -C /repo worktree add -q --detach %s HEAD' % wt)
try:
    rc, out = sh('git -C %s apply %s' % (wt, patch))
    meta['patch_applies'] = (rc == 0)
    if rc != 0:
        print('PATCH DOES NOT APPLY', out); sys.exit(2)
    rc, out = sh('cd %s && /venv/bin/python -m pytest -q -p no:cacheprovider --timeout=900 --continue-on-collection-errors 2>&1 | tail -1' % wt)
    meta['tests_with_patch'] = out.strip()
    rc1, out1 = sh('cd /tmp && PYTHONPATH=%s /venv/bin/python %s' % (wt, demo))
    meta['demo_with_patch_rc'] = rc1
    meta['demo_with_patch_tail'] = out1[-400:]
    sh('git -C %s checkout -- .' % wt)
    rc2, out2 = sh('cd /tmp && PYTHONPATH=%s /venv/bin/python %s' % (wt, demo))
    meta['demo_clean_rc'] = rc2
    meta['confirmed'] = ('416 passed' in meta['tests_with_patch']) and rc1 != 0 and rc2 == 0
finally:
    sh('git -C /repo worktree remove --force %s' % wt)
print('confirmed=%s tests=%r demo(mut)=%s demo(clean)=%s' % (meta['confirmed'], meta['tests_with_patch'], meta['demo_with_patch_rc'], meta['demo_clean_rc']))
# run our checks against the patched tree: /repo itself (apply, check, undo), or -- with SEEDTEST_SCRATCH=1 -- a scratch worktree handed
# to the checks through VERIF_REPO, so that /repo is left alone (used while something else is running against /repo)
scratch = os.environ.get('SEEDTEST_SCRATCH') == '1'
if scratch:
    target = '/tmp/seedrepo_%s' % name
    sh('git -C /repo worktree remove --force %s' % target)
    sh('git -C /repo worktree add -q --detach %s HEAD' % target)
    envp = 'VERIF_REPO=%s ' % target
else:
    target = '/repo'
    envp = ''
    assert sh('git -C /repo status --porcelain')[1].strip() == '', '/repo not clean'
rc, out = sh('git -C %s apply %s' % (target, patch))
try:
    meta['checks'] = {}
    for c in checks:
        t = time.time()
        rc, out = sh('cd %s && %s./check %s --tier quick' % (V, envp, c))
        lines = [l for l in out.split('\n') if l.startswith(('VIOLATION', 'KNOWN-FINDING')) or ' ok:' in l or ' FAIL:' in l]
        meta['checks'][c] = dict(exit=rc, lines=[l[:300] for l in lines], wall_s=round(time.time() - t, 1))
        meta['ran'].append('git -C /repo apply patch.diff; ./check %s --tier quick  -> exit %d' % (c, rc))
        print('  check %s -> exit %d  %s' % (c, rc, [l[:150] for l in lines if l.startswith('VIOLATION')]))
finally:
    if scratch:
        sh('git -C /repo worktree remove --force %s' % target)
    else:
        sh('git -C /repo checkout -- .')
meta['detected_by'] = [c for c, r in meta['checks'].items() if r['exit'] != 0]
dst = os.path.join('/verif', 'seeded', name)
os.makedirs(dst, exist_ok=True)
for f in ('patch.diff', 'demo.py', 'notes.md'):
    if os.path.exists(os.path.join(seed, f)):
        shutil.copy(os.path.join(seed, f), os.path.join(dst, f))
try:
    meta['needs'] = open(os.path.join(seed, 'notes.md')).read()[:1500]
except OSError:
    pass
json.dump(meta, open(os.path.join(dst, 'meta.json'), 'w'), indent=1)
print('detected_by', meta['detected_by'])
