#!/bin/bash
# Re-check every compiled property file (and everything it depends on) with Coq's independent checker and list the axioms.
# Takes about three minutes; run after a full build (./check --setup or tools/mk).
cd /verif/coq || exit 2
mods=""
for i in 01 02 03 04 05 06 07 08 09 10 11 12 13 14 15 16 17 18 19 20; do mods="$mods ER.Props.C$i"; done
exec coqchk -silent -Q . ER -o $mods
