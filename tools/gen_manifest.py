#!/usr/bin/env python3
"""Regenerate MANIFEST.json from tools/manifest_src.json (claimed checks) + properties.jsonl."""
import json, os
V = os.path.dirname(os.path.dirname(os.path.abspath(__file__)))
src = json.load(open(os.path.join(V, 'tools', 'manifest_src.json')))
ids = [json.loads(l)['id'] for l in open(os.path.join(V, 'properties.jsonl'))]
checks, na = [], []
for pid in ids:
    c = src['checks'].get(pid)
    if c is None:
        na.append(dict(property_id=pid, reason=src['not_applicable'].get(pid, 'check not built yet in this development; nothing is claimed for it')))
        continue
    checks.append(dict(
        property_id=pid,
        quick_cmd='./check %s --tier quick' % pid,
        thorough_cmd='./check %s --tier thorough' % pid,
        evidence_file='/verif/evidence/%s.json' % pid,
        replay_cmd_template='./check %s --replay {path}' % pid,
        engine='coq-proof',
        level_claimed=dict(category='proof', text=c['text'], design_ref=c.get('design_ref', 'DESIGN.md section 6, ' + pid)),
        level_note=c['note'],
        technique=c.get('technique', 'machine-checked proof in Coq 8.16 about a model tied to /repo by regeneration (Tier G) and vm_compute correspondence (Tier H)'),
    ))
m = dict(
    version=1,
    setup_cmd='./check --setup',
    hooks=dict(guard='EXCLUDEREGION_VERIF', enable='none needed: no source hooks; checks import /repo directly with PYTHONPATH=/repo',
               baseline_off_cmd='/verif/tools/pinned_tests.py', source_commits=[], add_only=True),
    engines=[dict(name='coq-proof', path='/verif/check', serves_properties=[c['property_id'] for c in checks],
                  kind_free_text='Coq 8.16.1 development (coq/), Tier G translator harness/py2coq.py, correspondence + oracle harness (harness/)')],
    checks=checks,
    notes=src.get('notes', ''),
    not_applicable=na,
)
json.dump(m, open(os.path.join(V, 'MANIFEST.json'), 'w'), indent=1)
print('MANIFEST: %d checks, %d not claimed' % (len(checks), len(na)))
